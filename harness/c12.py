"""C12 — profiles made by `commands.mkprof` contain exactly the selected source rows.

Three kinds of case (one `mkprof` call each, on directories planted by the harness):
  db       source profile directory -> destination (fresh, or existing with stale files), optional
           target schema derived by adding/dropping/reordering/retyping columns and adding/dropping/
           reordering relations, optional `where` filter (condition AST printed to TSQL text),
           full / skeleton / gzip.
  refresh  in place (`refresh=True`), optional new schema, gzip, skeleton; the directory may hold
           both physical forms of a relation with either mtime order, missing files, stale files.
  lines    plain-text input (file or stdin): plain sentences with/without `*`, or delimited columns
           (`@`, tab, `|`, multi-character) with a header line.
Observed: the destination's schema names, per relation which files exist and the rows read through
`tsdb.Database`.

The row evaluation of the TSQL filter is a PARAMETER of the Lean model: `naive_select` (nested loops over
the relations a filter touches, natural join on shared key names by cast value) computes per source row
the number of satisfying joined tuples and reports which relations the filter's columns belong to; the
join plan (pivot relations, reachability => all-rows fallback) is computed by the model itself from the
source schema.  The same evaluator (with its own planner) gives the direct oracle its `kept` flags.
"""
import contextlib
import gzip as gzip_mod
import io
import json
import os
import re
import shutil
import sys
import tempfile
import time
import warnings

from .common import paths
from .common.runner import Check

paths.ensure_repo_on_path()
from delphin import commands, tsdb, tsql  # noqa: E402


def cps(s):
    return [ord(c) for c in s]


def uncps(a):
    return "".join(chr(x) for x in a)


def cell_in(c):
    return None if c is None else uncps(c)


def cell_out(c):
    return None if c is None else cps(c)


CODED = {"i-wf": "1", "i-difficulty": "1", "polarity": "-1"}      # documented coded defaults (naive copy)
CORE = ["item", "analysis", "phenomenon", "parameter", "set", "item-phenomenon", "item-set"]
MID = 2000000000


# ------------------------------------------------------------------ naive helpers (independent of tsdb)

def n_escape(s):
    return s.replace("\\", "\\\\").replace("\n", "\\n").replace("@", "\\s")


def n_line(cells):
    return "@".join(n_escape(c or "") for c in cells)


def n_default(f):
    return CODED.get(f["name"], "-1" if f["dt"] == ":integer" else "")


def n_is_key(f):
    return any(fl in (":key", ":primary") or fl.startswith(":foreign") for fl in f["flags"])


def n_schema_text(schema):
    out = []
    for rel in schema:
        lines = [rel["name"] + ":"]
        for f in rel["fields"]:
            lines.append("  " + " ".join([f["name"], f["dt"]] + list(f["flags"])))
        out.append("\n".join(lines))
    return "\n\n".join(out) + "\n"


def n_current(fileset):
    """the rows of the current physical form of a planted relation (None: no file)"""
    tx, gz = fileset.get("tx"), fileset.get("gz")
    if gz is not None and (tx is None or gz["mt"] > tx["mt"]):
        f = gz
    else:
        f = tx
    if f is None:
        return None
    return [[cell_in(c) for c in row] for row in f["rows"]]


def dir_schema(d):
    return {rel["name"]: rel["fields"] for rel in d["schema"]} if d and d.get("schema") is not None else None


def dir_files(d):
    return {f["name"]: f for f in d["files"]} if d else {}


def fields_equal(a, b):
    return [(f["name"], f["dt"], tuple(f["flags"])) for f in a] == [(f["name"], f["dt"], tuple(f["flags"])) for f in b]


def n_xform(row, old_fields, new_fields):
    """documented transformation of one copied row: columns matched by name, empty -> default"""
    by_name = {}
    for f, v in zip(old_fields, row):
        by_name[f["name"]] = v
    out = []
    for f in new_fields:
        v = by_name.get(f["name"])
        if v is None:
            v = n_default(f)
        out.append(v if v != "" else None)
    return out


# ------------------------------------------------------------------ text input: the characters of the stream

def raw_text(case):
    """the characters of the sentence stream: lines with their terminators ("terms": one per line, '' allowed
    for the last; older cases: `\\n` between lines and `trailing_nl`)"""
    lines = [uncps(l) for l in case["lines"]]
    if case.get("terms") is not None:
        return "".join(l + t for l, t in zip(lines, case["terms"]))
    text = "\n".join(lines)
    if lines and (case["trailing_nl"] or not lines[-1]):
        text += "\n"          # (a final empty line exists only if it is terminated)
    return text


def n_stream_lines(raw, is_file):
    """naive re-statement of what 'a line' is: a sentence FILE is a text file (\\r\\n, \\r and \\n end a line),
    a stream handed in as stdin is cut at \\n only; a final unterminated piece is a line unless empty"""
    if is_file:
        raw = re.sub("\r\n?", "\n", raw)
    parts = raw.split("\n")
    if parts[-1] == "":
        parts.pop()
    return parts


# ------------------------------------------------------------------ conditions

def cond_text(c):
    k = c[0]
    if k == "cmp":
        _, op, col, lit = c
        if isinstance(lit, dict):
            ls = lit["date"]                 # a date literal, e.g. 2020-01-15
        elif isinstance(lit, int):
            ls = str(lit)
        else:
            ls = '"%s"' % lit
        return "%s %s %s" % (col, op, ls)
    if k == "not":
        return "(not %s)" % cond_text(c[1])
    if k in ("and", "or"):
        return "(" + (" %s " % k).join(cond_text(x) for x in c[1]) + ")"
    raise ValueError(k)


class _Tsql(Exception):
    def __init__(self, reason):
        self.reason = reason


class _Raise(Exception):
    def __init__(self, tag):
        self.tag = tag


def n_value(dt, raw):
    if raw is None or raw == "":
        return None
    if dt == ":integer":
        try:
            return int(raw)
        except ValueError:
            raise _Raise("ValueError")
    if dt == ":string":
        return raw
    if dt == ":float":
        try:
            return float(raw)
        except ValueError:
            raise _Raise("ValueError")
    with warnings.catch_warnings():
        warnings.simplefilter("ignore")
        return tsdb.cast(dt, raw)       # dates/floats: C08 territory


def n_leaf(op, value, lit):
    if op == "~":
        return value is not None and re.search(lit, value) is not None
    if op == "!~":
        return value is None or re.search(lit, value) is None
    if value is None:
        return False
    if op in ("==", "="):
        return value == lit
    if op == "!=":
        return value != lit
    if op == "<":
        return value < lit
    if op == "<=":
        return value <= lit
    if op == ">":
        return value > lit
    if op == ">=":
        return value >= lit
    raise ValueError(op)


def naive_select(schema, data, T, cond, info=None, as_coded=False):
    """what `* from T where cond` selects, by nested loops.

    schema: list of relations; data: name -> rows (lists of str/None) or None when the relation has no
    file.  Returns ("counts", [n per row of T]) | ("tsqlError",) | ("raise", tag).
    """
    order = [rel["name"] for rel in schema]
    fields = {rel["name"]: rel["fields"] for rel in schema}
    names = {n: [f["name"] for f in fields[n]] for n in order}

    def resolve(col):
        if "." in col:
            rel, _, c = col.rpartition(".")
            if rel not in fields or c not in names[rel]:
                raise _Raise("KeyError")
            return rel, c
        cands = [n for n in order if col in names[n]]
        if not cands:
            raise _Tsql("undefined column")
        return (T if T in cands else cands[0]), col

    leaves = []

    def walk(c):
        if c[0] == "cmp":
            _, op, col, lit = c
            rel, cn = resolve(col)
            f = fields[rel][names[rel].index(cn)]
            # documented typing: integer literals for :integer and :float columns, strings for :string, dates for :date
            dt = f["dt"]
            if isinstance(lit, dict):
                with warnings.catch_warnings():
                    warnings.simplefilter("ignore")
                    lit = tsdb.cast(":date", lit["date"])
                ok = dt == ":date" and lit is not None
            elif isinstance(lit, bool):
                ok = False
            elif isinstance(lit, int):
                ok = dt in (":integer", ":float")
            else:
                ok = isinstance(lit, str) and dt == ":string"
            if not ok:
                raise _Tsql("type mismatch")
            leaves.append(rel)
            return ("cmp", op, rel, names[rel].index(cn), f["dt"], lit)
        if c[0] == "not":
            return ("not", walk(c[1]))
        return (c[0], [walk(x) for x in c[1]])

    try:
        rc = walk(cond)
        if info is not None:
            info["rels"] = list(leaves)      # resolution done: the relations of the condition's columns
        R = [T]
        for rel in leaves:
            if rel not in R:
                R.append(rel)
        keys = {n: [f["name"] for f in fields[n] if n_is_key(f)] for n in order}

        def components(rs):
            comps = []
            for r in rs:
                ks = set(keys[r])
                if not ks:
                    continue
                hit = [c for c in comps if c & ks]
                for c in hit:
                    comps.remove(c)
                    ks |= c
                comps.append(ks)
            return comps
        P = []
        while len(components(R + P)) > 1:
            comps = components(R + P)
            for n in order:
                if n not in R + P and len(keys[n]) > 1 and sum(1 for c in comps if c & set(keys[n])) > 1:
                    P.append(n)
                    break
            else:
                raise _Tsql("no linking relation")
        J = R + P
        reached = [T]
        changed = True
        while changed:
            changed = False
            for n in J:
                if n not in reached and any(set(keys[n]) & set(keys[m]) for m in reached):
                    reached.append(n)
                    changed = True
        if len(reached) != len(J):
            raise _Tsql("no key path")
        for n in J:
            if data.get(n) is None:
                raise _Raise("TSDBError")
            for row in data[n]:
                if len(row) != len(fields[n]):
                    raise _Raise("unmodelled")
        # key values by cast
        kv = {}
        for n in J:
            kv[n] = [{k: n_value(fields[n][names[n].index(k)]["dt"], row[names[n].index(k)]) for k in keys[n]}
                     for row in data[n]]

        def ev(c, pick):
            if c[0] == "cmp":
                _, op, rel, idx, dt, lit = c
                return bool(n_leaf(op, n_value(dt, data[rel][pick[rel]][idx]), lit))
            if c[0] == "not":
                return not ev(c[1], pick)
            if c[0] == "and":
                return all(ev(x, pick) for x in c[1])
            return any(ev(x, pick) for x in c[1])

        def agree(pick):
            for a in range(len(J)):
                for b in range(a + 1, len(J)):
                    ka, kb = kv[J[a]][pick[J[a]]], kv[J[b]][pick[J[b]]]
                    for k in ka:
                        if k in kb and ka[k] != kb[k]:
                            return False
            return True

        def count(i, pick):
            if i == len(J):
                return 1 if agree(pick) and ev(rc, pick) else 0
            n = J[i]
            tot = 0
            for r in range(len(data[n])):
                pick[n] = r
                tot += count(i + 1, pick)
            return tot
        counts = []
        for r in range(len(data[T])):
            counts.append(count(1, {T: r}))
        return ("counts", counts)
    except _Tsql as e:
        return ("tsqlError", e.reason)
    except _Raise as e:
        return ("raise", e.tag)


# ------------------------------------------------------------------ generators

def F(name, dt, *flags):
    return {"name": name, "dt": dt, "flags": list(flags)}


BASE = {
    "item": [F("i-id", ":integer", ":key"), F("i-input", ":string"), F("i-wf", ":integer"),
             F("i-length", ":integer"), F("i-date", ":date"), F("i-comment", ":string"),
             F("i-difficulty", ":integer"), F("i-score", ":float")],
    "parse": [F("parse-id", ":integer", ":key"), F("run-id", ":integer", ":key"), F("i-id", ":integer", ":key"),
              F("readings", ":integer"), F("p-note", ":string"), F("tcpu", ":float")],
    "result": [F("parse-id", ":integer", ":key"), F("result-id", ":integer", ":key"), F("mrs", ":string"),
               F("r-score", ":float")],
    "run": [F("run-id", ":integer", ":key"), F("r-comment", ":string")],
    "tree": [F("result-id", ":integer", ":key"), F("t-label", ":string")],
    "edge": [F("e-id", ":integer", ":key"), F("parse-id", ":integer", ":key"), F("e-label", ":string")],
    "analysis": [F("i-id", ":integer", ":key"), F("a-position", ":string")],
    "phenomenon": [F("p-id", ":integer", ":key"), F("p-name", ":string")],
    "item-phenomenon": [F("ip-id", ":integer", ":key"), F("i-id", ":integer", ":key"), F("p-id", ":integer", ":key"),
                        F("ip-author", ":string")],
    "set": [F("s-id", ":integer", ":key"), F("s-name", ":string")],
    "item-set": [F("i-id", ":integer", ":key"), F("s-id", ":integer", ":key"), F("polarity", ":integer")],
    "parameter": [F("param-id", ":integer", ":key"), F("pa-value", ":string")],
    "fold": [F("f-note", ":string"), F("f-count", ":integer")],
    "output": [F("i-id", ":integer", ":key"), F("o-surface", ":string")],
}
REL_ORDER = ["item", "analysis", "phenomenon", "parameter", "set", "item-phenomenon", "item-set", "run", "parse",
             "result", "edge", "tree", "fold", "output"]
STRS = ["a", "b", "a b", "the dog barks", "x", "", "a@b", "back\\slash", "two\nlines", "é ü", "\U0001F600", " lead",
        "trail ", "*star", "-1", "1", "a  b", "\\s", "\\n@", "c\rd", "e\r\nf", "g\x0ch\u2028i"]
PATTERNS = ["a", "^a", "b$", ".", "x|b", "^$", "dog", "\\d", " "]


def gen_schema(rng, big=None):
    r = rng.random()
    if big is None:
        big = r < 0.35
    if big:
        rels = [n for n in REL_ORDER if rng.random() < 0.7]
    elif r < 0.6:
        rels = ["item", "parse", "result"]
        rels += [n for n in ("run", "tree", "edge", "item-set", "set", "fold", "analysis") if rng.random() < 0.3]
    else:
        rels = [n for n in REL_ORDER if rng.random() < 0.3]
    if "item" not in rels and rng.random() < 0.85:
        rels.insert(0, "item")
    if rng.random() < 0.25:
        rng.shuffle(rels)
    schema = []
    for n in rels:
        fs = []
        for f in BASE[n]:
            if n_is_key(f):
                if rng.random() < 0.95:
                    fs.append(dict(f, flags=list(f["flags"])))
            elif rng.random() < 0.7:
                fs.append(dict(f, flags=list(f["flags"])))
        if not fs:
            fs = [dict(BASE[n][0], flags=list(BASE[n][0]["flags"]))]
        if rng.random() < 0.15:
            rng.shuffle(fs)
        schema.append({"name": n, "fields": fs})
    return schema


def gen_cell(rng, f, keydom):
    if n_is_key(f):
        r = rng.random()
        if r < 0.06:
            return None
        v = rng.randrange(1, keydom + 1)
        if r < 0.12:
            return "0%d" % v
        return str(v)
    if rng.random() < 0.2:
        return None
    if f["dt"] == ":integer":
        return str(rng.choice([0, 1, 2, 3, -1, 10, 7]))
    if f["dt"] == ":float":
        return rng.choice(["2", "2.0", "2.5", "0.5", "-1", "10", "1e1", "3", "1.999"])
    if f["dt"] == ":date":
        return rng.choice(["1-jan-2020", "15-feb-2021 10:20:30", "2019-12-31", "31-feb-2020", "1-jan-2020",
                           "2019-12-31", "notadate"])
    s = rng.choice(STRS)
    return s if s != "" else None


def gen_rows(rng, fields, n, keydom, dup=0.25, ragged=0.0):
    rows = []
    for _ in range(n):
        r = rng.random()
        if rows and r < dup:
            rows.append(list(rows[-1]))
        elif rows and r < dup * 1.6:
            rows.append(list(rng.choice(rows)))
        else:
            rows.append([gen_cell(rng, f, keydom) for f in fields])
        if ragged and rng.random() < ragged:
            if rng.random() < 0.5 and len(rows[-1]) > 1:
                rows[-1] = rows[-1][:-1]
            else:
                rows[-1] = rows[-1] + ["extra"]
    return rows


def gen_file(rows, mt):
    return {"rows": [[cell_out(c) for c in row] for row in rows], "mt": mt}


def gen_dir(rng, schema, ragged=0.0, both=0.1, missing=0.1, maxrows=5, dup=0.25):
    files = []
    keydom = rng.choice([1, 2, 2, 3, 3, 4])
    for rel in schema:
        n = rng.choice([0, 1, 2, 2, 3, 3, 4, maxrows])
        rows = gen_rows(rng, rel["fields"], n, keydom, dup=dup, ragged=ragged)
        r = rng.random()
        ent = {"name": rel["name"], "tx": None, "gz": None}
        if r < missing:
            pass
        elif r < missing + both:
            other = gen_rows(rng, rel["fields"], rng.choice([0, 1, 2]), keydom)
            a, b = rng.choice([(1, 2), (2, 1), (2, 2)])
            if rng.random() < 0.5:
                ent["tx"], ent["gz"] = gen_file(rows, a), gen_file(other, b)
            else:
                ent["tx"], ent["gz"] = gen_file(other, a), gen_file(rows, b)
        elif rng.random() < 0.25 and rows:
            ent["gz"] = gen_file(rows, 1)
        else:
            ent["tx"] = gen_file(rows, 1)
        files.append(ent)
    return {"schema": schema, "files": files}


def gen_alt_schema(rng, schema):
    """a different target schema: edits of columns and relations"""
    alt = [{"name": r["name"], "fields": [dict(f, flags=list(f["flags"])) for f in r["fields"]]} for r in schema]
    edits = []
    for _ in range(rng.choice([0, 1, 1, 2, 3])):
        k = rng.choice(["addcol", "dropcol", "reorder", "retype", "reflag", "addrel", "droprel", "relorder", "swap2"])
        if k in ("addcol", "dropcol", "reorder", "retype", "reflag", "swap2") and alt:
            rel = rng.choice(alt) if rng.random() < 0.5 else alt[0]
            fs = rel["fields"]
            if k == "addcol":
                nm = rng.choice(["new-col", "i-wf", "polarity", "n-count", "i-difficulty", "z"])
                if nm not in [f["name"] for f in fs]:
                    fs.insert(rng.randrange(len(fs) + 1), F(nm, rng.choice([":integer", ":string"])))
            elif k == "dropcol" and len(fs) > 1:
                del fs[rng.randrange(len(fs))]
            elif k == "reorder":
                rng.shuffle(fs)
            elif k == "swap2" and len(fs) > 1:
                i = rng.randrange(len(fs) - 1)
                fs[i], fs[i + 1] = fs[i + 1], fs[i]
            elif k == "retype":
                f = rng.choice(fs)
                f["dt"] = rng.choice([":integer", ":string", ":date"])
            elif k == "reflag":
                f = rng.choice(fs)
                f["flags"] = rng.choice([[], [":key"], [":partial"], [":key", ":unique"]])
        elif k == "addrel":
            cand = [n for n in REL_ORDER if n not in [r["name"] for r in alt]]
            if cand:
                n = rng.choice(cand)
                alt.insert(rng.randrange(len(alt) + 1),
                           {"name": n, "fields": [dict(f, flags=list(f["flags"])) for f in BASE[n]]})
        elif k == "droprel" and len(alt) > 1:
            del alt[rng.randrange(len(alt))]
        elif k == "relorder":
            rng.shuffle(alt)
        edits.append(k)
    return alt


def gen_cond(rng, schema, depth=0):
    r = rng.random()
    if depth < 2 and r < 0.3:
        k = rng.choice(["and", "or", "not"])
        if k == "not":
            return ["not", gen_cond(rng, schema, depth + 1)]
        return [k, [gen_cond(rng, schema, depth + 1) for _ in range(rng.choice([2, 2, 3]))]]
    cols = [(rel["name"], f) for rel in schema for f in rel["fields"]
            if f["dt"] in (":integer", ":string", ":float", ":date")]
    if not cols or rng.random() < 0.04:
        return ["cmp", "==", "zzz", 1]
    # bias to item/parse/result columns
    pref = [c for c in cols if c[0] in ("item", "parse", "result")]
    rel, f = rng.choice(pref if pref and rng.random() < 0.7 else cols)
    col = f["name"]
    q = rng.random()
    if q < 0.25:
        col = rel + "." + col
    dt = f["dt"]
    if rng.random() < 0.05:
        dt = ":string" if dt != ":string" else ":integer"       # type mismatch -> TSQLError -> all rows
    if dt in (":integer", ":float"):
        return ["cmp", rng.choice(["==", "=", "!=", "<", "<=", ">", ">="]), col, rng.choice([0, 1, 2, 3, -1, 10])]
    if dt == ":date":
        return ["cmp", rng.choice(["==", "!=", "<", "<=", ">", ">="]), col,
                {"date": rng.choice(["2020-01-01", "2019-12-31", "2021-02-15", "1-jan-2020"])}]
    op = rng.choice(["==", "!=", "~", "!~", "~"])
    if op in ("~", "!~"):
        return ["cmp", op, col, rng.choice(PATTERNS)]
    return ["cmp", op, col, rng.choice(["a", "b", "a b", "x", "the dog barks", "é ü", "1"])]


WORDS = ["the", "dog", "barks", "a", "*", "cat", "é", "x@y", "b\\c", "1", "-", "it's", "end\\"]
SPACES = [" ", " ", " ", "  ", "\t", " ", " ", "\x0c", "\x1f", "　", "\x0b"]


def gen_sentence(rng):
    n = rng.choice([0, 1, 2, 3, 3, 4, 6])
    out = []
    if rng.random() < 0.15:
        out.append(rng.choice(SPACES))
    for i in range(n):
        if i:
            out.append(rng.choice(SPACES))
        out.append(rng.choice(WORDS))
    if rng.random() < 0.15:
        out.append(rng.choice(SPACES))
    s = "".join(out)
    r = rng.random()
    if r < 0.25:
        s = "*" + s
    elif r < 0.3:
        s = "**" + s
    elif r < 0.35:
        s = " *" + s
    return s


def gen_lines_case(rng):
    item_all = BASE["item"]
    r = rng.random()
    if r < 0.5:
        fs = [dict(f, flags=list(f["flags"])) for f in item_all if rng.random() < 0.85]
    else:
        fs = [dict(f, flags=list(f["flags"])) for f in item_all if rng.random() < 0.5]
    if not fs:
        fs = [dict(item_all[1], flags=[])]
    if rng.random() < 0.2:
        rng.shuffle(fs)
    schema = [{"name": "item", "fields": fs}]
    for n in ("parse", "analysis", "set", "fold", "result"):
        if rng.random() < 0.4:
            schema.insert(rng.randrange(len(schema) + 1),
                          {"name": n, "fields": [dict(f, flags=list(f["flags"])) for f in BASE[n]]})
    q = rng.random()
    if q < 0.04:
        schema = [s for s in schema if s["name"] != "item"] or [{"name": "fold", "fields": BASE["fold"]}]
    schema_arg = schema
    if q > 0.97:
        schema_arg = None
    n = rng.choice([0, 1, 2, 3, 4, 6])
    d = rng.random()
    if d < 0.5:
        delim = None if rng.random() < 0.9 else ""
        lines = [gen_sentence(rng) for _ in range(n)]
    else:
        delim = rng.choice(["@", "@", "\t", "|", "::", "ab"])
        hdr_pool = ["i-input", "i-id", "i-wf", "i-length", "i-comment", "i-date", "zzz", "i-input", ""]
        k = rng.choice([1, 2, 2, 3, 4])
        hdr = [rng.choice(hdr_pool) for _ in range(k)]
        if rng.random() < 0.7:
            hdr = list(dict.fromkeys(hdr))
        lines = [delim.join(hdr)]
        if rng.random() < 0.04:
            lines = []
        for i in range(n):
            vals = []
            for h in hdr:
                if h == "i-id":
                    vals.append(str(rng.choice([i + 1, i + 1, i + 1, 1, 7])) if rng.random() < 0.95 else "")
                elif h in ("i-wf", "i-length"):
                    vals.append(rng.choice(["0", "1", "2", ""]))
                else:
                    s = gen_sentence(rng)
                    if delim == "@":
                        s = n_escape(s) if rng.random() < 0.9 else s
                    vals.append(s)
            if rng.random() < 0.06:
                vals = vals[:-1] if rng.random() < 0.5 else vals + ["more"]
            lines.append(delim.join(vals))
    lines = [l.replace("\r", " ").replace("\n", " ") for l in lines]
    terms = None
    q = rng.random()
    if q < 0.45 and lines:
        # newline conventions: CRLF / CR / LF files (also mixed), a last line without terminator, a lone CR or
        # another 'line boundary' character inside a line (must not cut it, except CR in a file)
        style = rng.choice(["crlf", "cr", "mixed", "lf"])
        terms = [{"crlf": "\r\n", "cr": "\r", "lf": "\n"}.get(style) or rng.choice(["\n", "\r\n", "\r", "\n"])
                 for _ in lines]
        if rng.random() < 0.35:
            terms[-1] = ""
        if rng.random() < 0.3:
            k = rng.randrange(len(lines))
            ch = rng.choice(["\r", "\x0c", "\x1c", "\x85", "\u2028", "\x0b", "\x00"])
            pos = rng.randrange(len(lines[k]) + 1)
            lines[k] = lines[k][:pos] + ch + lines[k][pos:]
        for k in range(len(lines) - 1):
            # a lone CR followed by a line starting with LF would be CRLF: keep the case unambiguous
            if terms[k] == "\r" and lines[k + 1][:1] == "\n":
                terms[k] = "\n"
    return {"kind": "lines", "schema": schema_arg, "delim": None if delim is None else cps(delim),
            "lines": [cps(l) for l in lines], "terms": terms,
            "stdin": rng.random() < 0.25, "trailing_nl": rng.random() < 0.8,
            "gzip": rng.random() < 0.3, "skeleton": rng.random() < 0.3,
            "dst": gen_stale_dst(rng, schema) if rng.random() < 0.15 else None}


def gen_stale_dst(rng, schema):
    """an existing destination directory with stale files"""
    pool = [r["name"] for r in schema] + ["run", "fold", "item", "result"]
    names = list(dict.fromkeys(rng.choice(pool) for _ in range(rng.choice([1, 2, 3]))))
    sch = [{"name": n, "fields": [dict(f, flags=list(f["flags"])) for f in BASE[n]]} for n in names]
    d = gen_dir(rng, sch, both=0.3, missing=0.1, maxrows=2)
    if rng.random() < 0.3:
        d["schema"] = None
    return d


def gen_db_case(rng, tier):
    schema = gen_schema(rng)
    where = None
    r = rng.random()
    ragged = 0.0
    if r < 0.5:
        where = {"cond": gen_cond(rng, schema)}
    elif r < 0.53:
        where = {"text": rng.choice(["i-id =", "i-id = 1 and", "(i-id = 1", "i-id ~ 3", "nosuch.col = 1",
                                     "item.nosuch = 1", "i-id = 1 )"])}
    elif r < 0.6:
        ragged = 0.15
    src = gen_dir(rng, schema, ragged=ragged, both=0.08, missing=0.1, dup=rng.choice([0.0, 0.25, 0.25, 0.5]))
    alt = None
    q = rng.random()
    if q < 0.4:
        alt = gen_alt_schema(rng, schema)
    elif q < 0.45:
        alt = [{"name": x["name"], "fields": [dict(f, flags=list(f["flags"])) for f in x["fields"]]} for x in schema]
    tgt = alt if alt is not None else schema
    return {"kind": "db", "src": src, "dst": gen_stale_dst(rng, tgt) if rng.random() < 0.15 else None,
            "schema": alt, "where": where, "full": rng.random() < 0.6, "gzip": rng.random() < 0.3,
            "skeleton": rng.random() < 0.3}


def gen_refresh_case(rng):
    schema = gen_schema(rng)
    d = gen_dir(rng, schema, ragged=rng.choice([0.0, 0.0, 0.0, 0.1]), both=0.25, missing=0.15)
    if rng.random() < 0.2:
        # stale file of a relation outside the schema
        n = rng.choice([x for x in REL_ORDER if x not in [r["name"] for r in schema]] or ["fold"])
        if n not in [r["name"] for r in schema]:
            d["files"].append({"name": n, "tx": gen_file([["1", "stale"]], 1), "gz": None})
    alt = None
    q = rng.random()
    if q < 0.45:
        alt = gen_alt_schema(rng, schema)
    elif q < 0.55:
        alt = [{"name": x["name"], "fields": [dict(f, flags=list(f["flags"])) for f in x["fields"]]} for x in schema]
    if rng.random() < 0.03:
        d = dict(d, schema=None)
    return {"kind": "refresh", "dst": d, "schema": alt, "gzip": rng.random() < 0.4, "skeleton": rng.random() < 0.25}


def gen_history_case(rng):
    """2-4 mkprof calls on one destination directory: copies from one source profile (with/without filter and new
    schema), in-place refreshes (schema / gzip changes), text input; calls that raise are followed by normal ones"""
    schema = gen_schema(rng, big=False)
    src = gen_dir(rng, schema, both=0.08, missing=0.1, dup=rng.choice([0.0, 0.0, 0.25]))
    steps = []
    for _ in range(rng.choice([2, 2, 3, 3, 4])):
        r = rng.random()
        if r < 0.4:
            where = None
            if rng.random() < 0.35:
                c = gen_cond(rng, schema)
                if cond_composable(c):
                    where = {"cond": c}
            steps.append({"kind": "db", "schema": gen_alt_schema(rng, schema) if rng.random() < 0.35 else None,
                          "where": where, "full": rng.random() < 0.6, "gzip": rng.random() < 0.4,
                          "skeleton": rng.random() < 0.25})
        elif r < 0.78:
            steps.append({"kind": "refresh", "schema": gen_alt_schema(rng, schema) if rng.random() < 0.45 else None,
                          "gzip": rng.random() < 0.5, "skeleton": rng.random() < 0.2})
        else:
            lc = gen_lines_case(rng)
            steps.append({k: lc[k] for k in ("kind", "schema", "delim", "lines", "terms", "stdin", "trailing_nl",
                                             "gzip", "skeleton")})
    return {"kind": "history", "src": src, "dst": gen_stale_dst(rng, schema) if rng.random() < 0.3 else None,
            "steps": steps, "gzip": False, "skeleton": False}


def enumerated_plumbing():
    """quiet=False on every call path x gzip (the summary runs after the clean-up), and a source that is neither a
    file nor a directory"""
    item = [F("i-id", ":integer", ":key"), F("i-input", ":string"), F("i-wf", ":integer"), F("i-length", ":integer")]
    fold = [F("f-note", ":string")]
    schema = [{"name": "item", "fields": item}, {"name": "fold", "fields": fold}]
    d = {"schema": schema, "files": [
        {"name": "item", "tx": gen_file([["1", "a", "1", "1"], ["2", "b c", "0", "2"]], 1), "gz": None},
        {"name": "fold", "tx": None, "gz": gen_file([["note"]], 1)}]}
    for gz in (False, True):
        for sk in (False, True):
            yield {"kind": "db", "src": d, "dst": None, "schema": None, "where": None, "full": True, "gzip": gz,
                   "skeleton": sk, "quiet": False}
            yield {"kind": "refresh", "dst": d, "schema": None, "gzip": gz, "skeleton": sk, "quiet": False}
            for stdin in (False, True):
                yield {"kind": "lines", "schema": schema, "delim": None, "lines": [cps("the dog"), cps("*x")],
                       "terms": None, "stdin": stdin, "trailing_nl": True, "gzip": gz, "skeleton": sk, "dst": None,
                       "quiet": False}
    for quiet in (True, False):
        yield {"kind": "lines", "schema": schema, "delim": None, "lines": [cps("the dog")], "terms": None,
               "stdin": False, "trailing_nl": True, "gzip": False, "skeleton": False, "dst": None, "quiet": quiet,
               "nosource": True}
    yield {"kind": "lines", "schema": schema, "delim": cps("@"), "lines": [cps("i-input@i-comment"), cps("a\\")],
           "terms": None, "stdin": False, "trailing_nl": True, "gzip": False, "skeleton": False, "dst": None}


def enumerated_histories():
    """deterministic histories: copy, then refresh with another schema and compression, then back; text input
    followed by refresh and copy; calls that raise followed by normal calls; a second copy into the same directory
    with a different schema"""
    item = [F("i-id", ":integer", ":key"), F("i-input", ":string"), F("i-wf", ":integer"), F("i-length", ":integer")]
    parse = [F("parse-id", ":integer", ":key"), F("i-id", ":integer", ":key"), F("readings", ":integer")]
    fold = [F("f-note", ":string")]
    schema = [{"name": "item", "fields": item}, {"name": "parse", "fields": parse}, {"name": "fold", "fields": fold}]
    src = {"schema": schema, "files": [
        {"name": "item", "tx": gen_file([["1", "a", "1", "1"], ["2", "b c", "0", "2"], ["3", None, "1", None]], 1), "gz": None},
        {"name": "parse", "tx": None, "gz": gen_file([["10", "1", "2"], ["20", "2", "0"], ["30", "3", "1"]], 1)},
        {"name": "fold", "tx": gen_file([["note"]], 1), "gz": None}]}
    alt_add = [{"name": "item", "fields": item[:2] + [F("i-comment", ":string")] + item[2:]},
               {"name": "parse", "fields": parse}, {"name": "fold", "fields": fold},
               {"name": "run", "fields": BASE["run"]}]
    alt_drop = [{"name": "item", "fields": [item[0], item[1]]}, {"name": "fold", "fields": fold}]

    def db(schema=None, cond=None, full=True, gz=False, sk=False):
        return {"kind": "db", "schema": schema, "where": None if cond is None else {"cond": cond}, "full": full,
                "gzip": gz, "skeleton": sk}

    def rf(schema=None, gz=False, sk=False):
        return {"kind": "refresh", "schema": schema, "gzip": gz, "skeleton": sk}

    def ln(lines, schema=schema, delim=None, gz=False, sk=False, stdin=False):
        return {"kind": "lines", "schema": schema, "delim": None if delim is None else cps(delim),
                "lines": [cps(l) for l in lines], "terms": None, "stdin": stdin, "trailing_nl": True, "gzip": gz,
                "skeleton": sk}
    hs = [
        [db(), rf(alt_add, gz=True), rf(), db(cond=["cmp", ">", "i-id", 1], full=False, sk=True)],
        [db(), rf(alt_drop), rf(schema), db(alt_add, gz=True), db()],
        [db(alt_drop), db(), db(alt_add), db(alt_drop, gz=True)],
        [ln(["the dog barks", "*it rains"]), rf(alt_add, gz=True), db(), ln(["x"], schema=alt_drop, gz=True)],
        [rf(), ln(["a"]), ln(["i-id\ti-input", "5\tx", "5\ty"], delim="\t"), rf(gz=True), rf(alt_add)],
        [db(gz=True), db(cond=["cmp", "==", "zzz", 1]), rf(alt_drop, sk=True), rf(schema)],
        [db(full=False), db(sk=True), db(gz=True, sk=True), rf(alt_add), ln(["q"], schema=alt_add, stdin=True)],
    ]
    for steps in hs:
        yield {"kind": "history", "src": src, "dst": None, "steps": steps, "gzip": False, "skeleton": False}


def enumerated_cases():
    """deterministic small space: one item relation with adjacent / non-adjacent duplicates and
    one-to-many links, every combination of full/skeleton/gzip, with and without filter / new schema"""
    item = [F("i-id", ":integer", ":key"), F("i-input", ":string"), F("i-wf", ":integer"), F("i-length", ":integer")]
    parse = [F("parse-id", ":integer", ":key"), F("i-id", ":integer", ":key"), F("readings", ":integer")]
    result = [F("parse-id", ":integer", ":key"), F("result-id", ":integer"), F("mrs", ":string")]
    fold = [F("f-note", ":string")]
    schema = [{"name": "item", "fields": item}, {"name": "analysis", "fields": BASE["analysis"]},
              {"name": "parse", "fields": parse}, {"name": "result", "fields": result}, {"name": "fold", "fields": fold}]
    items = [["1", "a", None, "1"], ["2", "b c", "0", None], ["3", None, "1", "2"], ["2", "b c", "0", None]]
    parses = [["10", "1", "2"], ["11", "1", "0"], ["20", "2", "1"], ["30", "4", "1"]]
    results = [["10", "0", "m"], ["10", "1", "n"], ["20", "0", "m"]]

    def mk(rows_i):
        return {"schema": schema, "files": [
            {"name": "item", "tx": gen_file(rows_i, 1), "gz": None},
            {"name": "analysis", "tx": gen_file([], 1), "gz": None},
            {"name": "parse", "tx": None, "gz": gen_file(parses, 1)},
            {"name": "result", "tx": gen_file(results, 1), "gz": None},
            {"name": "fold", "tx": gen_file([["note"]], 1), "gz": None}]}
    alt_add = [dict(r, fields=list(r["fields"])) for r in schema]
    alt_add[0] = {"name": "item", "fields": item[:2] + [F("i-comment", ":string")] + item[2:]}
    alt_swap = [dict(r, fields=list(r["fields"])) for r in schema]
    alt_swap[0] = {"name": "item", "fields": [item[0], item[2], item[1], item[3]]}
    alt_drop = [dict(r, fields=list(r["fields"])) for r in schema]
    alt_drop[0] = {"name": "item", "fields": [item[0], item[1]]}
    alt_drop = [alt_drop[0], alt_drop[2]]
    conds = [None, ["cmp", ">", "i-id", 1], ["cmp", ">=", "readings", 1], ["cmp", "~", "mrs", "m"],
             ["cmp", "==", "i-input", "b c"], ["not", ["cmp", "==", "i-id", 3]], ["cmp", "==", "zzz", 1],
             ["cmp", "==", "f-note", "note"], ["or", [["cmp", "==", "i-id", 1], ["cmp", "==", "result-id", 1]]]]
    for alt in (None, alt_add, alt_swap, alt_drop):
        for cond in conds:
            for full in (False, True):
                for skeleton in (False, True):
                    for gz in (False, True):
                        if alt is not None and cond is not None and (gz or skeleton):
                            continue
                        yield {"kind": "db", "src": mk(items), "dst": None, "schema": alt,
                               "where": None if cond is None else {"cond": cond}, "full": full, "gzip": gz,
                               "skeleton": skeleton}
    for alt in (None, schema, alt_add, alt_swap, alt_drop):
        for skeleton in (False, True):
            for gz in (False, True):
                yield {"kind": "refresh", "dst": mk(items), "schema": alt, "gzip": gz, "skeleton": skeleton}
    # shapes kept from the seeded-change rounds: non-empty item-phenomenon / item-set (adjacent in TSDB_CORE_FILES)
    # in default (core only) and skeleton copies; a filter on a column of a relation that sorts before the copied
    # one while the child rows are not stored in parent order
    sch2 = [{"name": "item", "fields": item},
            {"name": "item-phenomenon", "fields": BASE["item-phenomenon"]},
            {"name": "item-set", "fields": BASE["item-set"]},
            {"name": "parse", "fields": parse}, {"name": "result", "fields": result}]
    src2 = {"schema": sch2, "files": [
        {"name": "item", "tx": gen_file([["1", "a", "1", "1"], ["2", "b c", "0", "2"], ["3", "d", "1", "1"]], 1), "gz": None},
        {"name": "item-phenomenon", "tx": gen_file([["7", "2", "1", "me"], ["8", "1", "1", None]], 1), "gz": None},
        {"name": "item-set", "tx": gen_file([["3", "1", "1"], ["1", "1", None], ["2", "2", "-1"]], 1), "gz": None},
        {"name": "parse", "tx": gen_file([["30", "3", "1"], ["10", "1", "2"], ["20", "2", "0"], ["11", "1", "1"]], 1), "gz": None},
        {"name": "result", "tx": gen_file([["20", "0", "z"], ["10", "1", "n"], ["30", "0", "m"], ["10", "0", "m"]], 1),
         "gz": None}]}
    for cond in (None, ["cmp", "==", "i-wf", 1], ["cmp", "~", "i-input", "a|d"], ["cmp", ">", "item.i-id", 1],
                 ["cmp", ">=", "readings", 1]):
        for full in (False, True):
            for skeleton in (False, True):
                for gz in (False, True):
                    yield {"kind": "db", "src": src2, "dst": None, "schema": None,
                           "where": None if cond is None else {"cond": cond}, "full": full, "gzip": gz,
                           "skeleton": skeleton}
    # :float and :date columns in item/parse/result; filters with integer / date literals on empty, integral ("2",
    # "2.0") and fractional values (a type-correct filter must never end in the all-rows fallback)
    sch3 = [{"name": "item", "fields": [F("i-id", ":integer", ":key"), F("i-input", ":string"), F("i-date", ":date"),
                                        F("i-score", ":float")]},
            {"name": "parse", "fields": [F("parse-id", ":integer", ":key"), F("i-id", ":integer", ":key"),
                                         F("readings", ":integer"), F("tcpu", ":float")]},
            {"name": "result", "fields": [F("parse-id", ":integer", ":key"), F("result-id", ":integer"),
                                          F("r-score", ":float")]}]
    src3 = {"schema": sch3, "files": [
        {"name": "item", "tx": gen_file([["1", "a", "1-jan-2020", "2"], ["2", "b", None, None],
                                         ["3", "c", "15-feb-2021 10:20:30", "2.5"], ["4", "d", "2019-12-31", "2.0"]], 1),
         "gz": None},
        {"name": "parse", "tx": gen_file([["10", "1", "1", "2"], ["20", "2", "0", None], ["30", "3", "2", "2.5"],
                                          ["40", "4", "1", "2.0"], ["11", "1", "3", "1.999"]], 1), "gz": None},
        {"name": "result", "tx": gen_file([["10", "0", "0.5"], ["30", "0", "3"], ["40", "0", None], ["40", "1", "2"]], 1),
         "gz": None}]}
    for col in ("tcpu", "i-score", "r-score", "parse.tcpu"):
        for op in ("=", "==", "!=", "<", "<=", ">", ">="):
            yield {"kind": "db", "src": src3, "dst": None, "schema": None, "where": {"cond": ["cmp", op, col, 2]},
                   "full": True, "gzip": False, "skeleton": False}
    for op in ("==", "!=", "<", "<=", ">", ">="):
        for d in ("2020-01-01", "1-jan-2020", "2021-02-15"):
            yield {"kind": "db", "src": src3, "dst": None, "schema": None,
                   "where": {"cond": ["cmp", op, "i-date", {"date": d}]}, "full": True, "gzip": False,
                   "skeleton": False}
    yield {"kind": "db", "src": src3, "dst": None, "schema": None, "full": False, "gzip": False, "skeleton": False,
           "where": {"cond": ["and", [["cmp", ">=", "tcpu", 2], ["cmp", "<", "r-score", 3]]]}}
    yield {"kind": "db", "src": src3, "dst": None, "schema": None, "full": True, "gzip": True, "skeleton": True,
           "where": {"cond": ["cmp", "==", "tcpu", "two"]}}          # mistyped: documented fallback
    # single-column relations with empty-valued rows (blank-line records) under full copy and refresh
    sch4 = [{"name": "item", "fields": [F("i-input", ":string")]}, {"name": "fold", "fields": [F("f-note", ":string")]},
            {"name": "set", "fields": [F("s-id", ":integer", ":key")]}]
    src4 = {"schema": sch4, "files": [
        {"name": "item", "tx": gen_file([[None], ["a"], [None], [None]], 1), "gz": None},
        {"name": "fold", "tx": None, "gz": gen_file([["x"], [None]], 1)},
        {"name": "set", "tx": gen_file([[None]], 1), "gz": None}]}
    for gz in (False, True):
        for skeleton in (False, True):
            yield {"kind": "db", "src": src4, "dst": None, "schema": None, "where": None, "full": True, "gzip": gz,
                   "skeleton": skeleton}
            yield {"kind": "refresh", "dst": src4, "schema": None, "gzip": gz, "skeleton": skeleton}
    # a core relation whose only row is one empty field (a 1-byte file) is not empty: a skeleton keeps it
    src5 = {"schema": sch4, "files": [
        {"name": "item", "tx": gen_file([[None]], 1), "gz": None},
        {"name": "fold", "tx": gen_file([[None]], 1), "gz": None},
        {"name": "set", "tx": gen_file([], 1), "gz": None}]}
    for gz in (False, True):
        for full in (False, True):
            yield {"kind": "db", "src": src5, "dst": None, "schema": None, "where": None, "full": full, "gzip": gz,
                   "skeleton": True}
        yield {"kind": "refresh", "dst": src5, "schema": None, "gzip": gz, "skeleton": True}
    sch_l = [{"name": "item", "fields": item}, {"name": "parse", "fields": parse}]
    for lines in ([], ["the dog barks"], ["*dog the barks", "it  rains\t", "", "*"],
                  ["**two stars", "*** three", "* *", "**"]):
        for skeleton in (False, True):
            for gz in (False, True):
                yield {"kind": "lines", "schema": sch_l, "delim": None, "lines": [cps(l) for l in lines],
                       "stdin": False, "trailing_nl": True, "gzip": gz, "skeleton": skeleton, "dst": None}
    # round 6: the characters of the stream.  The same sentences as LF / CRLF / CR / mixed text, with and without
    # final terminator, as a file (opened by mkprof: universal newlines) and as stdin (taken as it is), x gzip x
    # skeleton (every option on both call paths); other 'line boundary' characters inside a line never cut it
    for terms in (["\n", "\n", "\n"], ["\r\n", "\r\n", "\r\n"], ["\r", "\r", "\r"], ["\r\n", "\n", ""],
                  ["\n", "\r", ""], ["\r", "\r\n", "\r"]):
        for stdin in (False, True):
            for gz, skeleton in ((False, False), (True, False), (False, True), (True, True)):
                yield {"kind": "lines", "schema": sch_l, "delim": None,
                       "lines": [cps(l) for l in ("the dog barks", "*it  rains\t", "a@b \\ c")], "terms": terms,
                       "stdin": stdin, "trailing_nl": True, "gzip": gz, "skeleton": skeleton, "dst": None}
    for stdin in (False, True):
        for ch in ("\x0b", "\x0c", "\x1c", "\x1d", "\x1e", "\x85", "\u2028", "\u2029", "\r", "\x00"):
            yield {"kind": "lines", "schema": sch_l, "delim": None,
                   "lines": [cps("one" + ch + "two"), cps(ch + "*x"), cps("*y " + ch)], "terms": ["\n", "\n", "\n"],
                   "stdin": stdin, "trailing_nl": True, "gzip": False, "skeleton": False, "dst": None}
        for delim, lines in (("@", ["i-input@i-comment", "a b@c", "d\\se@"]), ("\t", ["i-id\ti-input", "5\tx y", "6\tz"]),
                             ("::", ["i-input::i-wf", "a b::0", "c::1"])):
            for term in ("\r\n", "\r", "\n"):
                for gz in (False, True):
                    yield {"kind": "lines", "schema": sch_l, "delim": cps(delim), "lines": [cps(l) for l in lines],
                           "terms": [term] * (len(lines) - 1) + [""], "stdin": stdin, "trailing_nl": True,
                           "gzip": gz, "skeleton": False, "dst": None}
    for delim, lines in (("@", ["i-input@i-comment", "a b@c", "d\\se@"]), ("\t", ["i-id\ti-input", "5\tx y", "6\tz"]),
                         ("\t", ["i-id\ti-input", "5\tx y", "5\tz"]), ("|", ["i-input", "a|b"]),
                         ("@", []), ("@", ["i-input@", "a"]), ("::", ["i-input::i-wf", "a b::0", "c::1"])):
        yield {"kind": "lines", "schema": sch_l, "delim": cps(delim), "lines": [cps(l) for l in lines],
               "stdin": False, "trailing_nl": True, "gzip": False, "skeleton": False, "dst": None}


# ------------------------------------------------------------------ planting / observing

def plant(path, d):
    os.makedirs(path, exist_ok=True)
    if d.get("schema") is not None:
        with open(os.path.join(path, "relations"), "w", encoding="utf-8") as f:
            f.write(n_schema_text(d["schema"]))
    base = time.time() - 100000
    for ent in d["files"]:
        for form in ("tx", "gz"):
            fl = ent.get(form)
            if fl is None:
                continue
            text = "".join(n_line([cell_in(c) for c in row]) + "\n" for row in fl["rows"])
            p = os.path.join(path, ent["name"] + (".gz" if form == "gz" else ""))
            if form == "gz":
                with gzip_mod.open(p, "wb") as f:
                    f.write(text.encode("utf-8"))
            else:
                with open(p, "wb") as f:
                    f.write(text.encode("utf-8"))
            os.utime(p, (base + fl["mt"] * 100, base + fl["mt"] * 100))


ERRS = ("TSDBSchemaError", "TSDBError", "CommandError", "TypeError", "KeyError", "StopIteration",
        "TSQLSyntaxError", "IndexError", "ValueError", "AttributeError")


def extra_kwargs(case):
    """options the documentation declares IGNORED for this kind of call (`extra`): `where`, `full`, `delimiter` under
    refresh; `refresh`, `delimiter` with a source profile; `refresh`, `where`, `full` with a sentence file.  They
    are passed to the real mkprof; the model and the oracle state the call's documented result without them."""
    ex = case.get("extra") or {}
    kw = {}
    if ex.get("where") is not None:
        kw["where"] = cond_text(ex["where"])
    if "full" in ex:
        kw["full"] = ex["full"]
    if ex.get("delim") is not None:
        kw["delimiter"] = ex["delim"]
    if ex.get("refresh"):
        assert not (case["kind"] == "lines" and case["stdin"] and not case.get("nosource"))
        kw["refresh"] = True
    return kw


EXTRA_CONDS = [["cmp", ">", "i-id", 1], ["cmp", "<", "i-id", 0], ["cmp", "==", "i-wf", 0], ["cmp", ">=", "readings", 1],
               ["cmp", "~", "i-input", "b"], ["cmp", "==", "zzz", 1], ["not", ["cmp", "==", "i-id", 2]]]


def gen_extra(rng, kind, stdin=False):
    ex = {}
    if kind == "refresh":
        if rng.random() < 0.8:
            ex["where"] = rng.choice(EXTRA_CONDS)
        if rng.random() < 0.5:
            ex["full"] = rng.random() < 0.5
        if rng.random() < 0.3:
            ex["delim"] = rng.choice(["@", "\t"])
    elif kind == "db":
        ex["refresh"] = True
        if rng.random() < 0.3:
            ex["delim"] = "@"
    elif not stdin:
        if rng.random() < 0.7:
            ex["refresh"] = True
        if rng.random() < 0.6:
            ex["where"] = rng.choice(EXTRA_CONDS)
        if rng.random() < 0.5:
            ex["full"] = rng.random() < 0.5
    return ex or None


def enumerated_option_products():
    """round 7: options the documented behaviour treats as independent, as a deterministic cross product on a small
    profile.  "Refreshing in place preserves all data" whatever else is passed: refresh x where (selecting some rows,
    no row, through another relation, an undefined column, negated) x gzip x schema (none, same, added column and
    relation, dropped column and relation) x skeleton x full x delimiter; a source profile given together with
    refresh=True (refresh is ignored: a filtered copy) x where x full x skeleton x gzip; a sentence file with
    refresh / where / full."""
    item = [F("i-id", ":integer", ":key"), F("i-input", ":string"), F("i-wf", ":integer"), F("i-length", ":integer")]
    parse = [F("parse-id", ":integer", ":key"), F("i-id", ":integer", ":key"), F("readings", ":integer")]
    fold = [F("f-note", ":string")]
    schema = [{"name": "item", "fields": item}, {"name": "parse", "fields": parse}, {"name": "fold", "fields": fold}]
    d = {"schema": schema, "files": [
        {"name": "item", "tx": gen_file([["1", "a", "1", "1"], ["2", "b c", "0", "2"], ["3", None, "1", None]], 1), "gz": None},
        {"name": "parse", "tx": None, "gz": gen_file([["10", "1", "2"], ["20", "2", "0"], ["30", "3", "1"]], 1)},
        {"name": "fold", "tx": gen_file([["note"], ["more"]], 1), "gz": None}]}
    alt_add = [{"name": "item", "fields": item[:2] + [F("i-comment", ":string")] + item[2:]},
               {"name": "parse", "fields": parse}, {"name": "fold", "fields": fold},
               {"name": "run", "fields": BASE["run"]}]
    alt_drop = [{"name": "item", "fields": [item[0], item[1]]}, {"name": "parse", "fields": parse}]
    conds = [None, ["cmp", ">", "i-id", 1], ["cmp", "<", "i-id", 0], ["cmp", ">=", "readings", 1],
             ["cmp", "==", "zzz", 1], ["not", ["cmp", "==", "i-id", 2]]]
    for cond in conds:
        for gz in (False, True):
            for alt in (None, schema, alt_add, alt_drop):
                for sk in (False, True):
                    for full, delim in ((None, None), (False, None), (True, None), (True, "@")):
                        ex = {}
                        if cond is not None:
                            ex["where"] = cond
                        if full is not None:
                            ex["full"] = full
                        if delim is not None:
                            ex["delim"] = delim
                        if not ex:
                            continue
                        yield {"kind": "refresh", "dst": d, "schema": alt, "gzip": gz, "skeleton": sk, "extra": ex}
    for cond in conds[:4]:
        for full in (False, True):
            for sk in (False, True):
                for gz in (False, True):
                    yield {"kind": "db", "src": d, "dst": None, "schema": None,
                           "where": None if cond is None else {"cond": cond}, "full": full, "gzip": gz,
                           "skeleton": sk, "extra": {"refresh": True}}
    for alt in (alt_add, alt_drop):
        yield {"kind": "db", "src": d, "dst": None, "schema": alt, "where": {"cond": conds[1]}, "full": True,
               "gzip": True, "skeleton": False, "extra": {"refresh": True, "delim": "@"}}
    for ex in ({"refresh": True}, {"where": conds[1]}, {"full": True}, {"refresh": True, "where": conds[2], "full": True}):
        for gz in (False, True):
            yield {"kind": "lines", "schema": schema, "delim": None, "lines": [cps("the dog"), cps("*x y")],
                   "terms": None, "stdin": False, "trailing_nl": True, "gzip": gz, "skeleton": False, "dst": None,
                   "extra": ex}
    # histories: a copy, then refreshes that carry a filter, then a check that nothing was lost by refreshing again
    def rf(ex, alt=None, gz=False):
        return {"kind": "refresh", "schema": alt, "gzip": gz, "skeleton": False, "extra": ex}
    cp = {"kind": "db", "schema": None, "where": None, "full": True, "gzip": False, "skeleton": False}
    for cond in conds[1:4]:
        yield {"kind": "history", "src": d, "dst": None, "gzip": False, "skeleton": False,
               "steps": [cp, rf({"where": cond}, gz=True), rf({"where": cond, "full": False}, alt=alt_add), rf({})]}


def step_cases(case):
    """the calls of a history as single cases (source profile shared; the destination is what the previous
    call left)"""
    return [dict(st, src=case.get("src") if st["kind"] == "db" else None, dst=None) for st in case["steps"]]


def synth_dir(obs, schema, planted):
    """the destination as observed after a call, as a planted-directory description (input of the next call for
    the oracle): one entry per existing file; a relation present in both forms can only be an untouched planted one"""
    files = []
    for r in obs["rels"]:
        n = r["name"]
        if not (r["tx"] or r["gz"]):
            continue
        if (r["tx"] and r["gz"]) or r["rows"] is None:
            ent = planted.get(n) or {"name": n, "tx": {"rows": [], "mt": 1}, "gz": None}
        else:
            fl = {"rows": r["rows"], "mt": 1}
            ent = {"name": n, "tx": fl if r["tx"] else None, "gz": fl if r["gz"] else None}
        files.append(ent)
    return {"schema": schema, "files": files}


def watch_names(case):
    names = []
    for d in (case.get("src"), case.get("dst")):
        if d:
            names += [r["name"] for r in (d.get("schema") or [])] + [f["name"] for f in d["files"]]
    names += [r["name"] for r in (case.get("schema") or [])]
    for st in case.get("steps") or []:
        names += [r["name"] for r in (st.get("schema") or [])]
    names.append("item")
    return sorted(set(names))


def observe(path, watch, res):
    schema = None
    if os.path.isfile(os.path.join(path, "relations")):
        try:
            schema = tsdb.read_schema(path)
        except tsdb.TSDBError:
            schema = None
    db = None
    if schema is not None:
        db = tsdb.Database(path)
    rels = []
    for n in watch:
        tx = os.path.isfile(os.path.join(path, n))
        gz = os.path.isfile(os.path.join(path, n + ".gz"))
        rows = None
        if db is not None and n in schema and (tx or gz):
            rows = [[cell_out(c) for c in rec] for rec in db[n]]
        rels.append({"name": n, "tx": tx, "gz": gz, "rows": rows})
    return {"res": res, "schema": None if schema is None else list(schema), "rels": rels}


def target_of(case):
    """the destination schema of a db/refresh case (list of relations) or None"""
    if case["kind"] == "db":
        base = case["src"].get("schema")
    elif case["kind"] == "refresh":
        base = case["dst"].get("schema") if case["dst"] else None
    else:
        base = None
    return case["schema"] if case.get("schema") is not None else base


def to_copy(case, target):
    return set(r["name"] for r in target) if case["full"] else set(CORE)


def select_params(case):
    """per target relation: what the filter selects (model parameter and oracle input)"""
    where = case.get("where")
    if not where:
        return None
    src = case["src"]
    if src.get("schema") is None:
        return {}
    files = dir_files(src)
    data = {r["name"]: (n_current(files[r["name"]]) if r["name"] in files else None) for r in src["schema"]}
    target = target_of(case)
    out = {}
    for rel in target:
        t = rel["name"]
        if t not in to_copy(case, target) or t not in data or data[t] is None:
            continue
        if "text" in where:
            txt = where["text"]
            out[t] = ("raise", "KeyError" if "nosuch" in txt else "TSQLSyntaxError")
        else:
            out[t] = naive_select(src["schema"], data, t, where["cond"])
    return out


def filt_params(case):
    """per target relation: what the model is told about the filter (resolution result, the relations of
    the condition's columns, counts, late exception); the join plan itself is computed by the model"""
    where = case.get("where")
    if not where:
        return None
    src = case["src"]
    if src.get("schema") is None:
        return {}
    files = dir_files(src)
    data = {r["name"]: (n_current(files[r["name"]]) if r["name"] in files else None) for r in src["schema"]}
    target = target_of(case)
    out = {}
    for rel in target:
        t = rel["name"]
        if t not in to_copy(case, target) or t not in data or data[t] is None:
            continue
        if "text" in where:
            out[t] = {"raise": "KeyError" if "nosuch" in where["text"] else "TSQLSyntaxError"}
            continue
        info = {}
        v = naive_select(src["schema"], data, t, where["cond"], info, as_coded=True)
        if "rels" not in info:
            out[t] = "unresolved" if v[0] == "tsqlError" else {"raise": v[1]}
        elif v[0] == "counts":
            out[t] = {"rels": info["rels"], "counts": v[1], "late": None}
        elif v[0] == "tsqlError":
            out[t] = {"rels": info["rels"], "counts": [], "late": None}
        elif v[1] == "unmodelled":
            out[t] = None
        else:
            out[t] = {"rels": info["rels"], "counts": [], "late": v[1]}
    return out


def cond_composable(c):
    """date literals are not shipped to the composed model"""
    if c[0] == "cmp":
        return not isinstance(c[3], dict)
    if c[0] == "not":
        return cond_composable(c[1])
    return all(cond_composable(x) for x in c[1])


def cond_json(c):
    """the condition tree for the composed model (literals as {"int"} / {"str": cps})"""
    if c[0] == "cmp":
        lit = c[3]
        return ["cmp", c[1], c[2], {"int": lit} if isinstance(lit, int) else {"str": cps(lit)}]
    if c[0] == "not":
        return ["not", cond_json(c[1])]
    return [c[0], [cond_json(x) for x in c[1]]]


def rx_table(case):
    """`re.search` as a table: every pattern of the filter against every stored string (parameter of C11)"""
    pats = set()

    def walk(c):
        if c[0] == "cmp":
            if c[1] in ("~", "!~") and isinstance(c[3], str):
                pats.add(c[3])
        elif c[0] == "not":
            walk(c[1])
        else:
            for x in c[1]:
                walk(x)
    walk(case["where"]["cond"])
    vals = set()
    for f in case["src"]["files"]:
        for form in ("tx", "gz"):
            if f.get(form):
                for row in f[form]["rows"]:
                    for c in row:
                        if c is not None:
                            vals.add(uncps(c))
    return [{"p": cps(p_), "s": cps(v), "m": re.search(p_, v) is not None} for p_ in sorted(pats) for v in sorted(vals)]


class C12(Check):
    pid = "C12"
    paths = {}
    props_modules = ["Verif.C12.Props", "Verif.C12.ComposeProps", "Verif.C12.LinesProps"]
    quick_cases = 2200
    thorough_cases = 30000
    rule = ("source profiles over tree-linked schemas drawn from 14 relations (item/parse/result/run/tree/edge, the "
            "core relations, a keyless one), 0-5 rows per relation, key values from a domain of 1-4 (one-to-many, "
            "dangling and empty keys, '01' vs '1'), strings from the C08 corner alphabet, adjacent and non-adjacent "
            "duplicate rows, missing files, both physical forms; filters: condition trees of depth <= 2 over "
            "integer/string columns incl. qualified, undefined and mistyped columns; target schemas by column/"
            "relation add/drop/reorder/retype/reflag; full x skeleton x gzip; refresh in place; text input plain "
            "(with '*', Unicode blanks) and delimited (@, tab, |, multi-character) with header, as the CHARACTERS of a "
            "file or stdin stream (LF / CRLF / CR / mixed terminators, last line unterminated, other line-boundary "
            "characters inside a line); histories of 2-5 mkprof calls (copy / refresh / text input, changing schema, "
            "gzip, skeleton; calls that raise followed by normal ones) on one destination directory. A case is "
            "non-trivial if some relation it touches has rows / some line is given; distinct by JSON text.")
    assumptions = [
        "db and refresh cases are answered by the COMPOSED model (lean/Verif/C12/Compose.lean): the filter is C11's "
        "`select` on the source profile, files/records are C09's and C08's; only `re.search` is a parameter (a "
        "table of pattern x stored string, as in C11). The harness's nested-loop evaluator is the oracle only; it is "
        "a model parameter (resolution, relations of the filter, per-row counts) solely in the fallback for cases "
        "outside the islands' models — malformed filter text; a well-typed comparison on a :float column or a date "
        "literal (C11 answers `unmodelled` / not shipped); a :date cell in a KEY or FILTER column whose text C08's "
        "parseDate does not model (free text like 'notadate'; other columns are never cast, as in the code) — see "
        "coverage.model_paths in the evidence; text input is answered by the composed model of ComposeLines.lean from "
        "the characters of the stream (universal newlines for a file, the stream as it is for stdin; C08 escaping, "
        "C09 files; nothing is a parameter); a history is answered by the composed model threading the directory "
        "through the calls, or not compared when one of its calls is outside the composed model",
        "schemas are key-consistent (a column that is a key in one relation is a key wherever it occurs); relation "
        "and column names are TSQL identifiers without keyword prefixes and without '.'",
        "source files are written with well-formed escapes; integer key/condition columns hold int() spellings",
        "rows of the wrong width are generated only without a filter (correspondence only, no oracle clause)",
        "date-typed columns are copied as text; no date literals in generated filters",
        "source and destination directories are distinct (except refresh)",
        "the sentence file is UTF-8 under a UTF-8 locale (mkprof opens it with the locale's encoding); stdin is an "
        "io.StringIO taken as it presents itself (no newline translation)",
    ]
    trusted_base = ["hand-written model lean/Verif/C12/Model.lean, tied to delphin.commands.mkprof by the "
                    "correspondence run", "the harness's naive TSQL evaluator (naive_select) as model parameter",
                    "generated tables codedAttributes, coreFiles, pyWhitespace read from the live interpreter/module",
                    "files as row lists with logical mtimes; gzip identity; escaping layer is C08/C09's"]

    def tables(self):
        """pyWhitespace (Python's str.isspace set) and the PINS: constants, default arguments and token tables
        of the anchored code that the hand-written model / the naive evaluator mirror, read from the live
        objects (code objects incl. nested ones; docstrings and exception-message prose dropped)."""
        import types
        from .common import tables as T
        from delphin import util  # noqa: F401
        lit = T.lean_strlit
        prose = re.compile(r"[A-Za-z]{3,} [A-Za-z']")

        def canon(c):
            if isinstance(c, str):
                return c
            if isinstance(c, tuple):
                return "(" + "|".join(canon(x) for x in c) + ")"
            if isinstance(c, types.CodeType):
                return "<code %s>" % c.co_name
            return "#" + repr(c)          # None, booleans, numbers

        def consts(fn, defaults=False):
            out = []

            def walk(code):
                for c in code.co_consts:
                    if isinstance(c, str) and (c == fn.__doc__ or prose.search(c) or c.endswith(": ")):
                        continue          # docstring / message text
                    out.append(canon(c))
                    if isinstance(c, types.CodeType):
                        walk(c)
            if defaults:
                out.append("defaults=" + canon(fn.__defaults__ or ()))
                out.append("kwdefaults=" + canon(tuple(sorted((fn.__kwdefaults__ or {}).items()))))
            walk(fn.__code__)
            return out

        def slist(name, xs):
            return "def %s : List String := [%s]" % (name, ", ".join(lit(x) for x in xs))
        ws = [c for c in range(0x110000) if chr(c).isspace()]
        lines = ["def pyWhitespace : List Nat := [%s]" % ", ".join(str(c) for c in ws)]
        lines.append(slist("c12CoreFiles", list(tsdb.TSDB_CORE_FILES)))
        lines.append("def c12CodedAttributes : List (String × String) := [%s]" % ", ".join(
            "(%s, %s)" % (lit(k), lit(v)) for k, v in tsdb.TSDB_CODED_ATTRIBUTES.items()))
        lines.append(slist("c12ModuleConsts", [tsdb.SCHEMA_FILENAME, tsdb.FIELD_DELIMITER]))
        for name, fn, dflt in [
                ("c12Mkprof", commands.mkprof, True),
                ("c12MkprofFromLines", commands._mkprof_from_lines, False),
                ("c12LinesToRecords", commands._lines_to_records, False),
                ("c12MakeSplit", commands._make_split, False),
                ("c12MkprofFromDatabase", commands._mkprof_from_database, False),
                ("c12NoSuchRelation", commands._no_such_relation, False),
                ("c12TsqlDistinct", commands._tsql_distinct, False),
                ("c12MkprofCleanup", commands._mkprof_cleanup, False),
                ("c12FieldInit", tsdb.Field.__init__, True),
                ("c12TsdbWrite", tsdb.write, True),
                ("c12WriteDatabase", tsdb.write_database, True),
                ("c12RemakeRecords", tsdb._remake_records, False),
                ("c12MakeRecord", tsdb.make_record, False),
                ("c12GetPaths", tsdb._get_paths, False),
                ("c12InitializeDatabase", tsdb.initialize_database, True),
                ("c12CleanupFiles", tsdb._cleanup_files, False),
                ("c12TsdbSplit", tsdb.split, True),
                ("c12TsdbJoin", tsdb.join, True),
                ("c12TsdbFormat", tsdb.format, True),
                ("c12PlanJoins", tsql._plan_joins, False),
                ("c12PivotRelations", tsql._pivot_relations, False),
                ("c12MakeKeymap", tsql._make_keymap, False),
                ("c12Join", tsql._join, True),
                ("c12ProjectAll", tsql._project_all, False),
                ("c12QnameResolver", tsql._make_qname_resolver, False),
                ("c12ConditionFields", tsql._process_condition_fields, False),
                ("c12ExpectedType", tsql._expected_type, False),
                ("c12ConditionFunction", tsql._process_condition_function, False),
                ("c12ParseConditionStatement", tsql._parse_condition_statement, False),
                ("c12ParseSelect", tsql._parse_select, False)]:
            lines.append(slist(name, consts(fn, dflt)))
        lines.append(slist("c12OperatorFunctions", list(tsql._operator_functions)))
        lines.append("def c12LexerTokens : List (String × String) := [%s]" % ", ".join(
            "(%s, %s)" % (lit(rx), lit(nm.split(":")[0])) for rx, nm in tsql._TSQLLexer.tokens))
        return lines

    def setup(self):
        self.root = tempfile.mkdtemp(prefix="c12-", dir="/var/tmp")
        self.n = 0
        self.paths = {}

    def teardown(self):
        shutil.rmtree(getattr(self, "root", ""), ignore_errors=True)

    # ---- cases
    def cases(self, rng, tier, n):
        yield from enumerated_cases()
        yield from enumerated_histories()
        yield from enumerated_plumbing()
        yield from enumerated_option_products()
        yield from self.random_cases(rng, tier, n)

    def random_cases(self, rng, tier, n, kinds=None):
        for c in self._random_cases(rng, tier, n, kinds):
            # option plumbing: the summary printed for quiet=False reads the destination after the clean-up
            if rng.random() < 0.15:
                if c["kind"] == "history":
                    for st in c["steps"]:
                        st["quiet"] = rng.random() < 0.5
                else:
                    c["quiet"] = False
            # options documented as ignored for the kind of call (refresh x where / full / delimiter, ...)
            if c["kind"] == "history":
                for st in c["steps"]:
                    if rng.random() < (0.5 if st["kind"] == "refresh" else 0.15):
                        ex = gen_extra(rng, st["kind"], st.get("stdin", False))
                        if ex:
                            st["extra"] = ex
            elif rng.random() < (0.5 if c["kind"] == "refresh" else 0.12):
                ex = gen_extra(rng, c["kind"], c.get("stdin", False))
                if ex:
                    c["extra"] = ex
            if c["kind"] == "lines" and c.get("dst") is None and rng.random() < 0.02:
                c["nosource"] = True
                c["stdin"] = False
            yield c

    def _random_cases(self, rng, tier, n, kinds=None):
        for _ in range(n):
            r = rng.random()
            k = rng.choice(kinds) if kinds else (
                "db" if r < 0.55 else "refresh" if r < 0.7 else "lines" if r < 0.9 else "history")
            if k == "history":
                yield gen_history_case(rng)
            elif k == "db":
                yield gen_db_case(rng, tier)
            elif k == "refresh":
                yield gen_refresh_case(rng)
            else:
                yield gen_lines_case(rng)

    def search_cases(self, rng, tier, n, seeds):
        kinds = sorted({c["kind"] for c in seeds}) or None
        yield from self.random_cases(rng, tier, n, kinds)

    # ---- implementation
    def impl(self, case):
        if not hasattr(self, "root") or not os.path.isdir(self.root):
            self.setup()
        self.n += 1
        work = os.path.join(self.root, "k%d" % self.n)
        os.makedirs(work)
        try:
            dst = os.path.join(work, "dst")
            if case.get("dst") is not None:
                plant(dst, case["dst"])
            if case["kind"] == "history":
                # several mkprof calls on ONE destination (and one source profile), in one process
                watch = watch_names(case)
                return {"res": "history",
                        "steps": [self._call(st, work, dst, watch, k) for k, st in enumerate(step_cases(case))]}
            return self._call(case, work, dst, watch_names(case), 0)
        finally:
            shutil.rmtree(work, ignore_errors=True)

    def _call(self, case, work, dst, watch, k):
        """one call of the real mkprof on the destination as it is now; the observation afterwards"""
        schema_arg = None
        if case.get("schema") is not None:
            schema_arg = os.path.join(work, "alt-relations-%d" % k)
            with open(schema_arg, "w", encoding="utf-8") as f:
                f.write(n_schema_text(case["schema"]))
        kw = dict(schema=schema_arg, gzip=case["gzip"], skeleton=case["skeleton"], quiet=case.get("quiet", True))
        old_stdin = sys.stdin
        src = os.path.join(work, "src")
        if case["kind"] == "db":
            if not os.path.isdir(src):
                plant(src, case["src"])
            where = case.get("where")
            if where:
                where = where["text"] if "text" in where else cond_text(where["cond"])
            kw.update(source=src, where=where, full=case["full"])
            kw.update(extra_kwargs(case))      # refresh=True / delimiter: ignored when a source profile is given
        elif case["kind"] == "refresh":
            os.makedirs(dst, exist_ok=True)
            kw.update(refresh=True)
            kw.update(extra_kwargs(case))      # where / full / delimiter: ignored by an in-place refresh
        else:
            kw.update(extra_kwargs(case))      # refresh=True (file source) / where / full: ignored for text input
            text = raw_text(case)
            kw.update(delimiter=None if case["delim"] is None else uncps(case["delim"]))
            if case.get("nosource"):
                kw.update(source=os.path.join(work, "no-such-file-%d" % k))      # neither a file nor a directory
            elif case["stdin"]:
                sys.stdin = io.StringIO(text)
            else:
                sp = os.path.join(work, "sents-%d.txt" % k)
                with open(sp, "wb") as f:
                    f.write(text.encode("utf-8"))
                kw.update(source=sp)
        res = "ok"
        try:
            with warnings.catch_warnings(), contextlib.redirect_stdout(io.StringIO()):
                warnings.simplefilter("ignore")
                commands.mkprof(dst, **kw)      # (quiet=False prints the summary of the files written)
        except Exception as e:        # mapped to a small enum; anything else is a harness crash
            nm = type(e).__name__
            if nm not in ERRS:
                raise
            res = "TSDBError" if nm == "TSDBSchemaError" else nm
        finally:
            sys.stdin = old_stdin
        out = observe(dst, watch, res)
        if case["kind"] == "db" and kw.get("where") and case["src"].get("schema") is not None:
            # does the real query of mkprof answer, or does it take the TSQLError fallback?  (observation
            # for the oracle only; not part of the model comparison)
            sel = {}
            target = target_of(case)
            files = dir_files(case["src"])
            for rel in target:
                t = rel["name"]
                if t not in to_copy(case, target) or t not in dir_schema(case["src"]) or \
                        t not in files or n_current(files[t]) is None:
                    continue
                try:
                    with warnings.catch_warnings():
                        warnings.simplefilter("ignore")
                        list(tsql.select("* from %s where %s" % (t, kw["where"]), tsdb.Database(src)))
                    sel[t] = "ok"
                except Exception as e:
                    sel[t] = type(e).__name__
            out["select"] = sel
        return out

    # ---- model
    def model_request(self, case):
        if case["kind"] == "history":
            # answered by the composed model only (the driver threads the directory through the calls)
            steps = [self._step_request(st) for st in step_cases(case)]
            if any(st is None for st in steps):
                return None
            return {"op": "history", "watch": watch_names(case), "dst": case.get("dst"), "src": case.get("src"),
                    "composed": True, "steps": steps}
        req = self._step_request(case)
        if req is None:
            return None
        req["watch"] = watch_names(case)
        req["dst"] = case.get("dst")
        return req

    def _step_request(self, case):
        if case.get("nosource"):
            return None          # the dispatch on the kind of source is not modelled: oracle only
        req = {"op": case["kind"], "schema": case.get("schema"), "gzip": case["gzip"], "skeleton": case["skeleton"]}
        # the composed model (C11 select + C09 files) answers db and refresh cases; the `sel` parameter below
        # is only used by the driver's fallback when a case is outside what C08/C09/C11 model
        where = case.get("where")
        req["composed"] = case["kind"] == "lines" or (not (where and "text" in where) and not (
            where and "cond" in where and not cond_composable(where["cond"])))
        if case["kind"] == "db" and where and "cond" in where and req["composed"]:
            req["cond"] = cond_json(where["cond"])
            req["rx"] = rx_table(case)
        if case["kind"] == "db":
            req["src"] = case["src"]
            req["full"] = case["full"]
            fp = filt_params(case)
            if fp is None:
                req["sel"] = None
            else:
                if any(v is None for v in fp.values()):
                    return None
                req["sel"] = [{"name": t, "filt": v} for t, v in fp.items()]
        elif case["kind"] == "lines":
            # the composed model gets the CHARACTERS of the stream and how it is opened; the line list is only
            # for the round-1 model (fallback, never taken for schemas whose relations have fields)
            raw = raw_text(case)
            req["delim"] = case["delim"]
            req["raw"] = cps(raw)
            req["stream"] = "asis" if case["stdin"] else "file"
            req["lines"] = [cps(l) for l in n_stream_lines(raw, not case["stdin"])]
        return req

    def model_expected(self, case, impl_res):
        if isinstance(impl_res, dict) and "steps" in impl_res:
            return dict(impl_res, steps=[{k: v for k, v in st.items() if k != "select"} for st in impl_res["steps"]])
        if isinstance(impl_res, dict) and "select" in impl_res:
            impl_res = {k: v for k, v in impl_res.items() if k != "select"}
        return impl_res

    def model_compare(self, case, expected, answer):
        if isinstance(answer, dict):
            answer = dict(answer)
            path = answer.pop("path", "param")
            if case["kind"] == "lines" and path == "param":
                path = "round-1 model (no parameter; not composed with C09)"
            elif path == "param":
                path = "round-1 model with the evaluator's answers as parameter"
            key = "model path:%s:%s" % (case["kind"], path)
            self.paths[key] = self.paths.get(key, 0) + 1
            if case["kind"] == "db" and case.get("where") and path == "composed":
                self.paths["model path:db with filter:composed"] = self.paths.get("model path:db with filter:composed", 0) + 1
        if isinstance(answer, dict) and answer.get("res") == "unmodelled":
            return None
        return super().model_compare(case, expected, answer)

    def extra_evidence(self):
        return {"model_paths": dict(self.paths)}

    # ---- direct oracle
    def oracle(self, case, res):
        fails = []

        def fail(clause, detail):
            fails.append({"clause": clause, "detail": detail})
        if case["kind"] == "history":
            self._oracle_history(case, res, fail)
            return fails
        got = {r["name"]: r for r in res["rels"]}
        if case["kind"] in ("db", "refresh"):
            self._oracle_copy(case, res, got, fail)
        else:
            self._oracle_lines(case, res, got, fail)
        return fails

    def _oracle_history(self, case, res, fail):
        """every call of a history is judged like a single call, its input directory being what was OBSERVED after
        the previous call (so the first wrong call is the one reported); judging stops after a call that raised"""
        planted = dir_files(case.get("dst"))
        schema_now = case["dst"].get("schema") if case.get("dst") else None
        prev = None
        for k, (st, obs) in enumerate(zip(step_cases(case), res["steps"])):
            d = case.get("dst") if k == 0 else synth_dir(prev, schema_now, planted)
            sc = dict(st, dst=d)
            got = {r["name"]: r for r in obs["rels"]}

            def f2(clause, detail, k=k):
                fail(clause, "step %d: %s" % (k, detail))
            if sc["kind"] in ("db", "refresh"):
                self._oracle_copy(sc, obs, got, f2)
            else:
                self._oracle_lines(sc, obs, got, f2)
            if obs["res"] != "ok":
                break
            schema_now = sc["schema"] if sc["kind"] == "lines" else target_of(sc)
            prev = obs

    def _files_clause(self, case, res, got, target, expect_rows, old_names, fail):
        """files present: full/non-skeleton => every relation of the schema has exactly one file (compressed iff
        gzip and non-empty); skeleton => exactly the non-empty core relations"""
        tnames = [r["name"] for r in target]
        for n in tnames:
            g = got[n]
            rows = expect_rows.get(n)
            if rows is None:
                continue
            nonempty = len(rows) > 0
            if case["skeleton"]:
                want = n in CORE and nonempty
            else:
                want = True
            if want:
                want_gz = case["gzip"] and nonempty
                if (g["tx"], g["gz"]) != (not want_gz, want_gz):
                    fail("a relation of the new profile is not held in exactly one file of the requested form",
                         repr((n, g["tx"], g["gz"], "gzip", case["gzip"], "rows", len(rows))))
            elif g["tx"] or g["gz"]:
                fail("a skeleton contains a non-core or empty relation file", repr((n, g["tx"], g["gz"])))
        for n in old_names:
            if n not in tnames and (got[n]["tx"] or got[n]["gz"]):
                fail("a relation dropped by the new schema still has a file", repr(n))

    def _oracle_copy(self, case, res, got, fail):
        refresh = case["kind"] == "refresh"
        srcd = case["dst"] if refresh else case["src"]
        if srcd is None or srcd.get("schema") is None:
            if res["res"] == "ok":
                fail("mkprof accepts a source that is not a profile", repr(res["res"]))
            return
        sschema = {r["name"]: r["fields"] for r in srcd["schema"]}
        files = dir_files(srcd)
        data = {n: (n_current(files[n]) if n in files else None) for n in sschema}
        target = target_of(case)
        # well-formedness of the input (the property quantifies over profiles, not over damaged files)
        ragged = any(rows is not None and any(len(row) != len(sschema[n]) for row in rows) for n, rows in data.items())
        where = case.get("where") if not refresh else None
        sel = select_params(case) if where else None
        bad_filter = bool(where) and ("text" in where or any(v[0] == "raise" for v in sel.values()))
        if ragged or bad_filter:
            return
        # the all-rows fallback is documented for a filter that cannot be joined with the relation; it may be taken
        # only when the documented semantics has no answer (undefined column, literal of the wrong type for the
        # column, no key path / linking relation) — never for a valid, type-correct, joinable filter
        for t, v in (sel or {}).items():
            real = (res.get("select") or {}).get(t)
            if real is None:
                continue
            if real == "TSQLError" and v[0] != "tsqlError":
                fail("the all-rows fallback is taken for a valid, type-correct filter that can be joined by key links",
                     repr((t, cond_text(where["cond"]), "documented:", v[0])))
            elif real == "ok" and v[0] == "tsqlError":
                fail("a filter that has no answer (%s) is evaluated instead of falling back" % v[1],
                     repr((t, cond_text(where["cond"]))))
        if res["res"] != "ok":
            fail("mkprof fails on a well-formed source profile", repr(res["res"]))
            return
        if res["schema"] != [r["name"] for r in target]:
            fail("the new profile's schema is not the requested one", repr(res["schema"]))
            return
        copy = set(r["name"] for r in target) if (refresh or case["full"]) else set(CORE)
        expect = {}
        for rel in target:
            t = rel["name"]
            if t not in copy or t not in sschema or data[t] is None:
                expect[t] = []
                continue
            rows = data[t]
            if sel is not None and t in sel and sel[t][0] == "counts":
                rows = [r for r, k in zip(rows, sel[t][1]) if k > 0]
            expect[t] = [n_xform(r, sschema[t], rel["fields"]) for r in rows]
        for rel in target:
            t = rel["name"]
            g = got[t]
            if case["skeleton"] and not (t in CORE and expect[t]):
                continue          # no file expected: files clause
            have = None if g["rows"] is None else [[cell_in(c) for c in row] for row in g["rows"]]
            if have != expect[t]:
                if have is None:
                    clause = "a relation of the new profile cannot be read"
                elif sorted(map(repr, have)) == sorted(map(repr, expect[t])):
                    clause = "a copied relation holds the selected source rows in a different order"
                elif self._same_modulo_cells(have, expect[t]):
                    clause = "a field value of a copied row is changed"
                elif refresh:
                    # "refreshing in place (optionally changing compression or schema) preserves all data": every
                    # record of every relation survives, whatever other options (where, full, delimiter) are passed
                    clause = "an in-place refresh does not preserve all records of a relation"
                else:
                    clause = "a copied relation does not hold exactly the selected source rows (loss or duplication)"
                fail(clause, repr((t, "expected", expect[t], "got", have, "ignored options", case.get("extra"))))
        self._files_clause(case, res, got, target, expect, list(sschema), fail)

    @staticmethod
    def _same_modulo_cells(have, expect):
        # same number of rows, and some column agrees everywhere: rows correspond one to one
        if len(have) != len(expect) or not have:
            return False
        w = min(len(r) for r in have + expect)
        return any(all(a[i] == b[i] for a, b in zip(have, expect)) for i in range(w))

    def _oracle_lines(self, case, res, got, fail):
        if case.get("nosource"):
            if res["res"] != "CommandError":
                fail("a source that is neither a file nor a directory is not rejected", repr(res["res"]))
            if case.get("dst") is None and (res["schema"] is not None or any(g["tx"] or g["gz"] for g in got.values())):
                fail("a rejected call leaves files in the destination", repr(res["schema"]))
            return
        schema = case["schema"]
        if not schema:
            if res["res"] == "ok":
                fail("text input without a schema is accepted", "")
            return
        fields = dir_schema({"schema": schema}).get("item")
        lines = n_stream_lines(raw_text(case), not case["stdin"])
        delim = None if case["delim"] is None else uncps(case["delim"])
        if fields is None:
            if res["res"] == "ok":
                fail("text input with a schema lacking 'item' is accepted", "")
            return
        fnames = [f["name"] for f in fields]
        expect = []
        reject = None
        if not delim:
            for i, l in enumerate(lines, 1):
                wf, text = ("0", l[1:]) if l[:1] == "*" else ("1", l)
                cm = {"i-wf": wf, "i-input": text, "i-id": str(i), "i-length": str(len(re.findall(r"\S+", text)))}
                expect.append(cm)
        else:
            if not lines:
                reject = "no header"
            else:
                def sp(l):
                    if delim == "@":
                        return [self._n_unescape(x) if x != "" else None for x in l.split("@")]
                    return l.split(delim)
                try:
                    hdr = sp(lines[0])
                    seen = set()
                    for i, l in enumerate(lines[1:], 1):
                        vals = sp(l)
                        if len(vals) != len(hdr):
                            reject = "column count"
                            break
                        cm = dict(zip(hdr, vals))
                        if "i-id" in fnames:
                            if "i-id" not in cm:
                                cm["i-id"] = str(i)
                            if cm["i-id"] in seen:
                                reject = "duplicate i-id"
                                break
                            seen.add(cm["i-id"])
                        if "i-length" in fnames and "i-length" not in cm and "i-input" in cm:
                            cm["i-length"] = str(len(re.findall(r"\S+", cm["i-input"] or "")))
                        expect.append(cm)
                except ValueError:
                    reject = "bad escape"
        if reject is not None:
            if res["res"] == "ok":
                fail("invalid delimited input is accepted", reject)
            return
        if res["res"] != "ok":
            fail("mkprof fails on well-formed text input", repr(res["res"]))
            return
        rows = []
        for cm in expect:
            row = []
            for f in fields:
                v = cm.get(f["name"])
                if v is None:
                    v = n_default(f)
                row.append(v if v != "" else None)
            rows.append(row)
        g = got["item"]
        skip_rows = case["skeleton"] and not rows
        have = None if g["rows"] is None else [[cell_in(c) for c in row] for row in g["rows"]]
        if not skip_rows:
            if have is None or len(have) != len(rows):
                fail("a profile made from sentence lines does not have one item per line",
                     repr((len(rows), None if have is None else len(have))))
            elif have != rows:
                bad = [f["name"] for k, f in enumerate(fields) if any(a[k] != b[k] for a, b in zip(have, rows))]
                fail("an item made from a sentence line has a wrong %s" % ",".join(sorted(set(
                    b if b in ("i-id", "i-wf", "i-length", "i-input") else "other field" for b in bad))),
                    repr(("expected", rows, "got", have)))
        expect_rows = {r["name"]: [] for r in schema}
        expect_rows["item"] = rows
        self._files_clause(case, res, got, schema, expect_rows, [], fail)
        for r in schema:
            if r["name"] != "item" and got[r["name"]]["rows"] not in (None, []):
                fail("a profile made from sentence lines has rows outside item", r["name"])

    @staticmethod
    def _n_unescape(s):
        out = []
        i = 0
        while i < len(s):
            if s[i] == "\\":
                if i + 1 >= len(s) or s[i + 1] not in "\\sn":
                    raise ValueError("escape")
                out.append({"\\": "\\", "s": "@", "n": "\n"}[s[i + 1]])
                i += 2
            else:
                out.append(s[i])
                i += 1
        return "".join(out)

    # ---- known findings
    def classify(self, case, failure):
        """F20: a filter is given, the query for the relation succeeded, and the selected (kept) source rows of that
        relation contain two identical rows next to each other — `_tsql_distinct` merges them."""
        if case.get("kind") == "history":
            m = re.match(r"step (\d+): (.*)$", str(failure.get("detail", "")), re.S)
            if not m or int(m.group(1)) >= len(case["steps"]):
                return None
            return self.classify(step_cases(case)[int(m.group(1))], dict(failure, detail=m.group(2)))
        if case.get("kind") != "db" or not case.get("where") or "cond" not in case["where"]:
            return None
        if not str(failure.get("clause", "")).startswith(
                "a copied relation does not hold exactly the selected source rows"):
            return None
        m = re.match(r"\('([^']+)', 'expected', ", str(failure.get("detail", "")))
        if not m:
            return None
        t = m.group(1)
        sel = select_params(case)
        if t not in sel or sel[t][0] != "counts":
            return None
        files = dir_files(case["src"])
        rows = n_current(files[t]) if t in files else None
        if rows is None:
            return None
        kept = [r for r, k in zip(rows, sel[t][1]) if k > 0]
        if not any(a == b for a, b in zip(kept, kept[1:])):
            return None
        # the defect explains the whole difference: merging adjacent equal kept rows gives what was observed
        sschema = dir_schema(case["src"])
        tf = dir_schema({"schema": target_of(case)})[t]
        merged = [r for i, r in enumerate(kept) if i == 0 or r != kept[i - 1]]
        want = [n_xform(r, sschema[t], tf) for r in merged]
        mm = re.search(r"'got', (.*), 'ignored options', ", str(failure.get("detail", "")), re.S)
        if mm and mm.group(1) == repr(want):
            return "F20"
        return None

    # ---- evidence
    def nontrivial_key(self, case, res):
        if case["kind"] == "history":
            return json.dumps(case, sort_keys=True)
        if case["kind"] == "lines":
            if not case["lines"]:
                return None
        else:
            d = case["dst"] if case["kind"] == "refresh" else case["src"]
            if not d or not any((f.get("tx") or {}).get("rows") or (f.get("gz") or {}).get("rows") for f in d["files"]):
                return None
        return json.dumps(case, sort_keys=True)

    def stats(self, case, res, c):
        def inc(k):
            c[k] = c.get(k, 0) + 1
        k = case["kind"]
        inc("kind:" + k)
        if k == "history":
            inc("history:calls %d" % len(case["steps"]))
            for a, b in zip(case["steps"], case["steps"][1:]):
                inc("history:%s then %s" % (a["kind"], b["kind"]))
            if any(st["kind"] == "refresh" and (st.get("extra") or {}).get("where") is not None for st in case["steps"]):
                inc("history:a refresh carrying a where condition")
            if any(st.get("quiet") is False for st in case["steps"]):
                inc("history:a call with quiet=False")
            outs = [o.get("res") for o in (res or {}).get("steps", [])]
            if any(o != "ok" for o in outs[:-1]):
                inc("history:a call after one that raised")
            for a, b in zip(case["steps"], case["steps"][1:]):
                if (a.get("schema") is not None or b.get("schema") is not None) and a.get("schema") != b.get("schema"):
                    inc("history:schema changes between calls")
                    break
            if any(a["gzip"] != b["gzip"] for a, b in zip(case["steps"], case["steps"][1:])):
                inc("history:gzip changes between calls")
            for o in outs:
                inc("history:call res:" + str(o))
            return
        if res is not None:
            inc("res:" + str(res.get("res")))
        if case.get("quiet") is False:
            inc(k + ":quiet=False (summary printed)")
        ex = case.get("extra") or {}
        for o in sorted(ex):
            inc("%s:ignored option passed: %s" % (k, o))
        if k == "refresh" and ex.get("where") is not None:
            inc("refresh:where x gzip=%s schema=%s skeleton=%s" % (case["gzip"], case.get("schema") is not None,
                                                                    case["skeleton"]))
        if case.get("nosource"):
            inc("lines:source is neither file nor directory (oracle only)")
        inc("gzip:%s skeleton:%s" % (case["gzip"], case["skeleton"]))
        if case.get("schema") is not None:
            inc(k + ":schema given")
        if case.get("dst") is not None and k != "refresh":
            inc(k + ":existing destination")
        if k == "db":
            inc("db:full" if case["full"] else "db:core only")
            w = case.get("where")
            if not w:
                inc("db:no filter")
            elif "text" in w:
                inc("db:filter malformed text")
            else:
                sp = select_params(case)
                for t, v in sp.items():
                    inc("db:select " + v[0] + (":" + v[1] if v[0] in ("raise", "tsqlError") else ""))
                    real = ((res or {}).get("select") or {}).get(t)
                    if real == "TSQLError":
                        inc("db:real code took the fallback; documented reason: " + (v[1] if v[0] == "tsqlError" else "NONE"))
                dts = {f["dt"] for r_ in (case["src"]["schema"] or []) for f in r_["fields"]}
                txt = cond_text(w["cond"])
                if any(x in txt for x in ("tcpu", "r-score", "i-score")):
                    inc("db:filter on a :float column")
                if "i-date" in txt:
                    inc("db:filter on a :date column")
                    if v[0] == "counts":
                        if any(x > 1 for x in v[1]):
                            inc("db:select one-to-many (count>1)")
                        if any(x == 0 for x in v[1]) and any(x > 0 for x in v[1]):
                            inc("db:select proper subset")
            rows = sum(len((f.get("tx") or f.get("gz") or {"rows": []})["rows"]) for f in case["src"]["files"])
            inc("db:source rows %s" % ("0" if rows == 0 else "1-5" if rows <= 5 else "6-15" if rows <= 15 else ">15"))
            inc("db:relations %d" % min(len(case["src"]["schema"] or []), 9))
        elif k == "lines":
            d = case["delim"]
            inc("lines:delim " + ("none" if not d else repr(uncps(d))))
            inc("lines:n %d" % min(len(case["lines"]), 7))
            inc("lines:stdin" if case["stdin"] else "lines:file")
            inc("lines:stdin=%s gzip=%s skeleton=%s" % (case["stdin"], case["gzip"], case["skeleton"]))
            raw = raw_text(case)
            if "\r\n" in raw:
                inc("lines:text has CRLF")
            if re.search("\r(?!\n)", raw):
                inc("lines:text has a lone CR")
            if raw and not raw.endswith(("\n", "\r")):
                inc("lines:no final line terminator")
            if re.search("[\x0b\x0c\x1c-\x1e\x85\u2028\u2029\x00]", raw):
                inc("lines:other line-boundary character inside a line")
            if len(n_stream_lines(raw, not case["stdin"])) != len(case["lines"]):
                inc("lines:a CR inside a line cuts it (file)")
        elif k == "refresh":
            if case["dst"] and any(f.get("tx") and f.get("gz") for f in case["dst"]["files"]):
                inc("refresh:both forms present")

    def shrink(self, case, still_fails):
        """drop relations' rows / lines while the failure class is unchanged"""
        cur = json.loads(json.dumps(case))
        progress = True
        if cur["kind"] == "history":
            # drop calls from the end, then from the front, while the failure class is unchanged
            while len(cur["steps"]) > 1:
                c2 = dict(cur, steps=cur["steps"][:-1])
                if not still_fails(c2):
                    break
                cur = c2
            return cur
        while progress:
            progress = False
            if cur["kind"] == "lines":
                for i in range(len(cur["lines"]) - 1, 0, -1):
                    c2 = json.loads(json.dumps(cur))
                    del c2["lines"][i]
                    if still_fails(c2):
                        cur = c2
                        progress = True
                        break
                continue
            d = cur["dst"] if cur["kind"] == "refresh" else cur["src"]
            for fi, f in enumerate(d["files"]):
                for form in ("tx", "gz"):
                    if not f.get(form):
                        continue
                    for ri in range(len(f[form]["rows"]) - 1, -1, -1):
                        c2 = json.loads(json.dumps(cur))
                        d2 = c2["dst"] if c2["kind"] == "refresh" else c2["src"]
                        del d2["files"][fi][form]["rows"][ri]
                        try:
                            if still_fails(c2):
                                cur = c2
                                progress = True
                                break
                        except Exception:
                            pass
                    if progress:
                        break
                if progress:
                    break
        return cur


CHECK = C12()
