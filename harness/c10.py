"""C10 — a test-suite table behaves as a list through any edit/commit/reload history.

One case = one history over a small profile (fixed six-table schema, some relation files stored
plain or gzipped).  `impl` runs the history on the real `itsdb.TestSuite`, observing after every
step; `simulate` is the naive re-statement of the property on plain Python lists (the direct oracle
and the source of the `produced` rows handed to the Lean model's `process`); the Lean driver runs the
same history on the model.
"""
import datetime
import itertools
import json
import os
import shutil
import tempfile
import warnings

from .common import paths
from .common.runner import Check

paths.ensure_repo_on_path()
from delphin import interface, itsdb, tsdb  # noqa: E402

# ---------------------------------------------------------------------------------------------
# fixed schema (order = schema order = commit order = model table index)

SCHEMA_SPEC = [
    ("item", [("i-id", ":integer", (":key",)), ("i-input", ":string", ()), ("i-date", ":date", ())]),
    ("note", [("n-id", ":integer", (":key",)), ("n-text", ":string", ())]),
    ("parse", [("parse-id", ":integer", (":key",)), ("run-id", ":integer", (":key",)),
               ("i-id", ":integer", (":key",)), ("readings", ":integer", ()), ("total", ":integer", ()),
               ("error", ":string", ())]),
    ("result", [("parse-id", ":integer", (":key",)), ("result-id", ":integer", ()), ("mrs", ":string", ()),
                ("derivation", ":string", ())]),
    ("run", [("run-id", ":integer", (":key",)), ("run-comment", ":string", ()), ("platform", ":string", ()),
             ("end", ":date", ())]),
    ("edge", [("e-id", ":integer", (":key",)), ("parse-id", ":integer", (":key",)), ("e-name", ":string", ()),
              ("e-daughters", ":string", ()), ("e-alternates", ":string", ())]),
    # same fields as note: Row objects can travel between the two relations (aliasing histories)
    ("memo", [("n-id", ":integer", (":key",)), ("n-text", ":string", ())]),
]
TWINS = {"note": "memo", "memo": "note"}
NAMES = [n for n, _ in SCHEMA_SPEC]
TINDEX = {n: i for i, n in enumerate(NAMES)}
FIELDS = {n: [(f, dt) for f, dt, _ in fs] for n, fs in SCHEMA_SPEC}
WIDTH = {n: len(fs) for n, fs in SCHEMA_SPEC}
COLIDX = {n: {f: i for i, (f, _, _) in enumerate(fs)} for n, fs in SCHEMA_SPEC}
# what FieldMapper declares as invalidated by processing, restricted to this schema
AFFECTED = ["parse", "result", "run", "edge"]
DEFAULT_SELECTOR = ("item", "i-input")              # itsdb._default_task_selectors["parse"]
PARSE_KEYS = ["readings", "total", "error"]          # FieldMapper._parse_keys ∩ parse fields
RESULT_KEYS = ["result-id", "derivation", "mrs"]     # FieldMapper._result_keys ∩ result fields
RUN_KEYS = ["run-comment", "platform", "end"]        # FieldMapper._run_keys ∩ run fields


def make_schema():
    return {n: [tsdb.Field(f, dt, fl) for f, dt, fl in fs] for n, fs in SCHEMA_SPEC}


# ---------------------------------------------------------------------------------------------
# typed values  (JSON shape as in C08: None | {"int": "5"} | {"str": [cps]} | {"date": [y,m,d,H,M,S]})

def cps(s):
    return [ord(c) for c in s]


def uncps(a):
    return "".join(chr(x) for x in a)


def py_val(v):
    if v is None:
        return None
    if "int" in v:
        return int(v["int"])
    if "str" in v:
        return uncps(v["str"])
    if "date" in v:
        return datetime.datetime(*v["date"])
    if "sexp" in v:
        return json.loads(json.dumps(v["sexp"]))      # a (nested) list of integers / strings
    raise ValueError(v)


def j_val(x):
    if x is None:
        return None
    if isinstance(x, bool):
        raise TypeError("bool cell")
    if isinstance(x, int):
        return {"int": str(x)}
    if isinstance(x, str):
        return {"str": cps(x)}
    if isinstance(x, datetime.datetime):
        return {"date": [x.year, x.month, x.day, x.hour, x.minute, x.second]}
    raise TypeError(type(x))


def norm_cell(dt, v):
    """what a stored cell shows for the given typed input (the property's 'typed value space of C08'):
    a missing integer shows the default -1, the empty string and None coincide."""
    if v is None:
        return {"int": "-1"} if dt == ":integer" else None
    if "str" in v and v["str"] == []:
        return None
    return v


def ckey(v):
    return json.dumps(v, sort_keys=True)


def sexp_cell(v):
    """naive re-statement of `util.SExpr.format(x) if x else None` for (nested) lists of integers and symbols"""
    def fmt(x):
        return "(" + " ".join(fmt(y) for y in x) + ")" if isinstance(x, list) else str(x)
    if v is None or not v.get("sexp"):
        return None
    return {"str": cps(fmt(v["sexp"]))}


def norm_row(name, row):
    """typed input row → tuple of canonical cell keys (only for rows of the right width)"""
    return tuple(ckey(norm_cell(dt, v)) for (_, dt), v in zip(FIELDS[name], row))


def enc_int(i):
    """the cell coding shared with lean/Verif/C10/Mapper.lean: 0 None, 4n+1 int n>=0, 4n+2 int -n<0, 4k+3 other"""
    return 4 * i + 1 if i >= 0 else 4 * (-i) + 2


UNKNOWN_CELL = 4 * 10**9 + 3


MONTHS = ["jan", "feb", "mar", "apr", "may", "jun", "jul", "aug", "sep", "oct", "nov", "dec"]


def raw_text(v):
    """the raw cell text (Row.data) of a non-integer, non-None typed value: a string is itself, a date-time is
    D-mon-YYYY with the time appended unless it is midnight (naive re-statement of tsdb.format)"""
    if "str" in v:
        return uncps(v["str"])
    y, mo, d, H, M, S = v["date"]
    text = "%d-%s-%04d" % (d, MONTHS[mo - 1], y)
    if (H, M, S) != (0, 0, 0):
        text += " %02d:%02d:%02d" % (H, M, S)
    return text


def cell_code(key, ids, add=False):
    """ids: raw cell text -> index in the codec table handed to the composed model"""
    v = json.loads(key)
    if v is None:
        return 0
    if "int" in v:
        return enc_int(int(v["int"]))
    text = raw_text(v)
    if text not in ids:
        if not add:
            return UNKNOWN_CELL
        ids[text] = len(ids)
    return 4 * ids[text] + 3


def sl_of(a):
    return slice(a[0], a[1], a[2])


# ---------------------------------------------------------------------------------------------
# the property on plain lists  (direct oracle + produced rows for the model)

class Spec:
    """cur[name] / stored[name]: plain lists of rows (tuples of canonical cell keys)."""

    def __init__(self, case):
        self.cur = {}
        self.stored = {}
        for n in NAMES:
            rows = [norm_row(n, r) for r in case["tables"].get(n, {}).get("init", [])]
            self.cur[n] = list(rows)
            self.stored[n] = list(rows)
        # a second, read-only profile (same schema) that process(source=…) takes its inputs from
        self.source = {n: [norm_row(n, r) for r in (case.get("source") or {}).get(n, {}).get("init", [])] for n in NAMES}

    def table_step(self, st):
        """returns the error enum (or None); Python list semantics, nothing else"""
        n = st["t"]
        k = st["k"]
        cur = self.cur[n]
        w = WIDTH[n]
        if k == "append" or k == "extend":
            rows = [st["row"]] if k == "append" else st["rows"]
            for r in rows:
                if len(r) != w:
                    return "ITSDBError"
                cur.append(norm_row(n, r))
            return None
        if k == "setitem":
            try:
                cur[st["i"]]
            except IndexError:
                return "IndexError"
            if len(st["row"]) != w:
                return "ITSDBError"
            cur[st["i"]] = norm_row(n, st["row"])
            return None
        if k == "setslice":
            if any(len(r) != w for r in st["rows"]):
                return "ITSDBError"
            try:
                cur[sl_of(st["sl"])] = [norm_row(n, r) for r in st["rows"]]
            except ValueError:
                return "ValueError"
            return None
        if k == "update":
            try:
                row = list(cur[st["i"]])
            except IndexError:
                return "IndexError"
            for col, v in st["data"]:
                if col not in COLIDX[n]:
                    return "KeyError"
                c = COLIDX[n][col]
                row[c] = ckey(norm_cell(FIELDS[n][c][1], v))
            cur[st["i"]] = tuple(row)
            return None
        if k == "clear":
            del cur[:]
            return None
        if k == "foreign":
            return None          # another TestSuite object edits ITS copy of the rows: nothing changes here
        if k == "nosuch":
            return "ITSDBError"  # ts[<a name that is not in the schema>]: nothing changes
        if k == "alias":
            # rows are values: reading them from a table and storing them elsewhere copies them
            src = self.cur[st["src"]]
            try:
                got = src[st["si"]] if "si" in st else src[sl_of(st["ssl"])]
            except IndexError:
                return "IndexError"
            except ValueError:
                return "ValueError"
            typed = (lambda r: [json.loads(c) for c in r])
            op = st["op"]
            if op == "append":
                return self.table_step({"k": "append", "t": n, "row": typed(got)})
            if op == "setitem":
                return self.table_step({"k": "setitem", "t": n, "i": st["i"], "row": typed(got)})
            if op == "extend":
                return self.table_step({"k": "extend", "t": n, "rows": [typed(r) for r in got]})
            if op == "setslice":
                return self.table_step({"k": "setslice", "t": n, "sl": st["sl"], "rows": [typed(r) for r in got]})
        raise ValueError(k)

    def produced(self, st):
        """naive re-statement of FieldMapper.map/cleanup + make_record for the scripted responses:
        list of (table, typed row) in the order the rows are added"""
        out = []
        marks = []          # number of produced rows before item 0, 1, …
        parse_id = -1
        runs = {}
        last_run = -1
        script = st["script"]
        calls = []
        tb, col = st.get("sel") or DEFAULT_SELECTOR
        keyf = [(j, f) for j, (f, _, fl) in enumerate(dict(SCHEMA_SPEC)[tb]) if ":key" in fl]
        # the affected relations are cleared before the inputs are read; another profile's are not affected
        if st.get("src"):
            items = self.source[tb]
            parse = self.source["parse"]
        else:
            items = [] if tb in AFFECTED else self.cur[tb]
            parse = self.cur["parse"]          # FieldMapper(source=self) is built before the clearing
        # FieldMapper._i_id_map: parse-id -> i-id of the source's parse relation, the last row of a parse-id wins
        idmap = {}
        for r in parse:
            idmap[r[COLIDX["parse"]["parse-id"]]] = r[COLIDX["parse"]["i-id"]]
        self.idmap_hits = [0, 0]
        for pos, item in enumerate(items):
            marks.append(len(out))
            resp = script[pos % len(script)]
            keys = [[f, json.loads(item[j])] for j, f in keyf]
            kd = dict(keys)
            if "i-id" in kd:
                i_id = int(kd["i-id"]["int"])
            elif "parse-id" in kd and ckey(kd["parse-id"]) in idmap:
                i_id = int(json.loads(idmap[ckey(kd["parse-id"])])["int"])
                self.idmap_hits[0] += 1
            else:
                i_id = -1
                self.idmap_hits[1] += 1
            calls.append([json.loads(item[COLIDX[tb][col]]), keys])
            parse_id = max(parse_id + 1, i_id)
            run = resp.get("run")
            d = {"i-id": {"int": str(i_id)}, "parse-id": {"int": str(parse_id)},
                 "run-id": run["run-id"] if run is not None and "run-id" in run else {"int": "-1"}}
            if "readings" in resp:
                d["readings"] = resp["readings"]
            elif "results" in resp:
                d["readings"] = {"int": str(len(resp["results"]))}
            for key in ("total", "error"):
                if key in resp:
                    d[key] = resp[key]
            out.append(("parse", [d.get(f) for f, _ in FIELDS["parse"]]))
            for res in resp.get("results", []):
                d = {"parse-id": {"int": str(parse_id)}}      # (flags is no field of this schema's result relation)
                for key in RESULT_KEYS:
                    if key in res:
                        d[key] = res[key]
                out.append(("result", [d.get(f) for f, _ in FIELDS["result"]]))
            for e in resp.get("chart", []):
                d = dict(e)
                d["parse-id"] = {"int": str(parse_id)}
                d["e-daughters"] = sexp_cell(e.get("e-daughters"))
                d["e-alternates"] = sexp_cell(e.get("e-alternates"))
                out.append(("edge", [d.get(f) for f, _ in FIELDS["edge"]]))
            if run is not None:
                rid = int(run["run-id"]["int"]) if "run-id" in run else -1
                runs[rid] = run
                last_run = rid
        if last_run != -1:
            for rid in sorted(runs):
                run = runs[rid]
                d = {"run-id": run["run-id"] if "run-id" in run else {"int": "-1"}}
                for key in RUN_KEYS:
                    if key in run:
                        d[key] = run[key]
                out.append(("run", [d.get(f) for f, _ in FIELDS["run"]]))
        self.marks = marks
        return out, calls


def simulate(case):
    """per step: expected error class, expected lists, produced rows (process steps)"""
    spec = Spec(case)
    out = []
    for st in case["steps"]:
        k = st["k"]
        info = {"produced": None, "calls": None}
        if k == "commit":
            err = None      # NotImplementedError is judged by the oracle on the real files
            for n in NAMES:
                spec.stored[n] = list(spec.cur[n])
        elif k in ("reload", "reopen"):
            err = None
            for n in NAMES:
                spec.cur[n] = list(spec.stored[n])
        elif k == "fcommit":
            # a FRESH TestSuite on the directory (it sees the committed lists) edits one relation and commits;
            # then this suite reloads / is re-opened: it must show the committed lists, the edit included
            err = None
            for n in NAMES:
                spec.cur[n] = list(spec.stored[n])
            for sub in st["ops"]:
                spec.table_step(dict(sub, t=st["t"]))      # an operation that raises is skipped over there too
            spec.stored[st["t"]] = list(spec.cur[st["t"]])
        elif k == "process" and st.get("sel") and (st["sel"][0] not in COLIDX or st["sel"][1] not in COLIDX[st["sel"][0]]):
            # a selector that names no relation / no field of the relation: ITSDBError, nothing is touched
            err = "ITSDBError"
            info["badsel"] = True
        elif k == "process":
            err = None
            tb = (st.get("sel") or DEFAULT_SELECTOR)[0]
            nit = len(spec.source[tb]) if st.get("src") else 0 if tb in AFFECTED else len(spec.cur[tb])
            if any("results" not in st["script"][pos % len(st["script"])] for pos in range(nit)):
                # TestSuite.process reads response['results'] itself: such a response is not a valid
                # processor response; the run is aborted with KeyError and what it leaves is not specified
                info["aborted"] = True
                err = "KeyError"
            prod, calls = spec.produced(st)
            info["produced"] = prod
            info["calls"] = calls
            info["marks"] = spec.marks
            info["idmap"] = list(spec.idmap_hits)
            info["before"] = {n: list(spec.cur[n]) for n in NAMES}
            for n in AFFECTED:
                spec.cur[n] = []
            for n, row in prod:
                spec.cur[n].append(norm_row(n, row))
            for n in NAMES:
                spec.stored[n] = list(spec.cur[n])
        else:
            err = spec.table_step(st)
        info["err"] = err
        info["cur"] = {n: list(spec.cur[n]) for n in NAMES}
        info["stored"] = {n: list(spec.stored[n]) for n in NAMES}
        out.append(info)
    return out


# ---------------------------------------------------------------------------------------------
# scripted processor

class ScriptedCPU(interface.Processor):
    task = "parse"

    def __init__(self, script):
        self.script = script
        self.n = 0
        self.calls = []

    def process_item(self, datum, keys=None):
        tmpl = self.script[self.n % len(self.script)]
        self.n += 1
        self.calls.append([j_val(datum), [[k, j_val(v)] for k, v in (keys or {}).items()]])
        resp = interface.Response(NOTES=[], WARNINGS=[], ERRORS=[], input=datum, keys=dict(keys or {}))
        if "results" in tmpl:
            resp["results"] = [{k: py_val(v) for k, v in r.items()} for r in tmpl["results"]]
        for key in ("readings", "total", "error", "first"):
            if key in tmpl:
                resp[key] = py_val(tmpl[key])
        if "run" in tmpl:
            resp["run"] = {k: py_val(v) for k, v in tmpl["run"].items()}
        if "chart" in tmpl:
            resp["chart"] = [{k: py_val(v) for k, v in e.items()} for e in tmpl["chart"]]
        return resp


def iter_probes(t, n):
    """iterator lifetimes: several iterations of one table alive at once (rows as typed lists).
    `multi`: an iterator and a select() generator are started and advanced by one row, then the table is
    fully iterated, measured, indexed, selected and zipped with itself, then both are resumed."""
    names = [f.name for f in t.fields]       # (select() without names yields empty rows, whatever its docstring says)

    def multi():
        it = iter(t)
        a = [trow(x) for x in itertools.islice(it, 1)]
        g = t.select(*names)
        b = [trow(x) for x in itertools.islice(g, 1)]
        full = [trow(x) for x in t]
        len(t)
        if n:
            t[0], t[-1]
        sel = [trow(x) for x in t.select(*names)]
        zipped = [[trow(x), trow(y)] for x, y in zip(t, t)]
        rest = [trow(x) for x in it]
        restg = [trow(x) for x in g]
        return {"first": a, "rest": rest, "sfirst": b, "srest": restg, "full": full, "sel": sel, "zip": zipped}
    P = {"multi": guarded(multi)}
    if n <= 3:
        P["nested"] = guarded(lambda: [[trow(a), trow(b)] for a in t for b in t])
    return P


def row_api(t, n):
    """the Row objects a table hands out, through every access path of Row (last row of the table): by position,
    by negative position, by field name, by slice, len, keys, equality with tuples/lists of its values"""
    if n == 0:
        return None
    def probe():
        r = t[-1]
        names = [f.name for f in t.fields]
        vals = list(r)
        other = list(vals)
        other[0] = (other[0] or 0) + 1 if not isinstance(other[0], str) else other[0] + "x"
        return {"it": trow(vals), "idx": [j_val(r[j]) for j in range(len(names))],
                "neg": [j_val(r[-j - 1]) for j in range(len(names))], "name": [j_val(r[nm]) for nm in names],
                "sl": trow(r[1:]), "rev": trow(r[::-1]), "len": len(r), "keys": r.keys() == names,
                "eq": bool(r == tuple(vals)) and bool(r == vals) and bool(r == t[len(t) - 1]),
                "ne": bool(r == tuple(other)) or bool(r == vals[:-1]) or bool(r == vals + [None]) or bool(r == 5)
                      or bool(r == None),                                               # noqa: E711
                "str": cps(str(r)),
                "cols": [t.column_index(nm) for nm in names] == list(range(len(names)))
                        and [t.get_field(nm).name for nm in names] == names,
                "updtype": _raises(TypeError, lambda: t.update(slice(0, 1), {})) and _raises(TypeError, lambda: t.update("0", {}))}
    return guarded(probe)


def _raises(exc, f):
    try:
        f()
    except exc:
        return True
    return False


def raw_lines(d, name, tx, gzp):
    """the bytes of the active relation file, as text lines ending at LF only (code points)"""
    import gzip as _gzip
    use_gz = gzp and (not tx or os.stat(os.path.join(d, name + ".gz")).st_mtime > os.stat(os.path.join(d, name)).st_mtime)
    if use_gz:
        with _gzip.open(os.path.join(d, name + ".gz"), "rb") as fh:
            data = fh.read()
    elif tx:
        with open(os.path.join(d, name), "rb") as fh:
            data = fh.read()
    else:
        return None
    parts = data.decode("utf-8").split("\n")
    if parts and parts[-1] == "":
        parts.pop()
    return [cps(x) for x in parts]


ERRS = ((IndexError, "IndexError"), (itsdb.ITSDBError, "ITSDBError"), (ValueError, "ValueError"),
        (KeyError, "KeyError"), (NotImplementedError, "NotImplementedError"))


def guarded(f):
    try:
        with warnings.catch_warnings():
            warnings.simplefilter("ignore")
            return {"ok": f()}
    except (IndexError, itsdb.ITSDBError, ValueError, KeyError, NotImplementedError) as e:
        for cls, tag in ERRS:
            if isinstance(e, cls):
                return {"err": tag}
        raise


def trow(row):
    return [j_val(x) for x in row]


# ---------------------------------------------------------------------------------------------
# generators

STRS = ["a", "b c", "x@y", "l1\nl2", "back\\slash", "\\s", "é", "", "@", "The dog barks."]
# characters that str.splitlines() / universal newlines treat as line boundaries but a relation file does
# not (only "\n" ends a record), plus NUL and an astral character
LINE_CHARS = ["\r", "\x0b", "\x0c", "\x1c", "\x1d", "\x1e", "\x85", "\u2028", "\u2029", "\x00", "\U0001F600"]


def line_variants(c):
    """the character alone, doubled, at the start/end of a value, next to newline, delimiter, backslash"""
    return [c, c + c, c + "a", "a" + c, "a" + c + "b", c + "\n", "\n" + c, c + "@", "@" + c, c + "\\", "\\" + c]


LINE_STRS = [v for c in LINE_CHARS for v in line_variants(c)]


class Gen:
    def __init__(self, rng):
        self.rng = rng
        self.ctr = 0

    def val(self, dt):
        rng = self.rng
        r = rng.random()
        if r < 0.12:
            return None
        if dt == ":integer":
            return {"int": str(rng.choice([0, 1, -1, 7, 42, -5, 10**12, rng.randrange(-50, 50)]))}
        if dt == ":date":
            if rng.random() < 0.5:
                return {"date": [rng.choice([1999, 2004, 2024]), rng.randrange(1, 13), rng.randrange(1, 29), 0, 0, 0]}
            return {"date": [rng.choice([1999, 2004, 2024]), rng.randrange(1, 13), rng.randrange(1, 29),
                             rng.randrange(24), rng.randrange(60), rng.randrange(60)]}
        return {"str": cps(self.text())}

    def text(self):
        """a string value: the ordinary pool, or (random share) one with a line-boundary character"""
        rng = self.rng
        r = rng.random()
        if r < 0.25:
            return rng.choice(LINE_STRS)
        if r < 0.30:
            return rng.choice(STRS) + rng.choice(LINE_CHARS) + rng.choice(["", "x", "\n"])
        return rng.choice(STRS)

    def row(self, name, bad=0.0):
        """a row with a unique first cell, so that lost/duplicated/shifted rows are visible"""
        self.ctr += 1
        row = [{"int": str(self.ctr)}] + [self.val(dt) for _, dt in FIELDS[name][1:]]
        if self.rng.random() < bad:
            if self.rng.random() < 0.5:
                row = row[:-1]
            else:
                row = row + [{"str": cps("extra")}]
        return row

    def rows(self, name, n, bad=0.0):
        return [self.row(name, bad) for _ in range(n)]

    def sl(self, lo=-8, hi=8):
        rng = self.rng

        def b():
            return rng.choice([None, None, None] + list(range(lo, hi + 1)))
        st = rng.choice([None, None, None, None, 1, 1, 2, -1, -1, -2, 3, -3, 0, rng.randrange(-8, 9)])
        return [b(), b(), st]

    def queries(self, name, n, k=3):
        rng = self.rng
        qs = [{"t": name, "q": "slice", "sl": s} for s in ([None, None, -1], [1, None, None], [None, None, 2])]
        for _ in range(k):
            qs.append({"t": name, "q": "slice", "sl": self.sl(-n - 2, n + 2)})
        cols = [f for f, _ in FIELDS[name]]
        pick = [rng.choice(cols) for _ in range(rng.randrange(0, 3))]
        if rng.random() < 0.1:
            pick.insert(rng.randrange(len(pick) + 1), "zz")
        qs.append({"t": name, "q": "select", "cols": pick})
        # the same projection through the API wrappers: TestSuite.select_from, and cast=False (raw column text)
        r = rng.random()
        if r < 0.3:
            qs.append({"t": name, "q": "selfrom", "cols": [rng.choice(cols) for _ in range(rng.randrange(0, 4))]})
        elif r < 0.6:
            qs.append({"t": name, "q": "selraw", "cols": [rng.choice(cols) for _ in range(rng.randrange(1, 4))]})
        return qs

    def selector(self):
        """process(selector=…): None = the task default; the default spelled out; another input relation (its keys
        have no i-id); an input relation that processing itself clears; a relation / a column that does not exist"""
        return self.rng.choice([None, None, None, None, ["item", "i-input"], ["item", "i-date"], ["note", "n-text"],
                                ["memo", "n-id"], ["parse", "error"], ["result", "mrs"], ["nosuch", "i-input"],
                                ["item", "n-text"], ["item", ""]])

    def script(self, malformed=False):
        rng = self.rng
        out = []
        run_ids = rng.choice([[0], [0], [1, 0], [2, 2, 5], [], [-1, 3], [7, -1]])
        for j in range(rng.randrange(1, 4)):
            nres = rng.choice([0, 1, 1, 2, 3])
            t = {"results": []}
            for r in range(nres):
                res = {"result-id": {"int": str(r)}, "mrs": {"str": cps(self.text() or "m")}}
                if rng.random() < 0.5:
                    res["derivation"] = {"str": cps("(root %d)" % r + rng.choice(["", ""] + LINE_CHARS))}
                if rng.random() < 0.25:
                    res["tree"] = {"str": cps("(S)")}      # a result key that is no field of this schema's result relation
                if rng.random() < 0.25:
                    res["flags"] = {"sexp": [[":ad", 1]]}  # formatted by _map_result, then dropped likewise
                t["results"].append(res)
            if rng.random() < 0.5:
                t["readings"] = {"int": str(nres)}
            if rng.random() < 0.5:
                t["total"] = {"int": str(rng.randrange(0, 99))}
            if rng.random() < 0.3:
                t["error"] = {"str": cps(rng.choice(["timeout", "x@y", "e\nf"] + [rng.choice(LINE_STRS)]))}
            if malformed and nres == 0:
                del t["results"]          # a response without a 'results' entry: process() itself needs it
            if run_ids:
                rid = run_ids[j % len(run_ids)]
                t["run"] = {"run-id": {"int": str(rid)}, "platform": {"str": cps("p%d" % j)},
                            "end": {"date": [2018, 6, 6, 12, 20, 49]}}
                if rng.random() < 0.12:
                    del t["run"]["run-id"]   # run id defaults to -1; a last run id of -1 writes no run rows
                if rng.random() < 0.5:
                    t["run"]["run-comment"] = {"str": cps("c")}
            if rng.random() < 0.25:
                t["first"] = {"int": "7"}                  # a parse key that is no field of this schema's parse relation
            if rng.random() < 0.3:
                t["chart"] = [{"e-id": {"int": str(e)}, "e-name": {"str": cps("np")}}
                              for e in range(rng.randrange(1, 3))]
                if rng.random() < 0.5:
                    t["chart"][0]["e-score"] = {"int": "1"}   # not a field of the edge relation: dropped by _add_row
                for e in t["chart"]:
                    if rng.random() < 0.5:
                        e["e-daughters"] = {"sexp": rng.choice([[1, 2], [], [[3, 4], [5]], [7]])}
                    if rng.random() < 0.3:
                        e["e-alternates"] = {"sexp": rng.choice([[9], [], [":a", 10]])}
            out.append(t)
        return out


def with_obs(step, gen, n_guess=4):
    """attach the queries and the set of observed tables to a step"""
    if "t" in step and step["k"] != "fcommit":
        step["ot"] = [step["t"]]
        for other in (TWINS.get(step["t"]), step.get("src")):
            if other and other not in step["ot"]:
                step["ot"].append(other)       # holders of possibly shared Row objects
        step["qs"] = gen.queries(step["t"], n_guess)
    else:
        step["ot"] = list(NAMES)
        step["qs"] = []
        for n in NAMES:
            step["qs"].extend(gen.queries(n, n_guess, k=1))
    return step


def menu_op(j, p, gen):
    """the fixed menu of the bounded-exhaustive part (table item, initially 3 stored rows)"""
    r = lambda q=0: [{"int": str(100 * (p + 1) + 10 * q + j % 10)}, {"str": cps("m%d.%d" % (j, q))}, None]
    t = "item"
    ops = [
        {"k": "append", "t": t, "row": r()},
        {"k": "extend", "t": t, "rows": [r(0), r(1)]},
        {"k": "setitem", "t": t, "i": 0, "row": r()},
        {"k": "setitem", "t": t, "i": -1, "row": r()},
        {"k": "setitem", "t": t, "i": 1, "row": r()},
        {"k": "setitem", "t": t, "i": 5, "row": r()},
        {"k": "setslice", "t": t, "sl": [0, 1, None], "rows": [r(0), r(1)]},
        {"k": "setslice", "t": t, "sl": [0, 2, None], "rows": []},
        {"k": "setslice", "t": t, "sl": [-1, None, None], "rows": [r(0), r(1), r(2)]},
        {"k": "setslice", "t": t, "sl": [2, 1, None], "rows": [r()]},
        {"k": "setslice", "t": t, "sl": [None, None, 2], "rows": [r(0), r(1)]},
        {"k": "setslice", "t": t, "sl": [None, None, -1], "rows": [r(0), r(1), r(2)]},
        {"k": "setslice", "t": t, "sl": [1, None, None], "rows": [r()]},
        {"k": "setslice", "t": t, "sl": [10, None, None], "rows": [r()]},
        {"k": "setslice", "t": t, "sl": [None, 0, None], "rows": [r()]},
        {"k": "setslice", "t": t, "sl": [1, 2, None], "rows": [r()]},
        {"k": "setslice", "t": t, "sl": [-2, -1, 1], "rows": []},
        {"k": "update", "t": t, "i": 0, "data": [["i-input", {"str": cps("u%d" % p)}]]},
        {"k": "update", "t": t, "i": -1, "data": [["i-id", {"int": str(900 + p)}]]},
        {"k": "clear", "t": t},
        {"k": "commit"},
        {"k": "reload"},
        {"k": "reopen"},
        {"k": "process", "b": 1, "gz": False,
         "script": [{"results": [{"result-id": {"int": "0"}, "mrs": {"str": cps("m")}}],
                     "run": {"run-id": {"int": "0"}, "end": {"date": [2018, 6, 6, 0, 0, 0]}}}]},
    ]
    return json.loads(json.dumps(ops[j]))


N_MENU = 24
HOLD_KINDS = ("append", "extend", "setitem", "setslice", "update", "clear", "alias")


def base_tables(gz):
    init = [[{"int": str(i + 1)}, {"str": cps("s%d" % (i + 1))}, None] for i in range(3)]
    return {"item": {"init": init, "gz": gz}}


def exhaustive_cases(rng, depth, sample=None):
    gen = Gen(rng)
    combos = []
    for d in range(0, depth + 1):
        combos.extend(itertools.product(range(N_MENU), repeat=d))
    if sample is not None and len(combos) > sample:
        short = [c for c in combos if len(c) < depth]
        long = [c for c in combos if len(c) == depth]
        combos = short + rng.sample(long, sample - len(short))
    for ci, combo in enumerate(combos):
        gz = bool(ci % 2)
        steps = [with_obs(menu_op(j, p, gen), gen, 5) for p, j in enumerate(combo)]
        steps.append(with_obs({"k": "commit"}, gen, 5))
        steps.append(with_obs({"k": "commit"}, gen, 5))
        steps.append(with_obs({"k": "reopen"}, gen, 5))
        yield {"kind": "menu", "tables": base_tables(gz), "steps": steps}


def random_history(rng, long=False):
    gen = Gen(rng)
    tables = {}
    ntab = rng.choice([1, 1, 2, 2, 3])
    used = ["item"] if rng.random() < 0.7 else []
    pool = [n for n in NAMES if n not in used]
    rng.shuffle(pool)
    used = used + pool[: max(0, ntab - len(used))]
    for n in list(used):
        if n in TWINS and TWINS[n] not in used and rng.random() < 0.7:
            used.append(TWINS[n])
    sizes = {}
    for n in used:
        k = rng.choice([0, 0, 1, 2, 3, 3, 4, 5, 6])
        tables[n] = {"init": gen.rows(n, k), "gz": k > 0 and rng.random() < 0.35}
        if k > 0 and not tables[n]["gz"] and rng.random() < 0.2:
            tables[n]["nonl"] = True
        if k == 0 and rng.random() < 0.5:
            tables[n]["nofile"] = True
        sizes[n] = k
    nsteps = rng.randrange(12, 26) if long else rng.randrange(3, 12)
    steps = []
    for _ in range(nsteps):
        r = rng.random()
        t = rng.choice(used)
        n = sizes.get(t, 3)
        if r < 0.10:
            st = {"k": "append", "t": t, "row": gen.row(t, bad=0.05)}
        elif r < 0.20:
            st = {"k": "extend", "t": t, "rows": gen.rows(t, rng.choice([0, 1, 2, 3]), bad=0.05)}
        elif r < 0.32:
            i = rng.randrange(-n, n + 1) if n > 0 else rng.choice([0, 1, -1])
            if rng.random() < 0.2:
                i = rng.choice([n, n + 1, -n - 1, -n - 2, -2 * n, -2 * n - 1])
            st = {"k": "setitem", "t": t, "i": i, "row": gen.row(t, bad=0.05)}
        elif r < 0.57:
            sl = gen.sl(-n - 2, n + 2)
            if rng.random() < 0.6:
                sl[2] = rng.choice([None, None, 1])
            # mostly the right number of rows for an extended slice
            k = rng.choice([0, 1, 1, 2, 3])
            if sl[2] not in (None, 1, 0) and rng.random() < 0.8:
                k = len(range(*slice(*sl).indices(max(n, 0))))
            st = {"k": "setslice", "t": t, "sl": sl, "rows": gen.rows(t, k, bad=0.03)}
        elif r < 0.65:
            cols = [f for f, _ in FIELDS[t]]
            data = []
            for _ in range(rng.randrange(0, 3)):
                c = rng.randrange(len(cols))
                data.append([cols[c], gen.val(FIELDS[t][c][1])])
            if rng.random() < 0.08:
                data.append(["zz", None])
            i = rng.randrange(-n - 1, n + 1) if n > 0 else rng.choice([0, -1])
            st = {"k": "update", "t": t, "i": i, "data": data}
        elif r < 0.69:
            st = {"k": "clear", "t": t}
        elif r < 0.82:
            st = {"k": "commit"}
        elif r < 0.87:
            st = {"k": "reload"}
        elif r < 0.92:
            st = {"k": "reopen"}
        else:
            nitems = sizes.get("item", 0)
            st = {"k": "process", "b": rng.choice([0, 0, 1, 2, 3, 5, 4 * nitems + 2, 1000]),
                  "gz": rng.random() < 0.3, "script": gen.script(), "sel": gen.selector(),
                  "fm": rng.choice([None, "fresh", "shared", "shared"])}
        # how the row values are passed: list / tuple / Row objects, the same Row object repeated,
        # caller-side mutation of the passed lists afterwards
        if st["k"] in ("append", "extend", "setitem", "setslice"):
            st["form"] = rng.choice(["list", "list", "tuple", "row"])
            if st["form"] == "list" and st["k"] in ("extend", "setslice") and rng.random() < 0.3:
                st["mutate"] = True
            if st["k"] in ("extend", "setslice") and len(st["rows"]) >= 2 and rng.random() < 0.15:
                st["rows"] = [st["rows"][0] for _ in st["rows"]]
                st["dup"] = True
                st["form"] = rng.choice(["row", "list"])
        if st["k"] in HOLD_KINDS and rng.random() < 0.2:
            st["hold"] = True          # an iterator obtained before the operation, consumed after it
        if st["k"] == "append" and rng.random() < 0.04:
            st["k"] = "nosuch"         # the same call on a relation that is not in the schema
        # aliasing: rows taken from a table (same one, its twin relation) and stored again; a foreign suite
        r2 = rng.random()
        if r2 > 0.97:
            ops = []
            for _ in range(rng.randrange(1, 3)):
                q = rng.random()
                if q < 0.4:
                    ops.append({"k": "append", "row": gen.row(t)})
                elif q < 0.6 and len(FIELDS[t]) > 1:
                    c = rng.randrange(1, len(FIELDS[t]))
                    ops.append({"k": "update", "i": rng.choice([0, -1]), "data": [[FIELDS[t][c][0], gen.val(FIELDS[t][c][1])]]})
                elif q < 0.85:
                    ops.append({"k": "setslice", "sl": [rng.choice([0, 1, -1]), rng.choice([None, 1, 2]), None], "rows": []})
                else:
                    ops.append({"k": "clear"})
            steps.append(with_obs({"k": "fcommit", "t": t, "ops": ops, "then": rng.choice(["reload", "reopen"])}, gen, n))
        if r2 < 0.12:
            twin = TWINS.get(t)
            src = twin if (twin and rng.random() < 0.5) else t
            op = rng.choice(["append", "extend", "extend", "setitem", "setslice"])
            al = {"k": "alias", "t": t, "src": src, "op": op}
            m = sizes.get(src, 3)
            if op in ("append", "setitem"):
                al["si"] = rng.randrange(-m, m) if m > 0 else 0
            else:
                al["ssl"] = gen.sl(-m - 1, m + 1)
            if op == "setitem":
                al["i"] = rng.randrange(-n, n) if n > 0 else 0
            if op == "setslice":
                al["sl"] = gen.sl(-n - 1, n + 1)
                if rng.random() < 0.7:
                    al["sl"][2] = None
            steps.append(with_obs(al, gen, n))
        elif r2 < 0.16:
            cols = [f for f, _ in FIELDS[t]]
            c = rng.randrange(1, len(cols))
            steps.append(with_obs({"k": "foreign", "t": t, "ssl": gen.sl(-n - 1, n + 1), "i": rng.choice([-1, -1, 0, n]),
                                   "data": [[cols[c], gen.val(FIELDS[t][c][1])]], "assign": rng.random() < 0.5}, gen, n))
        steps.append(with_obs(st, gen, n))
        # rough size tracking, only to aim the indices
        if st["k"] in ("append",):
            sizes[t] = n + 1
        elif st["k"] == "extend":
            sizes[t] = n + len(st["rows"])
        elif st["k"] == "clear":
            sizes[t] = 0
        elif st["k"] == "setslice" and st["sl"][2] in (None, 1):
            a, b, _ = slice(*st["sl"]).indices(max(n, 0))
            sizes[t] = max(0, n - max(0, b - a) + len(st["rows"]))
    if rng.random() < 0.5:
        steps.append(with_obs({"k": "commit"}, gen, 4))
        steps.append(with_obs({"k": "reopen"}, gen, 4))
    case = {"kind": "long" if long else "random", "tables": tables, "steps": steps}
    mk = rng.choice([None] * 7 + ["schema_dict", "schema_path", "virtual"])
    if mk:
        case["mk"] = mk        # the profile is created by TestSuite.__init__ itself
    return case


def process_case(rng):
    """processing with every interesting buffer size, followed by commit (must add nothing)"""
    gen = Gen(rng)
    nitems = rng.choice([0, 1, 2, 3, 3, 4])
    items = gen.rows("item", nitems)
    pat = rng.choice(["unique", "unique", "same", "desc", "neg", "none", "gap"])
    for j, row in enumerate(items):
        if pat == "same":
            row[0] = {"int": "5"}
        elif pat == "desc":
            row[0] = {"int": str(40 - 7 * j)}
        elif pat == "neg":
            row[0] = {"int": str(-3 + j)}
        elif pat == "none" and j % 2 == 0:
            row[0] = None
        elif pat == "gap":
            row[0] = {"int": str([100, 2, 50, 101][j % 4])}
    tables = {"item": {"init": items, "gz": nitems > 0 and rng.random() < 0.25}}
    for n in ("parse", "result", "run", "note"):
        if rng.random() < 0.4:
            k = rng.choice([1, 2, 3])
            tables[n] = {"init": gen.rows(n, k), "gz": rng.random() < 0.3}
    for n in ("parse", "result", "run", "edge", "memo"):
        if n not in tables and rng.random() < 0.3:
            tables[n] = {"init": [], "gz": False, "nofile": True}
    script = gen.script(malformed=rng.random() < 0.08)
    total = sum(2 + len(s.get("results", [])) + len(s.get("chart", [])) for s in script) * max(1, nitems)
    b = rng.choice([0, 1, 2, 3, max(0, total - 1), total, total + 1, total + 2, 1000])
    steps = []
    if rng.random() < 0.4:
        t = rng.choice(list(tables))
        steps.append(with_obs({"k": "append", "t": t, "row": gen.row(t)}, gen))
    if rng.random() < 0.2:
        steps.append(with_obs({"k": "setitem", "t": "item", "i": 0, "row": gen.row("item")}, gen))
    source = source_profile(gen, rng) if rng.random() < 0.35 else None
    sel = gen.selector() if rng.random() < 0.5 else None
    if source is not None:
        # the transfer / generate set-up: inputs are the results (or parse rows, or items) of ANOTHER profile
        sel = rng.choice([["result", "mrs"], ["result", "mrs"], ["parse", "error"], None, ["item", "i-input"], ["nosuch", "x"]])
    steps.append(with_obs({"k": "process", "b": b, "gz": rng.random() < 0.3, "script": script,
                           "sel": sel, "nogz": rng.random() < 0.5, "src": source is not None,
                           "fm": rng.choice([None, None, "fresh"])}, gen))
    steps.append(with_obs({"k": "commit"}, gen))
    steps.append(with_obs({"k": "reopen"}, gen))
    if rng.random() < 0.4:
        fm = rng.choice([None, "shared", "shared"])
        if source is None:           # (a mapper built without the source has no _i_id_map)
            steps[-3]["fm"] = fm
        else:
            fm = None
        steps.append(with_obs({"k": "process", "b": rng.choice([0, 1, 1000]), "gz": rng.random() < 0.3,
                               "script": gen.script(), "fm": fm}, gen))
        steps.append(with_obs({"k": "commit"}, gen))
    case = {"kind": "process", "tables": tables, "steps": steps}
    if source is not None:
        case["source"] = source
    return case


def linebreak_cases():
    """deterministic block: every line-boundary character (and NUL, an astral character) in every
    position variant, in stored / appended / assigned / updated / extended / processor-produced rows,
    in middle and LAST columns, plain and gzip, followed by commit, reload, reopen and the full query set"""
    gen = Gen(__import__("random").Random(85))
    S = lambda x: {"str": cps(x)}
    I = lambda n: {"int": str(n)}
    for c in LINE_CHARS:
        v = line_variants(c)
        for gz in (False, True):
            tables = {"note": {"init": [[I(1), S(v[0])], [I(2), S(v[1])]], "gz": gz},
                      "item": {"init": [[I(1), S(v[2]), None], [I(2), S("plain"), None]], "gz": gz}}
            script = [{"results": [{"result-id": I(0), "mrs": S(v[10]), "derivation": S(v[9])}],
                       "error": S(v[8]), "run": {"run-id": I(0), "run-comment": S(v[4]), "platform": S(c),
                                                 "end": {"date": [2018, 6, 6, 12, 20, 49]}}}]
            steps = [
                {"k": "append", "t": "note", "row": [I(3), S(v[3])]},
                {"k": "setitem", "t": "note", "i": 0, "row": [I(4), S(v[4])]},
                {"k": "update", "t": "note", "i": -1, "data": [["n-text", S(v[5])]]},
                {"k": "extend", "t": "item", "rows": [[I(5), S(v[6]), None], [I(6), S(v[7]), None]]},
                {"k": "commit"},
                {"k": "reload"},
                {"k": "setslice", "t": "note", "sl": [1, 2, None], "rows": [[I(7), S(v[8])], [I(8), S(v[9])]]},
                {"k": "commit"},
                {"k": "reopen"},
                {"k": "process", "b": 0, "gz": gz, "script": script},
                {"k": "commit"},
                {"k": "reopen"},
            ]
            yield {"kind": "linebreak", "tables": tables,
                   "steps": [with_obs(json.loads(json.dumps(st)), gen, 4) for st in steps]}


def alias_cases():
    """deterministic block: the same Row object held at several positions / in several tables / by another
    TestSuite, then an edit through one holder; rows are values, so every other holder must be unchanged"""
    gen = Gen(__import__("random").Random(77))
    S = lambda x: {"str": cps(x)}
    I = lambda n: {"int": str(n)}
    it = lambda i, x: [I(i), S(x), None]
    nt = lambda i, x: [I(i), S(x)]
    U = lambda col, v: [[col, S(v)]]
    item3 = [it(1, "s1"), it(2, "s2"), it(3, "s3")]
    note2 = [nt(1, "n1"), nt(2, "n2")]
    tail = [{"k": "commit"}, {"k": "reopen"}]
    hists = [
        # a pending row appended a second time, then updated through the last position
        [{"k": "append", "t": "item", "row": it(4, "p4")},
         {"k": "alias", "t": "item", "src": "item", "op": "append", "si": -1},
         {"k": "update", "t": "item", "i": -1, "data": U("i-input", "changed")}],
        # ... and through the first holder
        [{"k": "append", "t": "item", "row": it(4, "p4"), "form": "row"},
         {"k": "alias", "t": "item", "src": "item", "op": "append", "si": 3},
         {"k": "update", "t": "item", "i": 3, "data": U("i-input", "changed")},
         {"k": "setitem", "t": "item", "i": -1, "row": it(9, "z")}],
        # stored rows extended back into the table, then updates on the stored and on the new positions
        [{"k": "alias", "t": "item", "src": "item", "op": "extend", "ssl": [0, 2, None]},
         {"k": "update", "t": "item", "i": 0, "data": U("i-input", "u0")},
         {"k": "update", "t": "item", "i": -1, "data": U("i-input", "u-1")},
         {"k": "update", "t": "item", "i": 3, "data": [["i-id", I(77)]]}],
        # pending rows extended again (same objects at 3,4 and 5,6), every edit kind on one holder
        [{"k": "extend", "t": "item", "rows": [it(4, "p4"), it(5, "p5")], "form": "tuple"},
         {"k": "alias", "t": "item", "src": "item", "op": "extend", "ssl": [3, 5, None]},
         {"k": "update", "t": "item", "i": 3, "data": U("i-input", "u3")},
         {"k": "update", "t": "item", "i": -1, "data": U("i-input", "u6")},
         {"k": "setitem", "t": "item", "i": 4, "row": it(8, "new")},
         {"k": "setslice", "t": "item", "sl": [5, 6, None], "rows": []}],
        # item assignment / slice assignment with rows of the table itself
        [{"k": "append", "t": "item", "row": it(4, "p4")},
         {"k": "alias", "t": "item", "src": "item", "op": "setitem", "si": -1, "i": 0},
         {"k": "update", "t": "item", "i": 0, "data": U("i-input", "u0")},
         {"k": "alias", "t": "item", "src": "item", "op": "setslice", "ssl": [2, None, None], "sl": [1, 2, None]},
         {"k": "update", "t": "item", "i": -1, "data": U("i-input", "ulast")},
         {"k": "update", "t": "item", "i": 1, "data": U("i-input", "u1")}],
        # the same Row object several times in one extend / slice assignment
        [{"k": "extend", "t": "item", "rows": [it(4, "d"), it(4, "d"), it(4, "d")], "form": "row", "dup": True},
         {"k": "update", "t": "item", "i": -2, "data": U("i-input", "mid")},
         {"k": "setslice", "t": "item", "sl": [0, 2, None], "rows": [it(6, "e"), it(6, "e")], "form": "row", "dup": True},
         {"k": "update", "t": "item", "i": 0, "data": U("i-input", "first")}],
        # rows travel to the twin relation and back; edits and clear on one side
        [{"k": "append", "t": "note", "row": nt(3, "p3")},
         {"k": "alias", "t": "memo", "src": "note", "op": "extend", "ssl": [None, None, None]},
         {"k": "update", "t": "memo", "i": -1, "data": U("n-text", "memo-edit")},
         {"k": "update", "t": "note", "i": -1, "data": U("n-text", "note-edit")},
         {"k": "alias", "t": "note", "src": "memo", "op": "append", "si": 0},
         {"k": "update", "t": "note", "i": -1, "data": U("n-text", "back")},
         {"k": "clear", "t": "note"},
         {"k": "commit"},
         {"k": "update", "t": "memo", "i": 0, "data": U("n-text", "after")}],
        # another TestSuite takes the pending rows and edits its own table
        [{"k": "extend", "t": "item", "rows": [it(4, "p4"), it(5, "p5")]},
         {"k": "foreign", "t": "item", "ssl": [None, None, None], "i": -1, "data": U("i-input", "foreign"), "assign": True},
         {"k": "foreign", "t": "item", "ssl": [3, None, None], "i": 3, "data": U("i-input", "foreign2")},
         {"k": "update", "t": "item", "i": -1, "data": U("i-input", "mine")}],
        # the caller keeps and changes its list objects; the same list object extended twice
        [{"k": "extend", "t": "item", "rows": [it(4, "a"), it(5, "b")], "form": "list"},
         {"k": "extend", "t": "item", "rows": [it(4, "a"), it(5, "b")], "form": "list", "same_obj": True, "mutate": True},
         {"k": "update", "t": "item", "i": 3, "data": U("i-input", "u3")},
         {"k": "setslice", "t": "item", "sl": [0, 1, None], "rows": [it(7, "x"), it(8, "y")], "form": "list", "mutate": True}],
        # tuples, lists and Row objects as values of every writing operation
        [{"k": "append", "t": "note", "row": nt(3, "t"), "form": "tuple"},
         {"k": "append", "t": "note", "row": nt(4, "r"), "form": "row"},
         {"k": "setitem", "t": "note", "i": 0, "row": nt(5, "r0"), "form": "row"},
         {"k": "setitem", "t": "note", "i": 1, "row": nt(6, "t1"), "form": "tuple"},
         {"k": "setslice", "t": "note", "sl": [None, None, -1], "rows": [nt(7, "a"), nt(8, "b"), nt(9, "c"), nt(10, "d")], "form": "row"},
         {"k": "update", "t": "note", "i": 2, "data": U("n-text", "u2")}],
    ]
    for gz in (False, True):
        for h in hists:
            steps = [with_obs(json.loads(json.dumps(st)), gen, 5) for st in h + tail]
            yield {"kind": "alias", "tables": {"item": {"init": item3, "gz": gz}, "note": {"init": note2, "gz": gz}},
                   "steps": steps}


def negstep_cases():
    """deterministic block: negative steps with |step| >= 2 over spans the step does not divide, for reading
    and for assignment, on stored rows, pending rows and a mix; and process() with the default buffer size
    while non-output relations hold pending rows"""
    gen = Gen(__import__("random").Random(22))
    S = lambda x: {"str": cps(x)}
    I = lambda n: {"int": str(n)}
    nt = lambda i, x: [I(i), S(x)]
    slices = [[None, None, -2], [3, 0, -2], [None, None, -3], [-1, -5, -2], [4, 0, -3], [3, None, -2], [None, 1, -2],
              [-2, None, -2], [10, -10, -4], [2, 3, -2]]
    for nstored, npend in ((4, 0), (5, 0), (2, 2), (0, 4), (3, 2)):
        init = [nt(i + 1, "s%d" % (i + 1)) for i in range(nstored)]
        pend = [nt(50 + i, "p%d" % i) for i in range(npend)]
        n = nstored + npend
        for gz in (False, True):
            if gz and nstored == 0:
                continue
            steps = []
            if pend:
                steps.append({"k": "extend", "t": "note", "rows": pend})
            for j, sl in enumerate(slices):
                cnt = len(range(*slice(*sl).indices(n)))
                rows = [nt(100 + 10 * j + q, "v%d.%d" % (j, q)) for q in range(cnt)]
                st = {"k": "setslice", "t": "note", "sl": sl, "rows": rows}
                steps.append(st)
                if j % 4 == 3:
                    steps.append({"k": "setslice", "t": "note", "sl": sl, "rows": rows + [nt(999, "extra")]})  # ValueError
                    steps.append({"k": "commit"})
            steps += [{"k": "commit"}, {"k": "reopen"}]
            out = []
            for st in steps:
                st = with_obs(json.loads(json.dumps(st)), gen, n)
                if "t" in st:
                    st["qs"] = [{"t": "note", "q": "slice", "sl": q} for q in slices] + st["qs"][-1:]
                out.append(st)
            yield {"kind": "negstep", "tables": {"note": {"init": init, "gz": gz}}, "steps": out}
    # default buffer size, pending rows in relations the mapper does not write
    it = lambda i, x: [I(i), S(x), None]
    script = [{"results": [{"result-id": I(0), "mrs": S("m")}, {"result-id": I(1), "mrs": S("n")}],
               "run": {"run-id": I(1), "end": {"date": [2018, 6, 6, 12, 20, 49]}}}]
    for gz in (False, True):
        steps = [{"k": "append", "t": "item", "row": it(4, "pending item")},
                 {"k": "append", "t": "note", "row": nt(3, "pending note")},
                 {"k": "extend", "t": "memo", "rows": [nt(1, "m1"), nt(2, "m2")]},
                 {"k": "append", "t": "parse", "row": [I(9), I(9), I(9), I(9), I(9), S("old")]},
                 {"k": "process", "b": None, "gz": gz, "script": script},
                 {"k": "commit"}, {"k": "commit"}, {"k": "reopen"}]
        yield {"kind": "defaultbuffer",
               "tables": {"item": {"init": [it(1, "a"), it(2, "b"), it(3, "c")], "gz": gz},
                          "note": {"init": [nt(1, "n1"), nt(2, "n2")], "gz": gz}},
               "steps": [with_obs(json.loads(json.dumps(st)), gen, 4) for st in steps]}


def trim_obs(case):
    """suite-level steps observe only the relations the history can touch (its stored relations, the targets
    of its steps, their twins, and item + the processor's output relations if it processes)"""
    used = set(case["tables"])
    for st in case["steps"]:
        for key in ("t", "src"):
            if key in st:
                used.add(st[key])
        if st["k"] == "process":
            used.update(AFFECTED)
            used.add("item")
            if st.get("sel") and st["sel"][0] in TINDEX:
                used.add(st["sel"][0])
    used.update(TWINS[n] for n in list(used) if n in TWINS)
    for st in case["steps"]:
        if "t" not in st or st["k"] == "fcommit":
            st["ot"] = [n for n in st["ot"] if n in used]
            st["qs"] = [q for q in st["qs"] if q["t"] in used]
    return case


def lifetime_cases():
    """deterministic block: (a) a FRESH TestSuite edits a relation and COMMITS, then the main suite reloads
    or is re-opened and must show the committed list (main had the relation loaded, with and without
    pending changes of its own); (b) iterators obtained before an append/extend and consumed after;
    (c) process(gzip=True) over leftover plain rows when the run produces nothing for an affected relation.
    (Several iterators alive at once are probed on every observed table after every step.)"""
    gen = Gen(__import__("random").Random(41))
    S = lambda x: {"str": cps(x)}
    I = lambda n: {"int": str(n)}
    it = lambda i, x: [I(i), S(x), None]
    nt = lambda i, x: [I(i), S(x)]
    item3 = [it(1, "s1"), it(2, "s2"), it(3, "s3")]
    note2 = [nt(1, "n1"), nt(2, "n2")]
    edits = [
        [{"k": "append", "row": it(4, "foreign")}],
        [{"k": "update", "i": 0, "data": [["i-input", S("edited")]]}],
        [{"k": "setslice", "sl": [0, 1, None], "rows": []}],
        [{"k": "setslice", "sl": [1, None, None], "rows": []}, {"k": "append", "row": it(9, "z")}],
        [{"k": "clear"}],
        [{"k": "clear"}, {"k": "append", "row": it(7, "only")}],
    ]
    for gz in (False, True):
        for ei, ops in enumerate(edits):
            for then in ("reload", "reopen"):
                pre = []
                if ei % 3 == 1:
                    pre = [{"k": "append", "t": "item", "row": it(50, "mine, pending")}]      # discarded by reload
                elif ei % 3 == 2:
                    pre = [{"k": "append", "t": "note", "row": nt(50, "pending elsewhere")}]
                steps = pre + [{"k": "fcommit", "t": "item", "ops": ops, "then": then},
                               {"k": "append", "t": "item", "row": it(60, "after")}, {"k": "commit"}, {"k": "reopen"}]
                yield {"kind": "fcommit", "tables": {"item": {"init": item3, "gz": gz}, "note": {"init": note2, "gz": gz}},
                       "steps": [with_obs(json.loads(json.dumps(st)), gen, 4) for st in steps]}
    for gz in (False, True):
        steps = [{"k": "append", "t": "item", "row": it(4, "a"), "hold": True},
                 {"k": "extend", "t": "item", "rows": [it(5, "b"), it(6, "c")], "hold": True},
                 {"k": "commit"},
                 {"k": "append", "t": "item", "row": it(7, "d"), "hold": True},
                 {"k": "clear", "t": "item"},
                 {"k": "append", "t": "item", "row": it(8, "e"), "hold": True},
                 {"k": "extend", "t": "item", "rows": [it(9, "f"), it(9, "bad", )[:2]], "hold": True},
                 {"k": "commit"}, {"k": "reopen"}]
        yield {"kind": "heldit", "tables": {"item": {"init": item3, "gz": gz}},
               "steps": [with_obs(json.loads(json.dumps(st)), gen, 5) for st in steps]}
    # leftover rows in relations the new run writes nothing to
    ed = lambda i: [I(i), I(1), S("np"), None, None]
    for gz_store in (False, True):
        steps = [{"k": "process", "b": 2, "gz": True, "script": [{"results": []}]},
                 {"k": "commit"}, {"k": "reopen"}]
        yield {"kind": "leftover",
               "tables": {"item": {"init": item3, "gz": False},
                          "edge": {"init": [ed(1), ed(2)], "gz": gz_store},
                          "result": {"init": [[I(1), I(0), S("m"), None]], "gz": gz_store},
                          "run": {"init": [[I(0), None, S("p"), None]], "gz": gz_store}},
               "steps": [with_obs(json.loads(json.dumps(st)), gen, 4) for st in steps]}


def source_profile(gen, rng):
    """a read-only second profile: items, parse rows (parse-id -> i-id; a repeated parse-id, the last one wins;
    not every parse-id of the results is listed), result rows keyed by parse-id only"""
    I = lambda n: {"int": str(n)}
    S = lambda x: {"str": cps(x)}
    items = [[I(i), S(gen.text() or "x"), None] for i in rng.sample([1, 2, 3, 5, 8, 13, -4], rng.choice([0, 1, 2, 3]))]
    pids = rng.sample([0, 1, 2, 3, 7, 20], rng.choice([1, 2, 3, 4]))
    parse = [[I(p), I(0), I(rng.choice([1, 2, 3, 40, 5, -2])), I(1), None, None] for p in pids]
    if parse and rng.random() < 0.5:
        parse.append([I(pids[0]), I(0), I(99), I(1), None, None])        # the same parse-id again
    rp = [rng.choice(pids + [55, 56]) for _ in range(rng.choice([0, 1, 2, 3, 4]))]
    result = [[I(p), I(j), S("mrs%d" % j), None] for j, p in enumerate(rp)]
    return {"item": {"init": items, "gz": bool(items) and rng.random() < 0.3},
            "parse": {"init": parse, "gz": rng.random() < 0.3},
            "result": {"init": result, "gz": bool(result) and rng.random() < 0.3}}


def plumbing_cases():
    """deterministic block (round 6): (a) process() with every selector variant — default, the default spelled
    out, another column, another relation (no i-id among its keys), a relation processing clears, unknown
    relation, unknown column, a column of another relation — each on a profile with PENDING rows in item, note and
    parse, followed by commit/reopen: a rejected selector must leave every table (pending rows included) as it was;
    (b) an iterator held across every kind of table operation; (c) the select wrappers (TestSuite.select_from with
    tuple / list / None, cast=False through both paths) after every step; (d) a relation that is not in the schema"""
    gen = Gen(__import__("random").Random(66))
    S = lambda x: {"str": cps(x)}
    I = lambda n: {"int": str(n)}
    it = lambda i, x: [I(i), S(x), {"date": [2024, 2, 29, 0, 0, 0]} if i % 2 else None]
    nt = lambda i, x: [I(i), S(x)]
    item3 = [it(3, "s3"), it(1, "s1"), it(2, "s2")]
    note2 = [nt(1, "n1"), nt(2, "n 2")]
    script = [{"results": [{"result-id": I(0), "mrs": S("m"), "flags": {"sexp": [[":ad", 1]]}, "tree": S("(S)")}],
               "total": I(3), "first": I(7),
               "chart": [{"e-id": I(1), "e-name": S("np"), "e-daughters": {"sexp": [1, 2]}, "e-alternates": {"sexp": []}},
                         {"e-id": I(2), "e-name": S("vp"), "e-score": I(1), "e-daughters": {"sexp": []},
                          "e-alternates": {"sexp": [[3, 4], [":a"]]}}],
               "run": {"run-id": I(1), "platform": S("p"), "end": {"date": [2018, 6, 6, 12, 20, 49]}}},
              {"results": [], "error": S("no parse")}]
    wrappers = lambda name: [{"t": name, "q": "selfrom", "cols": []},
                             {"t": name, "q": "selfrom", "cols": [FIELDS[name][-1][0]]},
                             {"t": name, "q": "selfrom", "cols": [FIELDS[name][1][0], FIELDS[name][0][0]]},
                             {"t": name, "q": "selfrom", "cols": ["zz"]},
                             {"t": name, "q": "selraw", "cols": [f for f, _ in FIELDS[name]]},
                             {"t": name, "q": "selraw", "cols": [FIELDS[name][-1][0], FIELDS[name][0][0], FIELDS[name][-1][0]]},
                             {"t": name, "q": "selraw", "cols": [FIELDS[name][0][0], "zz"]}]
    sels = [None, ["item", "i-input"], ["item", "i-date"], ["note", "n-text"], ["memo", "n-id"], ["parse", "error"],
            ["result", "mrs"], ["nosuch", "i-input"], ["item", "n-text"], ["item", ""], ["", "i-input"]]
    for j, sel in enumerate(sels):
        gz = bool(j % 2)
        steps = [{"k": "append", "t": "item", "row": it(9, "pending item")},
                 {"k": "append", "t": "note", "row": nt(9, "pending note")},
                 {"k": "append", "t": "parse", "row": [I(7), I(7), I(7), I(1), I(1), S("old, pending")]},
                 {"k": "setitem", "t": "item", "i": 0, "row": it(5, "changed")},
                 {"k": "process", "b": [0, 2, 1000, None][j % 4], "gz": gz, "script": script, "sel": sel, "nogz": True,
                  "fm": "shared"},
                 {"k": "commit"},
                 # the same mapper object again (its state must have been reset by cleanup), default selector
                 {"k": "process", "b": 1, "gz": gz, "script": script[:1], "fm": "shared"},
                 {"k": "commit"}, {"k": "reopen"}]
        out = [with_obs(json.loads(json.dumps(st)), gen, 4) for st in steps]
        yield {"kind": "selector", "steps": out, "mk": [None, "schema_dict", "schema_path", "virtual"][j % 4],
               "tables": {"item": {"init": item3, "gz": gz}, "note": {"init": note2, "gz": gz},
                          "parse": {"init": [[I(1), I(0), I(1), I(1), I(2), None]], "gz": False},
                          "result": {"init": [[I(1), I(0), S("old"), None]], "gz": gz},
                          "run": {"init": [], "gz": False, "nofile": True},
                          "memo": {"init": [], "gz": False, "nofile": bool(j % 3)}}}
    # process(source=another profile): results keyed by parse-id only (FieldMapper._i_id_map: hit, repeated parse-id,
    # miss), parse rows (i-id among the keys), items; pending rows here; the source must stay untouched
    src = {"item": {"init": [it(11, "src item a"), it(12, "src item b")], "gz": False},
           "parse": {"init": [[I(0), I(0), I(11), I(1), None, None], [I(3), I(0), I(12), I(1), None, None],
                              [I(0), I(0), I(40), I(1), None, None]], "gz": True},
           "result": {"init": [[I(3), I(0), S("m3"), None], [I(0), I(0), S("m0"), None], [I(0), I(1), S("m0b"), None],
                               [I(77), I(0), S("orphan"), None]], "gz": False}}
    for j, sel in enumerate([["result", "mrs"], ["parse", "error"], None, ["result", "nosuch"]]):
        gz = bool(j % 2)
        steps = [{"k": "append", "t": "item", "row": it(9, "pending item")},
                 {"k": "append", "t": "result", "row": [I(1), I(5), S("pending result"), None]},
                 {"k": "process", "b": [0, 1000, 2, 1][j], "gz": gz, "script": script, "sel": sel, "src": True,
                  "fm": [None, "fresh", None, None][j]},
                 {"k": "commit"}, {"k": "reopen"}]
        yield {"kind": "source", "source": src, "steps": [with_obs(json.loads(json.dumps(st)), gen, 4) for st in steps],
               "tables": {"item": {"init": item3, "gz": gz},
                          "result": {"init": [[I(1), I(0), S("old"), None]], "gz": gz}}}
    for gz in (False, True):
        for mixed in (False, True):
            pre = [{"k": "extend", "t": "item", "rows": [it(7, "p7"), it(8, "p8")]}] if mixed else []
            ops = [{"k": "setitem", "t": "item", "i": 2, "row": it(20, "x")},
                   {"k": "setitem", "t": "item", "i": 0, "row": it(21, "first, already yielded")},
                   {"k": "update", "t": "item", "i": -1, "data": [["i-input", S("u")]]},
                   {"k": "setslice", "t": "item", "sl": [1, 2, None], "rows": [it(22, "a"), it(23, "b")]},
                   {"k": "setslice", "t": "item", "sl": [0, 2, None], "rows": []},
                   {"k": "setslice", "t": "item", "sl": [None, None, -1], "rows": None},
                   {"k": "alias", "t": "item", "src": "item", "op": "extend", "ssl": [None, None, 2]},
                   {"k": "alias", "t": "item", "src": "item", "op": "setitem", "si": 0, "i": -1},
                   {"k": "append", "t": "item", "row": it(24, "z")},
                   {"k": "extend", "t": "item", "rows": [it(25, "y"), it(26, "bad")[:1], it(27, "never")]},
                   {"k": "nosuch", "t": "item", "row": it(28, "w")},
                   {"k": "clear", "t": "item"},
                   {"k": "append", "t": "item", "row": it(29, "after clear")},
                   {"k": "commit"}, {"k": "reopen"}]
            n = 3 + (2 if mixed else 0)
            out = []
            for st in pre + ops:
                st = json.loads(json.dumps(st))
                if st.get("rows", 0) is None:      # reverse the whole table by an extended-slice assignment
                    st["rows"] = [it(40 + q, "r%d" % q) for q in range(n)]
                if st["k"] in HOLD_KINDS:
                    st["hold"] = True
                st = with_obs(st, gen, 5)
                if "t" in st:
                    st["qs"] = st["qs"][:3] + wrappers("item")
                out.append(st)
                if st["k"] == "setslice" and st["sl"][2] is None:
                    n += len(st["rows"]) - len(range(*slice(*st["sl"]).indices(n)))
            yield {"kind": "plumbing", "tables": {"item": {"init": item3, "gz": gz}}, "steps": out}


def nonl_cases():
    """deterministic block (F61, fixed by b478bc1): a plain relation file whose last line lacks the final newline
    (1, 2, 3 rows; also the empty file, which counts as terminated) x histories that append / extend / assign /
    commit / reload / involve a second suite / process; every history ends with commit, commit, reopen"""
    gen = Gen(__import__("random").Random(61))
    S = lambda x: {"str": cps(x)}
    I = lambda n: {"int": str(n)}
    nt = lambda i, x: [I(i), S(x)]
    it = lambda i, x: [I(i), S(x), None]
    A = lambda i: {"k": "append", "t": "note", "row": nt(i, "a%d" % i)}
    hists = [
        [A(10)],
        [{"k": "extend", "t": "note", "rows": [nt(11, "e1"), nt(12, "e2")]}],
        [A(10), {"k": "commit"}, A(13)],
        [{"k": "setitem", "t": "note", "i": -1, "row": nt(14, "set")}],
        [{"k": "setitem", "t": "note", "i": -1, "row": nt(14, "set")}, A(15)],
        [A(10), {"k": "reload"}, A(16)],
        [{"k": "reopen"}, A(17), {"k": "commit"}, {"k": "extend", "t": "note", "rows": [nt(18, "x")]}],
        [{"k": "fcommit", "t": "note", "ops": [{"k": "append", "row": nt(19, "foreign")}], "then": "reload"}, A(20)],
        [A(21), {"k": "fcommit", "t": "note", "ops": [{"k": "append", "row": nt(22, "foreign")}], "then": "reopen"}, A(23)],
        [{"k": "append", "t": "item", "row": it(24, "item too")}, A(25)],
        [{"k": "append", "t": "item", "row": it(26, "in")},
         {"k": "process", "b": 1000, "gz": False, "nogz": True,
          "script": [{"results": [{"result-id": I(0), "mrs": S("m")}]}]}, A(27)],
        [{"k": "setslice", "t": "note", "sl": [None, None, None], "rows": []}, A(28)],
    ]
    tail = [{"k": "commit"}, {"k": "commit"}, {"k": "reopen"}]
    for n in (1, 2, 3, 0):
        init = [nt(i + 1, "s%d" % (i + 1)) for i in range(n)]
        for hi, h in enumerate(hists):
            if n == 0 and hi in (3, 4):
                continue
            tables = {"note": {"init": init, "gz": False, "nonl": True},
                      "item": {"init": [it(1, "i1")], "gz": False, "nonl": bool(hi % 2)}}
            yield {"kind": "nonl", "tables": tables,
                   "steps": [with_obs(json.loads(json.dumps(st)), gen, n + 1) for st in h + tail]}


def negindex_cases():
    """t[i] = row below -len (F31, fixed by d65eea1: must be an IndexError like a list)"""
    gen = Gen(__import__("random").Random(31))
    for n in (1, 2, 3):
        for i in range(-2 * n - 1, -n + 1):
            init = gen.rows("item", n)
            steps = [with_obs({"k": "setitem", "t": "item", "i": i, "row": gen.row("item")}, gen, n),
                     with_obs({"k": "commit"}, gen, n)]
            yield {"kind": "negindex", "tables": {"item": {"init": init, "gz": False}}, "steps": steps}


# ---------------------------------------------------------------------------------------------

class C10(Check):
    pid = "C10"
    props_modules = ["Verif.C10.Props", "Verif.C10.ComposeProps", "Verif.C10.IterProps"]
    quick_cases = 250
    search_budget = {"quick": 200, "thorough": 5000}
    thorough_cases = 3000
    rule = ("one case = one history over a profile with six relations (item, note, parse, result, run, edge), "
            "0-6 initially stored rows per used relation, plain or gzip; rows carry a unique first cell and "
            "typed values (int, str incl. @ newline backslash and - in a deterministic block of 22 histories per run "
            "plus ~30% of random strings - each of CR VT FF FS GS RS NEL U+2028 U+2029 NUL and an astral "
            "character alone/doubled/at start/at end/next to newline, @, backslash, in middle and last columns; "
            "date, None); ops append/extend/setitem/"
            "setslice(start,stop in -n-2..n+2 or None, step in -8..8 or None)/update/clear/commit/reload/"
            "reopen/process(scripted processor, buffer 0..beyond the produced rows, gzip or not); after every "
            "step len, iteration, every index -n-1..n, 4+ slices, a column selection, in_transaction, the "
            "relation file and a fresh TestSuite are observed.  Bounded-exhaustive: all histories of <=2 "
            "(quick) / all <=2 plus 3 400 sampled of length 3 (thorough) ops from a 24-op menu on 3 stored rows, plain and gzip alternating, "
            "followed by commit, commit, reopen.  Round 6: a deterministic block of 15 histories per run with process(selector=) "
            "in 11 variants (default, spelled out, other column, other relation, a relation processing clears, unknown "
            "relation/column) over pending rows, one FieldMapper object shared by successive process() calls, relations "
            "without a file, an iterator held across every kind of table operation, TestSuite.select_from / "
            "select(cast=False) after every step, a relation that is not in the schema; the same dimensions at random "
            "(selector ~1/2 of process steps, fieldmapper=None/fresh/shared, hold 20% of table operations); the last "
            "row of every observed table is read through the whole Row interface.  Round 7: process(source=a second, "
            "read-only profile of the same schema) in 4 deterministic histories per run and ~35% of the process cases: "
            "inputs = the source's results (keyed by parse-id only: FieldMapper._i_id_map with hit / repeated parse-id / "
            "miss), parse rows or items; the source must be unchanged afterwards.  F61: 46 deterministic histories per run "
            "on plain relation files whose last line lacks the final newline (1/2/3 rows; the empty file) x append / "
            "extend / setitem / commit / reload / second suite / process, and ~20% of the random plain tables.  "
            "A case is non-trivial if it has a step; distinct by JSON text.")
    assumptions = [
        "abstract model (Props.lean): a relation file is the list of its rows, gzip a flag, the record codec the "
        "identity; COMPOSED model (Compose.lean, ComposeProps.lean): the files are C09's (tsdb.write, plain/"
        "compressed, one physical form), records C08's (escape/join/split/cast/format); bridge theorems: on "
        "well-formed records the composed table is the abstract one; the driver runs both and the raw lines and "
        "the physical form of every observed relation are compared with the real files after every step",
        "well-formed record = right width, every cell an integer in an :integer column, None / a non-empty "
        "string / a calendar-valid date-time in a column of its type (no coded default), interned once",
        "a fresh TestSuite / not yet loaded table is modelled as a synchronized table",
        "FieldMapper.map/cleanup, make_record and the _add_row flush loop are modelled in Lean (Mapper.lean) "
        "for a scripted parse processor; not modelled (generators stay away): responses with tokens, results "
        "with flags, edges with daughters/alternates, a run without 'end' (datetime.now()), input rows keyed by "
        "parse-id only (_i_id_map, transfer/generate tasks); integer cells use a fixed coding shared by harness "
        "and model (0 None, 4n+1 / 4n+2 integers, 4k+3 interned other values)",
        "a `foreign` step (another TestSuite takes rows of this one, edits ITS table, never commits) is a no-op in "
        "the plain-list spec and is sent to the model as `noop`; `fcommit` (the other suite commits, this one "
        "reloads / is re-opened) is modelled: reload-all, the edits, commit-all",
        "oracle-only observations (not compared with the model): several iterators alive at once (iterator-lifetime "
        "probes), the Row interface probe (position / name / slice / equality), Row-object aliasing; since round 6 the "
        "fresh TestSuite's view, the processor calls (datum, all keys) and iterators held across ANY table operation are "
        "also computed by the model (Iter.lean: freshView, processCalls, heldIter) and compared; the oracle judges a held "
        "iterator only across append/extend (rows before or after accepted), the model says exactly which; the flag `same` "
        "in the composed observation is computed by the driver (composed bookkeeping = abstract table) and expected true",
        "select(cast=False) / select_from(cast=False): the raw column text is mapped by the harness to the cell code of "
        "the value it stands for before it is compared with the model's projection; the oracle compares the text itself",
        "during process the real tables are observed from the callback (once per item, before its rows are "
        "added) and compared with the model's state after the same number of items",
        "after commit the compressed/plain form follows the code's rule (compressed stays compressed unless "
        "empty); the oracle only requires exactly one physical form, the form itself is compared with the model",
    ]
    trusted_base = ["hand-written model lean/Verif/C10/Model.lean, tied to delphin.itsdb/tsdb by the correspondence run",
                    "Verif.Common.Py slice model (sliceIndices/rangeList/setSliceSimple)"]

    # ---- pins: constants of the anchored code that the model / oracle hand-code an equivalent of
    PINNED = [("TableInit", "Table.__init__"), ("InTransaction", "Table._in_transaction"),
              ("SyncWithFile", "Table._sync_with_file"), ("TableIter", "Table.__iter__"),
              ("IterSlice", "Table._iterslice"), ("GetItem", "Table._getitem"),
              ("TableGetitem", "Table.__getitem__"), ("SetItem", "Table.__setitem__"),
              ("LoadRows", "Table._load_rows"), ("TableLen", "Table.__len__"), ("Clear", "Table.clear"),
              ("Append", "Table.append"), ("Extend", "Table.extend"), ("Update", "Table.update"),
              ("Select", "Table.select"), ("EnumRows", "Table._enum_rows"),
              ("RowInit", "Row.__init__"), ("RowGetitem", "Row.__getitem__"), ("RowIter", "Row.__iter__"),
              ("RowEq", "Row.__eq__"),
              ("SuiteInit", "TestSuite.__init__"), ("SuiteInTransaction", "TestSuite.in_transaction"),
              ("SuiteGetitem", "TestSuite.__getitem__"), ("SelectFrom", "TestSuite.select_from"),
              ("Reload", "TestSuite.reload"), ("Commit", "TestSuite.commit"), ("Process", "TestSuite.process"),
              ("AddRow", "_add_row"), ("EndsWithNewline", "_ends_with_newline"),
              ("MapperInit", "FieldMapper.__init__"), ("MapperMap", "FieldMapper.map"),
              ("MapParse", "FieldMapper._map_parse"), ("MapResult", "FieldMapper._map_result"),
              ("MapEdge", "FieldMapper._map_edge"), ("MapperCleanup", "FieldMapper.cleanup")]

    def tables(self):
        """Literals (string/number/None/bool, keyword arguments with literal values), comparison / boolean /
        unary / arithmetic operators and the names of called builtins min/max/len/enumerate/reversed/sorted
        of the anchored functions, in source order, read from the live module through its AST.  Left out:
        docstrings, annotations, everything inside `raise`, `warnings.warn`, `logger.*` and `assert`
        (message texts).  Multi-line string literals are white-space normalised (they are only `.split()`).
        Plus default argument values, the FieldMapper key lists of a live instance and module constants."""
        import ast
        import inspect
        import textwrap
        from .common import tables as T

        def resolve(path):
            obj = itsdb
            for part in path.split("."):
                obj = inspect.getattr_static(obj, part) if isinstance(obj, type) else getattr(obj, part)
            if isinstance(obj, property):
                obj = obj.fget
            return obj
        builtins_pinned = {"min", "max", "len", "enumerate", "reversed", "sorted", "any", "all", "list", "range",
                           "_ends_with_newline"}

        def consts(fn):
            fdef = ast.parse(textwrap.dedent(inspect.getsource(fn))).body[0]
            doc = ast.get_docstring(fdef, clean=False)
            out = []

            def walk(node, kw=None):
                if isinstance(node, (ast.Raise, ast.Assert)):
                    return
                if (isinstance(node, ast.Call) and isinstance(node.func, ast.Attribute)
                        and (node.func.attr == "warn" or (isinstance(node.func.value, ast.Name)
                                                          and node.func.value.id == "logger"))):
                    return
                if isinstance(node, ast.Constant):
                    val = node.value
                    if isinstance(val, str) and val == doc and kw is None:
                        return
                    if isinstance(val, str) and "\n" in val and len(val) > 20:
                        val = " ".join(val.split())
                    out.append(("%s=%r" % (kw, val)) if kw else (val if isinstance(val, str) else repr(val)))
                    return
                if isinstance(node, ast.keyword):
                    walk(node.value, node.arg if isinstance(node.value, ast.Constant) else None)
                    return
                if isinstance(node, ast.Compare):
                    out.extend("op:" + type(o).__name__ for o in node.ops)
                if isinstance(node, (ast.BoolOp, ast.UnaryOp, ast.BinOp, ast.AugAssign)):
                    out.append("op:" + type(node.op).__name__)
                if isinstance(node, ast.Call) and isinstance(node.func, ast.Name) and node.func.id in builtins_pinned:
                    out.append("call:" + node.func.id)
                for ch in ast.iter_child_nodes(node):
                    if isinstance(node, (ast.FunctionDef, ast.AsyncFunctionDef)) and (
                            ch is node.args or ch is node.returns or ch in node.decorator_list):
                        continue
                    if isinstance(ch, ast.AnnAssign):
                        if ch.value is not None:
                            walk(ch.value)
                        continue
                    walk(ch)
            walk(fdef)
            return out
        lit = T.lean_strlit
        lines = []
        defaults = []
        for lean_name, path in self.PINNED:
            fn = resolve(path)
            lines.append("def c10%sConsts : List String := [%s]" % (lean_name, ", ".join(lit(c) for c in consts(fn))))
            defaults.append((path, repr(fn.__defaults__), repr(fn.__kwdefaults__)))
        lines.append("def c10Defaults : List (String × String × String) := [%s]"
                     % ", ".join("(%s, %s, %s)" % (lit(a), lit(b), lit(c)) for a, b, c in defaults))
        fm = itsdb.FieldMapper()
        for nm, val in (("ParseKeys", fm._parse_keys), ("ResultKeys", fm._result_keys), ("RunKeys", fm._run_keys),
                        ("AffectedTables", fm.affected_tables)):
            lines.append("def c10%s : List String := [%s]" % (nm, ", ".join(lit(x) for x in val)))
        lines.append("def c10TaskSelectors : List (String × String × String) := [%s]" % ", ".join(
            "(%s, %s, %s)" % (lit(k), lit(v[0]), lit(v[1])) for k, v in itsdb._default_task_selectors.items()))
        lines.append("def c10ErrorBases : List String := [%s]"
                     % ", ".join(lit(c.__name__) for c in itsdb.ITSDBError.__mro__[:3]))
        return lines

    def setup(self):
        self.base = tempfile.mkdtemp(prefix="c10-", dir="/var/tmp")
        self._sim = {}

    def teardown(self):
        shutil.rmtree(getattr(self, "base", ""), ignore_errors=True)

    # ---- cases
    def cases(self, rng, tier, n):
        for case in self._cases(rng, tier, n):
            yield trim_obs(case)

    def _cases(self, rng, tier, n):
        yield from negindex_cases()
        yield from linebreak_cases()
        yield from alias_cases()
        yield from negstep_cases()
        yield from lifetime_cases()
        yield from plumbing_cases()
        yield from nonl_cases()
        if tier == "quick":
            yield from exhaustive_cases(rng, 2)
        else:
            yield from exhaustive_cases(rng, 3, sample=4000)
        n_proc = n // 4
        n_long = n // 5
        for _ in range(n_proc):
            yield process_case(rng)
        for _ in range(n - n_proc - n_long):
            yield random_history(rng)
        for _ in range(n_long):
            yield random_history(rng, long=True)

    def search_cases(self, rng, tier, n, seeds):
        for _ in range(n):
            r = rng.random()
            if r < 0.3:
                yield trim_obs(process_case(rng))
            else:
                yield trim_obs(random_history(rng, long=r > 0.8))

    # ---- implementation
    def sim(self, case):
        key = id(case)
        hit = getattr(self, "_sim", {}).get(key)
        if hit is not None and hit[0] is case:
            return hit[1]
        s = simulate(case)
        if not hasattr(self, "_sim"):
            self._sim = {}
        if len(self._sim) > 50000:
            self._sim.clear()
        self._sim[key] = (case, s)
        return s

    def observe(self, ts, d, step, err):
        schema = ts.schema
        obs = {"e": err, "intx": bool(ts.in_transaction), "T": {}, "Q": [], "fresh": {}, "files": {}}
        for name in step.get("ot", []):
            t = ts[name]
            n = len(t)
            o = {"n": n,
                 "it": [trow(r) for r in t],
                 "gi": [_unwrap(guarded(lambda i=i: trow(t[i]))) for i in range(-n - 1, n + 1)],
                 "tx": bool(t._in_transaction)}
            o["IT"] = iter_probes(t, n)
            o["RA"] = row_api(t, n)
            t.close()
            tx, gzp = os.path.exists(os.path.join(d, name)), os.path.exists(os.path.join(d, name + ".gz"))
            obs["files"][name] = [tx, gzp]
            o["raw"] = raw_lines(d, name, tx, gzp)
            o["gz"] = bool(gzp and not tx)
            with tsdb.open(d, name) as fh:
                with warnings.catch_warnings():
                    warnings.simplefilter("ignore")
                    o["f"] = [trow(tsdb.split(line, schema[name])) for line in fh]
            obs["T"][name] = o
        for q in step.get("qs", []):
            t = ts[q["t"]]
            if q["q"] == "slice":
                obs["Q"].append(guarded(lambda: [trow(r) for r in t[sl_of(q["sl"])]]))
            elif q["q"] == "select":
                obs["Q"].append(guarded(lambda: [trow(r) for r in t.select(*q["cols"])]))
            elif q["q"] == "selfrom":
                # the TestSuite-level wrapper; `columns` as a tuple, a list, or None for "no names"
                cols = None if not q["cols"] else (tuple(q["cols"]) if len(q["cols"]) % 2 else list(q["cols"]))
                obs["Q"].append(guarded(lambda: [trow(r) for r in ts.select_from(q["t"], cols)]))
            elif q["q"] == "selraw":
                # cast=False: tuples of raw column text, through Table.select and through TestSuite.select_from
                rawc = lambda x: cps(x) if isinstance(x, str) else {"typed": type(x).__name__}
                a = guarded(lambda: [[rawc(x) for x in r] for r in t.select(*q["cols"], cast=False)])
                b = guarded(lambda: [[rawc(x) for x in r] for r in ts.select_from(q["t"], q["cols"], cast=False)])
                obs["Q"].append(a if a == b else {"err": "select/select_from differ"})
        fresh = itsdb.TestSuite(d)
        for name in step.get("ot", []):
            ft = fresh[name]
            obs["fresh"][name] = [trow(r) for r in ft]
            ft.close()
        return obs

    def impl(self, case):
        if not hasattr(self, "base"):
            self.setup()
        d = tempfile.mkdtemp(prefix="p", dir=self.base)
        try:
            schema = make_schema()
            mk = case.get("mk")
            keep = None
            mkerr = None
            if mk:
                # TestSuite.__init__ creates the profile: schema as a dict / as the path of a relations file /
                # a virtual (temporary-directory) suite; without a schema a new suite is an ITSDBError
                mkerr = guarded(lambda: itsdb.TestSuite(os.path.join(d, "new-without-schema")))
                shutil.rmtree(os.path.join(d, "new-without-schema"), ignore_errors=True)
                if mk == "virtual":
                    keep = itsdb.TestSuite(schema=schema)
                    shutil.rmtree(d, ignore_errors=True)
                    d = str(keep.path)
                elif mk == "schema_path":
                    aux = tempfile.mkdtemp(prefix="s", dir=self.base)
                    tsdb.write_schema(aux, schema)
                    keep = itsdb.TestSuite(os.path.join(d, "sub"), schema=os.path.join(aux, "relations"))
                    d = os.path.join(d, "sub")
                else:
                    keep = itsdb.TestSuite(d, schema=schema)
            else:
                tsdb.initialize_database(d, schema, files=True)
            for name, tab in case["tables"].items():
                rows = [[py_val(v) for v in r] for r in tab["init"]]
                if rows:
                    tsdb.write(d, name, rows, schema[name], gzip=bool(tab.get("gz")))
                    if tab.get("nonl") and not tab.get("gz"):
                        # a plain relation file whose last line lacks the final newline (hand-edited, other tools)
                        with open(os.path.join(d, name), "rb") as fh:
                            data = fh.read()
                        assert data.endswith(b"\n")
                        with open(os.path.join(d, name), "wb") as fh:
                            fh.write(data[:-1])
                elif tab.get("nofile") and not mk:
                    os.remove(os.path.join(d, name))      # a profile without a file for this relation
            src_ts = None
            if case.get("source") is not None:
                dsrc = tempfile.mkdtemp(prefix="q", dir=self.base)
                tsdb.initialize_database(dsrc, schema, files=True)
                for name, tab in case["source"].items():
                    rows = [[py_val(v) for v in r] for r in tab["init"]]
                    if rows:
                        tsdb.write(dsrc, name, rows, schema[name], gzip=bool(tab.get("gz")))
                src_ts = itsdb.TestSuite(dsrc)
            ts = itsdb.TestSuite(d)
            out = [self.observe(ts, d, {"ot": list(NAMES), "qs": []}, None)]
            out[0]["P"] = None
            out[0]["mkerr"] = mkerr
            last_rows = None
            shared_fm = None
            for st in case["steps"]:
                k = st["k"]
                calls = None
                held = None
                if k == "commit":
                    res = guarded(ts.commit)
                elif k == "reload":
                    res = guarded(ts.reload)
                elif k == "reopen":
                    ts = itsdb.TestSuite(d)
                    res = {"ok": None}
                elif k == "fcommit":
                    other = itsdb.TestSuite(d)
                    ot = other[st["t"]]
                    for sub in st["ops"]:
                        if sub["k"] == "append":
                            guarded(lambda: ot.append([py_val(v) for v in sub["row"]]))
                        elif sub["k"] == "update":
                            guarded(lambda: ot.update(sub["i"], {c: py_val(v) for c, v in sub["data"]}))
                        elif sub["k"] == "setslice":
                            guarded(lambda: ot.__setitem__(sl_of(sub["sl"]), [[py_val(v) for v in r] for r in sub["rows"]]))
                        elif sub["k"] == "clear":
                            guarded(ot.clear)
                    res = guarded(other.commit)
                    if "err" not in res:
                        if st["then"] == "reload":
                            res = guarded(ts.reload)
                        else:
                            ts = itsdb.TestSuite(d)
                elif k == "process":
                    cpu = ScriptedCPU(st["script"])
                    phases = []
                    cur_ts = ts

                    def callback(response, cur_ts=cur_ts, phases=phases):
                        # called for every item after the processor and before its rows are added
                        ph = {}
                        for name in NAMES:
                            t = cur_ts[name]
                            with tsdb.open(d, name) as fh, warnings.catch_warnings():
                                warnings.simplefilter("ignore")
                                f = [trow(tsdb.split(line, cur_ts.schema[name])) for line in fh]
                            ph[name] = {"it": [trow(r) for r in t], "f": f, "tx": bool(t._in_transaction)}
                        phases.append(ph)
                    kw = {"gzip": st["gz"], "callback": callback}
                    if st["b"] is not None:     # else: default buffer size
                        kw["buffer_size"] = st["b"]
                    if st.get("sel"):           # else: the task's default selector
                        kw["selector"] = tuple(st["sel"])
                    if not st["gz"] and st.get("nogz"):
                        del kw["gzip"]          # default gzip=False
                    if st.get("src"):
                        kw["source"] = src_ts
                    if st.get("fm") == "fresh":
                        kw["fieldmapper"] = itsdb.FieldMapper(source=src_ts if st.get("src") else ts)
                    elif st.get("fm") == "shared":          # ONE mapper object for every process() of the history
                        if shared_fm is None:
                            shared_fm = itsdb.FieldMapper()
                        kw["fieldmapper"] = shared_fm
                    res = guarded(lambda: ts.process(cpu, **kw))
                    if "err" in res:
                        shared_fm = None        # an aborted run leaves the mapper's state unspecified
                    calls = cpu.calls
                else:
                    t = ts[st["t"]]
                    form = st.get("form", "list")
                    fields = t.fields

                    def mk(vals, form=form, fields=fields):
                        pv = [py_val(v) for v in vals]
                        if form == "tuple":
                            return tuple(pv)
                        if form == "row" and len(pv) == len(fields):   # a Row cannot have the wrong width
                            return itsdb.Row(fields, pv)
                        return pv

                    def mkrows(rows, st=st, mk=mk):
                        if st.get("dup") and rows:
                            one = mk(rows[0])
                            return [one for _ in rows]          # the SAME object at several positions
                        return [mk(r) for r in rows]
                    passed = None
                    held = None
                    if st.get("hold") and k in HOLD_KINDS:
                        hit = iter(t)
                        held = [[trow(x) for x in itertools.islice(hit, 1)], None]
                    if k == "append":
                        res = guarded(lambda: t.append(mk(st["row"])))
                    elif k == "extend":
                        if st.get("same_obj") and last_rows is not None:
                            built = {"ok": last_rows}
                        else:
                            built = guarded(lambda: mkrows(st["rows"]))
                        passed = built.get("ok")
                        res = guarded(lambda: t.extend(passed)) if passed is not None else built
                        last_rows = passed
                    elif k == "setitem":
                        res = guarded(lambda: t.__setitem__(st["i"], mk(st["row"])))
                    elif k == "setslice":
                        built = guarded(lambda: mkrows(st["rows"]))
                        passed = built.get("ok")
                        res = guarded(lambda: t.__setitem__(sl_of(st["sl"]), passed)) if passed is not None else built
                    elif k == "update":
                        res = guarded(lambda: t.update(st["i"], {c: py_val(v) for c, v in st["data"]}))
                    elif k == "clear":
                        res = guarded(t.clear)
                    elif k == "alias":
                        src = ts[st["src"]]
                        got = guarded(lambda: src[st["si"]] if "si" in st else src[sl_of(st["ssl"])])
                        if "err" in got:
                            res = got
                        elif st["op"] == "append":
                            res = guarded(lambda: t.append(got["ok"]))
                        elif st["op"] == "setitem":
                            res = guarded(lambda: t.__setitem__(st["i"], got["ok"]))
                        elif st["op"] == "extend":
                            res = guarded(lambda: t.extend(got["ok"]))
                        else:
                            res = guarded(lambda: t.__setitem__(sl_of(st["sl"]), got["ok"]))
                    elif k == "nosuch":
                        res = guarded(lambda: ts["no-such-relation"].append(mk(st["row"])))
                    elif k == "foreign":
                        # another TestSuite takes Row objects of this one and edits them in ITS table
                        other = itsdb.TestSuite(d)
                        ot = other[st["t"]]
                        guarded(lambda: ot.extend(t[sl_of(st["ssl"])]))
                        guarded(lambda: ot.update(st["i"], {c: py_val(v) for c, v in st["data"]}))
                        if st.get("assign"):
                            guarded(lambda: ot.__setitem__(-1, t[-1]))
                            guarded(lambda: ot.update(-1, {c: py_val(v) for c, v in st["data"]}))
                        guarded(ot.clear)
                        res = {"ok": None}
                    else:
                        raise ValueError(k)
                    if held is not None:
                        held[1] = guarded(lambda: [trow(x) for x in hit])
                    if st.get("mutate") and isinstance(passed, list):
                        # the caller keeps using its own list objects afterwards
                        for r in passed:
                            if isinstance(r, list) and r:
                                r[0] = 987654
                        passed.append([1, 2, 3, 4, 5, 6, 7])
                        passed[0] = None
                o = self.observe(ts, d, st, res.get("err"))
                o["P"] = None
                o["held"] = held if k not in ("commit", "reload", "reopen", "process", "fcommit") else None
                if calls is not None:
                    o["calls"] = calls
                    o["P"] = phases
                    if st.get("src"):
                        # the source profile as a fresh TestSuite sees it afterwards, and as the source object shows it
                        fs = itsdb.TestSuite(dsrc)
                        o["srcview"] = {n: [[trow(r) for r in fs[n]], [trow(r) for r in src_ts[n]],
                                            bool(src_ts[n]._in_transaction)] for n in case["source"]}
                out.append(o)
            return out
        finally:
            shutil.rmtree(d, ignore_errors=True)

    # ---- model
    def interner(self, case):
        """deterministic coding of every cell value the case can show (see `cell_code`)"""
        sim = self.sim(case)
        ids = self._ids_for(case)

        def cid(key):
            return cell_code(key, ids)

        def in_row(name, row):
            """typed input row → cell codes (wrong-width rows keep their width)"""
            fs = FIELDS[name]
            return [cid(ckey(norm_cell(fs[j][1] if j < len(fs) else ":string", v))) for j, v in enumerate(row)]
        return sim, cid, in_row, ids

    def model_request(self, case):
        sim, cid, in_row, ids = self.interner(case)

        def sval(v):
            # a value of a scripted response: '' and None coincide; defaults of integer columns are the model's job;
            # an S-expression value travels as the cell of its formatted text (None when falsy)
            if isinstance(v, dict) and "sexp" in v:
                v = sexp_cell(v)
            return cid(ckey(norm_cell(":string", v)))

        def sdict(d):
            return [[k, sval(v)] for k, v in d.items()]
        tables = []
        for n in NAMES:
            tab = case["tables"].get(n, {"init": [], "gz": False})
            tables.append({"width": WIDTH[n], "file": [in_row(n, r) for r in tab["init"]],
                           "gz": bool(tab.get("gz")) and len(tab["init"]) > 0,
                           "nl": not (tab.get("nonl") and tab["init"] and not tab.get("gz"))})
        schema = [{"name": n, "fields": [{"name": f, "int": dt == ":integer", "key": ":key" in fl, "dt": dt}
                                         for f, dt, fl in fs]} for n, fs in SCHEMA_SPEC]
        codec = [cps(text) for text, _ in sorted(ids.items(), key=lambda kv: kv[1])]
        steps = []
        for st in case["steps"]:
            k = st["k"]
            m = {"k": k, "ot": sorted(TINDEX[n] for n in st.get("ot", []))}
            if "t" in st:
                m["t"] = TINDEX[st["t"]]
                name = st["t"]
            if k == "append" or k == "setitem":
                m["row"] = in_row(name, st["row"])
            if k == "extend" or k == "setslice":
                m["rows"] = [in_row(name, r) for r in st["rows"]]
            if k in ("setitem", "update"):
                m["i"] = st["i"]
            if k == "setslice":
                m["sl"] = st["sl"]
            if k == "update":
                cols = []
                for c, v in st["data"]:
                    if c in COLIDX[name]:
                        j = COLIDX[name][c]
                        cols.append([j, cid(ckey(norm_cell(FIELDS[name][j][1], v)))])
                    else:
                        cols.append([WIDTH[name] + 7, 0])
                m["cols"] = cols
            if k == "alias":
                m["op"] = st["op"]
                m["src"] = TINDEX[st["src"]]
                for key in ("si", "ssl", "i", "sl"):
                    if key in st:
                        m[key] = st[key]
            if k == "foreign":
                m = {"k": "noop", "ot": m["ot"]}
            if k == "nosuch":
                m = {"k": "append", "t": 99, "row": in_row(name, st["row"]), "ot": m["ot"]}
            if st.get("hold") and k in HOLD_KINDS:
                m["hold"] = True
            if k == "fcommit":
                subs = []
                for sub in st["ops"]:
                    ms = {"k": sub["k"], "t": TINDEX[name]}
                    if sub["k"] == "append":
                        ms["row"] = in_row(name, sub["row"])
                    if sub["k"] == "setslice":
                        ms["sl"] = sub["sl"]
                        ms["rows"] = [in_row(name, r) for r in sub["rows"]]
                    if sub["k"] == "update":
                        ms["i"] = sub["i"]
                        ms["cols"] = [[COLIDX[name][c], cid(ckey(norm_cell(FIELDS[name][COLIDX[name][c]][1], v)))]
                                      for c, v in sub["data"]]
                    subs.append(ms)
                m["ops"] = subs
            if k == "process":
                m["b"] = 1000 if st["b"] is None else st["b"]      # TestSuite.process default (pinned: c10Defaults)
                m["gz"] = st["gz"]
                m["sel"] = st.get("sel")
                m["src"] = None
                if st.get("src"):
                    m["src"] = []
                    for n in NAMES:
                        tab = (case.get("source") or {}).get(n, {"init": [], "gz": False})
                        m["src"].append({"width": WIDTH[n], "file": [in_row(n, r) for r in tab["init"]],
                                         "gz": bool(tab.get("gz")) and len(tab["init"]) > 0})
                m["script"] = [{"top": sdict({key: t[key] for key in t if key not in ("results", "run", "chart")}),
                                "results": [sdict(r) for r in t["results"]] if "results" in t else None,
                                "run": sdict(t["run"]) if "run" in t else None,
                                "chart": [sdict(e) for e in t.get("chart", [])]} for t in st["script"]]
            qs = []
            for q in st.get("qs", []):
                mq = {"t": TINDEX[q["t"]], "q": "slice" if q["q"] == "slice" else "select"}
                if q["q"] == "slice":
                    mq["sl"] = q["sl"]
                else:
                    mq["cols"] = [COLIDX[q["t"]].get(c, WIDTH[q["t"]] + 7) for c in q["cols"]]
                qs.append(mq)
            m["qs"] = qs
            steps.append(m)
        return {"tables": tables, "schema": schema, "codec": codec, "steps": steps}

    def model_expected(self, case, impl_res):
        sim, cid, in_row, ids = self.interner(case)

        def row(r):
            return [cid(ckey(v)) for v in r]

        def exc(x, f):
            return {"ok": f(x["ok"])} if "ok" in x else x
        def raw_code(name, col, text):
            """raw column text (select(cast=False)) -> the cell code of the value it stands for"""
            if not isinstance(text, list):
                return UNKNOWN_CELL
            text = uncps(text)
            if FIELDS[name][COLIDX[name][col]][1] == ":integer":
                try:
                    return enc_int(int(text))
                except ValueError:
                    return UNKNOWN_CELL
            if text == "":
                return 0
            return 4 * ids[text] + 3 if text in ids else UNKNOWN_CELL
        out = []
        for idx, o in enumerate(impl_res):
            qs = case["steps"][idx - 1].get("qs", []) if idx > 0 else []
            T = []
            for n in NAMES:
                if n in o["T"]:
                    t = o["T"][n]
                    T.append({"n": t["n"], "it": [row(r) for r in t["it"]],
                              "gi": [g if isinstance(g, dict) and "err" in g else {"ok": row(g)} for g in t["gi"]],
                              "tx": t["tx"], "f": [row(r) for r in t["f"]], "fr": [row(r) for r in o["fresh"][n]],
                              "gz": t["gz"]})
            P = None
            if o.get("P") is not None:
                P = [[{"it": [row(r) for r in ph[n]["it"]], "f": [row(r) for r in ph[n]["f"]], "tx": ph[n]["tx"]}
                      for n in NAMES] for ph in o["P"]]
            # "same" is computed by the DRIVER (`decide (composed.t = abstract.t)` per observed table: the bridge
            # theorems checked on the generated history); the expectation is that it always holds
            R = {"e": o["e"], "T": [{"lines": o["T"][n]["raw"], "tx": o["files"][n][0], "gzf": o["files"][n][1],
                                     "same": True} for n in NAMES if n in o["T"]]}
            Q = []
            for q, a in zip(qs, o["Q"]):
                if q["q"] == "selraw":
                    Q.append(exc(a, lambda rs, q=q: [[raw_code(q["t"], c, x) for c, x in zip(q["cols"], r)] for r in rs]))
                else:
                    Q.append(exc(a, lambda rs: [row(r) for r in rs]))
            held = None
            if o.get("held") is not None:
                hfirst, hrest = o["held"]
                held = [[row(r) for r in hfirst], [row(r) for r in hrest["ok"]]] if "ok" in hrest else hrest
            calls = None
            if o.get("calls") is not None and o["e"] is None:
                calls = [[cid(ckey(norm_cell(":string", c[0]))), [[kn, cid(ckey(kv))] for kn, kv in c[1]]]
                         for c in o["calls"]]
            out.append({"e": o["e"], "intx": o["intx"], "T": T, "Q": Q, "P": P, "R": R, "held": held, "calls": calls})
        return out

    def _ids_for(self, case):
        """numbers the non-integer, non-None values in order of first appearance in the case"""
        ids = {}

        def add(name, row):
            fs = FIELDS[name]
            for j, v in enumerate(row):
                cell_code(ckey(norm_cell(fs[j][1] if j < len(fs) else ":string", v)), ids, add=True)

        def addv(v):
            if isinstance(v, dict) and "sexp" in v:
                v = sexp_cell(v)
            cell_code(ckey(norm_cell(":string", v)), ids, add=True)
        for n in NAMES:
            for r in case["tables"].get(n, {"init": []})["init"]:
                add(n, r)
            for r in (case.get("source") or {}).get(n, {"init": []})["init"]:
                add(n, r)
        for st in case["steps"]:
            k = st["k"]
            name = st.get("t")
            if k == "append" or k == "setitem":
                add(name, st["row"])
            if k == "extend" or k == "setslice":
                for r in st["rows"]:
                    add(name, r)
            if k == "update" or k == "foreign":
                for c, v in st["data"]:
                    if c in COLIDX[name]:
                        addv(v)
            if k == "fcommit":
                for sub in st["ops"]:
                    if sub["k"] == "append":
                        add(name, sub["row"])
                    if sub["k"] == "setslice":
                        for r in sub["rows"]:
                            add(name, r)
                    if sub["k"] == "update":
                        for c, v in sub["data"]:
                            addv(v)
            if k == "process":
                for t in st["script"]:
                    for key, v in t.items():
                        if key == "results" or key == "chart":
                            for d in v:
                                for vv in d.values():
                                    addv(vv)
                        elif key == "run":
                            for vv in v.values():
                                addv(vv)
                        else:
                            addv(v)
        return ids

    # ---- direct oracle
    def oracle(self, case, res):
        sim = self.sim(case)
        fails = []

        def fail(step, clause, detail):
            fails.append({"clause": clause, "step": step, "detail": repr(detail)[:600]})

        def keys(rows):
            return [tuple(ckey(v) for v in r) for r in rows]
        # initial observation: the stored rows
        spec0 = Spec(case)
        for n in NAMES:
            if keys(res[0]["T"][n]["it"]) != spec0.cur[n]:
                fail(-1, "a freshly opened table does not show the stored rows", n)
        if case.get("mk") and res[0].get("mkerr") != {"err": "ITSDBError"}:
            fail(-1, "a new TestSuite without a schema must be an ITSDBError", res[0].get("mkerr"))
        prev_stored = spec0.stored
        prev_cur = spec0.cur
        prev_gz = {n: res[0]["T"][n]["gz"] for n in NAMES}
        for si, (st, info, o) in enumerate(zip(case["steps"], sim, res[1:])):
            k = st["k"]
            cur, stored = info["cur"], info["stored"]
            nfail = len(fails)
            # --- exceptions: exactly what the plain list raises; commit/reload/process never raise
            # (since 7d1c791 a compressed relation is rewritten, NotImplementedError is a violation)
            if info.get("aborted"):
                if o["e"] != "KeyError":
                    fail(si, "process with a response lacking 'results' did not raise KeyError", o["e"])
                return fails[:3]
            if o["e"] != info["err"]:
                fail(si, "operation raised a different exception than the plain list / documented behaviour",
                     (k, "expected", info["err"], "got", o["e"]))
            # --- every observed table equals the plain list
            for n, t in o["T"].items():
                want = cur[n]
                if t["n"] != len(want):
                    fail(si, "len(table) differs from the list", (n, t["n"], len(want)))
                if keys(t["it"]) != want:
                    fail(si, "iteration differs from the list", (n, keys(t["it"]), want))
                m = len(want)
                for i, g in zip(range(-t["n"] - 1, t["n"] + 1), t["gi"]):
                    try:
                        w = want[i]
                    except IndexError:
                        w = "IndexError"
                    got = g["err"] if isinstance(g, dict) and "err" in g else tuple(ckey(v) for v in g)
                    if got != w:
                        fail(si, "table[i] differs from list[i]", (n, i, got, w))
                        break
                for pname, got in t.get("IT", {}).items():
                    if "err" in got:
                        fail(si, "iterators alive at the same time: iteration raised (%s)" % pname, (n, got))
                        break
                    pair = (lambda ab: [tuple(ckey(v) for v in ab[0]), tuple(ckey(v) for v in ab[1])])
                    if pname == "nested":
                        ok = [pair(x) for x in got["ok"]] == [[a, b] for a in want for b in want]
                    else:
                        m = got["ok"]
                        ok = (keys(m["first"]) == want[:1] and keys(m["rest"]) == want[1:]
                              and keys(m["sfirst"]) == want[:1] and keys(m["srest"]) == want[1:]
                              and keys(m["full"]) == want and keys(m["sel"]) == want
                              and [pair(x) for x in m["zip"]] == [[r, r] for r in want])
                    if not ok:
                        fail(si, "iterators alive at the same time: iteration differs from the list (%s)" % pname, n)
                        break
                if keys(t["f"]) != stored[n]:
                    fail(si, "relation file differs from the last committed list", (n, keys(t["f"]), stored[n]))
                if keys(o["fresh"][n]) != stored[n]:
                    fail(si, "a fresh TestSuite does not show the last committed list", (n,))
                if t["tx"] and want == stored[n] and k in ("commit", "reload", "reopen", "process", "fcommit") and o["e"] is None:
                    fail(si, "table in transaction after commit/reload/process", n)
                ra = t.get("RA")
                if ra is not None and want:
                    if "err" in ra:
                        fail(si, "a row of the table raised when read through the Row interface", (n, ra))
                    else:
                        a = ra["ok"]
                        w = list(want[-1])
                        kk = lambda vs: [ckey(v) for v in vs]
                        if not (kk(a["it"]) == w and kk(a["idx"]) == w and kk(a["name"]) == w and kk(a["neg"]) == w[::-1]
                                and kk(a["sl"]) == w[1:] and kk(a["rev"]) == w[::-1] and a["len"] == len(w)
                                and a["keys"] and a["eq"] and not a["ne"] and a["cols"] and a["updtype"]
                                and (t["tx"] or not t["raw"] or uncps(t["raw"][-1]) == uncps(a["str"]))):
                            fail(si, "table[-1] read by position / name / slice / equality differs from the list's row", (n, a, w))
                tx, gzp = o["files"][n]
                if tx == gzp:
                    fail(si, "relation must exist in exactly one physical form", (n, tx, gzp))
            if k in ("commit", "reload", "reopen", "process", "fcommit") and o["e"] is None and o["intx"]:
                fail(si, "in_transaction is true after commit/reload/process", k)
            if k == "commit" and o["e"] is None:
                for n, t in o["T"].items():
                    if keys(t["f"]) != cur[n]:
                        fail(si, "commit did not make the stored relation equal to the list", n)
            # --- an iterator obtained before an append/extend and consumed after it: the property speaks of
            # iteration "of the list at the time of iteration"; for an iteration that spans a mutation both
            # readings are accepted (the rows before, or the rows after the mutation), an exception is not
            if o.get("held") is not None and k in ("append", "extend"):
                first, rest = o["held"]
                before, after = prev_cur[st["t"]], cur[st["t"]]
                if keys(first) != before[:1]:
                    fail(si, "iterator held across an append: first row differs", (keys(first), before[:1]))
                elif "err" in rest:
                    fail(si, "iterator held across an append raised", rest)
                elif before and keys(rest["ok"]) not in (before[1:], after[1:]):
                    fail(si, "iterator held across an append: neither the rows before nor the rows after", keys(rest["ok"]))
                elif not before and rest["ok"]:
                    fail(si, "exhausted iterator yields rows after an append", keys(rest["ok"]))
            # --- queries
            for q, a in zip(st.get("qs", []), o["Q"]):
                want = cur[q["t"]]
                if q["q"] == "slice":
                    try:
                        w = {"ok": want[sl_of(q["sl"])]}
                    except ValueError:
                        w = {"err": "ValueError"}
                    got = {"ok": keys(a["ok"])} if "ok" in a else a
                    if got != w:
                        fail(si, "table[slice] differs from list[slice]", (q, got, w))
                else:
                    name = q["t"]
                    if any(c not in COLIDX[name] for c in q["cols"]):
                        w = {"err": "KeyError"}
                    else:
                        idx = [COLIDX[name][c] for c in q["cols"]]
                        w = {"ok": [tuple(r[i] for i in idx) for r in want]}
                    if q["q"] == "selraw" and "ok" in w:
                        # cast=False: the raw column text of the same projection
                        def text(c):
                            v = json.loads(c)
                            return "" if v is None else v["int"] if "int" in v else raw_text(v)
                        w = {"ok": [tuple(text(c) for c in r) for r in w["ok"]]}
                        got = {"ok": [tuple(uncps(x) if isinstance(x, list) else x for x in r) for r in a["ok"]]} if "ok" in a else a
                    else:
                        got = {"ok": keys(a["ok"])} if "ok" in a else a
                    if got != w:
                        fail(si, "select differs from the column projection of the list (%s)" % q["q"], (q, got, w))
            # --- processing: each item seen once, in order
            if k == "process" and o["e"] is None:
                if [[ckey(norm_cell(":string", c[0])), [[a, ckey(b)] for a, b in c[1]]] for c in o.get("calls", [])] != \
                        [[ckey(c[0]), [[a, ckey(b)] for a, b in c[1]]] for c in info["calls"]]:
                    fail(si, "processor was not called once per item in order", (o.get("calls"), info["calls"]))
            if k == "process" and o.get("srcview") is not None:
                for n, (fresh_rows, shown, tx) in o["srcview"].items():
                    if keys(fresh_rows) != spec0.source[n] or keys(shown) != spec0.source[n] or tx:
                        fail(si, "process(source=…) changed the source profile", n)
            # --- processing, item by item (seen from the callback): memory = previous rows (none for the
            # cleared relations) + rows produced so far, each once; a table without pending rows = its file
            if k == "process" and o["e"] is None and o.get("P") is not None:
                marks, prod, before = info["marks"], info["produced"], info["before"]
                if len(o["P"]) != len(marks):
                    fail(si, "callback was not called once per item", (len(o["P"]), len(marks)))
                for kk, ph in enumerate(o["P"][:len(marks)]):
                    sofar = prod[:marks[kk]]
                    for n in NAMES:
                        want = ([] if n in AFFECTED else list(before[n])) + [norm_row(m, r) for m, r in sofar if m == n]
                        if keys(ph[n]["it"]) != want:
                            fail(si, "during processing a table does not show its previous rows plus the rows "
                                     "produced so far, each once", (kk, n, keys(ph[n]["it"]), want))
                        elif not ph[n]["tx"] and keys(ph[n]["f"]) != want:
                            fail(si, "during processing a table without pending rows differs from its file", (kk, n))
                    if len(fails) > nfail:
                        break
            if len(fails) > nfail:
                break      # first diverging step only: everything after it is a consequence
            prev_stored = stored
            prev_cur = cur
            for n, t in o["T"].items():
                prev_gz[n] = t["gz"]
        return fails[:3]

    # ---- known findings: none open (F03 F04 F05 F31 F32 F34 F52 F61 are fixed; witnesses in corpus/C10)
    def classify(self, case, failure):
        return None

    def nontrivial_key(self, case, res):
        if not case["steps"]:
            return None
        return json.dumps(case, sort_keys=True)

    def stats(self, case, res, c):
        def inc(k, d=1):
            c[k] = c.get(k, 0) + d
        inc("kind:" + case["kind"])
        inc("profile_made_by:" + (case.get("mk") or "initialize_database"))
        inc("steps:%s" % min(len(case["steps"]), 30))
        for n, tab in case["tables"].items():
            inc("init_rows:%d" % len(tab["init"]))
            if tab.get("nonl") and tab["init"] and not tab.get("gz"):
                inc("stored:no_final_newline")
            inc("stored:" + ("gzip" if tab.get("gz") and tab["init"] else "no_file" if tab.get("nofile") and not tab["init"]
                             else "plain"))
        inc("tables_used:%d" % len(case["tables"]))
        sim = self.sim(case)
        for st, info, o in zip(case["steps"], sim, (res or [None])[1:]):
            inc("op:" + st["k"])
            if o is not None:
                inc("exc:%s" % o["e"])
                for n, t in o["T"].items():
                    if t["tx"]:
                        inc("obs:in_transaction")
                    if t["gz"]:
                        inc("obs:table_on_gzip")
            if st["k"] == "setslice":
                s = st["sl"][2]
                inc("setslice_step:" + ("none" if s is None else "0" if s == 0 else "1" if s == 1 else
                                        "pos" if s > 0 else "neg"))
            if st.get("hold") and st["k"] in HOLD_KINDS:
                inc("held_iterator_across:" + st["k"])
            for q in st.get("qs", []):
                if q["q"] in ("selfrom", "selraw"):
                    inc("query:" + q["q"])
            if st["k"] == "process":
                sel = st.get("sel")
                inc("process_selector:" + ("default" if not sel else "bad" if info.get("badsel") else
                                           "affected_relation" if sel[0] in AFFECTED else
                                           "explicit_default" if tuple(sel) == DEFAULT_SELECTOR else "other_relation"))
            if st["k"] == "process" and not info.get("badsel"):
                p = len(info["produced"] or [])
                bsz = 1000 if st["b"] is None else st["b"]
                if st["b"] is None:
                    inc("process_buffer_default")
                inc("process_buffer:" + ("0" if bsz == 0 else "lt_produced" if bsz < p else
                                         "eq_produced" if bsz == p else "gt_produced"))
                inc("process_gzip:%s" % st["gz"])
                inc("process_fieldmapper:%s" % (st.get("fm") or "default"))
                inc("process_source:" + ("other_profile" if st.get("src") else "self"))
                inc("process_i_id_from_map", (info.get("idmap") or [0, 0])[0])
                inc("process_i_id_not_in_map", (info.get("idmap") or [0, 0])[1])
                if info.get("aborted"):
                    inc("process_response_without_results")
                inc("process_sexp_cells", sum(1 for t in st["script"] for e in t.get("chart", [])
                                               for kk in ("e-daughters", "e-alternates") if kk in e)
                    + sum(1 for t in st["script"] for r in t.get("results", []) if "flags" in r))
                inc("process_runs_without_run_id", sum(1 for t in st["script"] if "run" in t and "run-id" not in t["run"]))
                ids = [json.loads(r[0]).get("int") for r in (info.get("before") or {}).get("item", [])]
                inc("process_item_ids:" + ("none" if not ids else "repeated" if len(set(ids)) < len(ids) else
                                           "not_ascending" if [int(x) for x in ids] != sorted(int(x) for x in ids)
                                           else "ascending"))
            for q in st.get("qs", []):
                if q["q"] == "slice":
                    s = q["sl"][2]
                    inc("getslice_step:" + ("none" if s is None else "0" if s == 0 else "pos" if s > 0 else "neg"))

    def shrink(self, case, still_fails):
        cur = case
        changed = True
        while changed:
            changed = False
            for i in range(len(cur["steps"]) - 1, -1, -1):
                cand = dict(cur)
                cand["steps"] = cur["steps"][:i] + cur["steps"][i + 1:]
                try:
                    if still_fails(cand):
                        cur = cand
                        changed = True
                except Exception:
                    pass
        return cur


def _unwrap(g):
    return g["ok"] if "ok" in g else g


CHECK = C10()
