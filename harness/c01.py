"""C01 — MRS serialisations are lossless and stable (SimpleMRS, MRX, MRS-JSON, Indexed MRS).

Generators, implementation runner, direct oracle, model requests.

Case kinds
  rt     one codec, a list of 1..3 MRS objects, options (properties, lnk), an API/indent plan.
         impl: intermediate form of the first item under the case's options (real lexer's token
         stream of the real encoder's text / to_dict / ElementTree of the MRX text), the decoded
         structure (insertion order kept) and the intermediate form of the re-encoding.
         model: the same three things from lean/Verif/C01/Model.lean / Indexed.lean, plus ("list") the list API on all
         items: intermediate form of dumps(items), what loads() returns, document texts (SimpleMRS, Indexed MRS incl.
         the indented layout of Indexed MRS for indent=True and one integer width).
         oracle: every clause of the property on the real code, all indent settings and APIs.
  parse  a (possibly mutated / truncated) SimpleMRS text: real decode()/loads() against the model's
         recursive-descent parser run on the REAL lexer's token stream of that text.
  esc    a string: _escape/_unescape/DQSTRING regex/predicate.normalize/quoting decision/is_surface.
  lnk    an Lnk string: Lnk(s) and str() of it.
  lex    a string over the token alphabet (or the real encoder's text): real lexer vs lean/Verif/C01/Lexer.lean.
  longtext deterministic long MRX / MRS-JSON documents (> 16 / 64 / 128 KiB) through loads / load (StringIO, filename,
         open file), items regenerated from a fixed-seed pool (oracle only).
  churn  12 structures (Indexed MRS: with 12 disagreeing SEM-Is) built, used and dropped in a row (oracle only).
  foreign hand-written MRX documents (reader branches the encoder's output never takes); what decode() returns must
         round-trip (oracle only).
  long   deterministic long documents (> 1024 / > 2048 lexer tokens, item starts around the multiples of 1024)
         for the list APIs of SimpleMRS and Indexed MRS, and single structures of that size (oracle only).
"""
import io
import json
import os
import re
import shutil
import tempfile
import unicodedata
import warnings
import xml.etree.ElementTree as etree

from .common import paths, tables
from .common.runner import Check

paths.ensure_repo_on_path()
from delphin import predicate as dpred  # noqa: E402
from delphin import sembase, semi as dsemi, variable  # noqa: E402
from delphin.codecs import indexedmrs, mrsjson, mrx, simplemrs  # noqa: E402
from delphin.lnk import Lnk, LnkError  # noqa: E402
from delphin.mrs import EP, MRS, HCons, ICons, MRSSyntaxError  # noqa: E402


def cps(s):
    return None if s is None else [ord(c) for c in s]


def uncps(a):
    return None if a is None else "".join(chr(x) for x in a)


# ------------------------------------------------------------------ wire <-> objects

def lnk_to_wire(l):
    if l is None or l.type == Lnk.UNSPECIFIED:
        return None
    if l.type == Lnk.CHARSPAN:
        return {"c": [l.data[0], l.data[1]]}
    if l.type == Lnk.CHARTSPAN:
        return {"v": [l.data[0], l.data[1]]}
    if l.type == Lnk.TOKENS:
        return {"t": list(l.data)}
    return {"e": l.data}


def lnk_from_wire(j):
    if j is None:
        return None
    if "c" in j:
        return Lnk.charspan(*j["c"])
    if "v" in j:
        return Lnk.chartspan(*j["v"])
    if "t" in j:
        return Lnk.tokens(j["t"])
    return Lnk.edge(j["e"])


def pairs(d):
    return [[cps(k), cps(v)] for k, v in d.items()]


def m_to_wire(m):
    return {
        "top": cps(m.top), "index": cps(m.index),
        "rels": [{"pred": cps(ep.predicate), "label": cps(ep.label), "args": pairs(ep.args),
                  "lnk": lnk_to_wire(ep.lnk), "surface": cps(ep.surface), "base": cps(ep.base)} for ep in m.rels],
        "hcons": [[cps(a), cps(b), cps(c)] for a, b, c in m.hcons],
        "icons": [[cps(a), cps(b), cps(c)] for a, b, c in m.icons],
        "vars": [[cps(v), pairs(ps)] for v, ps in m.variables.items()],
        "lnk": lnk_to_wire(m.lnk), "surface": cps(m.surface), "ident": cps(m.identifier)}


def m_from_wire(j):
    """a FRESH MRS object (MRS.__init__ patches EP ids and fills `variables` in place)."""
    # empty parts are passed as None: the constructors' own defaults (`if args is None: args = {}` …) are then what
    # the codecs see; two structures must never share such a default
    rels = [EP(uncps(e["pred"]), uncps(e["label"]), args=({uncps(k): uncps(v) for k, v in e["args"]} or None),
               lnk=lnk_from_wire(e["lnk"]), surface=uncps(e["surface"]), base=uncps(e["base"])) for e in j["rels"]]
    return MRS(uncps(j["top"]), uncps(j["index"]), rels or None,
               [HCons(uncps(a), uncps(b), uncps(c)) for a, b, c in j["hcons"]] or None,
               icons=[ICons(uncps(a), uncps(b), uncps(c)) for a, b, c in j["icons"]] or None,
               variables={uncps(v): {uncps(k): uncps(x) for k, x in ps} for v, ps in j["vars"]} or None,
               lnk=lnk_from_wire(j["lnk"]), surface=uncps(j["surface"]), identifier=uncps(j["ident"]))


def j_to_wire(x):
    if x is None:
        return None
    if isinstance(x, str):
        return {"s": cps(x)}
    if isinstance(x, bool):
        raise TypeError("bool in dict")
    if isinstance(x, int):
        return {"i": x}
    if isinstance(x, list):
        return {"a": [j_to_wire(y) for y in x]}
    if isinstance(x, dict):
        return {"o": [[cps(k), j_to_wire(v)] for k, v in x.items()]}
    raise TypeError(type(x))


def xml_to_wire(e):
    t = e.text
    if e.tag not in ("pred", "spred", "constant", "path", "value", "rargname"):
        t = None      # whitespace between child elements (indentation) is not content
    return {"t": e.tag, "a": sorted([[k, cps(v)] for k, v in e.attrib.items()]),
            "x": cps(t) if t else None, "c": [xml_to_wire(c) for c in e]}


def sort_xml_attrs(w):
    if isinstance(w, dict) and "t" in w:
        return {"t": w["t"], "a": sorted(w["a"]), "x": w["x"], "c": [sort_xml_attrs(c) for c in w["c"]]}
    return w


TOKNAMES = {int(t): t.name for t in simplemrs.SimpleMRSLexer.tokentypes}


IXTOKNAMES = {int(t): t.name for t in indexedmrs._IndexedMRSLexer.tokentypes}


def real_lex_ix(text):
    return [[IXTOKNAMES[gid], cps(tok)] for gid, tok, _, _, _ in indexedmrs._IndexedMRSLexer.prelex(text.splitlines())]


def real_lex(text):
    """token stream of the real lexer: [[kind name, text of the class's group]]"""
    return [[TOKNAMES[gid], cps(tok)] for gid, tok, _, _, _ in simplemrs.SimpleMRSLexer.prelex(text.splitlines())]


# ------------------------------------------------------------------ generators

SPECIAL = ['"', '\\', "'", ':', '<', '>', '[', ']', '@', '#', ' ', 'a', 'b', 'Z', '\xe9', '\xdf', '\u65e5', '\u0301',
           '\U0001F600', '\xa0', '_', '-', '0', '5', '/', '&', ';', '{', '}', '(', ')', ',', '=', '\u3000',
           '\ufeff', '\\\\', '\\"', ' "', '&lt;', '&#10;', ']]>', '<!--', '%', '\u200b', '\xad']
RANGES = [(0x20, 0x7e), (0xa0, 0x2ff), (0x370, 0x3ff), (0x2000, 0x206f), (0x4e00, 0x4e40), (0xe000, 0xe008),
          (0xfff0, 0xfffd), (0x1f600, 0x1f620), (0x10000, 0x10010)]


def ok_char(c):
    return unicodedata.category(c) not in ("Cc", "Cs", "Zl", "Zp") and c not in "\ufffe\uffff"


def gen_text(rng, allow_empty=True, maxlen=6):
    n = rng.choice([0, 1, 1, 2, 2, 3, 4, maxlen])
    out = []
    for _ in range(n):
        if rng.random() < 0.75:
            out.append(rng.choice(SPECIAL))
        else:
            lo, hi = rng.choice(RANGES)
            c = chr(rng.randrange(lo, hi + 1))
            out.append(c if ok_char(c) else "x")
    s = "".join(out)
    if not s and not allow_empty:
        s = rng.choice(SPECIAL)
    return s


SORTS = ["x", "e", "h", "i", "u", "p", "x", "e", "ref-ind", "handle_"]
ROLES = ["ARG0", "ARG1", "ARG2", "ARG3", "ARG4", "RSTR", "BODY", "L-INDEX", "R-INDEX", "L-HNDL", "R-HNDL", "ARG",
         "FOO", "ARG10", "BODYX", "A.B", "LBL"]
PROPS = ["PERS", "NUM", "GEND", "IND", "PT", "PRONTYPE", "SF", "TENSE", "MOOD", "PROG", "PERF", "ASPECT", "PASS",
         "FOO", "A-B", "ZZ", "AA", "X.Y", "PERSX", "N2"]
VALS = ["3", "sg", "pl", "m", "+", "-", "pres", "past", "prop", "prop-or-ques", "std", "untensed", "bool", "é", "1",
        "a.b", "x5", "_", "@", "#1"]
LEMMAS = ["dog", "the", "bark", "nearly", "all", "a+b", "x-y", "1", "日本", "é", "c@t", "f#", "a/b", "a.b", "n", "v",
          "rel", "q", "d&d", "50%", "=", "(", "a,b", "{x}", ";", "x!", "?"]
POS = "nvajrscpqxud"
SENSES = ["1", "2", "of", "to", "rel2", "x-y", "é", "a+b", "n", "v", "modal", "1.5", "&", "@", "#"]
ABSTRACT = ["udef_q", "named", "pron", "proper_q", "compound", "card", "pronoun_q", "neg", "focus_d", "a", "x_y_z",
            "abc_q_1", "n_v", "名前", "é_q", "a+b", "1", "poss", "unknown", "def_explicit_q", "a__b", "a_", "@5", "#x", "&"]
QUOTED = ["a b", "a:b", "<x>", "x<0:5>", "[x]", "a\"b", "it's", "a<b", "a>b", "_a b_n_1", "\"x", "x\"", "a\\b", "a\\",
          "_dog_n_1:", "a\xa0b", "a　b", "<", ":", "]", " ", "a'b_n", "_a_n_<1>", "_x<_n_1", "_a:b_n_1",
          "_[_n_1", "_x_n_a]", "<!--", "&<>"]
UNNORMALISED = ["_dog_n_1_rel", "UDEF_Q", "_Dog_n_1", "udef_q_rel", "'quoted", "\"dq\"", "named_REL", "_rel",
                "\"", "\"\"", "'", "a_RELx"]
ICREL = ["topic", "focus", "non-focus", "info-str", "é", "x1", "a.b"]
HCREL = ["qeq", "lheq", "outscopes", "qeq", "qeq", "foo"]


def gen_pred(rng, family=None):
    f = family or rng.choice(["surface", "surface", "abstract", "abstract", "quoted"])
    if f == "surface":
        p = "_" + rng.choice(LEMMAS) + "_" + rng.choice(POS)
        if rng.random() < 0.6:
            p += "_" + rng.choice(SENSES)
        return p
    if f == "abstract":
        return rng.choice(ABSTRACT)
    if f == "quoted":
        return rng.choice(QUOTED)
    while True:
        p = rng.choice(UNNORMALISED)
        if dpred.normalize(p):
            return p


def gen_var(rng, sort=None, pool=None):
    if pool and rng.random() < 0.55:
        c = [v for v in pool if sort is None or variable.type(v) == sort]
        if c:
            return rng.choice(c)
    s = sort or rng.choice(SORTS)
    n = rng.choice([0, 1, 2, 3, 4, 5, 6, 7, 8, 9, 10, 11, 12, 100, 2 ** 40])
    v = "%s%d" % (s, n)
    if rng.random() < 0.04:
        v = "%s0%d" % (s, n)
    if pool is not None and v not in pool:
        pool.append(v)
    return v


def gen_lnk(rng, codec):
    r = rng.random()
    if r < 0.25:
        return None
    if codec in ("json", "mrx", "indexed") or r < 0.6:
        a = rng.choice([0, 0, 1, 5, 10, 99, 12345, -1])
        b = rng.choice([0, 1, 5, 10, 100, 2 ** 33, -1, -7])
        return {"c": [a, b]}
    if r < 0.7:
        return {"v": [rng.choice([0, 1, 7, -1]), rng.choice([0, 2, 11, -3])]}
    if r < 0.87:
        return {"t": [rng.choice([0, 1, 2, 3, 10, 77]) for _ in range(rng.choice([1, 1, 2, 3, 5]))]}
    return {"e": rng.choice([0, 1, 42, 10 ** 12])}


def gen_props(rng):
    n = rng.choice([1, 1, 2, 3, 4, 6])
    ks = rng.sample(PROPS, n)
    return [[cps(k), cps(rng.choice(VALS))] for k in ks]


def gen_mrs(rng, codec, size=None, pred_family=None):
    """an MRS (wire form) whose pieces are expressible in `codec` (see RULE)."""
    n = size if size is not None else rng.choice([0, 1, 1, 2, 2, 3, 3, 4, 5, 8])
    pool = []
    labsort = "h" if (codec == "mrx" or rng.random() < 0.85) else None
    varpos = []          # variables at positions where the codec writes properties
    top = gen_var(rng, labsort, pool) if rng.random() < 0.85 else None
    index = None
    if rng.random() < 0.85:
        index = gen_var(rng, rng.choice(["e", "e", "x", "i", None]), pool)
        varpos.append(index)
    rels = []
    for _ in range(n):
        label = gen_var(rng, labsort, pool)
        roles = rng.sample(ROLES, rng.choice([0, 1, 1, 2, 2, 3, 4, 6]))
        if roles and rng.random() < 0.7 and "ARG0" not in roles:
            roles[0] = "ARG0"
        args = []
        for r in roles:
            v = gen_var(rng, "h" if r in ("RSTR", "BODY", "L-HNDL", "R-HNDL") and rng.random() < 0.8 else None, pool)
            args.append([cps(r), cps(v)])
            varpos.append(v)
        if rng.random() < 0.35:
            args.append([cps("CARG"), cps(gen_text(rng, allow_empty=False))])
        rng.shuffle(args)
        surface = gen_text(rng) if rng.random() < 0.35 else None
        base = gen_text(rng) if codec in ("json", "mrx") and rng.random() < 0.25 else None
        rels.append({"pred": cps(gen_pred(rng, pred_family)), "label": cps(label), "args": args,
                     "lnk": gen_lnk(rng, codec), "surface": cps(surface), "base": cps(base)})
    if rels and rng.random() < 0.08:
        # an identical predication once more (same predicate, label, arguments, alignment, strings): adjacent or at the end
        i_ = rng.randrange(len(rels))
        rels.insert(rng.choice([i_ + 1, len(rels)]), json.loads(json.dumps(rels[i_])))
    hcons = []
    for _ in range(rng.choice([0, 0, 1, 1, 2, 3])):
        hi = gen_var(rng, "h" if rng.random() < 0.9 else None, pool)
        lo = gen_var(rng, labsort or "h", pool)
        if codec == "mrx":
            varpos.append(hi)
        hcons.append([cps(hi), cps(rng.choice(HCREL)), cps(lo)])
    icons = []
    for _ in range(rng.choice([0, 0, 0, 1, 2])):
        a, b = gen_var(rng, None, pool), gen_var(rng, None, pool)
        varpos += [a, b]
        icons.append([cps(a), cps(rng.choice(ICREL)), cps(b)])
    vs = []
    seen = set()
    cand = list(dict.fromkeys(varpos))
    elsewhere = []
    if codec == "json":
        # MRS-JSON writes the property map of EVERY variable: also of those that occur only as top, as a label or
        # as the lo of a handle constraint (no other format can carry these)
        elsewhere = [v for v in dict.fromkeys(pool) if v not in cand]
        cand += elsewhere
    rng.shuffle(cand)
    for v in cand:
        if rng.random() < 0.5 and v not in seen:
            if variable.type(v) == "h" and v not in elsewhere and rng.random() < 0.8:
                continue
            seen.add(v)
            vs.append([cps(v), gen_props(rng)])
    # string fields that coincide with another field of the same structure (a reader that treats one of them as
    # redundant, or keys a table by the text, shows only here)
    if rels and rng.random() < 0.12:
        e = rng.choice(rels)
        carg = next((a for a in e["args"] if uncps(a[0]) == "CARG"), None)
        pick = rng.choice(["surface=pred", "carg=pred", "surface=carg", "base=surface", "surface=label", "carg=var",
                           "same surface twice"])
        if pick == "surface=pred":
            e["surface"] = list(e["pred"])
        elif pick == "carg=pred" and carg is not None:
            carg[1] = list(e["pred"])
        elif pick == "surface=carg" and carg is not None:
            e["surface"] = list(carg[1])
        elif pick == "base=surface" and codec in ("json", "mrx"):
            e["surface"] = e["surface"] if e["surface"] is not None else cps("x y")
            e["base"] = list(e["surface"])
        elif pick == "surface=label":
            e["surface"] = list(e["label"])
        elif pick == "carg=var" and carg is not None and pool:
            carg[1] = cps(rng.choice(pool))
        elif pick == "same surface twice":
            e2 = rng.choice(rels)
            e["surface"] = e["surface"] if e["surface"] is not None else cps("same")
            e2["surface"] = list(e["surface"])
    mlnk = None
    surface = ident = None
    if codec in ("simple", "mrx") and rng.random() < 0.5:
        mlnk = gen_lnk(rng, codec)
    if codec in ("simple", "mrx") and rng.random() < 0.4:
        surface = gen_text(rng)
    if codec == "mrx" and rng.random() < 0.3:
        ident = gen_text(rng)
    if rels and codec in ("simple", "mrx") and rng.random() < 0.06:
        surface = uncps(rng.choice(rels)["surface"] or rng.choice(rels)["pred"])     # structure surface = an EP's
        if codec == "mrx" and rng.random() < 0.5:
            ident = surface
    return {"top": cps(top), "index": cps(index), "rels": rels, "hcons": hcons, "icons": icons, "vars": vs,
            "lnk": mlnk, "surface": cps(surface), "ident": cps(ident)}


# ---- Indexed MRS: a SEM-I and structures it covers

IX_PROPS = {"tense": {}, "pres": {"parents": ["tense"]}, "past": {"parents": ["tense"]}, "untensed": {"parents": ["tense"]},
            "bool": {}, "+": {"parents": ["bool"]}, "-": {"parents": ["bool"]},
            "pers": {}, "1": {"parents": ["pers"]}, "2": {"parents": ["pers"]}, "3": {"parents": ["pers"]},
            "num": {}, "sg": {"parents": ["num"]}, "pl": {"parents": ["num"]},
            "sf": {}, "prop": {"parents": ["sf"]}, "ques": {"parents": ["sf"]}}
IX_VARS = {"u": {}, "i": {"parents": ["u"]}, "p": {"parents": ["u"]},
           "e": {"parents": ["i"], "properties": [["SF", "sf"], ["TENSE", "tense"], ["PROG", "bool"]]},
           "x": {"parents": ["i", "p"], "properties": [["PERS", "pers"], ["NUM", "num"]]},
           "h": {"parents": ["p"]}}
IX_SUB = {"tense": ["pres", "past", "untensed", "tense"], "bool": ["+", "-", "bool"], "pers": ["1", "2", "3", "pers"],
          "num": ["sg", "pl", "num"], "sf": ["prop", "ques", "sf"]}
IX_ROLES = {"ARG0": "i", "ARG1": "u", "ARG2": "u", "ARG3": "u", "RSTR": "h", "BODY": "h", "CARG": "string",
            "L-INDEX": "i", "R-INDEX": "i"}
# predicate -> list of synopses; a synopsis is a list of (role, value, optional)
IX_PREDS = {
    "_rain_v_1": [[("ARG0", "e", False)]],
    "_dog_n_1": [[("ARG0", "x", False)]],
    "_bark_v_1": [[("ARG0", "e", False), ("ARG1", "x", False)]],
    "_chase_v_1": [[("ARG0", "e", False), ("ARG1", "x", False), ("ARG2", "x", False), ("ARG3", "h", True)]],
    "_the_q": [[("ARG0", "x", False), ("RSTR", "h", False), ("BODY", "h", False)]],
    "udef_q": [[("ARG0", "x", False), ("RSTR", "h", False), ("BODY", "h", True)]],
    "named": [[("ARG0", "x", False), ("CARG", "string", False)]],
    "card": [[("CARG", "string", False), ("ARG0", "e", False), ("ARG1", "x", False)]],
    "ord": [[("ARG0", "e", False), ("CARG", "string", False), ("ARG1", "x", False)]],   # CARG in the middle (F50)
    "yofc": [[("ARG0", "x", False)]],                       # CARG not listed in the synopsis
    "_and_c": [[("ARG0", "x", False), ("L-INDEX", "x", False), ("R-INDEX", "x", False)],
               [("ARG0", "e", False), ("L-INDEX", "e", False), ("R-INDEX", "e", False)]],
    "_try_v_1": [[("ARG0", "e", False), ("ARG1", "x", False), ("ARG2", "h", False)],
                 [("ARG0", "e", False), ("ARG1", "x", False), ("ARG2", "x", False)]],
    "neg": [[("ARG0", "e", False), ("ARG1", "h", False)]],
    "empty_args": [[]],
}
_SEMIS = {}


def preds_key(preds):
    return json.dumps(preds, sort_keys=True)


def ix_semi(preds=None):
    """a SemI object for the synopsis table `preds` (default IX_PREDS); cached per table."""
    preds = IX_PREDS if preds is None else preds
    key = preds_key(preds)
    if key not in _SEMIS:
        if len(_SEMIS) > 64:
            _SEMIS.clear()
        pd = {p: {"synopses": [{"roles": [{"name": r, "value": v, "optional": bool(o)} for r, v, o in syn]}
                               for syn in syns]} for p, syns in preds.items()}
        with warnings.catch_warnings():
            warnings.simplefilter("ignore")
            _SEMIS[key] = dsemi.SemI(variables=IX_VARS, properties=IX_PROPS,
                                     roles={r: {"value": v} for r, v in IX_ROLES.items()}, predicates=pd)
    return _SEMIS[key]


def _descendants(table):
    kids = {}
    for k, d in table.items():
        for p_ in d.get("parents", []):
            kids.setdefault(p_, []).append(k)

    def desc(k, seen):
        for c_ in kids.get(k, []):
            if c_ not in seen:
                seen.append(c_)
                desc(c_, seen)
        return seen
    return [[cps(k), [cps(x) for x in desc(k, [])]] for k in table]


def semi_wire(preds):
    """the SEM-I as the Lean driver reads it (tables computed from the same literals the SemI object is built from)"""
    return {"preds": [[cps(p), [[[cps(r), cps(v), bool(o)] for r, v, o in syn] for syn in syns]] for p, syns in preds.items()],
            "vprops": [[cps(k), [[cps(a.upper()), cps(b.lower())] for a, b in d.get("properties", [])]]
                       for k, d in IX_VARS.items()],
            "sub": _descendants(IX_VARS), "psub": _descendants(IX_PROPS)}


IX_VOCAB = ["_rain_v_1", "_dog_n_1", "_bark_v_1", "_chase_v_1", "_the_q", "named", "card", "neg"]
IX_ARGROLES = ["ARG1", "ARG2", "ARG3", "RSTR", "BODY", "L-INDEX", "R-INDEX"]


def gen_ix_preds(rng):
    """a fresh synopsis table over the fixed vocabulary IX_VOCAB: role names, order, sorts, optionality and the
    presence/position/optionality of CARG vary from call to call, so consecutive SEM-Is disagree."""
    preds = {}
    for p in IX_VOCAB:
        syns = []
        for _ in range(rng.choice([1, 1, 1, 2])):
            k = rng.choice([0, 1, 1, 2, 2, 3])
            names = ["ARG0"] + rng.sample(IX_ARGROLES, k)
            if rng.random() < 0.35:
                rng.shuffle(names)
            roles = [[r, rng.choice(["e", "x", "x", "h", "e", "i", "u", "p"]), False] for r in names]
            for r in reversed(roles[1:]):
                if rng.random() < 0.3:
                    r[2] = True
                else:
                    break
            c = rng.random()
            if c < 0.45:
                pos = rng.randrange(len(roles) + 1)
                copt = rng.random() < 0.3
                # an optional role may only be followed by optional roles (positional reading)
                if copt and any(not r[2] for r in roles[pos:]):
                    copt = False
                if any(r[2] for r in roles[:pos]):
                    copt = True
                roles.insert(pos, ["CARG", "string", copt])
            syns.append(roles)
        r_ = rng.random()
        if r_ < 0.10:
            syns = [[]] if rng.random() < 0.5 else [[["CARG", "string", False]]]      # no roles at all / CARG only
        elif r_ < 0.22 and len(syns[0]) >= 3 and all(not x[2] for x in syns[0]):
            # a longer all-required synopsis listed before a shorter one that skips one of its middle roles
            k_ = rng.randrange(1, len(syns[0]) - 1)
            syns = [syns[0], syns[0][:k_] + syns[0][k_ + 1:]]
        preds[p] = syns
    return preds


IX_SUBSORT = {"u": "exh", "i": "ex", "p": "xh", "e": "e", "x": "x", "h": "h"}


def gen_ix_mrs(rng, preds=None):
    preds = IX_PREDS if preds is None else preds
    counter = [0]
    pool = {"x": [], "e": [], "h": []}

    def var(sort):
        sort = rng.choice(IX_SUBSORT[sort])
        if pool[sort] and rng.random() < 0.5:
            return rng.choice(pool[sort])
        counter[0] += rng.choice([1, 1, 2])
        v = "%s%d" % (sort, counter[0])
        pool[sort].append(v)
        return v
    top = var("h")
    index = var(rng.choice("ex"))
    rels = []
    for _ in range(rng.choice([0, 1, 1, 2, 3, 4, 6])):
        p = rng.choice(list(preds))
        syn = rng.choice(preds[p])
        roles = list(syn)
        while roles and roles[-1][2] and rng.random() < 0.5:
            roles.pop()
        d_ = rng.random()
        if d_ < 0.12:
            roles = [x for x in roles if x[0] == "CARG"]          # no variable argument at all (maybe CARG only)
        elif d_ < 0.20:
            roles = [x for x in roles if x[0] in ("ARG0", "CARG")]    # ARG0 only
        args = []
        for r, v, o in roles:
            if r == "CARG":
                if not o or rng.random() < 0.6:
                    args.append([cps("CARG"), cps(gen_text(rng, allow_empty=False))])
            else:
                args.append([cps(r), cps(var(v))])
        if not any(r == "CARG" for r, _, _ in syn) and (p == "yofc" or rng.random() < 0.12):
            args.append([cps("CARG"), cps(gen_text(rng, allow_empty=False))])
        label = var("h")
        carg_ = next((a for a in args if uncps(a[0]) == "CARG"), None)
        if carg_ is not None and rng.random() < 0.15:
            # a constant that coincides with another piece of the same predication
            others = [uncps(v) for k_, v in args if uncps(k_) != "CARG"] + [p, label]
            carg_[1] = cps(rng.choice(others))
        rng.shuffle(args)
        rels.append({"pred": cps(p), "label": cps(label), "args": args,
                     "lnk": gen_lnk(rng, "indexed"), "surface": None, "base": None})
    if rels and rng.random() < 0.08:
        i_ = rng.randrange(len(rels))
        rels.insert(rng.choice([i_ + 1, len(rels)]), json.loads(json.dumps(rels[i_])))
    hcons = [[cps(var("h")), cps(rng.choice(["qeq", "lheq", "outscopes"])), cps(var("h"))]
             for _ in range(rng.choice([0, 1, 1, 2]))]
    icons = [[cps(var(rng.choice("ex"))), cps(rng.choice(["topic", "focus"])), cps(var(rng.choice("ex")))]
             for _ in range(rng.choice([0, 0, 1, 2]))]
    vs = []
    used = [index] + [uncps(v) for e in rels for k, v in e["args"] if uncps(k) != "CARG"]
    for v in dict.fromkeys(used):
        s = v[0]
        if s in ("e", "x") and rng.random() < 0.6:
            ps = [[cps(k), cps(rng.choice(IX_SUB[val]))] for k, val in IX_VARS[s]["properties"]]
            rng.shuffle(ps)
            vs.append([cps(v), ps])
    return {"top": cps(top), "index": cps(index), "rels": rels, "hcons": hcons, "icons": icons, "vars": vs,
            "lnk": None, "surface": None, "ident": None}


def ix_unambiguous(mj, preds=None):
    """the SEM-I `covers` the structure: for every EP the encoder finds a synopsis with all the EP's roles, and
    the positional reading of what it writes selects a synopsis that gives the same role names back
    (generator-side filter, written from the documented lookup: with a constant, first a synopsis that lists
    CARG whose other roles fit the argument sorts in order; otherwise the first synopsis whose roles fit)."""
    preds = IX_PREDS if preds is None else preds
    sub = {"u": "uipexh", "i": "iex", "p": "pxh", "e": "e", "x": "x", "h": "h", "string": ()}

    def fits(roles, ts):
        if len(ts) > len(roles):
            return False
        for i, (r, v, o) in enumerate(roles):
            if i < len(ts):
                if ts[i] not in sub[v]:
                    return False
            elif not o:
                return False
        return True
    for e in mj["rels"]:
        p = uncps(e["pred"])
        have = {uncps(k): uncps(v) for k, v in e["args"]}
        for syn in preds[p]:
            names = [r for r, _, _ in syn]
            if set(have) - {"CARG"} <= set(names) and len(set(have) - {"CARG"}) <= len(syn):
                enc_syn = syn
                break
        else:
            return False
        order = [r for r, _, _ in enc_syn if r in have and r != "CARG"]
        types = [have[r][0] for r in order]
        chosen = None
        if "CARG" in have:
            for syn in preds[p]:
                roles = [x for x in syn if x[0] != "CARG"]
                if len(roles) < len(syn) and fits(roles, types):
                    chosen = syn
                    break
        if chosen is None:
            for syn in preds[p]:
                if not types or fits(syn, types):      # find_synopsis: `if not args or …` -> first synopsis
                    chosen = syn
                    break
        if chosen is None:
            return False
        names = [r for r, _, _ in chosen if r != "CARG"]
        if names[:len(order)] != order:
            return False
    return True


# ---- long documents: token streams longer than the lexer's 1024-token look-ahead buffer

_LONG = None


def long_cases():
    """deterministic (fixed seed, the same in every run): for SimpleMRS and Indexed MRS, documents of > 1024 and
    > 2048 lexer tokens in which the first token of some item lies d tokens after a multiple of 1024, for every
    d in -3..3, and single structures of > 1024 and > 2048 tokens."""
    global _LONG
    if _LONG is not None:
        return _LONG
    import random
    out = []
    for codec in ("simple", "indexed"):
        rng = random.Random(20260929)
        lexer = simplemrs.SimpleMRSLexer if codec == "simple" else indexedmrs._IndexedMRSLexer
        c = Codec(codec)
        o = {"properties": True, "lnk": True}

        def ntok(mj):
            return sum(1 for _ in lexer.prelex(c.encode(m_from_wire(mj), **o).splitlines()))

        def lead(k, j):
            rels = [{"pred": cps("_rain_v_1"), "label": cps("h1"), "args": [[cps("ARG0"), cps("e2")]],
                     "lnk": {"c": [0, 1]} if i < j else None, "surface": None, "base": None} for i in range(k)]
            return {"top": cps("h0"), "index": cps("e2"), "rels": rels, "hcons": [], "icons": [], "vars": [],
                    "lnk": None, "surface": None, "ident": None}
        ordinary = []
        while len(ordinary) < 90:
            mj = gen_mrs(rng, "simple", size=rng.choice([1, 2, 2, 3])) if codec == "simple" else gen_ix_mrs(rng)
            if codec == "indexed" and (not ix_unambiguous(mj) or not mj["rels"]):
                continue
            ordinary.append(mj)
        counts = [ntok(mj) for mj in ordinary]
        prefix = [0]
        for n_ in counts:
            prefix.append(prefix[-1] + n_)
        achievable = {}
        for k in range(0, 16):
            for j in range(0, k + 1):
                achievable.setdefault(ntok(lead(k, j)), (k, j))
        for boundary in (1024, 2048):
            for d in (-3, -2, -1, 0, 1, 2, 3):
                target = boundary + d
                for i in range(len(ordinary) - 1, 0, -1):
                    need = target - prefix[i]
                    if need in achievable:
                        total = 0
                        n_items = i + 1
                        while n_items < len(ordinary) and need + prefix[n_items] < target + 200:
                            n_items += 1
                        out.append({"kind": "long", "codec": codec, "items": [lead(*achievable[need])] + ordinary[:n_items],
                                    "props": True, "lnk": True, "boundary": boundary, "offset": d, "item": i + 1,
                                    "tokens": need + prefix[n_items], "single": False})
                        break
        for k in (200, 340):
            out.append({"kind": "long", "codec": codec, "items": [lead(k, 5)], "props": True, "lnk": True,
                        "boundary": None, "offset": None, "tokens": ntok(lead(k, 5)), "single": True})
    _LONG = out
    return out


# ---- long TEXT documents for the tree/library codecs (chunked reading: 16 KiB and up)

_TEXTPOOL = {}
TEXT_POOL_SEED = 20260930


def text_pool(codec):
    """deterministic pool of ordinary items of varying size for `codec` (mrx/json)"""
    if codec not in _TEXTPOOL:
        import random
        rng = random.Random(TEXT_POOL_SEED + len(codec))
        _TEXTPOOL[codec] = [gen_mrs(rng, codec, size=rng.choice([1, 2, 2, 3, 4, 6])) for _ in range(260)]
    return _TEXTPOOL[codec]


def text_lead(codec, shift):
    """a leading item whose text is `shift` characters longer than that of shift 0"""
    return {"top": cps("h0"), "index": cps("e2"),
            "rels": [{"pred": cps("_rain_v_1"), "label": cps("h1"), "args": [[cps("ARG0"), cps("e2")]],
                      "lnk": {"c": [0, 4]}, "surface": cps("x" * shift), "base": None}],
            "hcons": [], "icons": [], "vars": [], "lnk": None, "surface": None, "ident": None}


def longtext_items(case):
    return [text_lead(case["codec"], case["shift"])] + text_pool(case["codec"])[:case["n"]]


_LONGTEXT = {}


def longtext_cases(tier):
    """deterministic: MRX and MRS-JSON documents of > 16 KiB, > 64 KiB and > 128 KiB; a family of leading items
    shifts every later item boundary by 1..40 characters; for MRX additionally documents in which the `<mrs` of some
    item starts exactly d characters (d = -1, 0, 1) after 8192, 16384, 32768 and 65536."""
    if tier in _LONGTEXT:
        return _LONGTEXT[tier]
    out = []
    for codec in ("mrx", "json"):
        mod = mrx if codec == "mrx" else mrsjson
        pool = text_pool(codec)
        lens = [len(mod.encode(m_from_wire(j))) for j in pool]

        def n_for(target):
            tot, n = 0, 0
            while n < len(pool) and tot <= target + 2000:
                tot += lens[n]
                n += 1
            return n
        shifts16 = [1, 2, 3, 4, 5, 7, 10, 13, 17, 23, 31, 40] if codec == "mrx" else [1, 2, 7, 40]
        fam = [(16384, sh) for sh in shifts16] + [(65536, sh) for sh in ((1, 9, 24, 40) if codec == "mrx" else (3,))]
        fam += [(131072, sh) for sh in ((2, 33) if (codec == "mrx" and tier != "quick") or codec == "mrx" else (5,))]
        for target, sh in fam:
            out.append({"kind": "longtext", "codec": codec, "n": n_for(target), "shift": sh, "target": target,
                        "pool_seed": TEXT_POOL_SEED, "props": True, "lnk": True, "exact": None})
        if codec == "mrx":
            # exact hits: start of some item at boundary + d in the un-indented dumps text
            base = mrx.dumps([m_from_wire(j) for j in [text_lead(codec, 0)] + pool[:n_for(65536)]])
            starts = [i for i in range(len(base)) if base.startswith("<mrs ", i) or base.startswith("<mrs>", i)]
            for boundary in (8192, 16384, 32768, 65536):
                for d in (-1, 0, 1):
                    cands = [p_ for p_ in starts[1:] if p_ <= boundary + d]
                    if not cands:
                        continue
                    sh = boundary + d - cands[-1]
                    out.append({"kind": "longtext", "codec": codec, "n": n_for(max(boundary, 16384)), "shift": sh,
                                "target": boundary, "pool_seed": TEXT_POOL_SEED, "props": True, "lnk": True,
                                "exact": d})
    _LONGTEXT[tier] = out
    return out


# ---- object churn: SEM-Is and structures built, used, dropped and rebuilt in a row

CHURN_PAIRS = [("ARG1", "ARG2"), ("ARG1", "ARG3"), ("ARG2", "ARG3"), ("ARG3", "ARG1"), ("ARG2", "ARG1"), ("ARG3", "ARG2")]


def gen_churn(rng, codec, n=12):
    """n different small structures (for Indexed MRS with n SEM-Is that disagree on the role names of the same
    predicates and arities: the k-th structure is covered by the k-th SEM-I only)"""
    items, semis = [], []
    off = rng.randrange(len(CHURN_PAIRS))
    for k in range(n):
        if codec == "indexed":
            a, b = CHURN_PAIRS[(k + off) % len(CHURN_PAIRS)]
            preds = gen_ix_preds(rng)
            preds["_chase_v_1"] = [[["ARG0", "e", False], [a, "x", False], [b, "x", False]]]
            preds["_bark_v_1"] = [[["ARG0", "e", False], [b, "x", False]]]
            for _try in range(60):
                mj = gen_ix_mrs(rng, preds)
                if ix_unambiguous(mj, preds):
                    break
            else:
                mj = {"top": cps("h0"), "index": cps("e2"), "rels": [], "hcons": [], "icons": [], "vars": [],
                      "lnk": None, "surface": None, "ident": None}
            mj["rels"] = [{"pred": cps("_chase_v_1"), "label": cps("h90"),
                           "args": [[cps("ARG0"), cps("e91")], [cps(a), cps("x92")], [cps(b), cps("x93")]],
                           "lnk": None, "surface": None, "base": None},
                          {"pred": cps("_bark_v_1"), "label": cps("h90"),
                           "args": [[cps("ARG0"), cps("e94")], [cps(b), cps("x93")]],
                           "lnk": None, "surface": None, "base": None}] + mj["rels"]
            semis.append(preds)
            items.append(mj)
        else:
            items.append(gen_mrs(rng, codec, size=rng.choice([1, 1, 2])))
    case = {"kind": "churn", "codec": codec, "items": items, "props": rng.random() < 0.7, "lnk": rng.random() < 0.7}
    if codec == "indexed":
        case["semis"] = semis
    return case


def fresh_semi(preds):
    """a NEW SemI object every time (never cached: the churn clause needs the objects to die)"""
    pd = {p: {"synopses": [{"roles": [{"name": r, "value": v, "optional": bool(o)} for r, v, o in syn]}
                           for syn in syns]} for p, syns in preds.items()}
    with warnings.catch_warnings():
        warnings.simplefilter("ignore")
        return dsemi.SemI(variables=IX_VARS, properties=IX_PROPS,
                          roles={r: {"value": v} for r, v in IX_ROLES.items()}, predicates=pd)


# ---- MRX documents not written by the encoder: the reader's branches the encoder's output never takes
# (`lo` given as a var element, one of cfrom/cto missing, realpred attributes predicate.create rejects); whatever
# decode() returns for them is an MRS and must round-trip like any other
_FM = ('<mrs%s><label vid="0"/><var vid="2" sort="e"><extrapair><path>TENSE</path><value>PRES</value></extrapair></var>'
       '<ep cfrom="0" cto="3">%s<label vid="1"/><fvpair><rargname>arg0</rargname><var vid="2" sort="E"/></fvpair>'
       '<fvpair><rargname>CARG</rargname><constant> K </constant></fvpair></ep>'
       '<hcons hreln="qeq"><hi><var vid="0" sort="h"/></hi><lo>%s</lo></hcons></mrs>')
_RP = '<realpred lemma="%s" pos="%s"%s/>'
FOREIGN_MRX = [
    _FM % ("", _RP % ("rain", "v", ' sense="1"'), '<var vid="1" sort="h"/>'),
    _FM % ("", _RP % ("rain", "v", ""), '<var vid="7" sort="H"/>'),
    _FM % (' cfrom="1" cto="2" surface="s" ident="i"', "<pred>udef_q</pred>", '<label vid="1"/>'),
    _FM % (' cfrom="1"', "<spred>a b</spred>", '<label vid="1"/>'),
    _FM % (' cto="1"', "<spred>a b</spred>", '<label vid="1"/>'),
    _FM % ("", _RP % ("a b", "v", ""), '<label vid="1"/>'),
    _FM % ("", _RP % ("rain", "zz", ""), '<label vid="1"/>'),
    _FM % ("", _RP % ("rain", "V", ' sense="x y"'), '<label vid="1"/>'),
    "<mrs-list>" + _FM % ("", "<pred>named</pred>", '<var vid="1" sort="h"/>') + "</mrs-list>",
]


# ------------------------------------------------------------------ the property, re-stated naively

INDENTS = [False, True, None, 0, 2]
EXTRA_INDENTS = [1, 3, 4, 7]      # one of them per case (field indent_extra), all of them in the deterministic block


def same_lnk(codec, a, b):
    """alignment equality: SimpleMRS/Indexed carry the Lnk itself; MRX/JSON carry (cfrom, cto)."""
    if codec in ("simple", "indexed"):
        return a.type == b.type and a.data == b.data
    return (b.type in (Lnk.UNSPECIFIED, Lnk.CHARSPAN)
            and (a.data if a.type == Lnk.CHARSPAN else (-1, -1)) == (b.data if b.type == Lnk.CHARSPAN else (-1, -1)))


def compare(codec, props, lnk, m, d):
    """list of differences between the decoded `d` and `m` with exactly the suppressed information removed."""
    out = []
    if d.top != m.top:
        out.append("top")
    if d.index != m.index:
        out.append("index")
    if len(d.rels) != len(m.rels):
        out.append("number of predications")
    for a, b in zip(m.rels, d.rels):
        if a.predicate != b.predicate:
            out.append("predicate")
        if a.label != b.label:
            out.append("label")
        if dict(a.args) != dict(b.args) or any(type(v) is not str for v in b.args.values()):
            out.append("arguments")
        if lnk:
            if not same_lnk(codec, a.lnk, b.lnk):
                out.append("lnk")
            if codec != "indexed" and a.surface != b.surface:
                out.append("surface")
            if codec in ("mrx", "json") and a.base != b.base:
                out.append("base")
        else:
            if b.lnk is None or b.lnk.type != Lnk.UNSPECIFIED:
                out.append("lnk not removed")
            if b.surface is not None or b.base is not None:
                out.append("surface/base not removed")
        if codec in ("simple", "indexed") and b.base is not None:
            out.append("base invented")
        if codec == "indexed" and b.surface is not None:
            out.append("surface invented")
    if [tuple(x) for x in d.hcons] != [tuple(x) for x in m.hcons]:
        out.append("hcons")
    if [tuple(x) for x in d.icons] != [tuple(x) for x in m.icons]:
        out.append("icons")
    want = {v: (dict(ps) if props else {}) for v, ps in m.variables.items()}
    got = {v: dict(ps) for v, ps in d.variables.items()}
    if codec == "indexed":
        want = {v: {k: x.lower() for k, x in ps.items()} for v, ps in want.items()}
        got = {v: {k: x.lower() for k, x in ps.items()} for v, ps in got.items()}
    if want != got:
        out.append("variable properties")
    # structure-level information the format carries
    if codec == "simple":
        if lnk:
            if bool(m.lnk) and not same_lnk(codec, m.lnk, d.lnk):
                out.append("mrs lnk")
            if not bool(m.lnk) and bool(d.lnk):
                out.append("mrs lnk invented")
            if d.surface != m.surface:
                out.append("mrs surface")
        elif bool(d.lnk) or d.surface is not None:
            out.append("mrs lnk/surface not removed")
    if codec == "mrx":
        if lnk:
            if not same_lnk(codec, m.lnk, d.lnk):
                out.append("mrs lnk")
            if d.surface != m.surface:
                out.append("mrs surface")
        elif bool(d.lnk) or d.surface is not None:
            out.append("mrs lnk/surface not removed")
        if d.identifier != m.identifier:
            out.append("mrs identifier")
    return out


class Codec:
    def __init__(self, name, preds=None):
        self.name = name
        self.mod = {"simple": simplemrs, "json": mrsjson, "mrx": mrx, "indexed": indexedmrs}[name]
        self.kw = {"semi": ix_semi(preds)} if name == "indexed" else {}

    def encode(self, m, **o):
        return self.mod.encode(m, **self.kw, **o)

    def decode(self, s):
        return self.mod.decode(s, **self.kw)

    def dumps(self, ms, **o):
        return self.mod.dumps(ms, **self.kw, **o)

    def loads(self, s):
        return self.mod.loads(s, **self.kw)

    def dump(self, ms, f, **o):
        return self.mod.dump(ms, f, **self.kw, **o)

    def load(self, f):
        return self.mod.load(f, **self.kw)


def errname(e):
    if isinstance(e, MRSSyntaxError):
        return "MRSSyntaxError"
    for c in (StopIteration, LnkError, ValueError, KeyError, AttributeError, TypeError, AssertionError, IndexError):
        if isinstance(e, c):
            return c.__name__
    return type(e).__name__


# ------------------------------------------------------------------ pins: constants of the anchored code

_MESSAGE = re.compile(r"^(invalid|expected|unexpected|undefined|both |no valid|strings cannot|incompatible|"
                      r"declared|pattern does not)|[A-Za-z]{3,} [a-z]{3,} [a-z]{2,}", re.I)


def _render(c):
    if isinstance(c, bool) or c is None:
        return None
    if isinstance(c, (int, float)):
        return str(c)
    if isinstance(c, str):
        return c
    if isinstance(c, (tuple, frozenset)):
        parts = [_render(x) for x in (sorted(c) if isinstance(c, frozenset) else c)]
        if any(p_ is None for p_ in parts):
            parts = [p_ if p_ is not None else "None" for p_ in parts]
        return "(" + ",".join(parts) + ")"
    return None


def code_consts(fn, names=False):
    """string / number / tuple constants of a function's code object and of the code objects nested in it
    (inner functions, lambdas, comprehensions), in order; docstrings and message texts dropped.  With
    names=True the attribute/global names the code uses (co_names) are appended after a "|" marker."""
    code = getattr(fn, "__code__", fn)
    out = []
    nm = []

    def walk(co, doc):
        for c in co.co_consts:
            if hasattr(c, "co_consts"):
                walk(c, None)
                continue
            if isinstance(c, str) and (c == doc or _MESSAGE.search(c)):
                continue
            r = _render(c)
            if r is not None:
                out.append(r)
        nm.extend(co.co_names)
    walk(code, getattr(fn, "__doc__", None))
    if names:
        out.append("|")
        out.extend(nm)
    return out


def defaults_of(fn):
    d = [repr(x) for x in (fn.__defaults__ or ())]
    d += ["%s=%r" % kv for kv in sorted((fn.__kwdefaults__ or {}).items())]
    return d


def pin_values():
    """name -> list of strings: everything of the anchored code that the models hand-code an equivalent of"""
    from delphin import lnk as dlnk, util as dutil
    from delphin.mrs import _mrs as dmrs
    P = {}
    flat = lambda toks: [x for pat, name in toks for x in (pat, name)]   # noqa: E731
    # --- simplemrs
    P["c01SimpleLexer"] = flat(simplemrs.SimpleMRSLexer.tokens)
    P["c01SimpleEscapes"] = [x for kv in simplemrs._ESCAPES.items() for x in kv]
    P["c01SimpleUnescapes"] = [x for kv in simplemrs._UNESCAPES.items() for x in kv]
    for fn in ("_decode", "_decode_mrs", "_decode_lnk", "_decode_dqstring", "_decode_variable", "_decode_rel",
               "_decode_predicate", "_decode_cons"):
        P["c01Simple" + fn] = code_consts(getattr(simplemrs, fn), names=True)
    for fn in ("_encode", "_encode_mrs", "_encode_surface_info", "_encode_hook", "_encode_variable", "_encode_rels",
               "_encode_predicate", "_encode_hcons", "_encode_icons", "_escape", "_unescape", "decode", "loads"):
        P["c01Simple" + fn] = code_consts(getattr(simplemrs, fn))
    # --- indexedmrs
    P["c01IndexedLexer"] = flat(indexedmrs._IndexedMRSLexer.tokens)
    for fn in ("_decode", "_decode_indexed", "_decode_proplist", "_decode_rels", "_decode_rel", "_decode_lnk",
               "_find_synopsis", "_decode_arglist", "_decode_cons", "_match_properties"):
        P["c01Indexed" + fn] = code_consts(getattr(indexedmrs, fn), names=True)
    for fn in ("_encode", "_encode_indexed", "_prepare_variable_properties", "_encode_variable", "_encode_rel",
               "_encode_hcons", "_encode_icons", "_escape", "_unescape"):
        P["c01Indexed" + fn] = code_consts(getattr(indexedmrs, fn))
    # --- lnk
    P["c01LnkTypes"] = [str(x) for x in (Lnk.UNSPECIFIED, Lnk.CHARSPAN, Lnk.CHARTSPAN, Lnk.TOKENS, Lnk.EDGE)]
    P["c01LnkInit"] = code_consts(Lnk.__init__, names=True)
    P["c01LnkStr"] = code_consts(Lnk.__str__)
    P["c01LnkBool"] = code_consts(Lnk.__bool__)
    P["c01LnkCfrom"] = code_consts(dlnk.LnkMixin.cfrom.fget)
    P["c01LnkCto"] = code_consts(dlnk.LnkMixin.cto.fget)
    # --- predicate / variable / sembase
    # the part-of-speech class is built from a set: its character order is arbitrary per process -> sorted
    poscls, possorted = "[%s]" % "".join(dpred._POS), "[%s]" % "".join(sorted(dpred._POS))
    P["c01PredPatterns"] = [x.replace(poscls, possorted) for x in (dpred._lemma_re.pattern, dpred._pos_re.pattern, str(int(dpred._pos_re.flags)),
                            dpred._sense_re.pattern, dpred._strict_predicate_re.pattern,
                            str(int(dpred._strict_predicate_re.flags)), dpred._robust_predicate_re.pattern,
                            str(int(dpred._robust_predicate_re.flags)))]
    for fn in ("_strip_predicate", "split", "create", "normalize", "is_surface", "is_abstract"):
        P["c01Pred" + fn] = code_consts(getattr(dpred, fn), names=True)
    P["c01VariableRe"] = [variable._variable_re.pattern, str(int(variable._variable_re.flags))]
    P["c01VariableSplit"] = code_consts(variable.split, names=True)
    P["c01VariableType"] = code_consts(variable.type, names=True)
    P["c01RolePriority"] = code_consts(sembase.role_priority, names=True)
    P["c01PropertyPriority"] = code_consts(sembase.property_priority, names=True)
    # --- the MRS object
    P["c01MrsRoles"] = [dmrs.INTRINSIC_ROLE, dmrs.RESTRICTION_ROLE, dmrs.BODY_ROLE, dmrs.CONSTANT_ROLE, dmrs._QUANTIFIER_TYPE]
    P["c01EPInit"] = code_consts(EP.__init__)
    P["c01FillVariables"] = code_consts(dmrs._fill_variables, names=True)
    # --- mrx
    for fn in ("_decode", "_decode_mrs", "_decode_label", "_decode_var", "_decode_extrapairs", "_decode_ep",
               "_decode_pred", "_decode_args", "_decode_hcons", "_decode_icons", "_decode_lnk"):
        P["c01Mrx" + fn] = code_consts(getattr(mrx, fn), names=True)
    for fn in ("_encode", "_encode_mrs", "_encode_label", "_encode_variable", "_encode_extrapair", "_encode_ep",
               "_encode_pred", "_encode_arg", "_encode_constant", "_encode_hcon", "_encode_icon", "_tostring"):
        P["c01Mrx" + fn] = code_consts(getattr(mrx, fn))
    # --- mrsjson
    for fn in ("to_dict", "from_dict", "encode", "decode", "dumps", "loads", "dump", "load"):
        P["c01Json_" + fn] = code_consts(getattr(mrsjson, fn))
    # --- semi
    P["c01SemiTypes"] = [dsemi.STRING_TYPE, dsemi.TOP_TYPE]
    P["c01SemiSubsumes"] = code_consts(dsemi.Synopsis.subsumes, names=True)
    P["c01SemiFindSynopsis"] = code_consts(dsemi.SemI.find_synopsis, names=True)
    # --- the look-ahead lexer
    P["c01LookaheadDefaults"] = defaults_of(dutil.LookaheadIterator.__init__) + defaults_of(dutil.LookaheadLexer.__init__)
    P["c01LexerPrelex"] = code_consts(dutil.Lexer.prelex, names=True)
    # --- default arguments of the public API
    for name, mod in (("Simple", simplemrs), ("Mrx", mrx), ("Json", mrsjson), ("Indexed", indexedmrs)):
        P["c01Defaults" + name] = [x for fn in ("encode", "decode", "dumps", "loads", "dump", "load")
                                   for x in [fn + ":"] + defaults_of(getattr(mod, fn))]
    return P


def pin_tables():
    esc = simplemrs._ESCAPES
    lines = [
        "def c01CommonProperties : List String := [%s]"
        % ", ".join(tables.lean_strlit(s) for s in sembase._COMMON_PROPERTIES),
        "def c01Pos : List Char := [%s]" % ", ".join(tables.lean_char(c) for c in sorted(dpred._POS)),
        "def c01Escapes : List (Char × List Char) := [%s]"
        % ", ".join("(%s, %s)" % (tables.lean_char(k), tables.lean_str(v)) for k, v in esc.items()),
        "def c01ConstantRole : String := %s" % tables.lean_strlit(simplemrs.CONSTANT_ROLE),
        "def c01TopFeature : String := %s" % tables.lean_strlit(simplemrs.TOP_FEATURE),
    ]
    for name, vals in pin_values().items():
        lines.append("def %s : List String := [%s]" % (name, ", ".join(tables.lean_strlit(v) for v in vals)))
    return lines


class C01(Check):
    pid = "C01"
    quick_cases = 1500
    thorough_cases = 12000
    rule = ("MRS objects of 0-8 EPs built from pools of variables (sorts x e h i u p ref-ind handle_, ids incl. "
            "leading zeros and 2^40), roles in random dict order (incl. BODY/CARG/LBL/unknown), properties on "
            "variables that occur in a variable position (common and unknown property names, lower-case values), "
            "predicates from families surface/abstract/must-be-quoted (quotes, backslashes, colons, brackets, "
            "blanks, NBSP) and, for the model only, un-normalised ones; constants and surface/base/identifier "
            "strings over an alphabet weighted to \" \\ ' : < > [ ] & ; XML/JSON metacharacters, combining and "
            "astral characters, no Cc/Cs/Zl/Zp; every Lnk kind the codec carries; x properties on/off x lnk on/off "
            "x indent in {False,True,None,0,2} plus one of {1,3,4,7} per case x encode/decode, dumps/loads, dump/load "
            "(StringIO, file name, open file; deterministically every codec x properties x lnk through file names with all "
            "indent widths); identical predications repeated (adjacent / apart), string fields that coincide (surface = "
            "predicate / label / constant, base = surface, constant = a variable of the same EP), MRS-JSON properties on "
            "variables outside every variable position; empty parts passed as None to the constructors; a purity clause "
            "(first encode/decode repeated after the battery) and an error-path clause (calls that raise half-way - "
            "variables without digits, predicates and roles the SEM-I lacks, truncated and half-valid documents - "
            "between normal calls). Hand-written MRX documents for the reader branches the encoder never takes. In every run 28 long documents (SimpleMRS, Indexed; "
            "item starts -3..+3 tokens around 1024 and 2048) and 4 single structures of > 1024 / > 2048 tokens. "
            "Also in every run 36 long TEXT documents for MRX and MRS-JSON (> 16, > 64 and > 128 KiB; leading item shifted "
            "by 1..40 characters; for MRX item starts exactly -1/0/+1 characters from 8192, 16384, 32768, 65536) "
            "through loads, load(StringIO), load(filename), load(open file), indent None and 2; and object-churn "
            "cases for all four codecs (12 structures - for Indexed MRS with 12 disagreeing SEM-Is - built, used and "
            "dropped one after the other, two passes). "
            "Indexed MRS: a fresh SEM-I per case (8 predicates, synopses vary in role names/order/sorts/optionality "
            "and CARG listed or not/position/optional) preceded in the same case by a second, disagreeing one; also "
            "structures covered by a fixed SEM-I with 14 predicates (two with two synopses, four with CARG listed "
            "first/middle/last/not at all). SimpleMRS token streams mutated (drop/dup/swap/replace/truncate, case "
            "changes, property blocks on handles). Non-trivial = at least one EP or a non-empty string; distinct by "
            "JSON text.")
    assumptions = [
        "xml.etree and json are parameters: parse(serialise(t)) = t on the trees/dicts the encoders build "
        "(checked as a side oracle on every generated case)",
        "SimpleMRS and Indexed MRS: the regex lexers are modelled character by character (Lexer.lean, IxLexer.lean; "
        "ASCII digits for \\d) and compared with the real lexers on strings over the token alphabets and on the real "
        "encoders' texts in every layout; the un-indented layouts `render`/`renderIx` and the indented SimpleMRS "
        "layout `renderInd` are compared with the real encode() text; the indented Indexed MRS layout `renderIxInd n` "
        "is compared with the real encode()/dumps() text for indent=True and one integer width per case, the un-indented "
        "document layout `renderIxDoc` with the real dumps() text; MRX: the text of encode()/dumps() for indent off, True "
        "and one integer width is compared with `mrxText` (model of the ElementTree writer on the encoder's trees and of "
        "the re.sub of mrx._tostring); reading XML text back is a library parameter",
        "list API: dumps/loads of all items of every rt case are compared with the models' document functions "
        "(toksMany/parseMany, toXmlList/ofXmlList, toDictList/fromDictList, toksIx of every item/parseManyIx); "
        "ofXmlList takes the mrs elements in document order (iterparse: end events) - the same on trees without "
        "nested mrs elements",
        "Indexed MRS: the model receives the SEM-I as tables (synopses, property lists per sort, descendants of "
        "both hierarchies) computed by the harness from the same literals the SemI object is built from",
        "case folding (str.lower/upper) is modelled on ASCII; generated atoms that get case-folded contain only "
        "characters on which Python's lower()/upper() agree with that",
        "alignment equality for MRX/MRS-JSON is equality of (cfrom, cto): that is all these formats carry",
        "the ValueError of EP.__init__ for an ARG0 value that is not a variable is not modelled (such mutated "
        "token streams are not compared)",
        "U+2029 PARAGRAPH SEPARATOR is treated as a line-separator character (str.splitlines splits there)",
    ]
    trusted_base = [
        "hand-written model lean/Verif/C01/Model.lean + lean/Verif/Common/Codec.lean, tied to delphin.codecs."
        "{simplemrs,mrsjson,mrx}, delphin.lnk, delphin.predicate by the correspondence run",
        "generated tables c01CommonProperties, c01Pos, c01Escapes, c01ConstantRole, c01TopFeature read from the live modules",
    ]

    def tables(self):
        return pin_tables()

    def setup(self):
        self.tmp = tempfile.mkdtemp(dir="/var/tmp", prefix="c01-")
        self.codecs = {n: Codec(n) for n in ("simple", "json", "mrx", "indexed")}

    def teardown(self):
        shutil.rmtree(getattr(self, "tmp", ""), ignore_errors=True)

    def codec_for(self, case, preds="case"):
        """the codec of a case; Indexed MRS gets the SEM-I of the case (a fresh table per case)"""
        if case["codec"] != "indexed":
            return self.codecs[case["codec"]]
        return Codec("indexed", case.get("semi") if preds == "case" else preds)

    # ---------------------------------------------------------------- cases
    def rt_case(self, rng, codec, n_items=None, size=None, family=None):
        k = n_items if n_items is not None else rng.choice([1, 1, 1, 1, 2, 3, 0])
        items = []
        extra = {}

        def ix_item(preds):
            for _try in range(60):
                mj = gen_ix_mrs(rng, preds)
                if ix_unambiguous(mj, preds):
                    return mj
            return {"top": cps("h0"), "index": cps("e2"), "rels": [], "hcons": [], "icons": [], "vars": [],
                    "lnk": None, "surface": None, "ident": None}
        if codec == "indexed":
            # a fresh SEM-I per case, and a second, disagreeing one used first in the same case ("pre")
            preds = gen_ix_preds(rng) if rng.random() < 0.8 else {p: [list(map(list, sy)) for sy in sys_]
                                                                   for p, sys_ in IX_PREDS.items()}
            other = gen_ix_preds(rng)
            extra = {"semi": preds, "pre": {"semi": other, "items": [ix_item(other) for _ in range(rng.choice([1, 2]))]}}
        for _ in range(k):
            if codec == "indexed":
                mj = ix_item(extra["semi"])
            else:
                mj = gen_mrs(rng, codec, size=size, pred_family=family)
            items.append(mj)
        case = {"kind": "rt", "codec": codec, "items": items, "props": rng.random() < 0.7, "lnk": rng.random() < 0.7,
                "file": rng.random() < 0.15, "expressible": family != "unnormalised",
                "indent_extra": rng.choice(EXTRA_INDENTS)}
        case.update(extra)
        return case

    LEXPIECES = ["[", "]", "<", ">", "<0:5>", "<-1:-1>", "<@3>", "<1 2>", "<1  2 3>", "<1 a>", "<:>", "<1:>", "<-1#2>", "<@>",
                 "<12", "\"", "\"a\\\"b\"", "\"a\\\\\"", "\"a\\", "\"x y\"", "'x", "'", "'a:b", "_a_n_1", "_a_n", "_a_n_rel",
                 "_a_n_1_rel", "_a_nx", "_a_", "__", "_", "_a_n_<1>", "_a_n_1<0:1>", "_a_n_x<y", "_a_n_1<0:1>x", "_a_n__",
                 "_a_N_1", "_a b_n_1", "_\xe9_v_2", "LBL:", "a:", ":", "::", "a:b:", "\"a:", "h1", "x", "\t", "\xa0",
                 "\u3000", " ", "  ", "\n", "\r", "\x0b", "\u2028", "\xe9", "#", "@", "-", "0", "12", "a<b", "a<0:5> ", "a<0:5>",
                 "a>", "a]", "a[", "x<1>\t", "x<1>\xa0", "<0:5>\t", "\\", "rel", "_rel", "TOP:", "qeq"]

    IXPIECES = ["<", ">", "{", "}", "(", ")", ",", ":", "<0:5>", "<-1:-1>", "<1:>", "<5:6", "<a:b>", "<1#2>", "<@3>", "<1 2>",
                "\"", "\"a\\\"b\"", "\"a\\", "\"x y\"", "\"\"", "h1", "e2", "_dog_n_1", "udef_q", "PRES", "+", "-", "qeq", "None",
                " ", "  ", "\n", "\t", "\xa0", "\u3000", "\r", "'", "/", ";", "=", "[", "]", "a'b", "a/b", "a;b", "a=b", "x[", "\xe9",
                "5", "12", "5:6", "h1:p<0:3>(e2,x4)", "<h0,e2:PROP,{", "},{h0 qeq h1}>", "@", "#", "\\", "&"]

    def lexix_case(self, rng):
        n = rng.choice([1, 2, 2, 3, 4, 5, 6, 8])
        out = []
        for _ in range(n):
            out.append(rng.choice(self.IXPIECES))
            out.append(rng.choice([" ", "", "", "", "\n"]))
        return {"kind": "lexix", "s": cps("".join(out))}

    def lex_case(self, rng):
        n = rng.choice([1, 2, 2, 3, 4, 5, 6, 8])
        out = []
        for _ in range(n):
            out.append(rng.choice(self.LEXPIECES))
            out.append(rng.choice([" ", " ", "", "", "\n"]))
        return {"kind": "lex", "s": cps("".join(out))}

    def parse_case(self, rng):
        c = self.codecs["simple"]
        toks = []
        for _ in range(rng.choice([1, 1, 1, 2, 3])):
            mj = gen_mrs(rng, "simple", size=rng.choice([0, 1, 1, 2, 3]),
                         pred_family=rng.choice([None, None, "unnormalised"]))
            try:
                text = c.encode(m_from_wire(mj), properties=rng.random() < 0.8, lnk=rng.random() < 0.8)
                toks += real_lex(text)
            except Exception:
                continue
        rend = {"LBRACK": lambda t: "[", "RBRACK": lambda t: "]", "LNK": lambda t: t, "DQSTRING": lambda t: '"%s"' % t,
                "SQSYMBOL": lambda t: "'" + t, "PREDICATE": lambda t: t, "LANGLE": lambda t: "<",
                "RANGLE": lambda t: ">", "FEATURE": lambda t: t + ":", "SYMBOL": lambda t: t}
        ws = [rend[k](uncps(t)) for k, t in toks]
        extra = ["[", "]", "<", ">", "LBL:", "lbl:", "RELS:", "rels:", "Hcons:", "ICONS:", "LTOP:", "top:", "INDEX:",
                 "FOO:", "CARG:", "carg:", "ARG1:", "h1", "X2", "x2", "qeq", "QEQ", "<0:1>", "<@3>", "<1 2>", "\"s\"",
                 "'sq", "_p_n_1", "_P_N_1_rel", "\"_Q_q_rel\"", "[ x PERS: 3 ]", "[ PERS: 3 NUM: SG ]", "[ x ]", "[ ]",
                 "pers:", "SG", "\"a\\\"b\\\\\"", "\"\"", "h1 [ h A: b ]", "x2 [ x PERS: 3 PERS: 2 ]"]
        for _ in range(rng.choice([0, 0, 1, 1, 2, 3])):
            if not ws:
                break
            i = rng.randrange(len(ws))
            op = rng.random()
            if op < 0.2:
                del ws[i]
            elif op < 0.3:
                ws.insert(i, ws[i])
            elif op < 0.55:
                ws[i] = rng.choice(extra)
            elif op < 0.8:
                ws.insert(i, rng.choice(extra))
            elif op < 0.9:
                j = rng.randrange(len(ws))
                ws[i], ws[j] = ws[j], ws[i]
            else:
                ws = ws[:i]
        sep = rng.choice([" ", " ", "\n", "  "])
        return {"kind": "parse", "text": cps(sep.join(ws))}

    def cases(self, rng, tier, n):
        # deterministic part: the empty structure, one-EP structures of every predicate family x codec
        for codec in ("simple", "json", "mrx", "indexed"):
            yield self.rt_case(rng, codec, n_items=0)
            yield self.rt_case(rng, codec, n_items=1, size=0)
            if codec != "indexed":
                for fam in ("surface", "abstract", "quoted"):
                    yield self.rt_case(rng, codec, n_items=1, size=1, family=fam)
                    yield self.rt_case(rng, codec, n_items=2, size=2, family=fam)
                yield self.rt_case(rng, codec, n_items=1, size=2, family="unnormalised")
            # every API path x option combination, deterministically: file names, every extra indent width
            for (p_, l_) in ((True, True), (True, False), (False, True), (False, False)):
                c_ = self.rt_case(rng, codec, n_items=2, size=None if codec == "indexed" else 3)
                c_.update({"props": p_, "lnk": l_, "file": True, "indent_all": list(EXTRA_INDENTS)})
                if codec == "indexed" and p_ == l_:
                    c_["indent_extra"] = 0 if p_ else 5       # the widths 0 and 5 of the modelled layout
                yield c_
        for lc in longtext_cases(tier):
            yield lc
        for t_ in FOREIGN_MRX:
            yield {"kind": "foreign", "codec": "mrx", "text": cps(t_)}
        for codec in ("indexed", "simple", "mrx", "json"):
            yield gen_churn(rng, codec)
        for lc in long_cases():
            yield lc
            if lc["codec"] == "simple" and lc["offset"] == 0:
                # the same document through the model's parser (item count and every structure)
                yield {"kind": "parse", "text": cps(simplemrs.dumps([m_from_wire(j) for j in lc["items"]]))}
        for s in ["", "\\", "\"", "\\\"", "a\\", "\\\\", "\"\"", "a\"b\\c", "\\n", "x\\\n", "\n"]:
            yield {"kind": "esc", "s": cps(s)}
        for s in ["", "<0:5>", "<-1:-1>", "<0#5>", "<@7>", "<1 2 3>", "<>", "<", ">", "<1>", "<a:b>", "<1:2:3>", "0:5",
                  "<1  2>", "<-3#-4>", "<007:08>", "<@>", "<:>", "<1:>", "<1#2#3>", "<@-1>"]:
            yield {"kind": "lnk", "s": cps(s)}
        for _ in range(400 if tier == "quick" else 6000):
            yield self.lex_case(rng)
        for _ in range(250 if tier == "quick" else 4000):
            yield self.lexix_case(rng)
        if tier != "quick":
            for a in self.LEXPIECES:
                for b in self.LEXPIECES:
                    yield {"kind": "lex", "s": cps(a + b + " " + a + " " + b)}
        for _ in range(n):
            r = rng.random()
            if r < 0.26:
                c_ = self.rt_case(rng, "simple")
                yield c_
                if c_["items"] and rng.random() < 0.5:
                    # the real encoder's text (either layout) through the model's lexer
                    try:
                        yield {"kind": "lex", "s": cps(simplemrs.dumps([m_from_wire(j) for j in c_["items"]],
                                                                         properties=c_["props"], lnk=c_["lnk"],
                                                                         indent=rng.choice([True, False])))}
                    except Exception:
                        pass
            elif r < 0.42:
                yield self.rt_case(rng, "mrx")
            elif r < 0.56:
                yield self.rt_case(rng, "json")
            elif r < 0.66:
                c_ = self.rt_case(rng, "indexed")
                yield c_
                if c_["items"] and rng.random() < 0.6:
                    try:
                        yield {"kind": "lexix", "s": cps(indexedmrs.dumps(
                            [m_from_wire(j) for j in c_["items"]], ix_semi(c_["semi"]), properties=c_["props"],
                            lnk=c_["lnk"], indent=rng.choice([True, False, 3])))}
                    except Exception:
                        pass
            elif r < 0.70:
                yield self.rt_case(rng, rng.choice(["simple", "json", "mrx"]), n_items=1, family="unnormalised")
            elif r < 0.715:
                yield gen_churn(rng, rng.choice(["indexed", "indexed", "simple", "mrx", "json"]))
            elif r < 0.80:
                yield self.parse_case(rng)
            elif r < 0.86:
                yield self.lex_case(rng)
            elif r < 0.95:
                s = gen_text(rng, maxlen=8)
                if rng.random() < 0.4:
                    s = gen_pred(rng, rng.choice(["surface", "abstract", "quoted", "unnormalised"]))
                if rng.random() < 0.3:
                    s = s + rng.choice(['"', '" x', '\\', '\\"', '"a"'])
                yield {"kind": "esc", "s": cps(s)}
            else:
                l = lnk_from_wire(gen_lnk(rng, "simple"))
                s = str(l) if l is not None else ""
                if rng.random() < 0.3 and s:
                    t = list(s)
                    i = rng.randrange(len(t))
                    t[i] = rng.choice("<>:#@ 0-a")
                    s = "".join(t)
                yield {"kind": "lnk", "s": cps(s)}

    def search_cases(self, rng, tier, n, seeds):
        kinds = {c.get("kind") for c in seeds} or {"rt", "parse", "esc", "lnk"}
        codecs = [c.get("codec") for c in seeds if c.get("kind") == "rt"] or ["simple", "json", "mrx", "indexed"]
        for _ in range(n):
            k = rng.choice(sorted(kinds))
            if k == "rt":
                yield self.rt_case(rng, rng.choice(codecs), size=rng.choice([0, 1, 1, 2, 3]))
            elif k == "parse":
                yield self.parse_case(rng)
            elif k == "esc":
                yield {"kind": "esc", "s": cps(gen_text(rng, maxlen=8))}
            else:
                yield self.rt_case(rng, rng.choice(["simple", "mrx", "json"]), size=1)

    # ---------------------------------------------------------------- implementation
    def inter(self, codec, m, props, lnk, semi=None):
        """the codec's intermediate form of m in wire shape"""
        if codec == "simple":
            return real_lex(simplemrs.encode(m, properties=props, lnk=lnk))
        if codec == "json":
            return j_to_wire(json.loads(json.dumps(mrsjson.to_dict(m, properties=props, lnk=lnk))))
        if codec == "mrx":
            return xml_to_wire(etree.fromstring(mrx.encode(m, properties=props, lnk=lnk)))
        return real_lex_ix(indexedmrs.encode(m, semi or ix_semi(), properties=props, lnk=lnk))

    @staticmethod
    def ix_width(case):
        """the integer indentation width whose Indexed MRS layout is compared with the model (besides indent=True)"""
        w = case.get("indent_extra")
        return 3 if w is None else w

    def impl_first(self, case):
        """the first item alone: encode / decode / re-encode under the case's options"""
        if not case["items"]:
            return {"empty": True}
        codec, props, lnk = case["codec"], case["props"], case["lnk"]
        c = self.codec_for(case)
        sm = c.kw.get("semi")
        try:
            m = m_from_wire(case["items"][0])
            first = self.inter(codec, m, props, lnk, sm)
            text = c.encode(m, properties=props, lnk=lnk)
        except Exception as e:
            return {"err": errname(e)}
        key = {"simple": "toks", "json": "dict", "mrx": "xml", "indexed": "toks"}[codec]
        rekey = {"simple": "retoks", "json": "redict", "mrx": "rexml", "indexed": "retoks"}[codec]
        lay = {"text": cps(text)} if codec in ("simple", "indexed") else {}
        if codec == "simple":
            lay["textind"] = cps(c.encode(m_from_wire(case["items"][0]), properties=props, lnk=lnk, indent=True))
        if codec == "mrx":
            lay["text"] = cps(text)
        if codec in ("indexed", "mrx"):
            lay["textind"] = cps(c.encode(m_from_wire(case["items"][0]), properties=props, lnk=lnk, indent=True))
            lay["textindn"] = cps(c.encode(m_from_wire(case["items"][0]), properties=props, lnk=lnk,
                                           indent=self.ix_width(case)))
        try:
            d = c.decode(text)
        except Exception as e:
            return {key: first, "dec": {"err": errname(e) if codec in ("simple", "indexed") else "Exception"}, **lay}
        out = {key: first, "dec": m_to_wire(d), **lay}
        if codec in ("simple", "indexed"):
            out["rest"] = 0
        try:
            out[rekey] = self.inter(codec, d, props, lnk, sm)
        except Exception as e:
            out[rekey] = {"err": errname(e)}
        return out

    def impl_list(self, case):
        """the list API on all items of the case: intermediate form of dumps(items) (single-line layout), what
        loads() makes of that text; SimpleMRS also the indented text, MRX also loads() of the single-item text"""
        codec, props, lnk = case["codec"], case["props"], case["lnk"]
        c = self.codec_for(case)
        o = {"properties": props, "lnk": lnk}
        try:
            ms = [m_from_wire(j) for j in case["items"]]
            text = c.dumps(ms, **o)
        except Exception as e:
            return {"err": errname(e)}
        out = {}
        if codec == "simple":
            out["toks"] = real_lex(text)
            out["text"] = cps(text)
            out["textind"] = cps(c.dumps([m_from_wire(j) for j in case["items"]], **o, indent=True))
        elif codec == "indexed":
            out["toks"] = real_lex_ix(text)
            out["text"] = cps(text)
            out["textind"] = cps(c.dumps([m_from_wire(j) for j in case["items"]], **o, indent=True))
            out["textindn"] = cps(c.dumps([m_from_wire(j) for j in case["items"]], **o, indent=self.ix_width(case)))
        elif codec == "json":
            out["dict"] = j_to_wire(json.loads(text))
        else:
            out["xml"] = xml_to_wire(etree.fromstring(text))
            out["text"] = cps(text)
            out["textind"] = cps(c.dumps([m_from_wire(j) for j in case["items"]], **o, indent=True))
            out["textindn"] = cps(c.dumps([m_from_wire(j) for j in case["items"]], **o, indent=self.ix_width(case)))
        try:
            out["dec"] = [m_to_wire(d) for d in c.loads(text)]
        except Exception as e:
            out["dec"] = {"err": errname(e) if codec in ("simple", "indexed") else "Exception"}
        if codec == "mrx":
            if case["items"]:
                try:
                    out["dec1"] = [m_to_wire(d) for d in c.loads(c.encode(m_from_wire(case["items"][0]), **o))]
                except Exception:
                    out["dec1"] = {"err": "Exception"}
            else:
                out["dec1"] = None
        return out

    def impl(self, case):
        k = case["kind"]
        if k == "rt":
            out = self.impl_first(case)
            out["list"] = self.impl_list(case)
            return out
        if k == "long":
            return {"items": len(case["items"]), "tokens": case.get("tokens")}
        if k == "longtext":
            return {"items": case["n"] + 1}
        if k == "churn":
            return {"items": len(case["items"])}
        if k == "foreign":
            try:
                return {"ok": m_to_wire(mrx.decode(uncps(case["text"])))}
            except Exception as e:
                return {"err": errname(e)}
        if k == "lex":
            try:
                return {"ok": real_lex(uncps(case["s"]))}
            except MRSSyntaxError:
                return {"err": "MRSSyntaxError"}
        if k == "lexix":
            try:
                return {"ok": real_lex_ix(uncps(case["s"]))}
            except MRSSyntaxError:
                return {"err": "MRSSyntaxError"}
        if k == "parse":
            text = uncps(case["text"])
            try:
                toks = real_lex(text)
            except MRSSyntaxError:
                return {"lexerr": True}
            out = {"toks": toks}
            try:
                out["one"] = {"ok": m_to_wire(simplemrs.decode(text))}
            except Exception as e:
                out["one"] = {"err": errname(e)}
            try:
                out["many"] = {"ok": [m_to_wire(x) for x in simplemrs.loads(text)]}
            except Exception as e:
                out["many"] = {"err": errname(e)}
            return out
        if k == "esc":
            s = uncps(case["s"])
            m = re.compile(r'"([^"\\]*(?:\\.[^"\\]*)*)"').match('"' + s)
            return {"esc": cps(simplemrs._escape(s)), "unesc": cps(simplemrs._unescape(s)),
                    "scan": None if m is None else [cps(m.group(1)), cps(('"' + s)[m.end():])],
                    "norm": cps(dpred.normalize(s)),
                    "quote": simplemrs._encode_predicate(s) != s,
                    "surface": dpred.is_surface(s), "abstract": dpred.is_abstract(s),
                    "esc_ix": cps(indexedmrs._escape(s)), "unesc_ix": cps(indexedmrs._unescape(s))}
        if k == "lnk":
            s = uncps(case["s"])
            try:
                l = Lnk(s)
                return {"ok": lnk_to_wire(l), "str": cps(str(l))}
            except LnkError:
                return {"err": "LnkError"}
            except ValueError:
                return {"err": "ValueError"}
        raise ValueError(k)

    # ---------------------------------------------------------------- model
    def model_request(self, case):
        k = case["kind"]
        if k == "rt":
            req = {"op": case["codec"], "ms": case["items"], "props": case["props"], "lnk": case["lnk"]}
            if case["codec"] == "indexed":
                req["semi"] = semi_wire(case.get("semi") or IX_PREDS)
                req["n"] = self.ix_width(case)
            if case["codec"] == "mrx":
                req["n"] = self.ix_width(case)
            return req
        if k == "parse":
            try:
                toks = real_lex(uncps(case["text"]))
            except MRSSyntaxError:
                return None
            for a, b in zip(toks, toks[1:]):
                # EP.__init__ validates the ARG0 value (variable.split): not modelled
                if a[0] == "FEATURE" and uncps(a[1]).upper() == "ARG0" and not (
                        b[0] == "SYMBOL" and variable.is_valid(uncps(b[1]).lower())):
                    return None
            return {"op": "parse", "toks": toks}
        if k == "esc":
            return {"op": "esc", "s": case["s"]}
        if k == "lex":
            return {"op": "lex", "s": case["s"]}
        if k == "lexix":
            return {"op": "lexix", "s": case["s"]}
        if k == "lnk":
            s = uncps(case["s"])
            if not all(ord(c) < 128 for c in s) or re.search(r"[+_\t]|\d [<>:#]|[<:#@] \d|^<? +|- ", s):
                return None     # int() spellings outside -?[0-9]+ are outside the lexers' LNK language
            return {"op": "lnk", "s": case["s"]}
        return None

    def model_expected(self, case, res):
        k = case["kind"]
        if k == "parse":
            return {"one": res["one"], "many": res["many"]}
        if k == "esc":
            return {x: res[x] for x in ("esc", "unesc", "scan", "norm", "quote", "surface", "abstract")}
        return res

    def model_compare(self, case, expected, answer):
        if (case["kind"] == "rt" and isinstance(answer, dict) and isinstance(expected, dict)
                and isinstance(answer.get("list"), dict) and isinstance(expected.get("list"), dict)):
            # the list part gets the same normalisations as the single part
            al, el = dict(answer["list"]), dict(expected["list"])
            expressible = case.get("expressible", True)
            if case["codec"] == "simple":
                # "[  ]" of an empty structure has two blanks; un-normalised predicates: layout not compared
                if not expressible or "[  ]" in (uncps(el.get("text")) or ""):
                    al.pop("text", None), el.pop("text", None)
                if not expressible or not case["items"] or "[  ]" in (uncps(el.get("textind")) or ""):
                    al.pop("textind", None), el.pop("textind", None)
                if not expressible:
                    for key in ("toks",):
                        for d_ in (al, el):
                            if isinstance(d_.get(key), list):
                                d_[key] = [["SYMBOL" if k_ == "PREDICATE" else k_, t] for k_, t in d_[key]]
            if case["codec"] == "mrx" and "xml" in al:
                al["xml"] = sort_xml_attrs(al["xml"])
            answer = dict(answer, list=al)
            expected = dict(expected, list=el)
        if (case["kind"] == "rt" and case["codec"] == "simple" and isinstance(answer, dict)
                and isinstance(expected, dict) and "text" in answer):
            # layout: the model's `render` is the single-line layout of a non-empty token list ("[  ]" of
            # the empty structure has two blanks); compared for expressible structures only
            if len(answer.get("toks") or []) <= 2 or not case.get("expressible", True):
                answer = {k_: v for k_, v in answer.items() if k_ != "text"}
                expected = {k_: v for k_, v in expected.items() if k_ != "text"}
            if not case.get("expressible", True):
                answer = {k_: v for k_, v in answer.items() if k_ != "textind"}
                expected = {k_: v for k_, v in expected.items() if k_ != "textind"}
        if (case["kind"] == "rt" and case["codec"] == "simple" and not case.get("expressible", True)
                and isinstance(answer, dict) and isinstance(expected, dict)):
            # un-normalised predicates are outside the quantifier; whether the lexer calls the unquoted
            # ones PREDICATE or SYMBOL is not modelled for them (the parser accepts both alike)
            def sym(ts):
                return [["SYMBOL" if k == "PREDICATE" else k, t] for k, t in ts] if isinstance(ts, list) else ts
            answer = dict(answer)
            expected = dict(expected)
            for key in ("toks", "retoks"):
                if key in answer:
                    answer[key] = sym(answer[key])
                if key in expected:
                    expected[key] = sym(expected[key])
        if case["kind"] == "rt" and case["codec"] == "mrx" and isinstance(answer, dict):
            answer = dict(answer)
            for key in ("xml", "rexml"):
                if key in answer:
                    answer[key] = sort_xml_attrs(answer[key])
        if case["kind"] == "esc" and isinstance(answer, dict):
            s = uncps(case["s"])
            answer = dict(answer)
            # is_surface/is_abstract of strings that normalisation would change, or with a line break,
            # are not used by the encoders on expressible input: compare only when strip is the identity
            if not s.isascii() and s.lower() != s:
                answer["norm"] = expected["norm"]
            if "\n" in s:     # `$` also matches before a final line feed; line feeds are outside the quantifier
                answer["surface"], answer["abstract"] = expected["surface"], expected["abstract"]
        return super().model_compare(case, expected, answer)

    # ---------------------------------------------------------------- oracle
    def oracle(self, case, res):
        fails = []

        def fail(clause, detail):
            fails.append({"clause": clause, "detail": detail})
        k = case["kind"]
        if k == "esc":
            s = uncps(case["s"])
            for name, mod in (("simplemrs", simplemrs), ("indexedmrs", indexedmrs)):
                e = mod._escape(s)
                if mod._unescape(e) != s:
                    fail("%s: unescape(escape(s)) != s" % name, repr(s))
                for rest in ("", " x", '"', '\\" "'):
                    m = re.compile(r'"([^"\\]*(?:\\.[^"\\]*)*)"').match('"' + e + '"' + rest)
                    if m is None or m.group(1) != e:
                        fail("%s: the string token does not end at the closing quote of an escaped string" % name,
                             repr((s, rest)))
            return fails
        if k == "lnk":
            if "ok" in res:
                l = lnk_from_wire(res["ok"])
                if l is not None:
                    back = Lnk(str(l))
                    if back.type != l.type or back.data != l.data:
                        fail("Lnk(str(l)) != l", repr(str(l)))
            return fails
        if k == "long":
            return self.oracle_long(case)
        if k == "longtext":
            return self.oracle_longtext(case)
        if k == "churn":
            return self.oracle_churn(case)
        if k == "foreign":
            if "ok" in res:
                c = self.codecs[case["codec"]]
                for (p_, l_) in ((True, True), (False, True), (True, False)):
                    try:
                        m = c.decode(uncps(case["text"]))
                        t = c.encode(m, properties=p_, lnk=l_)
                        d = c.decode(t)
                        diffs = compare(case["codec"], p_, l_, m, d)
                        if diffs:
                            fail("%s: a structure read from a foreign document does not round-trip (%s)"
                                 % (case["codec"], ", ".join(diffs)), t[:300])
                        if c.encode(d, properties=p_, lnk=l_) != t:
                            fail("%s: re-encoding (foreign document) does not reproduce the text" % case["codec"], t[:300])
                        if [m_to_wire(x) for x in c.loads(c.dumps([m, m], properties=p_, lnk=l_))] != [m_to_wire(d)] * 2:
                            fail("%s: dumps/loads (foreign document) differs from the single round trip" % case["codec"], "")
                    except Exception as e:
                        fail("%s: round trip of a structure read from a foreign document raises" % case["codec"], errname(e))
            return fails
        if k != "rt":
            return fails
        codec, props, lnk = case["codec"], case["props"], case["lnk"]
        c = self.codec_for(case)
        expressible = case.get("expressible", True)
        if not expressible:
            return fails
        fresh = lambda: [m_from_wire(j) for j in case["items"]]   # noqa: E731
        ms = fresh()
        o = {"properties": props, "lnk": lnk}

        # state across calls: another SEM-I (same predicate vocabulary, different synopses) is used first
        pre_first = None
        if case.get("pre"):
            cp = self.codec_for(case, case["pre"]["semi"])
            for j in case["pre"]["items"]:
                try:
                    t = cp.encode(m_from_wire(j), **o)
                    d = cp.decode(t)
                    if pre_first is None:
                        pre_first = (t, m_to_wire(d))
                    diffs = compare(codec, props, lnk, m_from_wire(j), d)
                    if diffs:
                        fail("%s (first SEM-I of the case): decoded structure differs from the original (%s)"
                             % (codec, ", ".join(diffs)), t[:400])
                except Exception as e:
                    fail("%s (first SEM-I of the case): encode/decode raises" % codec, errname(e))
        # purity: what the first encode and the first decode give before the battery of calls …
        first_obs = None
        if ms:
            try:
                t0 = c.encode(ms[0], **o)
                first_obs = (t0, m_to_wire(c.decode(t0)))
            except Exception:
                first_obs = None

        def check_one(label, m, d, text, **enc):
            diffs = compare(codec, props, lnk, m, d)
            if diffs:
                fail("%s %s: decoded structure differs from the original (%s)" % (codec, label, ", ".join(diffs)),
                     text[:400])
            try:
                again = c.encode(d, **o, **enc)
            except Exception as e:
                fail("%s %s: re-encoding the decoded structure raises" % (codec, label), errname(e))
                return
            if again != text:
                fail("%s %s: re-encoding the decoded structure does not reproduce the text" % (codec, label),
                     repr((text[:300], again[:300])))

        extra_ind = case.get("indent_all") or ([case["indent_extra"]] if case.get("indent_extra") is not None else [])
        # single items, every indent setting (all four option combinations for the first item)
        for idx, m in enumerate(ms):
            combos = [(props, lnk)]
            if idx == 0:
                combos += [(p, l) for p in (True, False) for l in (True, False) if (p, l) != (props, lnk)]
            for (p_, l_) in combos:
                for ind in (INDENTS + extra_ind if (idx == 0 and (p_, l_) == (props, lnk)) else INDENTS):
                    try:
                        text = c.encode(m, properties=p_, lnk=l_, indent=ind)
                    except Exception as e:
                        fail("%s encode raises" % codec, "%s indent=%r" % (errname(e), ind))
                        continue
                    try:
                        d = c.decode(text)
                    except Exception as e:
                        fail("%s decode(encode(m)) raises" % codec, "%s indent=%r %s" % (errname(e), ind, text[:300]))
                        continue
                    diffs = compare(codec, p_, l_, m, d)
                    if diffs:
                        fail("%s encode/decode: decoded structure differs from the original (%s)"
                             % (codec, ", ".join(diffs)), "props=%r lnk=%r indent=%r %s" % (p_, l_, ind, text[:400]))
                    try:
                        again = c.encode(d, properties=p_, lnk=l_, indent=ind)
                        if again != text:
                            fail("%s encode/decode: re-encoding the decoded structure does not reproduce the text"
                                 % codec, repr((ind, text[:300], again[:300])))
                    except Exception as e:
                        fail("%s encode/decode: re-encoding raises" % codec, errname(e))
        # side oracle: the library round trips assumed by the model
        for m in ms:
            if codec == "json":
                dd = mrsjson.to_dict(m, **o)
                if json.loads(json.dumps(dd)) != dd:
                    fail("json library: loads(dumps(d)) != d", "")
            if codec == "mrx":
                e1 = mrx._encode_mrs(m, props, lnk)
                e2 = etree.fromstring(etree.tostring(e1, encoding="unicode"))
                if xml_to_wire(e1) != xml_to_wire(e2):
                    fail("xml.etree: fromstring(tostring(e)) != e", "")
        # list API
        for ind in INDENTS + extra_ind:
            try:
                text = c.dumps(ms, **o, indent=ind)
                ds = c.loads(text)
            except Exception as e:
                fail("%s dumps/loads raises" % codec, "%s indent=%r" % (errname(e), ind))
                continue
            if len(ds) != len(ms):
                fail("%s dumps/loads: number of items differs" % codec, "%d != %d indent=%r %s"
                     % (len(ds), len(ms), ind, text[:300]))
                continue
            for m, d in zip(ms, ds):
                diffs = compare(codec, props, lnk, m, d)
                if diffs:
                    fail("%s dumps/loads: decoded structure differs from the original (%s)" % (codec, ", ".join(diffs)),
                         "indent=%r %s" % (ind, text[:400]))
            try:
                if c.dumps(ds, **o, indent=ind) != text:
                    fail("%s dumps/loads: re-encoding the decoded list does not reproduce the text" % codec,
                         "indent=%r %s" % (ind, text[:300]))
            except Exception as e:
                fail("%s dumps/loads: re-encoding raises" % codec, errname(e))
            # dump/load through a file object
            try:
                buf = io.StringIO()
                c.dump(ms, buf, **o, indent=ind)
                buf.seek(0)
                ds2 = c.load(buf)
                if len(ds2) != len(ms) or any(compare(codec, props, lnk, m, d) for m, d in zip(ms, ds2)):
                    fail("%s dump/load (file object): decoded structures differ from the originals" % codec,
                         "indent=%r %s" % (ind, text[:300]))
            except Exception as e:
                fail("%s dump/load (file object) raises" % codec, "%s indent=%r" % (errname(e), ind))
        if case.get("file"):
            fn = os.path.join(self.tmp, "doc.txt")
            for ind in [True, False] + extra_ind:
                try:
                    c.dump(ms, fn, **o, indent=ind)
                    ds3 = c.load(fn)
                    if len(ds3) != len(ms) or any(compare(codec, props, lnk, m, d) for m, d in zip(ms, ds3)):
                        fail("%s dump/load (filename): decoded structures differ from the originals" % codec,
                             "indent=%r" % (ind,))
                    with open(fn, encoding="utf-8") as fh:
                        ds4 = c.load(fh)
                    if len(ds4) != len(ms) or any(compare(codec, props, lnk, m, d) for m, d in zip(ms, ds4)):
                        fail("%s dump (filename) / load (open file): decoded structures differ from the originals"
                             % codec, "indent=%r" % (ind,))
                except Exception as e:
                    fail("%s dump/load (filename) raises" % codec, "%s indent=%r" % (errname(e), ind))
        # error paths: calls that raise half-way must leave nothing behind for the normal calls that follow
        if ms:
            self.failing_calls(case, c, o, fail)
        # the originals were not modified by encoding
        for j, m in zip(case["items"], ms):
            if m_to_wire(m) != m_to_wire(m_from_wire(j)):
                fail("%s: encoding modified the MRS object" % codec, "")
        # … purity: and after it (a fresh object, the same text): identical results
        if first_obs is not None:
            try:
                t1 = c.encode(m_from_wire(case["items"][0]), **o)
                if t1 != first_obs[0]:
                    fail("%s purity: repeating the first encode after the other calls gives another text" % codec,
                         repr((first_obs[0][:200], t1[:200])))
                if m_to_wire(c.decode(first_obs[0])) != first_obs[1]:
                    fail("%s purity: repeating the first decode after the other calls gives another structure"
                         % codec, first_obs[0][:300])
            except Exception as e:
                fail("%s purity: repeating the first encode/decode raises" % codec, errname(e))
        if pre_first is not None:
            try:
                cp = self.codec_for(case, case["pre"]["semi"])
                if m_to_wire(cp.decode(pre_first[0])) != pre_first[1]:
                    fail("%s purity: decoding under the first SEM-I again, after another SEM-I was used, gives "
                         "another structure" % codec, pre_first[0][:300])
            except Exception as e:
                fail("%s purity: decoding under the first SEM-I again raises" % codec, errname(e))
        return fails

    def failing_calls(self, case, c, o, fail):
        """state left behind on an error path: (1) encode/dumps of the first item with one more EP, placed FIRST, whose
        argument is a variable that carries properties but is not of the form sort+digits (variable.type / split /
        the SEM-I lookup raise before or while the rest is written), and with an EP placed LAST whose predicate the
        SEM-I does not define and whose label is not a variable; both property settings, both layouts;
        (2) decode/loads of truncated texts.  The exceptions are expected and ignored; afterwards the first item must
        still round-trip under properties off and on (nothing of the abandoned calls may show)."""
        codec, lnk = case["codec"], case["lnk"]
        base = case["items"][0]

        def poisoned(first):
            j = json.loads(json.dumps(base))
            if first:
                ep = {"pred": cps("_rain_v_1"), "label": cps("h1"), "args": [[cps("ARG0"), cps("e2")], [cps("ARG1"), cps("zz")], [cps("ARG9"), cps("zz")]],
                      "lnk": None, "surface": None, "base": None}
                j["rels"] = [ep] + j["rels"]
                j["vars"] = [[cps("zz"), [[cps("TENSE"), cps("past")], [cps("SF"), cps("ques")]]]] + j["vars"]
            else:
                ep = {"pred": cps("_zz_v_unknown"), "label": cps("zz"), "args": [[cps("ARG0"), cps("e2")]],
                      "lnk": None, "surface": None, "base": None}
                j["rels"] = j["rels"] + [ep]
                j["icons"] = j["icons"] + [[cps("zz"), cps("topic"), cps("zz")]]
                j["vars"] = j["vars"] + [[cps("zz"), [[cps("PERS"), cps("3")]]]]
            return j
        def verify(after):
            for p_ in (False, True):
                try:
                    m = m_from_wire(base)
                    t = c.encode(m, properties=p_, lnk=lnk)
                    diffs = compare(codec, p_, lnk, m, c.decode(t))
                    if diffs:
                        fail("%s after %s that raised: decoded structure differs from the original (%s)"
                             % (codec, after, ", ".join(diffs)), "properties=%r %s" % (p_, t[:300]))
                except Exception as e:
                    fail("%s after %s that raised: encode/decode raises" % (codec, after), errname(e))
        raised = 0
        try:
            t = c.encode(m_from_wire(base), **o)
            for cut in (len(t) // 2, len(t) - 1, 1):
                for call in (c.decode, c.loads):
                    try:
                        call(t[:cut])
                    except Exception:
                        raised += 1
        except Exception:
            pass
        # documents the parsing library accepts but the reader gives up on half-way
        halfway = []
        if codec == "mrx":
            halfway = [FOREIGN_MRX[3], FOREIGN_MRX[5], "<mrs-list>" + FOREIGN_MRX[0] + FOREIGN_MRX[4] + "</mrs-list>"]
        elif codec == "json":
            try:
                dd = mrsjson.to_dict(m_from_wire(base))
                dd["relations"] = [{"label": "h1", "predicate": "_rain_v_1", "arguments": {"ARG0": "e2"}}] + dd["relations"]
                no_top = {k_: v for k_, v in dd.items() if k_ != "top"}
                bad_ep = dict(dd, relations=dd["relations"] + [{"label": "h1"}])
                halfway = [json.dumps(no_top), json.dumps(bad_ep), json.dumps([dd, no_top])]
            except Exception:
                halfway = []
        for t_ in halfway:
            for call in (c.decode, c.loads):
                try:
                    call(t_)
                except Exception:
                    raised += 1
        verify("decode calls")
        # the call that leaves most behind comes last: properties on, the failing predication first
        for first, p_ in ((False, False), (False, True), (True, False), (True, True)):
            for kw in ({"indent": True}, {}):
                for call in ("dumps", "encode"):
                    try:
                        m = m_from_wire(poisoned(first))
                        c.encode(m, properties=p_, lnk=lnk, **kw) if call == "encode" else \
                            c.dumps([m_from_wire(base), m], properties=p_, lnk=lnk, **kw)
                    except Exception:
                        raised += 1
        verify("encode calls")
        self._last_failing = (json.dumps(case, sort_keys=True)[:200], raised)

    # ---------------------------------------------------------------- long documents
    def oracle_long(self, case):
        fails = []

        def fail(clause, detail):
            fails.append({"clause": clause, "detail": detail})
        codec, props, lnk = case["codec"], case["props"], case["lnk"]
        c = self.codec_for(case)
        o = {"properties": props, "lnk": lnk}
        ms = [m_from_wire(j) for j in case["items"]]
        n = len(ms)
        own = []
        for m in ms:          # each item's own round trip
            try:
                own.append(m_to_wire(c.decode(c.encode(m, **o))))
            except Exception as e:
                own.append({"err": errname(e)})
                fail("%s long: decode(encode(item)) raises" % codec, errname(e))
        if case.get("single"):
            for m, w in zip(ms, own):
                if "err" not in w:
                    diffs = compare(codec, props, lnk, m, c.decode(c.encode(m, **o)))
                    if diffs:
                        fail("%s long: decoded structure differs from the original (%s)" % (codec, ", ".join(diffs)), "")
            return fails

        def check(label, ds):
            if len(ds) != n:
                fail("%s long document %s: %d items written, %d read back" % (codec, label, n, len(ds)),
                     "first item starts %r tokens from a multiple of 1024" % (case.get("offset"),))
                return
            for i, (m, d, w) in enumerate(zip(ms, ds, own)):
                if m_to_wire(d) != w:
                    fail("%s long document %s: an item differs from its own round trip" % (codec, label), "item %d" % i)
                elif compare(codec, props, lnk, m, d):
                    fail("%s long document %s: decoded structure differs from the original" % (codec, label),
                         "item %d: %s" % (i, compare(codec, props, lnk, m, d)))
        for ind in (False, True):
            try:
                text = c.dumps(ms, **o, indent=ind)
                check("dumps/loads indent=%r" % ind, c.loads(text))
            except Exception as e:
                fail("%s long document dumps/loads raises" % codec, "%s indent=%r" % (errname(e), ind))
                continue
            try:
                buf = io.StringIO()
                c.dump(ms, buf, **o, indent=ind)
                buf.seek(0)
                check("dump/load (file object) indent=%r" % ind, c.load(buf))
            except Exception as e:
                fail("%s long document dump/load (file object) raises" % codec, "%s indent=%r" % (errname(e), ind))
        fn = os.path.join(self.tmp, "long.txt")
        try:
            c.dump(ms, fn, **o, indent=False)
            check("dump/load (filename)", c.load(fn))
        except Exception as e:
            fail("%s long document dump/load (filename) raises" % codec, errname(e))
        return fails

    def oracle_longtext(self, case):
        fails = []

        def fail(clause, detail):
            fails.append({"clause": clause, "detail": detail})
        codec, props, lnk = case["codec"], case["props"], case["lnk"]
        c = self.codecs[codec]
        o = {"properties": props, "lnk": lnk}
        items = longtext_items(case)
        ms = [m_from_wire(j) for j in items]
        n = len(ms)
        cache = self.__dict__.setdefault("_own", {})
        own = []
        for i, m in enumerate(ms):          # each item's own single round trip (cached over the family)
            key = (codec, props, lnk, case["shift"] if i == 0 else -1, i)
            if key not in cache:
                try:
                    cache[key] = m_to_wire(c.decode(c.encode(m, **o)))
                except Exception as e:
                    cache[key] = {"err": errname(e)}
            own.append(cache[key])

        def check(label, ds, size):
            if len(ds) != n:
                fail("%s long text %s: %d items written, %d read back" % (codec, label, n, len(ds)),
                     "%d characters, shift %d" % (size, case["shift"]))
                return
            for i, (d, w) in enumerate(zip(ds, own)):
                if m_to_wire(d) != w:
                    fail("%s long text %s: an item differs from its own single round trip" % (codec, label),
                         "item %d of %d, %d characters, shift %d" % (i, n, size, case["shift"]))
                    return
        for ind in (None, 2):
            try:
                text = c.dumps(ms, **o, indent=ind)
            except Exception as e:
                fail("%s long text dumps raises" % codec, errname(e))
                continue
            size = len(text)
            if ind is None and size <= case["target"]:
                fail("harness: long text document shorter than its target", "%d <= %d" % (size, case["target"]))
            try:
                check("loads indent=%r" % ind, c.loads(text), size)
            except Exception as e:
                fail("%s long text loads raises" % codec, "%s indent=%r, %d characters" % (errname(e), ind, size))
            try:
                buf = io.StringIO()
                c.dump(ms, buf, **o, indent=ind)
                buf.seek(0)
                check("dump/load (file object) indent=%r" % ind, c.load(buf), size)
            except Exception as e:
                fail("%s long text dump/load (file object) raises" % codec, "%s indent=%r" % (errname(e), ind))
            fn = os.path.join(self.tmp, "longtext.%s" % codec)
            try:
                c.dump(ms, fn, **o, indent=ind)
                check("dump/load (filename) indent=%r" % ind, c.load(fn), size)
                with open(fn, encoding="utf-8") as fh:       # an open real file: chunked reads by the OS layer
                    check("load (open file) indent=%r" % ind, c.load(fh), size)
            except Exception as e:
                fail("%s long text dump/load (filename) raises" % codec, "%s indent=%r" % (errname(e), ind))
        return fails

    def oracle_churn(self, case):
        """objects are built, used and dropped one after the other (their addresses get reused): the k-th
        encode/decode must depend on the k-th structure and the k-th SEM-I only"""
        import gc
        fails = []

        def fail(clause, detail):
            fails.append({"clause": clause, "detail": detail})
        codec, props, lnk = case["codec"], case["props"], case["lnk"]
        mod = {"simple": simplemrs, "json": mrsjson, "mrx": mrx, "indexed": indexedmrs}[codec]
        o = {"properties": props, "lnk": lnk}

        def one(k):
            """everything created here dies on return; only plain data is returned"""
            kw = {"semi": fresh_semi(case["semis"][k])} if codec == "indexed" else {}
            m = m_from_wire(case["items"][k])
            try:
                t = mod.encode(m, **kw, **o)
                d = mod.decode(t, **kw)
                diffs = compare(codec, props, lnk, m, d)
                again = mod.encode(d, **kw, **o)
                ds = mod.loads(mod.dumps([m], **kw, **o), **kw)
                diffs2 = ["number of items"] if len(ds) != 1 else compare(codec, props, lnk, m, ds[0])
            except Exception as e:
                return ("raises", errname(e))
            return ("ok", diffs, again == t, diffs2, t[:300])
        for rnd in (0, 1):              # two passes: the second one re-creates every object once more
            for k in range(len(case["items"])):
                r = one(k)
                gc.collect(0)       # the objects of this step are young; a full collection of the harness's heap is slow
                if r[0] == "raises":
                    fail("%s churn: encode/decode raises after earlier objects were dropped" % codec,
                         "%s at step %d" % (r[1], k))
                    continue
                _, diffs, stable, diffs2, t = r
                if diffs:
                    fail("%s churn: decoded structure differs from the original (%s)" % (codec, ", ".join(diffs)),
                         "step %d pass %d: %s" % (k, rnd, t))
                if diffs2:
                    fail("%s churn: dumps/loads differs from the original (%s)" % (codec, ", ".join(diffs2)),
                         "step %d pass %d" % (k, rnd))
                if not stable:
                    fail("%s churn: re-encoding the decoded structure does not reproduce the text" % codec,
                         "step %d pass %d" % (k, rnd))
        return fails

    def classify(self, case, failure):
        return None     # no open finding for C01 (F14, F15, F33, F50, F53 are repaired; witnesses in corpus/C01)

    # ---------------------------------------------------------------- evidence
    def nontrivial_key(self, case, res):
        k = case["kind"]
        if k == "longtext":
            return json.dumps(case, sort_keys=True)
        if k in ("rt", "long", "churn"):
            if not any(mj["rels"] for mj in case["items"]):
                return None
        elif not (case.get("s") or case.get("text")):
            return None
        return json.dumps(case, sort_keys=True)

    def stats(self, case, res, counters):
        def inc(key, by=1):
            counters[key] = counters.get(key, 0) + by
        k = case["kind"]
        inc("kind:" + k)
        if k == "rt":
            inc("codec:" + case["codec"])
            inc("items:%d" % len(case["items"]))
            inc("opts:props=%s,lnk=%s" % (case["props"], case["lnk"]))
            if case.get("file"):
                inc("api:file-name:props=%s,lnk=%s" % (case["props"], case["lnk"]))
            lf = getattr(self, "_last_failing", None)
            if lf and lf[0] == json.dumps(case, sort_keys=True)[:200]:
                inc("failing calls made between normal calls (exceptions raised):%s" % case["codec"], lf[1])
            for x_ in case.get("indent_all") or ([case["indent_extra"]] if case.get("indent_extra") is not None else []):
                inc("indent-extra:%s" % x_)
            if case["codec"] == "json":
                for mj in case["items"]:
                    used = {uncps(v) for e in mj["rels"] for k_, v in e["args"] if uncps(k_) != "CARG"}
                    used |= {uncps(mj["index"])} | {uncps(x) for ic in mj["icons"] for x in (ic[0], ic[2])}
                    if any(uncps(v) not in used and ps for v, ps in mj["vars"]):
                        inc("json:properties on a variable outside every variable position")
            for mj in case["items"]:
                inc("eps:%d" % min(len(mj["rels"]), 9))
                rs_ = [json.dumps(e, sort_keys=True) for e in mj["rels"]]
                if any(a == b for a, b in zip(rs_, rs_[1:])):
                    inc("duplicate EP:adjacent")
                elif len(set(rs_)) < len(rs_):
                    inc("duplicate EP:apart")
                if len({json.dumps(h) for h in mj["hcons"]}) < len(mj["hcons"]):
                    inc("duplicate hcons")
                if len({json.dumps(h) for h in mj["icons"]}) < len(mj["icons"]):
                    inc("duplicate icons")
                inc("hcons:%d" % len(mj["hcons"]))
                inc("icons:%d" % len(mj["icons"]))
                inc("vars-with-props:%d" % min(len(mj["vars"]), 6))
                for e in mj["rels"]:
                    l = e["lnk"]
                    inc("lnk:" + ("none" if l is None else next(iter(l))))
                    p = uncps(e["pred"])
                    inc("pred:" + ("surface" if dpred.is_surface(p) and dpred.normalize(p) == p else
                                   "abstract" if dpred.is_abstract(p) and dpred.normalize(p) == p else "other"))
                    if simplemrs._encode_predicate(p) != p:
                        inc("pred:needs-quoting")
                    for r, v in e["args"]:
                        if uncps(r) == "CARG":
                            s = uncps(v)
                            inc("carg")
                            if '"' in s or "\\" in s:
                                inc("carg:quote-or-backslash")
                            if any(ord(ch) > 0xffff for ch in s):
                                inc("carg:astral")
                    if e["surface"] is not None:
                        inc("ep-surface" + (":empty" if not e["surface"] else ""))
                        if e["surface"] == e["pred"]:
                            inc("coincide:surface=pred")
                        if e["surface"] == e["label"]:
                            inc("coincide:surface=label")
                        if e["base"] is not None and e["base"] == e["surface"]:
                            inc("coincide:base=surface")
                    for r, v in e["args"]:
                        if uncps(r) == "CARG" and (v == e["pred"] or v == e["surface"]):
                            inc("coincide:carg=pred/surface")
                        if uncps(r) == "CARG" and (v == e["label"] or any(v == v2 and r2 != r for r2, v2 in e["args"])):
                            inc("coincide:carg=variable of the same EP")
            if isinstance(res, dict):
                if "err" in res:
                    inc("encode-err:" + str(res["err"]))
                if isinstance(res.get("toks"), list):
                    for t in res["toks"]:
                        inc("tok:" + t[0])
        elif k == "longtext":
            inc("longtext:%s:>%dKiB%s" % (case["codec"], case["target"] // 1024,
                                           ":exact%+d" % case["exact"] if case.get("exact") is not None else ""))
        elif k == "foreign":
            inc("foreign:%s:%s" % (case["codec"], "ok" if isinstance(res, dict) and "ok" in res else
                                    (res or {}).get("err") if isinstance(res, dict) else "?"))
        elif k == "churn":
            inc("churn:" + case["codec"])
        elif k == "long":
            inc("long:%s:%s" % (case["codec"], "single" if case.get("single") else
                                "boundary%s%+d" % (case["boundary"], case["offset"])))
            inc("long:tokens>1024" if (case.get("tokens") or 0) > 1024 else "long:tokens<=1024")
            if (case.get("tokens") or 0) > 2048:
                inc("long:tokens>2048")
        elif k == "parse" and isinstance(res, dict):
            if res.get("lexerr"):
                inc("parse:lexer-error")
            else:
                inc("parse:one:" + ("ok" if "ok" in res["one"] else res["one"]["err"]))
                inc("parse:many:" + ("ok%d" % min(len(res["many"]["ok"]), 4) if "ok" in res["many"] else res["many"]["err"]))
                for t in res["toks"]:
                    inc("ptok:" + t[0])
        elif k == "lexix" and isinstance(res, dict):
            for t in res.get("ok", []):
                inc("lexixtok:" + t[0])
            if "err" in res:
                inc("lexix:error")
        elif k == "lex" and isinstance(res, dict):
            for t in res.get("ok", []):
                inc("lextok:" + t[0])
            if "err" in res:
                inc("lex:error")
        elif k == "lnk" and isinstance(res, dict):
            inc("lnk-parse:" + ("ok" if "ok" in res else res["err"]))
        elif k == "esc" and isinstance(res, dict):
            inc("esc:scan-" + ("none" if res["scan"] is None else "match"))


CHECK = C01()
