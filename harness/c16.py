"""C16 — derivation trees: UDF / UDX / dictionary round trips and navigation helpers.

Generators (structured trees, LKB-style and malformed texts, mutated dictionaries),
implementation runner, direct oracle, classification of known findings.
"""
import copy
import itertools
import json
import math
import random
import re

from .common import paths
from .common.runner import Check

paths.ensure_repo_on_path()
from delphin import derivation as D  # noqa: E402

INDENTS = [None, 0, 1, 2, 4]


def cps(s):
    return [ord(c) for c in s]


def uncps(a):
    return "".join(chr(x) for x in a)


def ocps(s):
    return None if s is None else cps(s)


def g(x):
    return "{:g}".format(x)


# ---------------------------------------------------------------- case trees (JSON) -> real objects

def T(form, toks=()):
    return {"k": "t", "f": cps(form), "toks": [[i, cps(t)] for i, t in toks]}


def N(id, e, sc, st, en, d, h=False, ty=None):
    return {"k": "n", "id": id, "e": cps(e), "sc": cps(sc), "st": st, "en": en, "h": bool(h),
            "ty": ocps(ty), "d": list(d)}


def R(e, d):
    return {"k": "r", "e": cps(e), "d": list(d)}


def build(t, parent=None):
    """the way the parsers build: node first (with its parent), daughters appended afterwards"""
    if t["k"] == "t":
        return D.UDFTerminal(uncps(t["f"]), [D.UDFToken(i, uncps(s)) for i, s in t["toks"]], parent=parent)
    if t["k"] == "r":
        n = D.UDFNode(None, uncps(t["e"]), parent=parent)
    else:
        n = D.UDFNode(t["id"], uncps(t["e"]), float(uncps(t["sc"])), t["st"], t["en"],
                      head=True if t["h"] else None,
                      type=None if t["ty"] is None else uncps(t["ty"]), parent=parent)
    for d in t["d"]:
        n.daughters.append(build(d, n))
    return n


def build_top(t):
    n = build(t)
    return D.Derivation(*n, head=n._head, type=n.type)


def obs(n):
    """walk the real objects"""
    if isinstance(n, D.UDFTerminal):
        return {"k": "t", "f": cps(n.form), "toks": [[tk.id, cps(tk.tfs)] for tk in n.tokens]}
    if n.id is None:
        return {"k": "r", "e": cps(n.entity), "d": [obs(d) for d in n.daughters]}
    return {"k": "n", "id": n.id, "e": cps(n.entity), "sc": cps(g(n.score)), "st": n.start, "en": n.end,
            "h": bool(n._head), "ty": ocps(n.type), "d": [obs(d) for d in n.daughters]}


def real_parents(top):
    """pre-order list [number-or-None, number of the object `.parent` points to] of the real objects:
    non-terminals are numbered in pre-order (= creation order in both parsers); the parsers rebuild the
    top as a new Derivation sharing the daughters list, so a `.parent` that is the pre-rebuild top
    object (recognised by that shared list) counts as the top; an unknown object is -1"""
    num = {}
    order = []

    def rec(n):
        order.append(n)
        if isinstance(n, D.UDFNode):
            num[id(n)] = len(num)
            for d in n.daughters:
                rec(d)
    rec(top)
    out = []
    for n in order:
        p = n.parent
        if p is None:
            pu = None
        elif id(p) in num:
            pu = num[id(p)]
        elif isinstance(p, D.UDFNode) and p.daughters is top.daughters:
            pu = num[id(top)]
        else:
            pu = -1
        out.append([num.get(id(n)) if isinstance(n, D.UDFNode) else None, pu])
    return out


def guarded_parents(f):
    try:
        return real_parents(f())
    except Exception:
        return None


def guarded(f):
    try:
        return {"ok": f()}
    except D.DerivationSyntaxError:
        return {"err": "SyntaxError"}
    except IndexError:
        return {"err": "IndexError"}
    except KeyError:
        return {"err": "KeyError"}
    except ValueError:
        return {"err": "ValueError"}
    except TypeError:
        return {"err": "TypeError"}


def guarded_eq(f):
    """`==` / `!=` of real nodes: {"ok": bool} or the exception enum"""
    try:
        v = f()
    except AttributeError:
        return {"err": "AttributeError"}
    except TypeError:
        return {"err": "TypeError"}
    return {"ok": v} if isinstance(v, bool) else {"err": "not-a-bool:" + type(v).__name__}


def real_heads(top):
    """is_head() of every non-terminal, pre-order: True / False / None or the exception name"""
    out = []

    def rec(n):
        if isinstance(n, D.UDFNode):
            try:
                out.append(n.is_head())
            except AttributeError:
                out.append("AttributeError")
            for d in n.daughters:
                rec(d)
    rec(top)
    return out


ALL_FIELDS = ["form", "tokens", "id", "entity", "score", "start", "end", "daughters", "head", "type"]
OPTIONAL_FIELDS = ["tokens", "id", "entity", "score", "start", "end", "head", "type"]


def restrict_dict(d, fields):
    """naive re-statement of the allowlist: drop every optional key whose name is not listed, at every level"""
    out = {}
    for k, v in d.items():
        if k == "daughters":
            out[k] = [restrict_dict(x, fields) for x in v]
        elif k in ("form",) or k in fields:
            out[k] = v
    return out


def canon_dict(d):
    """real dictionary -> the driver's D shape"""
    return {"entity": ocps(d.get("entity")), "id": d.get("id"),
            "score": None if "score" not in d else cps(g(d["score"])),
            "start": d.get("start"), "end": d.get("end"), "type": ocps(d.get("type")),
            "head": bool(d.get("head", False)), "form": ocps(d.get("form")),
            "tokens": None if "tokens" not in d else [[t["id"], cps(t["tfs"])] for t in d["tokens"]],
            "daughters": None if "daughters" not in d else [canon_dict(x) for x in d["daughters"]]}


def real_dict(c):
    d = {}
    if c["entity"] is not None:
        d["entity"] = uncps(c["entity"])
    if c["id"] is not None:
        d["id"] = c["id"]
    if c["score"] is not None:
        d["score"] = float(uncps(c["score"]))
    if c["start"] is not None:
        d["start"] = c["start"]
    if c["end"] is not None:
        d["end"] = c["end"]
    if c["type"] is not None:
        d["type"] = uncps(c["type"])
    if c["head"]:
        d["head"] = True
    if c["form"] is not None:
        d["form"] = uncps(c["form"])
    if c["tokens"] is not None:
        d["tokens"] = [{"id": i, "tfs": uncps(s)} for i, s in c["tokens"]]
    if c["daughters"] is not None:
        d["daughters"] = [real_dict(x) for x in c["daughters"]]
    return d


# ---------------------------------------------------------------- tree predicates on the case JSON

def walk(t):
    yield t
    for d in t.get("d", []):
        yield from walk(d)


def strings_of(t):
    for n in walk(t):
        if n["k"] == "t":
            yield uncps(n["f"])
            for _, s in n["toks"]:
                yield uncps(s)


def dict_shape(t):
    """every terminal is the only daughter of its parent; no node without daughters"""
    for n in walk(t):
        if n["k"] == "t":
            continue
        ds = n["d"]
        if not ds:
            return False
        if any(d["k"] == "t" for d in ds) and len(ds) != 1:
            return False
    return True


def mixed(t):
    """some node has both terminal and non-terminal daughters (is_head() of the real code cannot
    be evaluated there: it reads `_head` of every sibling)"""
    return any(n["k"] != "t" and 0 < sum(d["k"] == "t" for d in n["d"]) < len(n["d"]) for n in walk(t))


def erase_ht(t):
    t = copy.deepcopy(t)
    for n in walk(t):
        if n["k"] == "n":
            n["h"] = False
            n["ty"] = None
    return t


def depth(t):
    return 1 + max([depth(d) for d in t.get("d", [])] or [0])


_HDR = re.compile(r'\s*[^\s()]+\s+(?:"[^"\\]*(?:\\.[^"\\]*)*"|[^\s()]+)\s+[^\s()]+\s+[^\s()]+\s+[^\s()]+\s*\(')


def header_capture(t):
    """input class of the repaired defect F29: in the serialized text the regular-node alternative matches at the opening
    quote of some terminal (checked on the text of every indentation, UDF and UDX)."""
    try:
        top = build_top(t)
    except Exception:
        return False
    for udx in (False, True):
        for ind in INDENTS:
            text = top.to_udx(indent=ind) if udx else top.to_udf(indent=ind)
            for m in re.finditer(r'\(\s*"', text):
                # a terminal starts here iff the previous structural token is '(' -- our texts put
                # '("' only at terminals or inside strings; test the header pattern at the quote
                q = m.end() - 1
                if _HDR.match(text, q):
                    return True
    return False


def has_newline_string(t):
    return any("\n" in s for s in strings_of(t))


# ---------------------------------------------------------------- generators

ENTS = ["a", "np", "hd-cmp_u_c", "S", "x_y", "n_-_pn_le", "b2", "Q", "sb-hd_mc_c",
        # case variants of one name (UDFNode.__eq__ lower-cases entities; the strings must still be kept exactly)
        "Foo", "foo", "FOO", "np_x", "NP_X", "Np_x", "A", "NP", "s", "q", "HD-CMP_U_C", "X_y",
        "SUBJH", "Kim_NP1", "ROOT",
        "\\x", 'e"q', "\\X", 'E"Q']
N_PLAIN_ENTS = 24
TYPES = ["t", "n_-_c_le", "typ", "a@b", "T2", "Typ", "TYP", "T", "N_-_C_LE", "A@b", "t2"]
ROOTS = ["root", "root_informal", "r", "Root", "ROOT", "R"]
CASE_FAMILIES = [["Foo", "foo", "FOO", "fOO"], ["np_x", "NP_X", "Np_X"], ["a", "A"], ["s", "S"],
                 ["hd-cmp_u_c", "HD-CMP_U_C", "Hd-Cmp_u_c"], ["Éa", "éa", "ÉA"]]
TYPE_FAMILIES = [["Typ", "typ", "TYP"], ["t", "T"], ["n_-_c_le", "N_-_C_LE"], ["a@b", "A@B", "a@B"]]
FORM_FAMILIES = [["dog", "Dog", "DOG"], ["the", "The", "THE"], ["ad hoc", "Ad Hoc", "AD HOC"], ["x", "X"],
                 ["say \\\"hi\\\"", "Say \\\"Hi\\\"", "SAY \\\"HI\\\""]]


def swap_tree(t):
    """the same tree with the letter case of every entity, type, form and tfs swapped"""
    t = copy.deepcopy(t)
    for n in walk(t):
        if n["k"] == "t":
            n["f"] = cps(uncps(n["f"]).swapcase())
            n["toks"] = [[i, cps(uncps(x).swapcase())] for i, x in n["toks"]]
        else:
            n["e"] = cps(uncps(n["e"]).swapcase())
            if n["k"] == "n" and n["ty"] is not None:
                n["ty"] = cps(uncps(n["ty"]).swapcase())
    return t


def case_variant_tree(t):
    """does some name occur in two different capitalisations in the tree?"""
    for pick in (lambda n: [uncps(n["e"])] if n["k"] != "t" else [],
                 lambda n: [uncps(n["ty"])] if n["k"] == "n" and n["ty"] is not None else [],
                 lambda n: [uncps(n["f"])] if n["k"] == "t" else []):
        seen = {}
        for n in walk(t):
            for x in pick(n):
                if seen.setdefault(x.lower(), x) != x:
                    return True
    return False
SCORES = ["-1", "0", "1", "1.5", "-0.25", "2e-05", "1e+20", "3.14159", "-7", "0.5", "inf", "-inf"]
# SCORE TEXT.  Inside the quantifier ("scores as printed"): a text that '{:g}'.format(float(text)) reproduces, i.e. a text
# that is itself :g output.  Candidates are split by that test when the module is loaded.
SCORE_CANDIDATES = [
    "0", "-0", "1", "-1", "5", "-3", "-7", "10", "100000", "999999", "123456", "-123456",        # whole numbers
    "1e+06", "-1e+06", "1.23457e+06", "1e+07", "9.99999e+06", "1e+15", "1e+16", "1e+20", "1e+100", "1e+308",
    "1.79769e+308", "-1.79769e+308",                                                             # exponent, large
    "0.0001", "0.000123457", "0.00099", "1e-05", "2e-05", "9.99999e-05", "1.23457e-05", "-1e-05", "1e-10", "1e-300",
    "2.22507e-308", "4.94066e-324", "-4.94066e-324",                                             # exponent, small
    "1.5", "-0.25", "0.5", "0.1", "0.333333", "-0.666667", "1.23457", "3.14159", "12345.6", "99999.9", "0.999999",
    "123457", "1.00001", "100001",                                                               # six significant digits
    "inf", "-inf", "nan",
    # near misses: accepted by float() but not :g output (only compared, never demanded verbatim)
    "1e6", "1E+06", "1e+6", "1e+006", "1.0", "-1.0", "+1", "1000000", "10000000", "0.00001", "-0.0", "0.0", "00", "01.50",
    ".5", "5.", "1.2345678", "1.234565", "0.1234565", "999999.5", "1234567", "Infinity", "-Infinity", "+inf", "INF", "NaN",
    "-nan", "1e400", "-1e400", "1e-400", "-1e-400", "5e-324", "1e+0", "1e0", "2E-05", "2e-5", "1.50", "1e-04", "0.0001000",
]
SCORE_INVALID = ["1_0", "1__0", "\u0661", "\uff11", "0x10", "1e", "e5", "--1", "+-1", "1e+", ".", "-", "in", "1.2.3", "1,5"]


def _g_fixpoint(x):
    try:
        return "{:g}".format(float(x)) == x
    except ValueError:
        return False


SCORE_FIX = [x for x in SCORE_CANDIDATES if _g_fixpoint(x)]
SCORE_NEAR = [x for x in SCORE_CANDIDATES if not _g_fixpoint(x)]
assert all(_g_fixpoint(x) for x in SCORES) and len(SCORE_FIX) >= 50 and len(SCORE_NEAR) >= 35


def naive_text(t, indent, udx, level=1):
    """the UDF/UDX text of a case tree written with plain string operations from the case's own fields -- the score
    is the case's score TEXT, never a float passed through a format"""
    delim = " " if indent is None else "\n" + " " * (indent * level)
    if t["k"] == "t":
        return "(" + delim.join(['"' + uncps(t["f"]) + '"'] + [str(i) + ' "' + uncps(x) + '"' for i, x in t["toks"]]) + ")"
    ent = uncps(t["e"])
    if udx and t["k"] == "n":
        if t["h"]:
            ent = "^" + ent
        if t["ty"]:
            ent = ent + "@" + uncps(t["ty"])
    dtrs = "".join(delim + naive_text(d, indent, udx, level + 1) for d in t["d"])
    if t["k"] == "r":
        return "(" + ent + dtrs + ")"
    return "(" + " ".join([str(t["id"]), ent, uncps(t["sc"]), str(t["st"]), str(t["en"])]) + dtrs + ")"


def scores_printed(t):
    """every score of the case tree is :g output (inside the quantifier of the text clause)"""
    return all(_g_fixpoint(uncps(n["sc"])) for n in walk(t) if n["k"] == "n")
FORMS = ["x", "dog", "the", "ad hoc", "", "a b", "(", ")", "a(b", "say \\\"hi\\\"", "back\\\\slash", "é", "x ",
         " y", "1", "a b c", "\\\\", "\\\"", "it's", "[", "a  b"]
TFS_PARTS = ["token", "[", "]", "+FORM", "\\\"dog\\\"", "+FROM", "\\\"0\\\"", "\\\\", "(", ")", "\\\"(\\\"", "a",
             "+TO", "\\\"3\\\"", "x\\\\\\\"y", "é", "#1=", "<", ">"]


SPAN_EDGES = [-1, -1, 0, 0, 1, -2, 255, 2**31, 2**32, 2**63, -2**31]
# white space and line-boundary characters besides ' ' and '\n' (str.splitlines() / \s honour them)
ODD_WS = ["\t", "\r", "\r\n", "\x0b", "\x0c", "\x1c", "\x1d", "\x1e", "\x85", "\u2028", "\u2029", "\u3000", "\xa0",
          "\u2003", "\x00"]


def gen_tfs(rng, allow_nl, allow_paren):
    n = rng.choice([0, 1, 2, 3, 4, 5, 6, 8])
    parts = []
    for _ in range(n):
        p = rng.choice(TFS_PARTS)
        if not allow_paren and "(" in p:
            p = "["
        parts.append(p)
    sep = " "
    s = sep.join(parts)
    if allow_nl and parts and rng.random() < 0.5:
        s = s.replace(" ", "\n", 1) if " " in s else s + "\n"
    if rng.random() < 0.06:
        w = rng.choice(ODD_WS)
        s = rng.choice([s + w, w + s, s.replace(" ", w, 1) if " " in s else s + w + "x"])
    return s


def gen_form(rng, allow_nl, allow_paren):
    r = rng.random()
    if r < 0.75:
        f = rng.choice(FORMS)
    elif r < 0.9:
        f = " ".join(rng.choice(["a", "b", "cat", "\\\"", "(", "x)", "\\\\"]) for _ in range(rng.randrange(1, 7)))
    else:
        f = "".join(rng.choice("abc xyz[]'é.,;:-") for _ in range(rng.randrange(0, 9)))
    if not allow_paren:
        f = f.replace("(", "[")
    if allow_nl and rng.random() < 0.5:
        f = f + "\n" + rng.choice(["", "z"])
    if rng.random() < 0.06:
        w = rng.choice(ODD_WS)
        f = rng.choice([f + w, w + f, f + w + "z"])
    return f


class Gen:
    def __init__(self, rng, allow_nl=False, allow_paren=True):
        self.rng = rng
        self.next_id = 1
        self.pos = 0
        self.allow_nl = allow_nl
        self.allow_paren = allow_paren
        # a third of the trees use several capitalisations of ONE entity / type / form name
        self.fam = rng.choice(CASE_FAMILIES) if rng.random() < 0.35 else None
        self.tfam = rng.choice(TYPE_FAMILIES) if rng.random() < 0.35 else None
        self.ffam = rng.choice(FORM_FAMILIES) if rng.random() < 0.3 else None

    def term(self):
        rng = self.rng
        nl = self.allow_nl and rng.random() < 0.4
        k = rng.choice([0, 0, 1, 1, 1, 2, 2, 3, 4])
        ids = [rng.choice([0, 1, 2, 4, 7, 9, 42, 10, 123, 10**9, 2**31, 2**63]) for _ in range(k)]
        order = rng.random()
        if order < 0.25:
            ids.sort()
        elif order < 0.55:
            ids.sort(reverse=True)
        elif order < 0.7 and k >= 2:
            ids[1] = ids[0]                       # duplicate ids
        toks = [(i, gen_tfs(rng, nl, self.allow_paren)) for i in ids]
        form = gen_form(rng, nl, self.allow_paren)
        if self.ffam and rng.random() < 0.7:
            form = rng.choice(self.ffam)
        return T(form, toks)

    def node(self, dep, maxb, weird):
        rng = self.rng
        nid = self.next_id if rng.random() < 0.85 else rng.choice([0, -1, 100000, 7])
        self.next_id += 1
        e = rng.choice(ENTS[:N_PLAIN_ENTS] if rng.random() < 0.9 else ENTS)
        if self.fam and rng.random() < 0.7:
            e = rng.choice(self.fam)
        sc = rng.choice(SCORES) if rng.random() < 0.6 else rng.choice(SCORE_FIX)
        h = rng.random() < 0.35
        ty = rng.choice(TYPES) if rng.random() < 0.35 else None
        if self.tfam and rng.random() < 0.6:
            ty = rng.choice(self.tfam)
        st = self.pos if rng.random() < 0.85 else rng.choice(SPAN_EDGES)
        if dep <= 1 or rng.random() < 0.3:
            ds = [self.term()]
            self.pos += 1
            if weird and rng.random() < 0.5:
                ds.append(self.term())
        else:
            nb = rng.choice([1, 1, 2, 2, 3][:maxb + 2]) if maxb >= 3 else rng.randrange(1, maxb + 1)
            ds = [self.node(dep - 1, maxb, weird) for _ in range(nb)]
            if weird and rng.random() < 0.3:
                ds.insert(rng.randrange(len(ds) + 1), self.term())
        en = self.pos if rng.random() < 0.85 else rng.choice(SPAN_EDGES)
        return N(nid, e, sc, st, en, ds, h, ty)

    def tree(self, dep=None, weird=False):
        rng = self.rng
        if dep is None:
            dep = rng.choice([1, 1, 2, 2, 3, 3, 4, 5])
        t = self.node(dep, 3, weird)
        if rng.random() < 0.4:
            t = R(rng.choice(ROOTS), [t])
        return t


def enum_small_trees():
    """deterministic corner enumeration: tiny trees, every head/type/root/token placement"""
    out = []
    terms = [T("x"), T("x", [(1, "t")]), T("a b", [(1, 'f \\"q\\" g'), (2, "\\\\")]), T("", [])]
    for tm in terms:
        for h, ty in itertools.product([False, True], [None, "ty"]):
            pre = N(1, "a", "-1", 0, 1, [tm], h, ty)
            out.append(pre)
            out.append(R("root", [pre]))
    for h1, t1, h2, t2, hp, tp in itertools.product([False, True], [None, "ty"], [False, True], [None, "u"],
                                                    [False, True], [None, "p"]):
        a = N(2, "b", "0", 0, 1, [T("x")], h1, t1)
        b = N(3, "c", "1.5", 1, 2, [T("y", [(7, "tok")])], h2, t2)
        p = N(1, "a", "-1", 0, 2, [a, b], hp, tp)
        out.append(p)
        if hp and t1:
            out.append(R("r", [p]))
    # the same name in two capitalisations on two nodes of one tree, both orders; and on consecutive cases
    for e1, e2 in itertools.permutations(["Foo", "foo", "FOO"], 2):
        for ty1, ty2 in (("Typ", "typ"), ("typ", "TYP"), (None, None)):
            out.append(N(1, e1, "-1", 0, 2, [N(2, e2, "0", 0, 1, [T("Dog")], False, ty1),
                                             N(3, e1, "0", 1, 2, [T("dog")], True, ty2)], False, ty1))
    for e in ("np_x", "NP_X", "Np_X", "np_x"):
        out.append(N(1, e, "-1", 0, 1, [T("The", [(1, "Tok"), (2, "tok")])], True, e.swapcase()))
        out.append(R("Root" if e.islower() else "root", [N(1, e, "-1", 0, 1, [T("the")])]))
    # token lists whose ids are descending / shuffled / duplicated / 0 and large: order must be kept
    for toks in ([(9, "a"), (4, "b")], [(3, "c"), (1, "a"), (2, "b")], [(5, "x"), (5, "y")],
                 [(0, "z"), (10**9, "y"), (0, "x"), (7, "w")], [(2**63, "big"), (0, "zero")],
                 [(4, "same"), (3, "same"), (2, "same")]):
        out.append(N(1, "n_-_pn_le", "-1", 0, 1, [T("ad hoc", toks)]))
        out.append(R("root", [N(1, "a", "0", 0, 2, [N(2, "b", "0", 0, 1, [T("ad hoc", toks)], True),
                                                     N(3, "c", "0", 1, 2, [T("x", list(reversed(toks)))])])]))
    # forms / tfs ending in an escaped quote or an escaped backslash
    for f, tf in (('say \\"hi\\"', 'x \\"'), ('\\"', '\\"'), ('a\\\\', 'b\\\\'), ('\\\\\\"', 'q \\\\\\"')):
        out.append(N(1, "a", "-1", 0, 1, [T(f, [(1, tf), (0, tf + " ")])]))
    # head mark on an only daughter and on the top node of a root-less derivation
    out.append(N(1, "SUBJH", "-1", 0, 1, [N(2, "Kim_NP1", "0", 0, 1, [N(3, "n", "0", 0, 1, [T("Kim")], True)], True)],
                 True))
    out.append(R("ROOT", [N(1, "SUBJH", "-1", 0, 1, [N(2, "Kim_NP1", "0", 0, 1, [T("Kim")], True, "Typ")], True)]))
    # two distinct preterminals that compare == (same entity and form, default -1 spans)
    out.append(N(1, "s", "-1", -1, -1, [N(2, "n", "-1", -1, -1, [T("x")]), N(3, "n", "-1", -1, -1, [T("x")])]))
    out.append(N(1, "s", "-1", -1, -1, [N(2, "n", "-1", -1, -1, [T("x")]), N(2, "n", "-1", -1, -1, [T("x")]),
                                        N(2, "n", "-1", -1, -1, [T("x")])]))
    # unbalanced: a preterminal first daughter followed by a phrasal daughter (and the mirror image)
    phr = N(3, "c", "0", 1, 3, [N(4, "d", "0", 1, 2, [T("y")]), N(5, "e", "0", 2, 3, [T("z")])])
    out.append(N(1, "a", "-1", 0, 3, [N(2, "b", "0", 0, 1, [T("x")]), phr]))
    out.append(N(1, "a", "-1", 0, 3, [phr, N(2, "b", "0", 0, 1, [T("x")])]))
    out.append(R("ROOT", [N(1, "a", "-1", 0, 3, [N(2, "b", "0", 0, 1, [T("x")]), phr, N(6, "f", "0", 3, 4, [T("w")])])]))
    # boundary spans and ids: 0, -1, zero-width, descending, beyond machine sizes
    for st, en in ((0, 0), (-1, 0), (0, -1), (3, 0), (2**31, 2**31 + 1), (2**63, 2**64), (-2, -3), (255, 256)):
        out.append(N(0, "a", "0", st, en, [T("x", [(0, "t")])]))
        out.append(R("root", [N(1, "a", "0", st, en, [N(0, "b", "0", en, st, [T("x")], True),
                                                       N(2**63, "c", "-0.25", st, st, [T("y")])])]))
    # every odd white-space / line-boundary character inside a form and inside a tfs string
    for i, w in enumerate(ODD_WS):
        out.append(N(1, "a", "-1", 0, 1, [T("x" + w + "y", [(1, "t" + w), (2, w + "u" + w + w)])]))
        out.append(R("root", [N(1, "a", "-1", 0, 2, [N(2, "b", "0", 0, 1, [T(w)]), N(3, "c", "0", 1, 2, [T("z" + w)])])]))
    # size: a terminal with 40 tokens, a node with 30 daughters, a unary chain 25 deep, a 5000-character tfs
    out.append(N(1, "a", "-1", 0, 1, [T("many", [(i * 3 % 41, "tok%d \\\"q\\\"" % i) for i in range(40)])]))
    out.append(R("root", [N(1, "wide", "-1", 0, 30,
                            [N(10 + i, "d%d" % i, "0", i, i + 1, [T("w%d" % i, [(i, "t")] * (i % 3))], i == 17,
                               "ty" if i % 7 == 0 else None) for i in range(30)])]))
    chain = N(100, "leaf", "0", 0, 1, [T("deep", [(1, "t"), (2, "u")])], True, "lt")
    for i in range(25):
        chain = N(99 - i, "u%d" % i, "0", 0, 1, [chain], i % 2 == 0, "c" if i % 5 == 0 else None)
    out.append(chain)
    out.append(N(1, "a", "-1", 0, 1, [T("long " * 300, [(1, "[ +FORM \\\"x\\\" ] " * 300), (2, "y" * 5000)])]))
    # unary chain, ternary branching
    c = N(4, "d", "2e-05", 0, 1, [T("z", [(0, ""), (1, " "), (2, "]")])], True, None)
    out.append(N(1, "a", "-1", 0, 1, [N(2, "b", "-1", 0, 1, [N(3, "c", "-1", 0, 1, [c])])]))
    out.append(N(1, "a", "-1", 0, 3, [N(2, "b", "0", 0, 1, [T("x")]), N(3, "c", "0", 1, 2, [T("y")], True),
                                      N(4, "d", "0", 2, 3, [T("z")])]))
    return out


def lkb_text(rng, t):
    """serialize a token-free tree and give every terminal LKB-style positions"""
    top = build_top(t)
    ind = rng.choice(INDENTS)
    text = top.to_udx(indent=ind) if rng.random() < 0.5 else top.to_udf(indent=ind)
    k = [0]

    def rep(m):
        k[0] += 1
        return '"%s%d%s%d)' % (rng.choice([" ", "  ", "\n "]), k[0] - 1, rng.choice([" ", "\t"]), k[0])
    return re.sub(r'"\)', rep, text)


WS_DELIMS = [" ", "  ", "\t", "\n", "\r\n", " \t ", "\x0b", "\x0c", "\x1c", "\x85", "\u2028", "\u2029", "\u3000", "\xa0",
             "\n    ", "\r"]


def ws_variant(rng, text, only=None):
    """the text with every delimiter (a space outside quoted strings) replaced by other white space, and white
    space inserted before ')' / after '(' at random"""
    out = []
    inq = False
    i = 0
    while i < len(text):
        c = text[i]
        if inq:
            out.append(c)
            if c == "\\":
                i += 1
                out.append(text[i])
            elif c == '"':
                inq = False
        elif c == '"':
            inq = True
            out.append(c)
        elif c == " ":
            out.append(only if only is not None else rng.choice(WS_DELIMS))
        elif c == ")" and i + 1 < len(text) and rng.random() < 0.2:
            out.append((only if only is not None else rng.choice(WS_DELIMS)) + c)
        else:
            out.append(c)
        i += 1
    return "".join(out)


MUT_CHARS = list('()" \\^@1a\n\t') + ['("', '")', ' (', '))', '1 a -1 0 1 (', '"x"', ' 2 "t"', ' 1 2']


def mutate_text(rng, s):
    t = list(s)
    for _ in range(rng.choice([1, 1, 1, 2, 3])):
        i = rng.randrange(len(t) + 1)
        op = rng.random()
        if op < 0.4 and t:
            del t[min(i, len(t) - 1)]
        elif op < 0.8:
            t.insert(i, rng.choice(MUT_CHARS))
        elif t:
            t[min(i, len(t) - 1)] = rng.choice(MUT_CHARS)
    return "".join(t)


HAND_TEXTS = [
    '("x")', '())', '(r)', '(r ("x"))', '()', '(', ')', '', '(1 a -1 0 1)', '(1 @t -1 0 1 ("x"))',
    '(1 ^@t -1 0 1 ("x"))', '(1 ^ -1 0 1 ("x"))', '(1 a@ -1 0 1 ("x"))', '(1 a@b@c -1 0 1 ("a"))',
    '(1 "a b" -1 0 1 ("a"))', '(1 "a b" 0 1 (2 b -1 0 1 ("x")))', '(1 "ab"cd -1 0 1 ("a"))',
    '(1 a -1 0 1 (r (2 b -1 0 1 ("x"))))', '(1 a -1 0 1 (2 c 0 0 1 (r (2 b -1 0 1 ("x")))))',
    '(r (r2 (1 a -1 0 1 ("x"))))', '(1 a -1 0 1 ("x" -1 "t"))', '(1 a -1 0 1 ("x" 1 2))',
    '(1 a -1 0 1 ("x" 1 2 "s"))', '(1 a -1 0 1 ("x" a1 "s"))', '(1 a -1 0 1 ("x" b "s"))',
    '(1 a -1 0 1 ("x" 1 "s" 2))', '(1 a -1 0 1 ("x"', '(1 a -1 0 1 ("x")) junk)', '(1 a -1 0 1 ("x")))',
    '(x a -1 0 1 ("x"))', '(1 a b 0 1 ("x"))', '(1 a -1 c 1 ("x"))', '(1 a -1 0 d ("x"))', '(+1 a 1e3 -0 +1 ("x"))',
    '(1 a 1_0 0 1 ("x"))', '(1 a nan 0 1 ("x"))', '(1 a .5 0 1 ("x"))', '(1 a 1. 0 1 ("x"))', '(1 a . 0 1 ("x"))',
    '(1 a 1e 0 1 ("x"))', '(1 a Infinity 0 1 ("x"))', '(1 a -1 0 1 ("x\\"))', '(1 a -1 0 1 ("x\\\n"))',
    '(1 a -1 0 1 ("a b c d e ("))', '(1 x -1 0 1 ("x" 1 "a b c (d"))', '(1 x -1 0 1 ("x\ny"))',
    '(1 a -1 0 1\n("x"\n1 "t"\n))', '(1 a -1 0 1("x"))', '(1  a\t-1 0 1 (  "x"  ) )', '(root(1 a -1 0 1 ("x")))',
    '(1 a -1 0 1 ("x") ("y"))', '(1 a -1 0 1 (2 b 0 0 1 ("x")) ("y"))', '( 1 a -1 0 1 ("x"))',
    '(1 a -1 0 1 ("x" 01 "t" 2 "u"))', '(1 a -1 0 1 ("x"1 "t"))', '(1 a -1 0 1 ("x" 1"t"))',
]


HAND_DICTS = [
    # an entry without id two levels below the top becomes an unchecked inner root
    {"entity": "a", "id": 1, "daughters": [{"entity": "b", "id": 2, "daughters": [
        {"entity": "r", "daughters": [{"entity": "c", "id": 3, "form": "x"}]}]}]},
    # … one level below the top it is rejected by the constructor check
    {"entity": "a", "id": 1, "daughters": [{"entity": "r", "daughters": [{"entity": "c", "id": 3, "form": "x"}]}]},
    {"entity": "r", "daughters": [{"entity": "c", "id": 3, "form": "x"}]},
    {"entity": "r", "form": "x"},
    {"id": 1, "form": "x"},
    {"entity": "a", "id": 1},
    {"entity": "a", "id": 1, "daughters": []},
    {"entity": "a", "id": 1, "form": "x", "tokens": [{"id": 1, "tfs": "t"}], "head": True, "type": "ty"},
]


FIELD_SETS = ([None, [], list(ALL_FIELDS), list(reversed(ALL_FIELDS)), ["form", "daughters"]]
              + [[f] for f in OPTIONAL_FIELDS]
              + [[x for x in ALL_FIELDS if x != f] for f in OPTIONAL_FIELDS]
              + [["entity", "entity", "id"], ["id", "label"], ["Form"], ["entity", ""], ["ids", "entity"]])
BAD_FIELDS = ["label", "Form", "", "ids", "ID", "from", "to", "tfs", "parent", "daughter"]


def gen_fields(rng):
    r = rng.random()
    if r < 0.25:
        return None
    fl = [f for f in ALL_FIELDS if rng.random() < 0.6]
    if rng.random() < 0.2:
        fl = fl + fl[:2]
    rng.shuffle(fl)
    if r > 0.9:
        fl.insert(rng.randrange(len(fl) + 1), rng.choice(BAD_FIELDS))
    return fl


VARY_EQUAL = ["none", "id", "score", "tokid", "case"]
VARY_UNEQUAL = ["entity", "type", "span-start", "span-end", "form", "tfs", "tokdrop", "tokadd", "dropdtr", "adddtr",
                "term-vs-node"]
VARY_OTHER = ["head", "swapdtr", "root"]
VARY_OPS = VARY_EQUAL + VARY_UNEQUAL + VARY_OTHER


def vary(rng, t, op):
    """a copy of `t` changed at ONE point by `op`; None when the operation does not apply"""
    b = copy.deepcopy(t)
    nodes = list(walk(b))
    inner_nodes = [n for n in nodes if n["k"] == "n"]
    terms = [n for n in nodes if n["k"] == "t"]
    if op == "none":
        return b
    if op == "root":
        if b["k"] == "r":
            return b["d"][0] if b["d"] and b["d"][0]["k"] == "n" else None
        return R(rng.choice(ROOTS), [b])
    if op in ("id", "score", "case", "entity", "type", "span-start", "span-end", "head"):
        cands = inner_nodes if op != "case" and op != "entity" else [n for n in nodes if n["k"] != "t"]
        if not cands:
            return None
        n = rng.choice(cands)
        if op == "id":
            n["id"] = n["id"] + rng.choice([1, -1, 1000, 2**31])
        elif op == "score":
            n["sc"] = cps(rng.choice([x for x in SCORES + SCORE_FIX if cps(x) != n["sc"]]))
        elif op == "case":
            e = uncps(n["e"])
            if e.swapcase() == e or e.swapcase().lower() != e.lower():
                return None
            n["e"] = cps(e.swapcase())
        elif op == "entity":
            n["e"] = cps(uncps(n["e"]) + rng.choice(["x", "_", "2"]))
        elif op == "type":
            old = n["ty"]
            new = rng.choice([None] + TYPES)
            if new is not None and old is not None and uncps(old) == new or (new is None and old is None):
                new = (uncps(old) if old is not None else "") + "z"
            n["ty"] = ocps(new)
        elif op == "span-start":
            n["st"] = n["st"] + rng.choice([1, -1, 2**31])
        elif op == "span-end":
            n["en"] = n["en"] + rng.choice([1, -1, 2**31])
        elif op == "head":
            n["h"] = not n["h"]
        return b
    if op in ("form", "tfs", "tokid", "tokdrop", "tokadd"):
        cands = terms if op in ("form", "tokadd") else [x for x in terms if x["toks"]]
        if not cands:
            return None
        x = rng.choice(cands)
        if op == "form":
            x["f"] = cps(uncps(x["f"]) + rng.choice(["s", " ", "X"])) if rng.random() < 0.7 else \
                cps(uncps(x["f"]).swapcase() if uncps(x["f"]).swapcase() != uncps(x["f"]) else uncps(x["f"]) + "q")
        elif op == "tokadd":
            x["toks"].insert(rng.randrange(len(x["toks"]) + 1), [rng.choice([0, 3, 99]), cps("new")])
        else:
            i = rng.randrange(len(x["toks"]))
            if op == "tfs":
                x["toks"][i][1] = cps(uncps(x["toks"][i][1]) + rng.choice(["]", " ", "A"]))
            elif op == "tokid":
                x["toks"][i][0] = x["toks"][i][0] + rng.choice([1, 10, 2**40])
            else:
                del x["toks"][i]
        return b
    if op in ("dropdtr", "swapdtr", "adddtr"):
        cands = [n for n in inner_nodes if len(n["d"]) >= (1 if op == "adddtr" else 2)]
        if not cands:
            return None
        n = rng.choice(cands)
        if op == "dropdtr":
            del n["d"][rng.randrange(len(n["d"]))]
        elif op == "adddtr":
            n["d"].append(copy.deepcopy(n["d"][-1]))
        else:
            i = rng.randrange(len(n["d"]) - 1)
            n["d"][i], n["d"][i + 1] = n["d"][i + 1], n["d"][i]
        return b
    if op == "term-vs-node":
        cands = [n for n in inner_nodes if len(n["d"]) == 1 and n["d"][0]["k"] == "t"]
        if not cands:
            return None
        n = rng.choice(cands)
        n["d"] = [N(99, "w", "0", n["st"], n["en"], [n["d"][0]])]
        return b
    raise ValueError(op)


def ws_case(rng, t, udx, only=None):
    t = copy.deepcopy(t)
    for n in walk(t):
        if n["k"] != "t" and '"' in uncps(n["e"]):      # the delimiter finder below tracks quotes
            n["e"] = cps("ent")
    top = build_top(t)
    plain = top.to_udx(indent=None) if udx else top.to_udf(indent=None)
    return {"kind": "ws", "s": cps(ws_variant(rng, plain, only)), "tree": t, "udx": udx, "plain": plain}


def eq_case(a, b, op):
    try:
        build_top(a), build_top(b)
    except Exception:
        return None
    return {"kind": "eq", "a": a, "b": b, "op": op}


class C16(Check):
    pid = "C16"
    props_modules = ["Verif.C16.Props", "Verif.C16.PropsEq"]
    quick_cases = 3000
    thorough_cases = 30000
    rule = ("derivation trees to depth 5, branching <= 3, with/without root, head marks and types on any non-root "
            "node, terminals with 0-3 tokens whose tfs strings contain escaped quotes, backslashes, brackets and "
            "parentheses, forms with spaces/escapes/parentheses, every indentation None/0/1/2/4 in the oracle; "
            "plus multi-terminal and mixed-daughter nodes, LKB-style terminal texts, malformed texts (character "
            "mutations of serializations and a hand list), mutated dictionaries.  Exhaustive enumeration of the "
            "head/type/root/token placements on trees of <= 3 nodes first.  A case is non-trivial if its tree has a "
            "non-terminal or its text is non-empty; distinct by JSON text.  Entity, type and form alphabets contain "
            "case variants of one name (Foo/foo/FOO, np_x/NP_X, Typ/typ, dog/Dog); a third of the trees draw several "
            "capitalisations of one name; every tree case is also run on its case-swapped twin and re-parsed afterwards "
            "(purity).  Round 6: every tree case carries a `fields` allowlist for to_dict (all 31 deterministic sets "
            "incl. unknown names, then random subsets); `eq` cases compare a tree with a one-point variant (19 "
            "operations: id, score, token id, entity case, entity, type, span, form, tfs, tokens, daughters, head, "
            "root) through ==, != and is_head(); `ws` cases replace every delimiter of a serialization by other "
            "white space (tab, CR, CRLF, VT, FF, FS, NEL, LS, PS, NBSP, ideographic space); spans/ids at 0, -1, -2, "
            "2^31, 2^32, 2^63; odd white space and line-boundary characters inside forms and tfs strings; size "
            "cases (40 tokens, 30 daughters, depth 25, 5000-character strings); one `api` battery (constructors, "
            "defaults, foreign-object comparisons, error branches); in-place edit of the daughters list followed by "
            "every helper again; sub-node serialization/parsing/navigation.  Round 7: scores are drawn from 54 spellings "
            "that are :g output (exponent notation, -0, whole numbers, six significant digits, extreme magnitudes, "
            "inf/nan), each also deterministically; the oracle compares the real text with a text written from the "
            "case's own score text; 39 near-miss and 15 invalid spellings as `score` text cases.")
    assumptions = [
        "scores are compared as '{:g}'.format(score) text; the float <-> text conversion is exercised on the "
        "implementation side only (model carries the printed text)",
        "int()/float() in the model cover ASCII [+-]?digits and the decimal/inf/nan float grammar; tokens with '_' or "
        "non-ASCII characters are answered 'unmodelled' and not compared",
        "\\d of the regexes is modelled as ASCII digits (generators produce no other decimal digits)",
        "token ids are non-negative (a negative id is read back without its sign by _udf_tokens)",
        "parent pointers are compared through the annotation layer of the model (runP / fromDictP: number of the "
        "frame on top of the stack at creation) against the real `.parent` objects, numbered in pre-order; the "
        "pre-rebuild top object that depth-1 nodes point to is identified with the returned top by its shared "
        "daughters list; object identity beyond that is oracle-only",
        "== / is_head() are modelled with ASCII lower(); a pair of different entities containing a non-ASCII "
        "character is answered 'unmodelled' (key eq) and not compared; to_dict(labels=…) is oracle-only",
    ]
    trusted_base = ["hand-written model lean/Verif/C16/Model.lean (scanner emulating _udf_re alternative by "
                    "alternative; stack machine; dict projection), tied to delphin.derivation by the correspondence "
                    "run including the raw match list of the real _udf_re.finditer"]

    def tables(self):
        """Pins: the patterns, flags, key names, separators, format strings, numeric defaults and default
        arguments of the anchored code that lean/Verif/C16/Model.lean hand-codes equivalents of; read
        from the live module on every run (code objects via co_consts, nested code objects included;
        docstrings and exception message texts dropped)."""
        import re as _re
        import types
        from .common import tables as TB
        lit = TB.lean_strlit

        def render(c):
            # strings as they are; everything else tagged with '#', so that '1' and 1 differ
            return c if isinstance(c, str) else "#" + repr(c)

        def is_message(c):
            return isinstance(c, str) and bool(_re.search(r"[A-Za-z]{3,} [A-Za-z(*]{2,}", c))

        def consts(fn):
            out = []

            def rec(code):
                for c in code.co_consts:
                    if isinstance(c, types.CodeType):
                        rec(c)
                    elif c == fn.__doc__ and isinstance(c, str):
                        continue
                    elif is_message(c):
                        continue
                    else:
                        out.append(render(c))
            rec(fn.__code__)
            return out

        def lst(name, xs):
            return "def %s : List String := [%s]" % (name, ", ".join(lit(x) for x in xs))
        groups = [k for k, _ in sorted(D._udf_re.groupindex.items(), key=lambda kv: kv[1])]
        fns = [
            ("c16FromStringConsts", D._from_string), ("c16UnquoteConsts", D._unquote),
            ("c16UdfTokensConsts", D._udf_tokens), ("c16FromDictConsts", D._from_dict),
            ("c16ToUdfConsts", D._to_udf), ("c16ToDictRecConsts", D._to_dict_recursive),
            ("c16NodeNewConsts", D.UDFNode.__new__), ("c16DerivationInitConsts", D.Derivation.__init__),
            ("c16IsHeadConsts", D.UDFNode.is_head), ("c16IsRootConsts", D.UDFNode.is_root),
            ("c16TerminalIsRootConsts", D.UDFTerminal.is_root), ("c16TerminalsConsts", D.UDFNode.terminals),
            ("c16PreterminalsConsts", D.UDFNode.preterminals), ("c16InternalsConsts", D.UDFNode.internals),
            ("c16FromStringTopConsts", D.from_string), ("c16FromDictTopConsts", D.from_dict),
            ("c16ToUdfMethodConsts", D._UDFNodeBase.to_udf), ("c16ToUdxMethodConsts", D._UDFNodeBase.to_udx),
            ("c16StrConsts", D._UDFNodeBase.__str__), ("c16NodeEqConsts", D.UDFNode.__eq__),
        ]
        lines = [
            "def c16UdfRePattern : String := %s" % lit(D._udf_re.pattern),
            "def c16UdfReFlags : Nat := %d" % int(D._udf_re.flags),
            lst("c16UdfReGroups", groups),
            lst("c16AllFields", D._all_fields),
            lst("c16NodeFields", D.UDFNode._fields),
            lst("c16TerminalFields", D.UDFTerminal._fields),
            lst("c16TokenFields", D.UDFToken._fields),
        ]
        for name, fn in fns:
            lines.append(lst(name, consts(fn)))
        # which re / str / builtin operations the parsers call (re.DOTALL is a name, not a constant)
        for name, fn in (("c16UnquoteNames", D._unquote), ("c16UdfTokensNames", D._udf_tokens),
                         ("c16FromStringNames", D._from_string), ("c16NodeEqNames", D.UDFNode.__eq__)):
            lines.append(lst(name, fn.__code__.co_names))
        defaults = []
        for nm, fn in (("to_udf", D._UDFNodeBase.to_udf), ("to_udx", D._UDFNodeBase.to_udx),
                       ("to_dict", D._UDFNodeBase.to_dict), ("_to_udf", D._to_udf), ("_from_dict", D._from_dict),
                       ("from_string", D.from_string), ("from_dict", D.from_dict),
                       ("UDFNode.__new__", D.UDFNode.__new__), ("Derivation.__init__", D.Derivation.__init__),
                       ("UDFTerminal.__new__", D.UDFTerminal.__new__), ("UDFToken.__new__", D.UDFToken.__new__)):
            defaults.append("%s %r %r" % (nm, fn.__defaults__, fn.__kwdefaults__))
        lines.append(lst("c16Defaults", defaults))
        return lines

    unmodelled_skips = {}

    def setup(self):
        self.unmodelled_skips = {}

    def extra_evidence(self):
        return {"unmodelled_skips": dict(self.unmodelled_skips),
                "unmodelled_skips_note": "per-key comparisons skipped because the model answered 'unmodelled' "
                                         "(int()/float() spellings with '_' or non-ASCII characters; dictionary "
                                         "entries without id that carry score/start/end/type/head)"}

    # ---- cases
    def cases(self, rng, tier, n):
        yield {"kind": "api"}
        # SCORE TEXT: every :g spelling on a bare node, under a root and on three levels at once, every indentation
        for i, sc in enumerate(SCORE_FIX):
            pre = N(1, "a", sc, 0, 1, [T("x", [(1, "t")])], i % 2 == 0, "ty" if i % 3 == 0 else None)
            yield {"kind": "tree", "tree": pre, "indent": INDENTS[i % 5], "fields": None}
            sc2, sc3 = SCORE_FIX[(i + 7) % len(SCORE_FIX)], SCORE_FIX[(i + 19) % len(SCORE_FIX)]
            yield {"kind": "tree", "indent": INDENTS[(i + 2) % 5], "fields": FIELD_SETS[i % len(FIELD_SETS)],
                   "tree": R("root", [N(1, "a", sc, 0, 2, [N(2, "b", sc2, 0, 1, [T("x")], True),
                                                            N(3, "c", sc3, 1, 2, [T("y", [(2, sc)])])])])}
        # near misses (float() accepts them, :g writes them differently) and spellings float() rejects: texts
        for i, sc in enumerate(SCORE_NEAR + SCORE_INVALID):
            inner_ = '(1 ^a@t %s 0 1 ("x" 1 "t"))' % sc if i % 2 else '(1 a %s 0 1 ("x"))' % sc
            yield {"kind": "score", "s": cps(inner_), "sc": sc}
            yield {"kind": "score", "s": cps('(root (1 a -1 0 2 (2 b %s 0 1 ("x")) (3 c %s 1 2 ("y"))))'
                                             % (sc, SCORE_FIX[i % len(SCORE_FIX)])), "sc": sc}
        small = enum_small_trees()
        erng_ws = random.Random(61)
        for i, t in enumerate(small):
            yield {"kind": "tree", "tree": t, "indent": INDENTS[i % len(INDENTS)],
                   "fields": FIELD_SETS[i % len(FIELD_SETS)]}
        # every allowlist on two trees that carry every key (head, type, tokens, daughters, root)
        full = R("root", [N(1, "a", "-1", 0, 2, [N(2, "b", "0.5", 0, 1, [T("x", [(1, "t"), (2, "u")])], True, "ty"),
                                                  N(3, "c", "0", 1, 2, [T("y")], False, "u")], True, "p")])
        for fs in FIELD_SETS:
            yield {"kind": "tree", "tree": full, "indent": 1, "fields": fs}
            yield {"kind": "tree", "tree": full["d"][0], "indent": None, "fields": fs}
        # every delimiter character between the items of the text of that tree (UDF and UDX)
        for w in WS_DELIMS:
            for udx in (False, True):
                yield ws_case(erng_ws, full if udx else full["d"][0], udx, w)
        # == against one-point variants: every operation on a spread of the small trees
        erng = random.Random(16)
        for i, t in enumerate(small):
            for j, op in enumerate(VARY_OPS):
                if (i + j) % 4 == 0 or i >= len(small) - 12:
                    b = vary(erng, t, op)
                    c = eq_case(t, b, op) if b is not None else None
                    if c is not None:
                        yield c
        for s in HAND_TEXTS:
            yield {"kind": "text", "s": cps(s)}
        for d in HAND_DICTS:
            yield {"kind": "dict", "d": canon_dict(d)}
        yield from self.random_cases(rng, n)

    def random_cases(self, rng, n, kinds=None):
        for _ in range(n):
            r = rng.random()
            if kinds:
                r = {"tree": 0.1, "eq": 0.5, "weird": 0.62, "ws": 0.67, "lkb": 0.7, "text": 0.8, "dict": 0.95}[rng.choice(kinds)]
            if r < 0.45:
                gen = Gen(rng, allow_nl=rng.random() < 0.06, allow_paren=True)
                t = gen.tree()
                yield {"kind": "tree", "tree": t, "indent": rng.choice(INDENTS), "fields": gen_fields(rng)}
            elif r < 0.6:
                t = Gen(rng).tree(dep=rng.choice([1, 2, 2, 3, 3, 4]), weird=rng.random() < 0.15)
                op = rng.choice(VARY_OPS)
                b = vary(rng, t, op)
                if b is not None and rng.random() < 0.3:
                    op2 = rng.choice(VARY_EQUAL)          # a second, equality-preserving change on top
                    b2 = vary(rng, b, op2)
                    if b2 is not None:
                        b, op = b2, (op if op not in VARY_EQUAL else op2)
                c = eq_case(t, b, op) if b is not None else None
                yield c if c is not None else {"kind": "tree", "tree": t, "indent": rng.choice(INDENTS),
                                               "fields": gen_fields(rng)}
            elif r < 0.66:
                t = Gen(rng).tree(dep=rng.choice([1, 2, 3]), weird=True)
                yield {"kind": "tree", "tree": t, "indent": rng.choice(INDENTS), "fields": gen_fields(rng)}
            elif r < 0.69:
                t = Gen(rng, allow_nl=rng.random() < 0.2).tree(dep=rng.choice([1, 2, 3]))
                yield ws_case(rng, t, rng.random() < 0.6)
            elif r < 0.72:
                t = Gen(rng, allow_paren=False).tree(dep=rng.choice([1, 2, 3]))
                for nd in walk(t):
                    if nd["k"] == "t":
                        nd["toks"] = []
                        if ')' in uncps(nd["f"]) or '"' in uncps(nd["f"]):
                            nd["f"] = cps("w")
                yield {"kind": "lkb", "s": cps(lkb_text(rng, t)), "tree": t}
            elif r < 0.9:
                t = Gen(rng).tree(dep=rng.choice([1, 2, 2, 3]))
                top = build_top(t)
                ind = rng.choice(INDENTS)
                s = top.to_udx(indent=ind) if rng.random() < 0.6 else top.to_udf(indent=ind)
                yield {"kind": "text", "s": cps(mutate_text(rng, s))}
            else:
                t = Gen(rng).tree(dep=rng.choice([1, 2, 3]), weird=rng.random() < 0.3)
                d = canon_dict(build_top(t).to_dict())
                nodes = []

                def coll(x):
                    nodes.append(x)
                    for y in x["daughters"] or []:
                        coll(y)
                coll(d)
                for _ in range(rng.choice([0, 1, 1, 2])):
                    x = rng.choice(nodes)
                    key = rng.choice(["entity", "id", "score", "start", "end", "type", "head", "form", "tokens",
                                      "daughters"])
                    if key == "head":
                        x["head"] = not x["head"]
                    elif x[key] is not None:
                        x[key] = None
                    elif key == "type":
                        x["type"] = cps("ty")
                    elif key == "form":
                        x["form"] = cps("w")
                    elif key == "daughters":
                        x["daughters"] = []
                yield {"kind": "dict", "d": d}

    def search_cases(self, rng, tier, n, seeds):
        kinds = sorted({{"tree": "tree", "eq": "eq", "ws": "ws", "lkb": "lkb", "text": "text", "dict": "dict"}[c["kind"]]
                        for c in seeds})
        yield from self.random_cases(rng, n, kinds or None)

    # ---- implementation
    def impl(self, case):
        k = case["kind"]
        if k == "tree":
            top = build_top(case["tree"])
            ind = case["indent"]
            udf = top.to_udf(indent=ind)
            udx = top.to_udx(indent=ind)
            d = top.to_dict()
            extra = {}
            if case.get("fields") is not None:
                fl = list(case["fields"])
                try:
                    df = top.to_dict(fields=fl)
                    extra["dict_f"] = {"ok": canon_dict(df)}
                    extra["fd_f"] = guarded(lambda: obs(D.from_dict(df)))
                except ValueError:
                    extra["dict_f"] = {"err": "ValueError"}
                    extra["fd_f"] = {"err": "ValueError"}
            twin = build_top(case["tree"])
            erased = build_top(erase_ht(case["tree"]))
            return {"udf": cps(udf), "udx": cps(udx),
                    "heads": real_heads(top),
                    "eq_self": guarded_eq(lambda: top == twin),
                    "eq_erased": guarded_eq(lambda: top == erased),
                    **extra,
                    "p_udf": guarded(lambda: obs(D.from_string(udf))),
                    "p_udx": guarded(lambda: obs(D.from_string(udx))),
                    "dict": canon_dict(d),
                    "fd": guarded(lambda: obs(D.from_dict(d))),
                    "par_udf": guarded_parents(lambda: D.from_string(udf)),
                    "par_udx": guarded_parents(lambda: D.from_string(udx)),
                    "par_fd": guarded_parents(lambda: D.from_dict(d)),
                    "terminals": [obs(x) for x in top.terminals()],
                    "preterminals": [obs(x) for x in top.preterminals()],
                    "internals": [obs(x) for x in top.internals()]}
        if k in ("text", "lkb", "ws", "score"):
            s = uncps(case["s"])
            evs = []
            for m in D._udf_re.finditer(s[1:]):
                if m.group("done"):
                    evs.append({"k": "done"})
                elif m.group("form"):
                    evs.append({"k": "term", "f": cps(m.group("form")[1:-1]), "toks": cps(m.group("tokens") or "")})
                elif m.group("id"):
                    evs.append({"k": "node", "id": cps(m.group("id")), "e": cps(m.group("entity")),
                                "sc": cps(m.group("score")), "st": cps(m.group("start")), "en": cps(m.group("end"))})
                elif m.group("root"):
                    evs.append({"k": "root", "tok": cps(m.group("root"))})
                else:
                    evs.append({"k": "none"})
            return {"scan": evs, "parse": guarded(lambda: obs(D.from_string(s))),
                    "parents": guarded_parents(lambda: D.from_string(s))}
        if k == "api":
            return {"api": "ran"}
        if k == "eq":
            a, b = build_top(case["a"]), build_top(case["b"])
            return {"eq": guarded_eq(lambda: a == b), "eq_rev": guarded_eq(lambda: b == a),
                    "heads_a": real_heads(a), "heads_b": real_heads(b)}
        if k == "dict":
            d = real_dict(case["d"])
            return {"fd": guarded(lambda: obs(D.from_dict(d))),
                    "par_fd": guarded_parents(lambda: D.from_dict(real_dict(case["d"])))}
        raise ValueError(k)

    def model_request(self, case):
        k = case["kind"]
        if k == "tree":
            return {"op": "tree", "tree": case["tree"], "indent": case["indent"], "fields": case.get("fields")}
        if k == "api":
            return None
        if k == "eq":
            return {"op": "eq", "a": case["a"], "b": case["b"]}
        if k in ("text", "lkb", "ws", "score"):
            return {"op": "text", "s": case["s"]}
        return {"op": "dict", "d": case["d"]}

    def model_compare(self, case, expected, answer):
        def norm(x):
            # the model carries raw score tokens; the implementation prints floats with {:g}
            if isinstance(x, dict):
                if x.get("k") == "n" and "sc" in x:
                    x = dict(x)
                    try:
                        x["sc"] = cps(g(float(uncps(x["sc"]))))
                    except ValueError:
                        pass
                return {kk: norm(v) for kk, v in x.items()}
            if isinstance(x, list):
                return [norm(v) for v in x]
            return x
        if not isinstance(answer, dict) or "proto_error" in answer:
            return {"expected_from_impl": expected, "model": answer}
        diffs = {}
        governs = {"parents": "parse", "par_udf": "p_udf", "par_udx": "p_udx", "par_fd": "fd"}
        for key, exp in expected.items():
            got = answer.get(key)
            gov = answer.get(governs.get(key, key))
            if isinstance(gov, dict) and gov.get("err") == "unmodelled":
                if key not in governs:
                    k2 = "%s:%s" % (case["kind"], key)
                    self.unmodelled_skips[k2] = self.unmodelled_skips.get(k2, 0) + 1
                continue
            if key in ("p_udf", "p_udx", "fd", "fd_f", "parse", "terminals", "preterminals", "internals"):
                got = norm(got)
            if json.dumps(exp, sort_keys=True) != json.dumps(got, sort_keys=True):
                diffs[key] = {"impl": exp, "model": got}
        return diffs or None

    # ---- direct oracle
    def oracle(self, case, res):
        k = case["kind"]
        fails = []

        def fail(clause, detail):
            fails.append({"clause": clause, "detail": detail})
        if k == "tree":
            self._oracle_tree(case["tree"], fail)
            self._oracle_fields(case, fail)
        elif k == "eq":
            self._oracle_eq(case, res, fail)
        elif k == "api":
            self._oracle_api(fail)
            return fails
        elif k == "ws":
            # any white space between the items of a UDF/UDX text: the same derivation
            s = uncps(case["s"])
            want = case["tree"] if case["udx"] else erase_ht(case["tree"])
            try:
                p = D.from_string(s)
            except Exception as e:
                fail("from_string raises on a text with other white space between items", repr((s, type(e).__name__)))
                return fails
            if obs(p) != want:
                fail("a text with other white space between items does not parse to the same tree", repr(s))
            elif (p.to_udx(indent=None) if case["udx"] else p.to_udf(indent=None)) != case["plain"]:
                fail("a text with other white space between items is not re-serialized to the plain text", repr(s))
        elif k == "score":
            # a score spelling that is not :g output: float() decides whether the text parses; if it does, the score
            # is written as :g from then on and THAT text is reproduced at every indentation
            s = uncps(case["s"])
            try:
                float(case["sc"])
                valid = True
            except ValueError:
                valid = False
            r = guarded(lambda: D.from_string(s))
            if valid != ("ok" in r):
                fail("from_string accepts exactly the score spellings float() accepts", repr((s, r.get("err"))))
            elif valid:
                p = r["ok"]
                udx = "^" in s
                ser = (lambda o, i: o.to_udx(indent=i)) if udx else (lambda o, i: o.to_udf(indent=i))
                want = s.replace(" %s " % case["sc"], " %s " % g(float(case["sc"])), 1)
                if ser(p, None) != want:
                    fail("a score that is not :g output is not rewritten as :g (and nothing else changed)",
                         repr((s, ser(p, None))))
                for i in INDENTS:
                    q = D.from_string(ser(p, i))
                    for j in INDENTS:
                        if ser(q, j) != ser(p, j):
                            fail("the rewritten score text is not reproduced at every indentation", repr((s, i, j)))
                            break
        elif k == "lkb":
            # LKB-style terminals: positions are ignored, the tree is the token-free tree
            s = uncps(case["s"])
            try:
                p = D.from_string(s)
            except Exception as e:
                fail("from_string raises on an LKB-style text", repr((s, type(e).__name__)))
                return fails
            want = case["tree"] if "^" in s or "@" in s else None
            o = obs(p)
            if want is None:
                want = o if o == case["tree"] else erase_ht(case["tree"])
            if o != want:
                fail("LKB-style text does not parse to the token-free tree", repr((s, o)))
            self._nav(p, True, "parsed LKB text", fail)
        else:
            # malformed text / mutated dict: only the error discipline is demanded
            for key in ("parse",):
                v = res.get(key)
                if isinstance(v, dict) and v.get("err") == "TypeError":
                    fail("unexpected TypeError", key)
        # PURITY for texts and dictionaries: the same input gives the same result after a call on the
        # case-swapped input
        if k in ("text", "lkb", "ws", "score"):
            s = uncps(case["s"])
            r1 = guarded(lambda: obs(D.from_string(s)))
            r_sw = guarded(lambda: obs(D.from_string(s.swapcase())))
            r2 = guarded(lambda: obs(D.from_string(s)))
            if not (r1 == r2 == res["parse"]):
                fail("from_string is not a function of its text (result changed after other calls)", repr(s))
            if "ok" in r1 and "ok" in r_sw and len(s.swapcase()) == len(s):
                # parse(swapcase(text)) == swapcase(parse(text)) except for scores (inf/nan/e spellings)
                def strs(o):
                    if o["k"] == "t":
                        return [uncps(o["f"])] + [uncps(x) for _, x in o["toks"]]
                    out = [uncps(o["e"])] + ([uncps(o["ty"])] if o.get("ty") is not None else [])
                    for dd in o["d"]:
                        out += strs(dd)
                    return out
                if [x.swapcase() for x in strs(r1["ok"])] != strs(r_sw["ok"]):
                    fail("the case-swapped text does not parse to the case-swapped names", repr(s))
        elif k == "dict":
            def swd(c):
                c = dict(c)
                for key in ("entity", "type", "form"):
                    if c[key] is not None:
                        c[key] = cps(uncps(c[key]).swapcase())
                if c["daughters"] is not None:
                    c["daughters"] = [swd(x) for x in c["daughters"]]
                return c
            mine = real_dict(case["d"])
            before = copy.deepcopy(mine)
            guarded(lambda: obs(D.from_dict(mine)))
            if not _dict_eq(mine, before):
                fail("from_dict changed the dictionary it was given", repr(before))
            r1 = guarded(lambda: obs(D.from_dict(real_dict(case["d"]))))
            guarded(lambda: obs(D.from_dict(real_dict(swd(case["d"])))))
            r2 = guarded(lambda: obs(D.from_dict(real_dict(case["d"]))))
            if not (r1 == r2 == res["fd"]):
                fail("from_dict is not a function of its dictionary (result changed after other calls)", "")
        return fails

    def _oracle_eq(self, case, res, fail):
        """"structural equality ignoring ids and scores": a one-point variant that differs only in node ids, scores,
        token ids or the letter case of an entity is == the tree; one that differs in an entity, type, span, form,
        token tfs, number of tokens/daughters is not; != is the negation; == is symmetric"""
        a, b, op = case["a"], case["b"], case["op"]
        A, B = build_top(a), build_top(b)
        e1, e2 = guarded_eq(lambda: A == B), guarded_eq(lambda: B == A)
        n1, n2 = guarded_eq(lambda: A != B), guarded_eq(lambda: B != A)
        if mixed(a) or mixed(b):
            return
        for v in (e1, e2, n1, n2):
            if "err" in v:
                fail("== / != raises on trees without mixed daughters", repr((op, v)))
                return
        if e1 != e2 or n1 != n2:
            fail("== is not symmetric", op)
        if e1["ok"] == n1["ok"]:
            fail("!= is not the negation of ==", op)
        if op in VARY_EQUAL and not e1["ok"]:
            fail("trees that differ only in ids, scores, token ids or entity case are not ==", op)
        if op in VARY_UNEQUAL and e1["ok"]:
            fail("trees that differ in an entity, type, span, form, tfs or in shape are ==", op)
        # is_head(): a marked node, a root, the top and an only daughter are heads; a sibling of a marked node is
        # not; otherwise indeterminate (naive walk over the case JSON)
        for t, top in ((a, A), (b, B)):
            want = []

            def rec(n, sibs):
                if n["k"] == "t":
                    return
                if n["k"] == "r" or n["h"] or sibs is None or len(sibs) == 1:
                    want.append(True)
                elif any(x.get("h") for x in sibs):
                    want.append(False)
                else:
                    want.append(None)
                for x in n["d"]:
                    rec(x, n["d"])
            rec(t, None)
            if real_heads(top) != want:
                fail("is_head() differs from the head marks of the tree", repr(real_heads(top)))

    def _oracle_fields(self, case, fail):
        """to_dict(fields=…): the dictionary restricted to the allowlist at EVERY level (form and daughters always
        shown); an unknown name is a ValueError; the default is all fields; labels=None/[] add nothing"""
        t = case["tree"]
        if not dict_shape(t):
            return
        top = build_top(t)
        full = top.to_dict()
        if not _dict_eq(top.to_dict(fields=D._all_fields, labels=None), full) \
                or not _dict_eq(top.to_dict(D._all_fields), full) or not _dict_eq(top.to_dict(labels=[]), full):
            fail("to_dict() differs from to_dict(fields=_all_fields, labels=None)", "")
        fl = case.get("fields")
        sets = [fl] if fl is not None else []
        # two more allowlists derived from the tree itself, so that every tree meets a dropped and a kept key
        h = sum(len(n.get("d", [])) + len(n.get("toks", [])) for n in walk(t))
        sets.append([OPTIONAL_FIELDS[h % 8]])
        sets.append([f for f in ALL_FIELDS if f != OPTIONAL_FIELDS[(h + 3) % 8]])
        for fs in sets:
            bad = [f for f in fs if f not in ALL_FIELDS]
            for arg in (list(fs), tuple(fs), iter(list(fs))):
                try:
                    got = top.to_dict(fields=arg)
                except ValueError:
                    if not bad:
                        fail("to_dict(fields=…) raises on valid field names", repr(fs))
                    continue
                if bad:
                    fail("to_dict(fields=…) accepts an unknown field name", repr(fs))
                elif not _dict_eq(got, restrict_dict(full, set(fs))):
                    fail("to_dict(fields=…) is not the dictionary restricted to the allowlist", repr((fs, got)))
        # sub-nodes: the same on a daughter
        for dn, dt in zip(top.daughters, t["d"]):
            if isinstance(dn, D.UDFNode):
                fs = sets[-1]
                if not _dict_eq(dn.to_dict(fields=fs), restrict_dict(dn.to_dict(), set(fs))):
                    fail("to_dict(fields=…) of a daughter is not its dictionary restricted to the allowlist", repr(fs))
                break
        # labels: one label per node id, nested like the tree; they land on the entries with that id and change
        # nothing else (ids unique, no token id equal to a node id)
        ids_ = [n["id"] for n in walk(t) if n["k"] == "n"]
        tokids = [i for n in walk(t) if n["k"] == "t" for i, _ in n["toks"]]
        if len(set(ids_)) == len(ids_) and not set(ids_) & set(tokids):
            def lab(n):
                if n["k"] == "t":
                    return ["w"]
                return ["R" if n["k"] == "r" else "L%d" % n["id"]] + [lab(x) for x in n["d"]]

            def strip(d):
                d = {k_: v for k_, v in d.items() if k_ != "label"}
                if "daughters" in d:
                    d["daughters"] = [strip(x) for x in d["daughters"]]
                return d

            def labels_of(d, out):
                out.append((d.get("id"), d.get("label")))
                for x in d.get("daughters", []):
                    labels_of(x, out)
                return out
            try:
                dl = top.to_dict(labels=lab(t))
            except Exception as e:
                fail("to_dict(labels=…) raises on labels shaped like the tree", type(e).__name__)
                return
            if not _dict_eq(strip(dl), full):
                fail("to_dict(labels=…) changes keys other than 'label'", repr(dl))
            want = [(None, "R") if n["k"] == "r" else (n["id"], "L%d" % n["id"]) for n in walk(t) if n["k"] != "t"]
            if labels_of(dl, []) != want:
                fail("to_dict(labels=…) does not put each label on the entry of its node", repr(labels_of(dl, [])))

    def _attr_diff(self, a, b, path="top"):
        """first attribute in which two real trees differ (naive parallel walk), or None"""
        ta, tb = isinstance(a, D.UDFTerminal), isinstance(b, D.UDFTerminal)
        if ta != tb:
            return path + ": terminal vs node"
        if ta:
            if a.form != b.form:
                return path + ": form"
            if [(t.id, t.tfs) for t in a.tokens] != [(t.id, t.tfs) for t in b.tokens]:
                return path + ": tokens"
            return None
        if a.id != b.id:
            return path + ": id"
        if a.entity != b.entity:
            return path + ": entity"
        if (a.score is None) != (b.score is None) or (a.score is not None and g(a.score) != g(b.score)):
            return path + ": score"
        if (a.start, a.end) != (b.start, b.end):
            return path + ": span"
        if bool(a._head) != bool(b._head):
            return path + ": head"
        if (a.type or None) != (b.type or None):
            return path + ": type"
        if len(a.daughters) != len(b.daughters):
            return path + ": number of daughters"
        for i, (x, y) in enumerate(zip(a.daughters, b.daughters)):
            d = self._attr_diff(x, y, "%s.%d" % (path, i))
            if d:
                return d
        return None

    def _nav(self, top, shape, what, fail):
        """navigation helpers vs. a plain walk over `daughters` (by object identity)"""
        allnodes, terms, pre, inter = [], [], [], []

        def rec(n, parent, dep):
            allnodes.append((n, parent, dep))
            if isinstance(n, D.UDFTerminal):
                terms.append(n)
                return
            if any(isinstance(d, D.UDFTerminal) for d in n.daughters):
                pre.append(n)
            else:
                inter.append(n)
            for d in n.daughters:
                rec(d, n, dep + 1)
        rec(top, None, 0)

        def ids(xs):
            return [id(x) for x in xs]
        got_t, got_p, got_i = top.terminals(), top.preterminals(), top.internals()
        if ids(got_t) != ids(terms):
            fail("terminals() is not the list of terminal nodes of the tree", what)
        if shape:
            if ids(got_p) != ids(pre):
                fail("preterminals() is not the list of nodes with a terminal daughter", what)
            if ids(got_i) != ids(inter):
                fail("internals() is not the list of nodes above the preterminals", what)
            every = ids(got_t) + ids(got_p) + ids(got_i)
            if len(set(every)) != len(every):
                fail("terminals/preterminals/internals overlap", what)
            if sorted(every) != sorted(id(n) for n, _, _ in allnodes):
                fail("terminals/preterminals/internals do not cover the nodes of the tree", what)
        for n, parent, dep in allnodes:
            if dep > 0 and n.is_root():
                fail("a node below the top is a root", what)
        return allnodes

    def _parents(self, top, what, fail):
        def rec(n, parent, dep):
            if dep == 0:
                if n.parent is not None:
                    fail("the top node has a parent", what)
            else:
                p = n.parent
                if p is None or not any(c is n for c in getattr(p, "daughters", [])):
                    fail("a node's parent does not list it as a daughter", what)
                elif dep >= 2 and p is not parent:
                    fail("a node's parent is not the node above it", what)
                elif dep == 1 and not (p.daughters is parent.daughters and p.id == parent.id
                                       and p.entity == parent.entity):
                    fail("a depth-1 node's parent is not (equal to) the top", what)
            if isinstance(n, D.UDFNode):
                for d in n.daughters:
                    rec(d, n, dep + 1)
        rec(top, None, 0)

    def _exact_roundtrip(self, t, what, fail):
        """text and dictionary round trip of `t` with EXACT comparison of every string (entity, type,
        form, tfs) and of the re-serialized text -- never through `==` of nodes, which is
        case-insensitive for entities"""
        top = build_top(t)
        erased = build_top(erase_ht(t))
        for udx, ref in ((False, erased), (True, top)):
            ser = (lambda o, i: o.to_udx(indent=i)) if udx else (lambda o, i: o.to_udf(indent=i))
            text = ser(top, None)
            try:
                p = D.from_string(text)
            except Exception as e:
                fail("from_string raises on %s" % what, repr((text, type(e).__name__)))
                continue
            if ser(p, None) != text or ser(p, 1) != ser(top, 1):
                fail("re-serialized text differs on %s" % what, repr((text, ser(p, None))))
            d = self._attr_diff(ref, p)
            if d:
                fail("parsed tree differs in an attribute on %s" % what, repr((d, text)))
            if obs(p) != obs(ref) or obs(p) != (t if udx else erase_ht(t)):
                fail("parsed tree differs in an attribute on %s" % what, repr(("obs", text)))
        if dict_shape(t):
            dd = top.to_dict()
            try:
                q = D.from_dict(dd)
            except Exception as e:
                fail("from_dict raises on %s" % what, repr((dd, type(e).__name__)))
                return
            d = self._attr_diff(top, q)
            if d or obs(q) != obs(top) or obs(q) != t:
                fail("from_dict(to_dict(t)) differs in an attribute on %s" % what, repr((d, dd)))
            if canon_dict(q.to_dict()) != canon_dict(dd):
                fail("to_dict(from_dict(to_dict(t))) differs on %s" % what, repr(dd))

    def _oracle_tree(self, t, fail):
        top = build_top(t)
        shape = dict_shape(t)
        erased = build_top(erase_ht(t))
        # PURITY, part 1: remember what the parsers return the first time (within this oracle)
        first_texts = [top.to_udf(indent=None), top.to_udx(indent=2)]
        first_parse = [guarded(lambda x=x: obs(D.from_string(x))) for x in first_texts]
        first_dict = top.to_dict() if shape else None
        snapshot = copy.deepcopy(first_dict)
        first_fd = guarded(lambda: obs(D.from_dict(first_dict))) if shape else None
        self._oracle_tree_battery(t, top, shape, erased, fail)
        self._oracle_inplace(t, fail)
        # a DIFFERENT derivation in between: the same tree with the letter case of every name swapped;
        # it must itself round-trip exactly …
        sw = swap_tree(t)
        if sw != t:
            self._exact_roundtrip(sw, "the case-swapped tree", fail)
        # … and the original, parsed again afterwards, must give what it gave the first time
        self._exact_roundtrip(t, "the tree after parsing its case-swapped variant", fail)
        again = [guarded(lambda x=x: obs(D.from_string(x))) for x in first_texts]
        if again != first_parse:
            fail("from_string is not a function of its text (result changed after other calls)",
                 repr(first_texts[0]))
        if shape:
            if top.to_dict() != first_dict and not _dict_eq(top.to_dict(), first_dict):
                fail("to_dict changed after other calls", repr(first_dict))
            if guarded(lambda: obs(D.from_dict(first_dict))) != first_fd:
                fail("from_dict is not a function of its dictionary (result changed after other calls)",
                     repr(first_dict))
            if not _dict_eq(first_dict, snapshot):
                fail("from_dict changed the dictionary it was given", repr(snapshot))

    def _oracle_api(self, fail):
        """constructors, defaults, comparisons with foreign objects and error branches of the glue code (one
        deterministic battery per run)"""
        def raises(f, exc):
            try:
                f()
            except exc:
                return True
            except Exception:
                return False
            return False
        # UDFTerminal: tokens default to a FRESH empty list
        a, b, c = D.UDFTerminal("x"), D.UDFTerminal("y", None), D.UDFTerminal("z", tokens=None)
        if a.tokens != [] or b.tokens != [] or a.tokens is b.tokens or b.tokens is c.tokens:
            fail("UDFTerminal without tokens does not get a fresh empty list", "")
        a.tokens.append(D.UDFToken(1, "t"))
        if D.UDFTerminal("w").tokens != [] or b.tokens != [] or a.parent is not None:
            fail("UDFTerminal without tokens shares its list with another terminal", "")
        if a.is_root() is not False or a.to_udf(indent=None) != '("x" 1 "t")' or str(b) != '("y")':
            fail("UDFTerminal.is_root()/to_udf() wrong", "")
        # UDFToken: id converted with int(); == compares the tfs only; foreign objects are unequal
        tk = D.UDFToken("7", "a")
        if tk.id != 7 or tk.tfs != "a" or not (tk == D.UDFToken(2, "a")) or tk == D.UDFToken(7, "b") \
                or tk == "a" or not (tk != "a") or tk == 7 or tk == None:  # noqa: E711
            fail("UDFToken conversion / equality wrong", "")
        # UDFNode: defaults, conversions, fresh daughters list, comparisons with foreign objects
        n1, n2 = D.UDFNode(1, "a"), D.UDFNode("2", "b", "0.5", "3", "4")
        r = D.UDFNode(None, "r")
        if (n1.id, n1.score, n1.start, n1.end, n1.daughters, n1.type, n1._head, n1.parent) != \
                (1, -1.0, -1, -1, [], None, None, None) or type(n1.score) is not float:
            fail("UDFNode defaults wrong", repr(tuple(n1)))
        if tuple(n2[:5]) != (2, "b", 0.5, 3, 4) or [type(x) for x in n2[:5]] != [int, str, float, int, int]:
            fail("UDFNode does not convert id/score/start/end", repr(tuple(n2)))
        if n1.daughters is n2.daughters or (r.id, r.score, r.start, r.end) != (None, None, None, None) \
                or not r.is_root() or n1.is_root():
            fail("UDFNode root / daughters defaults wrong", "")
        if n1.to_udf(indent=None) != "(1 a -1 -1 -1)" or D.UDFNode(0, "z", 0, 0, 0).to_udf(indent=None) != "(0 z 0 0 0)":
            fail("to_udf of a node with default / zero fields wrong", "")
        top = build_top(N(1, "a", "-1", 0, 1, [T("x")]))
        term = top.daughters[0]
        for other in (1, "a", None, [term], {"id": 1}):
            if top == other or not (top != other) or term == other or not (term != other):
                fail("a node compares equal to a foreign object", repr(other))
        if top == term or term == top or not (top != term) or not (term != top):
            fail("a node compares equal to a terminal", "")
        if not raises(lambda: D.UDFNode(1, "x", daughters=[r]), ValueError):
            fail("UDFNode accepts a root node as a daughter", "")
        # Derivation: the checks on a root top
        pre = D.UDFNode(1, "a", daughters=[D.UDFTerminal("x")])
        for args, kw, exc in (((None, "r"), dict(score=1.0, daughters=[pre]), TypeError),
                              ((None, "r"), dict(start=0, daughters=[pre]), TypeError),
                              ((None, "r"), dict(end=0, daughters=[pre]), TypeError),
                              ((None, "r"), dict(), ValueError), ((None, "r"), dict(daughters=[]), ValueError),
                              ((None, "r"), dict(daughters=[pre, pre]), ValueError),
                              ((None, "r"), dict(daughters=[D.UDFTerminal("x")]), ValueError)):
            if not raises(lambda: D.Derivation(*args, **kw), exc):
                fail("Derivation accepts an ill-formed root", repr(kw.keys()))
        ok = D.Derivation(None, "r", daughters=[pre])
        if ok.to_udf(indent=None) != '(r (1 a -1 -1 -1 ("x")))' or not ok.is_root():
            fail("Derivation with a root top wrong", "")
        # from_dict: ids given as strings are converted
        q = D.from_dict({"entity": "a", "id": "3", "score": "0.5", "start": "0", "end": "1", "form": "x",
                         "tokens": [{"id": "2", "tfs": "t"}]})
        if (q.id, q.score, q.start, q.end, q.daughters[0].tokens[0].id) != (3, 0.5, 0, 1, 2):
            fail("from_dict does not convert numeric strings", "")
        if not raises(lambda: D.from_dict({"entity": "a", "id": 1}), ValueError) \
                or not raises(lambda: D.from_dict({"id": 1, "form": "x"}), KeyError):
            fail("from_dict error branches wrong", "")
        # serializer: an alien daughter is a TypeError
        bad = D.UDFNode(1, "a")
        bad.daughters.append("alien")
        if not raises(lambda: bad.to_udf(), TypeError) or not raises(lambda: bad.to_udx(indent=None), TypeError):
            fail("to_udf of a node with a foreign daughter does not raise TypeError", "")
        # labels that do not match the structure; unknown field together with labels
        two = build_top(N(1, "a", "-1", 0, 2, [N(2, "b", "0", 0, 1, [T("x")]), N(3, "c", "0", 1, 2, [T("y")])]))
        if not raises(lambda: two.to_dict(labels=["S", ["B", ["x"]]]), ValueError) \
                or not raises(lambda: two.to_dict(labels=["S", ["B"], ["C"], ["D"]]), ValueError) \
                or not raises(lambda: two.to_dict(fields=["nope"], labels=["S"]), ValueError):
            fail("to_dict does not reject labels that do not match the structure / unknown fields", "")
        if two.to_dict(labels=["S"]).get("label") != "S" or "label" in two.to_dict(labels=["", ["B", ["x"]], ["C"]]):
            fail("to_dict(labels=…) with partial labels wrong", "")
        # helpers of the parser
        if D._unquote(None) is not None or D._unquote('"a"') != "a" or D._unquote("a") != "a" \
                or D._unquote('""') != "" or D._unquote('"a\nb"') != "a\nb" or D._unquote('"') != '"':
            fail("_unquote wrong on None / quoted / unquoted input", "")
        if D._udf_tokens("") != [] or D._udf_tokens(None) != [] \
                or [(t.id, t.tfs) for t in D._udf_tokens(' 1 "a" 22 "b c"')] != [(1, "a"), (22, "b c")]:
            fail("_udf_tokens wrong on empty input", "")
        for bad_s in ("", "x", "(1 a -1 0 1 (\"x\")", "1 a -1 0 1 (\"x\"))", "(1 a -1 0 1 (\"x\"))\n", " (r)"):
            if not raises(lambda: D.from_string(bad_s), D.DerivationSyntaxError):
                fail("from_string does not raise DerivationSyntaxError on a text not enclosed in parentheses", bad_s)

    def _oracle_inplace(self, t, fail):
        """EDIT IN PLACE, THEN CALL AGAIN: append a preterminal to the daughters of the topmost non-root node; the
        navigation helpers, serializers and to_dict must show the tree as it is now (= a freshly built one); remove
        it again: everything as before"""
        host_t = t["d"][0] if t["k"] == "r" else t
        if host_t["k"] != "n" or not host_t["d"] or any(d["k"] == "t" for d in host_t["d"]):
            return
        top = build_top(t)
        host = top.daughters[0] if t["k"] == "r" else top

        def snap(x):
            return ([id(n) for n in x.terminals()], [id(n) for n in x.preterminals()], [id(n) for n in x.internals()],
                    x.to_udf(indent=None), x.to_udx(indent=2), x.to_dict(), real_heads(x))
        before = snap(top)
        new_t = N(777, "zz", "0.5", 8, 9, [T("new", [(5, "tk")])], True, "nt")
        t2 = copy.deepcopy(t)
        (t2["d"][0] if t["k"] == "r" else t2)["d"].append(new_t)
        host.daughters.append(build(new_t, host))
        fresh = build_top(t2)
        if (top.to_udf(indent=None), top.to_udx(indent=2)) != (fresh.to_udf(indent=None), fresh.to_udx(indent=2)):
            fail("after appending a daughter in place the text is not that of the tree as it is now", "")
        if not _dict_eq(top.to_dict(), fresh.to_dict()):
            fail("after appending a daughter in place to_dict() is not that of the tree as it is now", "")
        for nm in ("terminals", "preterminals", "internals"):
            if [obs(x) for x in getattr(top, nm)()] != [obs(x) for x in getattr(fresh, nm)()]:
                fail("after appending a daughter in place %s() is not that of the tree as it is now" % nm, "")
        if real_heads(top) != real_heads(fresh):
            fail("after appending a daughter in place is_head() is not that of the tree as it is now", "")
        self._nav(top, dict_shape(t2), "edited in place", fail)
        host.daughters.pop()
        after = snap(top)
        if before[:5] != after[:5] or not _dict_eq(before[5], after[5]) or before[6] != after[6]:
            fail("after removing the appended daughter again the helpers/serializers differ from before", "")

    def _oracle_tree_battery(self, t, top, shape, erased, fail):
        if obs(top) != t:
            fail("the constructed derivation does not hold the attributes it was given", repr(obs(top))[:300])
        for udx in (False, True):
            name = "udx" if udx else "udf"
            ser = (lambda o, i: o.to_udx(indent=i)) if udx else (lambda o, i: o.to_udf(indent=i))
            ref = top if udx else erased
            printed = scores_printed(t)
            for ind in INDENTS:
                text = ser(top, ind)
                if printed and text != naive_text(t, ind, udx):
                    # the text of the derivation as the property means it: scores as printed (the case's own text)
                    fail("to_%s(t) is not the text of t with its scores as printed" % name,
                         repr((ind, text[:200], naive_text(t, ind, udx)[:200])))
                try:
                    p = D.from_string(text if not printed else naive_text(t, ind, udx))
                except Exception as e:
                    fail("from_string(to_%s(t)) raises" % name, repr((text, type(e).__name__, str(e)[:80])))
                    continue
                for i2 in INDENTS:
                    if ser(p, i2) != (naive_text(t, i2, udx) if printed else ser(top, i2)):
                        fail("to_%s(from_string(to_%s(t))) differs from to_%s(t)" % (name, name, name),
                             repr((ind, i2, text, ser(p, i2))))
                        break
                d = self._attr_diff(ref, p)
                if d or obs(p) != obs(ref):
                    fail("parsed %s tree differs from the original in an attribute" % name, repr((d, text)))
                elif obs(p) != (t if udx else erase_ht(t)):
                    # against the tree the objects were built FROM, not only against the built objects
                    fail("parsed %s tree differs from the tree the derivation was built from" % name,
                         repr(text))
                elif not mixed(t) and (not (p == ref) or (p != ref)):
                    fail("parsed %s tree is not == the original" % name, repr(text))
                if ind in (None, 2):
                    self._nav(p, shape, "parsed " + name, fail)
                    self._parents(p, "parsed " + name, fail)
                    if not mixed(t) and real_heads(p) != real_heads(ref):
                        fail("is_head() of the parsed %s tree differs from the original's" % name, repr(text))
                # str() is to_udf(indent=None)
            if str(top) != top.to_udf(indent=None) or (printed and str(top) != naive_text(t, None, False)):
                fail("str(t) is not to_udf(indent=None)", "")
        self._nav(top, shape, "constructed", fail)
        self._parents(top, "constructed", fail)
        # default arguments
        if top.to_udf() != top.to_udf(indent=1) or top.to_udx() != top.to_udx(indent=1):
            fail("to_udf()/to_udx() without argument is not indent=1", "")
        # sub-nodes are nodes too: serialization, parsing and navigation of the last non-terminal daughter
        # (and of its last non-terminal daughter)
        sub, st = top, t
        for _ in range(2):
            cand = [(x, y) for x, y in zip(sub.daughters, st["d"]) if isinstance(x, D.UDFNode)]
            if not cand:
                break
            sub, st = cand[-1]
            sshape = dict_shape(st)
            self._nav(sub, sshape, "a sub-node", fail)
            for udx in (False, True):
                text = sub.to_udx(indent=2) if udx else sub.to_udf(indent=None)
                try:
                    p = D.from_string(text)
                except Exception as e:
                    fail("from_string raises on the text of a sub-node", repr((text, type(e).__name__)))
                    continue
                if obs(p) != (st if udx else erase_ht(st)):
                    fail("the text of a sub-node does not parse to that sub-node", repr(text))
                if (p.to_udx(indent=None) if udx else p.to_udf(indent=4)) != \
                        (sub.to_udx(indent=None) if udx else sub.to_udf(indent=4)):
                    fail("re-serialized text of a sub-node differs", repr(text))
            if sshape and obs(D.from_dict(sub.to_dict())) != st:
                fail("from_dict(to_dict(sub-node)) differs from the sub-node", "")
        # constructor invariant: a root cannot be passed as a daughter
        if t["k"] == "r":
            try:
                D.UDFNode(1, "x", -1, 0, 1, daughters=[build(t)])
                fail("UDFNode accepts a root node as a daughter", "")
            except ValueError:
                pass
        if shape:
            d = top.to_dict()
            try:
                json.dumps(d)
            except (TypeError, ValueError) as e:
                fail("to_dict() is not JSON-serializable", str(e))
            try:
                q = D.from_dict(d)
            except Exception as e:
                fail("from_dict(to_dict(t)) raises", repr((d, type(e).__name__)))
                return
            ad = self._attr_diff(top, q)
            if ad or obs(q) != t:
                fail("from_dict(to_dict(t)) differs from t in an attribute", repr((ad, d)))
            elif not (q == top) or (q != top):
                fail("from_dict(to_dict(t)) is not == t", repr(d))
            if real_heads(q) != real_heads(top):
                fail("is_head() of from_dict(to_dict(t)) differs from the original's", repr(d))
            if canon_dict(q.to_dict()) != canon_dict(d) or not _dict_eq(q.to_dict(), d):
                fail("to_dict(from_dict(to_dict(t))) != to_dict(t)", repr((d, q.to_dict())))
            self._nav(q, shape, "from_dict", fail)
            self._parents(q, "from_dict", fail)
            # fields allowlist never drops form/daughters
            d2 = top.to_dict(fields=["entity"])
            if ("form" in d) != ("form" in d2) or ("daughters" in d) != ("daughters" in d2):
                fail("to_dict(fields=…) drops form/daughters", repr(d2))

    # ---- known findings: none open (F26, F29, F30 are repaired; their witnesses are in corpus/C16/)
    def classify(self, case, failure):
        return None

    # ---- evidence
    def nontrivial_key(self, case, res):
        if case["kind"] in ("tree", "eq") or case.get("s") or case.get("d"):
            return json.dumps(case, sort_keys=True)
        return None

    def stats(self, case, res, counters):
        def inc(k, by=1):
            counters[k] = counters.get(k, 0) + by
        k = case["kind"]
        inc("kind:" + k)
        if k == "tree":
            t = case["tree"]
            nodes = list(walk(t))
            inc("tree:depth=%d" % depth(t))
            inc("tree:nodes=%s" % (len(nodes) if len(nodes) < 10 else "10+"))
            inc("tree:root" if t["k"] == "r" else "tree:noroot")
            inc("tree:indent=%s" % case["indent"])
            inc("tree:dict-shape" if dict_shape(t) else "tree:multi-terminal-or-mixed")
            for n in nodes:
                if n["k"] == "t":
                    inc("term:tokens=%d" % len(n["toks"]))
                    ids_ = [i for i, _ in n["toks"]]
                    if len(ids_) >= 2:
                        inc("term:token-ids-" + ("ascending" if ids_ == sorted(ids_) and len(set(ids_)) == len(ids_)
                                                 else "duplicate" if len(set(ids_)) < len(ids_)
                                                 else "descending" if ids_ == sorted(ids_, reverse=True)
                                                 else "shuffled"))
                elif n["k"] == "n":
                    if n["h"]:
                        inc("node:head")
                    if n["ty"] is not None:
                        inc("node:type")
                    inc("node:branching=%d" % len(n["d"]))
            top_n = t["d"][0] if t["k"] == "r" and t["d"] else t
            if top_n.get("h") or top_n.get("ty") is not None:
                inc("tree:head-or-type-on-top-node")
            for s in strings_of(t):
                if '\\"' in s:
                    inc("string:escaped-quote")
                if "\\\\" in s:
                    inc("string:backslash")
                if "(" in s or ")" in s:
                    inc("string:paren")
                if "\n" in s:
                    inc("string:newline")
                if " " in s:
                    inc("string:space")
            if header_capture(t):
                inc("tree:quoted-string-looks-like-node-header")
            if case_variant_tree(t):
                inc("tree:same-name-in-two-capitalisations")
            if any(x.lower() != x for n in nodes if n["k"] != "t" for x in [uncps(n["e"])]):
                inc("tree:entity-with-upper-case")
            fl = case.get("fields")
            inc("fields:" + ("default" if fl is None else "invalid-name" if any(f not in ALL_FIELDS for f in fl)
                             else "n=%d" % len(set(fl) & set(OPTIONAL_FIELDS))))
        if k == "score":
            inc("score:near-miss-or-invalid")
            if isinstance(res, dict):
                inc("score:parse=%s" % res["parse"].get("err", "ok"))
        if k == "tree":
            for n in walk(case["tree"]):
                if n["k"] == "n":
                    x = uncps(n["sc"])
                    inc("score:" + ("not-g-output" if not _g_fixpoint(x) else "inf-nan" if x.lstrip("-") in ("inf", "nan")
                                    else "exponent" if "e" in x else "negative-zero" if x == "-0"
                                    else "whole" if "." not in x else "six-digits" if len(x.replace("-", "").replace(".", "").lstrip("0")) == 6
                                    else "decimal"))
        if k == "eq":
            inc("eq:op=" + case["op"])
            inc("eq:" + ("mixed" if mixed(case["a"]) or mixed(case["b"]) else "uniform"))
            if isinstance(res, dict):
                inc("eq:result=%s" % res["eq"].get("ok", res["eq"].get("err")))
        if isinstance(res, dict):
            for h in (res.get("heads") or []) + (res.get("heads_a") or []) + (res.get("heads_b") or []):
                inc("is_head:%s" % h)
            for key in ("p_udf", "p_udx", "fd", "fd_f", "dict_f", "parse"):
                v = res.get(key)
                if isinstance(v, dict):
                    inc("%s:%s" % (key, v.get("err", "ok")))
            for ev in res.get("scan", []) or []:
                inc("scan:" + ev["k"])

    def shrink(self, case, still_fails):
        if case.get("kind") != "tree":
            if case.get("kind") == "text":
                s = list(case["s"])
                i = 0
                while i < len(s) and len(s) > 1:
                    c2 = dict(case, s=s[:i] + s[i + 1:])
                    if still_fails(c2):
                        s = c2["s"]
                    else:
                        i += 1
                return dict(case, s=s)
            return case
        cur = copy.deepcopy(case)
        changed = True
        while changed:
            changed = False
            # replace the tree by a subtree, drop daughters, drop tokens, shorten strings
            cands = []
            t = cur["tree"]
            for n in walk(t):
                if n is not t and n["k"] == "n":
                    cands.append(dict(cur, tree=copy.deepcopy(n)))
            for idx, n in enumerate(walk(t)):
                if n["k"] != "t" and len(n["d"]) > 1:
                    for j in range(len(n["d"])):
                        c2 = copy.deepcopy(cur)
                        m = list(walk(c2["tree"]))[idx]
                        del m["d"][j]
                        cands.append(c2)
                if n["k"] == "t":
                    for j in range(len(n["toks"])):
                        c2 = copy.deepcopy(cur)
                        m = list(walk(c2["tree"]))[idx]
                        del m["toks"][j]
                        cands.append(c2)
                if n["k"] == "n" and (n["h"] or n["ty"] is not None):
                    c2 = copy.deepcopy(cur)
                    m = list(walk(c2["tree"]))[idx]
                    m["h"] = False
                    m["ty"] = None
                    cands.append(c2)
            for c2 in cands:
                try:
                    if still_fails(c2):
                        cur = c2
                        changed = True
                        break
                except Exception:
                    pass
        return cur


def _dict_eq(a, b):
    """dictionary equality with nan == nan"""
    if isinstance(a, dict) and isinstance(b, dict):
        return a.keys() == b.keys() and all(_dict_eq(a[k], b[k]) for k in a)
    if isinstance(a, list) and isinstance(b, list):
        return len(a) == len(b) and all(_dict_eq(x, y) for x, y in zip(a, b))
    if isinstance(a, float) and isinstance(b, float) and math.isnan(a) and math.isnan(b):
        return True
    return type(a) is type(b) and a == b


CHECK = C16()
