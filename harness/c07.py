"""C07 — well-formedness tests and scope structure: generators, implementation runner,
direct oracle (naive re-statement of every clause on the real code), classifier."""
import itertools  # noqa: F401
import os

from .common import paths, semgen
from .common.runner import Check, canon

paths.ensure_repo_on_path()
from delphin import mrs as dmrs_mrs  # noqa: E402,F401
from delphin import mrs, scope, variable  # noqa: E402
from delphin.mrs import _operations as ops  # noqa: E402

V = semgen.var_to_json


def _mrs_mod():
    from delphin.mrs import _mrs
    return _mrs


def _dmrs_mod():
    from delphin.dmrs import _dmrs
    return _dmrs


def _sembase_mod():
    from delphin import sembase
    return sembase


def _util_mod():
    from delphin import util
    return util


def _ids(preds):
    return [V(p.id) for p in preds]


# ------------------------------------------------------------------ naive helpers (oracle side)

def _closure(nodes, pairs):
    """reflexive-symmetric-transitive closure by Floyd-Warshall; returns list of frozensets"""
    nodes = list(nodes)
    idx = {n: i for i, n in enumerate(nodes)}
    n = len(nodes)
    r = [[i == j for j in range(n)] for i in range(n)]
    for a, b in pairs:
        r[idx[a]][idx[b]] = True
        r[idx[b]][idx[a]] = True
    for k in range(n):
        for i in range(n):
            if r[i][k]:
                for j in range(n):
                    if r[k][j]:
                        r[i][j] = True
    classes = []
    for i in range(n):
        c = frozenset(nodes[j] for j in range(n) if r[i][j])
        if c not in classes:
            classes.append(c)
    return classes


def _out_args(ep):
    return [(r, v) for r, v in ep.args.items() if r not in ("ARG0", "CARG")]


def naive_connected(m, resolve):
    """EPs i, j are adjacent when they share a graph node (label / intrinsic variable / id), or
    an argument of i, after one handle-constraint resolution, names j's label, IV or id."""
    eps = list(m.rels)
    own = [{ep.id, ep.label} | ({ep.iv} if ep.iv else set()) for ep in eps]
    pairs = []
    for i, a in enumerate(eps):
        for j, b in enumerate(eps):
            if i == j:
                continue
            if own[i] & own[j]:
                pairs.append((i, j))
            for _, v in _out_args(a):
                if resolve(v) in own[j]:
                    pairs.append((i, j))
    return len(_closure(range(len(eps)), pairs)) <= 1


def naive_plausible(m):
    labels = [ep.label for ep in m.rels]
    lo_of = {}
    for hc in m.hcons:
        lo_of[hc.hi] = hc.lo
    if m.top is None or m.top not in lo_of:
        return False
    selected = [m.top]
    for ep in m.rels:
        for _, h in _out_args(ep):
            if variable.type(h) not in "h":
                continue
            if h == ep.label:
                return False                      # an EP scopes over itself
            if h in lo_of:
                if h in selected:
                    return False                  # the constraint is used twice
                if lo_of[h] not in labels:
                    return False                  # lo handle is not a label
                selected.append(lo_of[h])
            elif h in labels and h in selected:
                return False                      # a label selected twice
            selected.append(h)
    return all(hi in selected and lo in labels for hi, lo in lo_of.items())


def naive_reach(succ, start):
    seen = []
    todo = list(succ.get(start, []))
    while todo:
        x = todo.pop()
        if x not in seen:
            seen.append(x)
            todo.extend(succ.get(x, []))
    return seen


def rep_rank(m, ep):
    if "RSTR" in ep.args or ep.type == "x":
        return 0
    if ep.type == "e":
        t = m.variables.get(ep.iv, {}).get("TENSE", "").lower()
        return 2 if t in ("", "untensed") else 1
    return 3


def mrs_scopal_structure(m):
    """(scopes by label as lists of positions, scopal successor positions per position)"""
    eps = list(m.rels)
    labels = []
    for ep in eps:
        if ep.label not in labels:
            labels.append(ep.label)
    members = {l: [i for i, ep in enumerate(eps) if ep.label == l] for l in labels}
    last_hc = {}
    for hc in m.hcons:
        last_hc[hc.hi] = hc
    succ = {}
    for i, ep in enumerate(eps):
        out = []
        for _, v in _out_args(ep):
            if v in members:
                out.extend(members[v])
            elif v in last_hc:
                out.extend(members.get(last_hc[v].lo, []))
        succ[i] = out
    return labels, members, succ


def blocking(m):
    """position -> True when, by the DEFINITION, the predication takes another member of its
    scope, or a scopal descendant of another member, as a non-scopal ('xeipu') argument.
    Only meaningful when the scopal structure is acyclic or ids are distinct."""
    eps = list(m.rels)
    labels, members, succ = mrs_scopal_structure(m)
    reach = {i: set(naive_reach(succ, i)) for i in range(len(eps))}
    res = {}
    for l in labels:
        mem = members[l]
        for i in mem:
            args = {v for _, v in _out_args(eps[i]) if variable.type(v) in "xeipu"}
            b = False
            for j in mem:
                if j == i:
                    continue
                if eps[j].id in args or any(eps[k].id in args for k in reach[j]):
                    b = True
            res[i] = b
    return res, reach, succ


def scopal_cyclic(succ):
    return any(i in naive_reach(succ, i) for i in succ)


def descendant_list_sizes(mj):
    """Cost guard only: the LENGTHS of the lists scope._descendants would build for the MRS
    given as JSON (same recursion on integers).  On cyclic / self-scoping structures the real
    lists double at every revisit (a 6-EP MRS reaches millions of entries)."""
    rels = mj["rels"]
    key = canon
    labels = {}
    for i, ep in enumerate(rels):
        labels.setdefault(key(ep["label"]), []).append(i)
    last = {}
    for hi, _, lo in mj["hcons"]:
        last[key(hi)] = key(lo)
    targets = []
    for ep in rels:
        t = []
        for r, v in ep["args"]:
            if r == "ARG0":
                continue
            k = key(v)
            if k in labels:
                t.extend(labels[k])
            elif k in last:
                t.extend(labels.get(last[k], []))
        targets.append(t)
    size = {}

    def visit(i, depth):
        if i in size or depth > 400:
            return
        size[i] = 0
        for j in targets[i]:
            size[i] += 1
            visit(j, depth + 1)
            size[i] += size.get(j, 0)
            if size[i] > 10 ** 7:
                return
    for i in range(len(rels)):
        visit(i, 0)
    return max(size.values(), default=0)


def sim_desc_sizes(ids, targets):
    """Cost guard only: LENGTHS of the lists scope._descendants builds when the predication `i` has the
    scopal targets `targets[i]` (ids, in order) — the same recursion on integers."""
    size = {}

    def visit(i, depth):
        if i in size or depth > 400:
            return
        size[i] = 0
        for j in targets.get(i, ()):
            size[i] += 1
            visit(j, depth + 1)
            size[i] += size.get(j, 0)
            if size[i] > 10 ** 7:
                return
    for i in ids:
        visit(i, 0)
    return max(size.values(), default=0)


# option menus (round 6): every value of every option of the anchored functions
MRS_ARGS_MENU = [[None, None], ["h", None], ["xeipu", None], ["x", None], ["", None], ["eh", None],
                 [None, True], [None, False], ["xeipu", True], ["xeipu", False], ["h", False]]
DMRS_ARGS_MENU = [[None, None], ["", None], ["h", None], ["xeipu", None], ["x", None], ["xh", None],
                  [None, True], [None, False], ["xeipu", False], ["x", True], ["", False]]
PRIOS = ["revpos", "rankrev"]


def build_mrs(case):
    """the MRS of a case.  `ctor == "omit-empty"`: every empty component (rels / hcons / icons / variables, the
    argument dict of an EP) is left to the constructor's default (`None`), the call path
    `MRS(top, index)` / `EP(pred, label)` of the public API; otherwise everything is passed explicitly."""
    j = case["m"]
    if case.get("ctor") != "omit-empty":
        return semgen.mrs_from_json(j)
    from delphin.lnk import Lnk
    M = _mrs_mod()

    def ep(e):
        if e["args"] or e.get("carg") is not None:
            return semgen.ep_from_json(e)
        kw = {}
        if e.get("lnk") is not None:
            kw["lnk"] = Lnk.charspan(e["lnk"][0], e["lnk"][1])
        if e.get("surface") is not None:
            kw["surface"] = e["surface"]
        if e.get("base") is not None:
            kw["base"] = e["base"]
        return M.EP(e["pred"], semgen.var_from_json(e["label"]), **kw)
    kw = {}
    if j["rels"]:
        kw["rels"] = [ep(e) for e in j["rels"]]
    if j.get("hcons"):
        kw["hcons"] = [M.HCons(semgen.var_from_json(a), r, semgen.var_from_json(b)) for a, r, b in j["hcons"]]
    if j.get("icons"):
        kw["icons"] = [M.ICons(semgen.var_from_json(a), r, semgen.var_from_json(b)) for a, r, b in j["icons"]]
    if j.get("vars"):
        kw["variables"] = {semgen.var_from_json(v): dict((k, val) for k, val in ps) for v, ps in j["vars"]}
    return M.MRS(semgen.var_from_json(j.get("top")), semgen.var_from_json(j.get("index")), **kw)


def _arg_map(a):
    return [[V(i), [[r, V(v)] for r, v in ra]] for i, ra in a.items()]


def _scarg_map(a):
    return [[V(i), [[r, rel, V(l)] for r, rel, l in sa]] for i, sa in a.items()]


# ------------------------------------------------------------------ the check

class C07(Check):
    pid = "C07"
    quick_cases = 2600
    props_modules = ["Verif.C07.Props", "Verif.C07.PropsApi", "Verif.C07.Translated", "Verif.C07.TranslatedComponents"]

    def translation_specs(self):
        """util._bfs / util._connected_components as their callers use them: set-valued adjacency, whose (unknown)
        iteration order is the extra parameter `ord` of the translated functions (TRANSLATOR.md, round 3)"""
        from .common import py2lean as P
        from delphin import util
        k = P.STR
        return [P.Spec(util._bfs, "bfs", [("g", P.Dict(k, P.Set(k))), ("start", k)], P.Set(k), set_order=True),
                P.Spec(util._connected_components, "connected_components",
                       [("nodes", P.Lst(k)), ("edges", P.Lst(P.Tup(k, k)))], P.Lst(P.Set(k)), set_order=True)]

    def translations(self):
        from .common import py2lean as P
        return P.translate_module(self.translation_specs(), "Verif.Trans.C07")
    lean_files = ([os.path.join(paths.LEAN, "Verif", "C07", f) for f in
                   ("Model.lean", "Driver.lean", "Props.lean", "Lemmas.lean", "WfLemmas.lean", "DmrsLemmas.lean", "ConnLemmas.lean", "PlausLemmas.lean",
                    "Api.lean", "ApiLemmas.lean", "DescLemmas.lean", "PropsApi.lean")]
                  + [os.path.join(paths.LEAN, "Verif", "Common", f) for f in
                     ("Sem.lean", "SemJson.lean", "SemLemmas.lean")])
    thorough_cases = 60000
    rule = ("MRS cases: (a) a deterministic slice of the enumeration of all MRSs with <=2 EPs over labels {h1,h2}, IVs "
            "{x1,e2}, one optional argument from {x1,e2,h1,h2,h3,h0}, quantifier or not, 8 hcons menus (dangling, "
            "hole-to-hole, duplicate hi, cyclic), top in {None,h0,h1} (thorough: all of it, and a slice of <=3 EPs); "
            "(b) constructively built mostly well-formed scope trees of 1-7 EPs (+quantifiers) with 15% mutual-argument "
            "scopes; (c) one-step mutations of (b); (d) wild MRSs of 0-6 EPs: shared labels/IVs, self-scoping and "
            "dangling arguments of any sort, cyclic/dangling/duplicate hcons, top absent/label/hole; a few with an "
            "EP lacking ARG0 (outside the property's quantifier; kept for the completeness test). Each with random "
            "label equalities for conjoin; 30% of (b)-(d) carry 1-3 individual constraints (IV-IV, IV-argument-only "
            "variable, unused variables, labels) and 4% of the random cases are two disjoint scope trees in one MRS related "
            "only by icons / by a handle constraint nobody selects / by the top / by nothing. (e) LARGE DENSE structures, the same list in every run plus 3% (thorough 1%) of "
            "the random cases: cliques and near-cliques (30%/60% of the mutual arguments dropped, spanning ring kept) of "
            "8/12/16/24 (thorough also 32/40) predications sharing one label or not, each with a private modifier "
            "predication; 10/16/20/30 (45) labels equated as complete graph / chain with chords / star / ring / two "
            "cliques, each label with a pendant label, for conjoin, and the same shapes as DMRSs of 20-60 (90) nodes with "
            "EQ links and the top on a pendant node; linear scopal chains of depth 50/80 (120), also closed into a "
            "cycle, for descendants/representatives; stars with fan-out 12/30/60. DMRS cases: 0-6 nodes with distinct ids, predicates from 3 names so that "
            "many nodes compare equal, arbitrary links (EQ chains/cycles/self loops, H, HEQ, MOD/EQ, dangling ends), "
            "top absent / a node / not a node. Non-trivial = at least one predication; distinct by JSON text. "
            "ROUND 6, on every MRS case: MRS.arguments for 11 (types, expressed) combinations (types None/'h'/'xeipu'/'x'/''/'eh', "
            "expressed None/True/False), scopal_arguments() without a scope map, scopal_arguments and scope.descendants over "
            "the CONJOINED scope map the case's label equalities give (explicit scopes=), representatives with three priority "
            "functions (reverse position, rank then reverse position, constant), a second round of calls on the same object "
            "(purity) and an unchanged-input test; every second MRS is built through the constructor defaults (MRS(top, index) "
            "with empty components omitted, EP(pred, label) without an argument dict). On every DMRS case: DMRS.arguments for "
            "11 (types, expressed) combinations, scopal_arguments() without a scope map; DMRS() / DMRS(top) without links. "
            "4% of the random MRSs have all variable ids shifted by 2^8-3 / 2^16-3 / 2^31-30 / 2^32-30 / 2^63-30 / 10^20, 6% of "
            "the random DMRSs have their node ids re-numbered injectively into {-7, -1, 1, 3, 255, 65536, 2^31-1, 2^31, 2^32+1, "
            "2^63-1, 2^63, 10^20} in random (non-ascending) order. SIZE BOUNDARIES, the same list in every run: hub-and-leaves "
            "MRSs of 67 predications (thorough also 131), scopal and non-scopal, intact and with exactly one defect "
            "(duplicated intrinsic variable / unconnected predication / predication scoping over itself / unselected "
            "handle constraint) at the first, middle and last position; of 131 (thorough 261) predications with the defect "
            "at the last position only (the model side costs the cube of the size).")
    assumptions = [
        "variable strings are (sort, canonical decimal id); sorts are ASCII",
        "EP ids pairwise distinct (proved when every predication has an ARG0 whose sort is not '_', i.e. on the "
        "property's input space): otherwise the driver answers 'unmodelled' and the oracle does not judge the clauses "
        "that go through EP ids (is_connected, plausibly_scopes, descendants, representatives); such cases are counted "
        "as out-of-space in the distribution. The generators never produce the sort '_' and no ARG0 with id 0.",
        "Python set iteration order is not modelled: conjoin / DMRS.scopes are compared up to the chosen label and "
        "up to the order inside a conjoined scope; the BFS start of is_connected is compared for every start "
        "(more than 12 predications: first, middle and last start only; the oracle additionally re-runs the real "
        "is_connected on the reversed predication list)",
        "descendants/representatives of a DMRS are computed by the model over the scope map the real d.scopes() "
        "returned (node order inside a conjoined scope is Python set order); that scope map is compared separately, as "
        "a partition plus the members of the top scope, with the model's DMRS.scopes; DMRS node ids are pairwise distinct",
        "recursion depth of scope._descendants stays below CPython's limit (structures have < 20 predications)",
        "the `types` option is a Python string (substring test); priority functions are compared with the model for the "
        "two tie-free ones (the model's insertion sort is specified up to the order of equal keys), the constant one "
        "(stability of Python's sort) by the direct oracle only",
        "scope.descendants over the conjoined map: the model is given the conjoined map the real scope.conjoin returned "
        "(key choice and member order are Python set order); not run when the lists would exceed the heavy limit",
    ]
    trusted_base = ["hand-written model lean/Verif/Common/Sem.lean (+ C07/Model.lean), tied to delphin.mrs / "
                    "delphin.scope / delphin.dmrs / delphin.util by the correspondence run",
                    "harness/common/semgen.py converters (object <-> JSON)"]

    # ---- pins: constants of the anchored code that the shared Sem model hand-codes
    PIN_FUNCS = [
        ("IsConnected", lambda: ops.is_connected),
        ("HasIvProperty", lambda: ops.has_intrinsic_variable_property),
        ("HasCompleteIvs", lambda: ops.has_complete_intrinsic_variables),
        ("HasUniqueIvs", lambda: ops.has_unique_intrinsic_variables),
        ("PlausiblyScopes", lambda: ops.plausibly_scopes),
        ("IsWellFormed", lambda: ops.is_well_formed),
        ("EpInit", lambda: mrs.EP.__init__),
        ("EpIsQuantifier", lambda: mrs.EP.is_quantifier),
        ("UniquifyIds", lambda: _mrs_mod()._uniquify_ids),
        ("MrsArguments", lambda: mrs.MRS.arguments),
        ("MrsScopes", lambda: mrs.MRS.scopes),
        ("MrsScopalArguments", lambda: mrs.MRS.scopal_arguments),
        ("MrsIsQuantifier", lambda: mrs.MRS.is_quantifier),
        ("MrsProperties", lambda: mrs.MRS.properties),
        ("Conjoin", lambda: scope.conjoin),
        ("Descendants", lambda: scope.descendants),
        ("DescendantsRec", lambda: scope._descendants),
        ("Representatives", lambda: scope.representatives),
        ("RepPriority", lambda: scope._make_representative_priority),
        ("DmrsScopes", lambda: _dmrs_mod().DMRS.scopes),
        ("DmrsNormalize", lambda: _dmrs_mod()._normalize_top_and_links),
        ("DmrsArguments", lambda: _dmrs_mod().DMRS.arguments),
        ("DmrsScopalArguments", lambda: _dmrs_mod().DMRS.scopal_arguments),
        ("DmrsIsQuantifier", lambda: _dmrs_mod().DMRS.is_quantifier),
        ("DmrsProperties", lambda: _dmrs_mod().DMRS.properties),
        ("DmrsInit", lambda: _dmrs_mod().DMRS.__init__),
        ("NodeEq", lambda: _dmrs_mod().Node.__eq__),
        ("Bfs", lambda: _util_mod()._bfs),
        ("ConnectedComponents", lambda: _util_mod()._connected_components),
        ("VariableSplit", lambda: variable.split),
        ("VarFactoryInit", lambda: variable.VariableFactory.__init__),
        ("VarFactoryNew", lambda: variable.VariableFactory.new),
        # round 6: shared support code the anchored functions go through
        ("VariableType", lambda: variable.type),
        ("VariableId", lambda: variable.id),
        ("SemStructInit", lambda: _sembase_mod().SemanticStructure.__init__),
        ("SemStructGetitem", lambda: _sembase_mod().SemanticStructure.__getitem__),
        ("SemStructContains", lambda: _sembase_mod().SemanticStructure.__contains__),
        ("PredicationInit", lambda: _sembase_mod().Predication.__init__),
        ("ScopingInit", lambda: scope.ScopingSemanticStructure.__init__),
        ("MrsInit", lambda: mrs.MRS.__init__),
        ("FillVariables", lambda: _mrs_mod()._fill_variables),
        ("EpEq", lambda: mrs.EP.__eq__),
        ("NodeInit", lambda: _dmrs_mod().Node.__init__),
        ("LinkInit", lambda: _dmrs_mod().Link.__init__),
    ]

    def tables(self):
        """Pins (read from the live code objects on every run): for each anchored function its
        constants (`co_consts`, nested code objects of comprehensions / inner functions flattened in
        order between `<name>` … `</>`; docstrings and exception-message texts dropped), the global
        and attribute names it refers to (`co_names`, nested ones included), and its default argument
        values; the module-level constants; the compiled variable pattern; the EP id formats by
        behaviour."""
        import types
        from .common import tables as T
        lit = T.lean_strlit

        def walk(code, doc):
            cs, ns = [], list(code.co_names)
            for c in code.co_consts:
                if isinstance(c, types.CodeType):
                    sub_c, sub_n = walk(c, None)
                    cs.append("<%s>" % c.co_name)
                    cs.extend(sub_c)
                    cs.append("</>")
                    ns.extend(n for n in sub_n)
                elif isinstance(c, str) and doc and c == doc:
                    continue
                elif isinstance(c, str) and c.lower().startswith("invalid"):
                    continue          # message text
                elif isinstance(c, frozenset):
                    cs.append("frozenset(%r)" % (sorted(c, key=repr),))
                else:
                    cs.append(repr(c))
            return cs, ns

        def slist(xs):
            return "[%s]" % ", ".join(lit(x) for x in xs)
        out = []
        for name, get in self.PIN_FUNCS:
            fn = get()
            cs, ns = walk(fn.__code__, fn.__doc__)
            dflt = [repr(d) for d in (fn.__defaults__ or ())] + \
                   ["%s=%r" % kv for kv in sorted((fn.__kwdefaults__ or {}).items())]
            out.append("def c07%sConsts : List String := %s" % (name, slist(cs)))
            out.append("def c07%sNames : List String := %s" % (name, slist(ns)))
            out.append("def c07%sDefaults : List String := %s" % (name, slist(dflt)))
        M, D = _mrs_mod(), _dmrs_mod()
        out.append("def c07VariableSorts : List String := %s" % slist(
            [variable.UNSPECIFIC, variable.INDIVIDUAL, variable.INSTANCE_OR_HANDLE, variable.EVENTUALITY,
             variable.INSTANCE, variable.HANDLE]))
        out.append("def c07VariablePattern : String := %s" % lit(variable._variable_re.pattern))
        out.append("def c07VariablePatternFlags : Nat := %d" % int(variable._variable_re.flags))
        out.append("def c07MrsRoles : List String := %s" % slist(
            [M.INTRINSIC_ROLE, M.RESTRICTION_ROLE, M.BODY_ROLE, M.CONSTANT_ROLE, M._QUANTIFIER_TYPE]))
        out.append("def c07ScopeRelations : List String := %s" % slist(
            [scope.LEQ, scope.LHEQ, scope.OUTSCOPES, scope.QEQ]))
        out.append("def c07UntensedValues : List String := %s" % slist(sorted(scope._UNTENSED_VALUES)))
        out.append("def c07DmrsConstants : List String := %s" % slist(
            [repr(D.TOP_NODE_ID), repr(D.FIRST_NODE_ID), D.RESTRICTION_ROLE, D.BARE_EQ_ROLE, D.EQ_POST, D.HEQ_POST,
             D.NEQ_POST, D.H_POST, D.NIL_POST, D.CVARSORT]))
        # EP id formats by behaviour: ARG0 only / quantifier / no ARG0 / quantifier without ARG0 ; then
        # three predications with the same ARG0 (ids after _uniquify_ids); the label a DMRS gives its 1st node
        probes = [mrs.EP("p", "h1", {"ARG0": "x5"}).id, mrs.EP("p", "h1", {"ARG0": "x5", "RSTR": "h2"}).id,
                  mrs.EP("p", "h1", {}).id, mrs.EP("p", "h1", {"RSTR": "h2"}).id]
        m3 = mrs.MRS(rels=[mrs.EP("p", "h1", {"ARG0": "x5"}), mrs.EP("p", "h1", {"ARG0": "x5"}),
                           mrs.EP("p", "h1", {"ARG0": "x5"})])
        probes += [ep.id for ep in m3.rels]
        probes.append(variable.VariableFactory(starting_vid=1).new(variable.HANDLE))
        # the public names are the anchored functions themselves (no wrapper in between); `sort` aliases `type`
        import delphin.dmrs as pub_dmrs
        exports = [(n, getattr(mrs, n, None) is getattr(ops, n)) for n in
                   ("is_connected", "has_intrinsic_variable_property", "has_complete_intrinsic_variables",
                    "has_unique_intrinsic_variables", "plausibly_scopes", "is_well_formed")]
        exports += [("MRS", mrs.MRS is M.MRS), ("EP", mrs.EP is M.EP), ("HCons", mrs.HCons is M.HCons),
                    ("DMRS", pub_dmrs.DMRS is D.DMRS), ("Node", pub_dmrs.Node is D.Node), ("Link", pub_dmrs.Link is D.Link),
                    ("variable.sort", variable.sort is variable.type),
                    ("scope._connected_components", scope._connected_components is _util_mod()._connected_components),
                    ("MRS.rels", isinstance(M.MRS.rels, property)), ("DMRS.nodes", isinstance(D.DMRS.nodes, property)),
                    ("MRS-bases", [c.__name__ for c in M.MRS.__mro__[:3]] == ["MRS", "ScopingSemanticStructure", "SemanticStructure"]),
                    ("DMRS-bases", [c.__name__ for c in D.DMRS.__mro__[:3]] == ["DMRS", "ScopingSemanticStructure", "SemanticStructure"]),
                    ("no-override", all(n not in M.MRS.__dict__ and n not in D.DMRS.__dict__
                                        for n in ("__getitem__", "__contains__")))]
        out.append("def c07Exports : List (String × Bool) := [%s]" % ", ".join(
            "(%s, %s)" % (lit(n), "true" if b else "false") for n, b in exports))
        out.append("def c07IdProbes : List (String × Nat) := [%s]" % ", ".join(
            "(%s, %d)" % (lit(V(x)[0]), V(x)[1]) for x in probes))
        return out

    # ---- generators
    heavy_limit = 20000
    skipped_heavy = 0

    def cases(self, rng, tier, n):
        """all generated cases, minus those whose descendant lists would exceed `heavy_limit`
        entries (exponential blow-up of scope._descendants on densely self-scoping input; it
        terminates, but one such case costs tens of seconds on both sides)"""
        self.skipped_heavy = 0
        k = 0
        for c in self.all_cases(rng, tier, n):
            if c["kind"] == "mrs" and descendant_list_sizes(c["m"]) > self.heavy_limit:
                self.skipped_heavy += 1
                continue
            if c["kind"] == "mrs":
                # constructor call path: every second MRS leaves its empty components to the defaults
                k += 1
                if k % 2 == 0:
                    c = dict(c, ctor="omit-empty")
            yield c

    def extra_evidence(self):
        return {"skipped_heavy_descendant_cases": self.skipped_heavy,
                "skipped_heavy_note": "generated MRSs whose scope.descendants lists would exceed %d entries "
                                      "(doubling on cyclic/self-scoping arguments) are not run" % self.heavy_limit}

    def all_cases(self, rng, tier, n):
        small = list(semgen.enum_small_mrs(2))
        step = 1 if tier == "thorough" else 37
        off = rng.randrange(step)
        for k, m in enumerate(small):
            if k % step == off:
                yield {"kind": "mrs", "src": "enum", "m": m, "leqs": semgen.gen_leqs(rng, m)}
        if tier == "thorough":
            for k, m in enumerate(semgen.enum_small_mrs(3)):
                if k % 997 == off % 997 and len(m["rels"]) == 3:
                    yield {"kind": "mrs", "src": "enum", "m": m, "leqs": semgen.gen_leqs(rng, m)}
        yield from self.fixed_cases()
        yield from self.big_cases(rng, tier)
        yield from self.random_cases(rng, n)

    # hand-picked structures that every run contains
    def fixed_cases(self):
        def ep(pred, lbl, args):
            return {"pred": pred, "label": ["h", lbl], "args": args, "carg": None, "lnk": None, "surface": None,
                    "base": None}

        def mrs(rels, hcons, leqs=(), top=("h", 0)):
            return {"kind": "mrs", "src": "fixed", "leqs": [list(map(list, e)) for e in leqs],
                    "m": {"top": list(top) if top else None, "index": None, "rels": rels,
                          "hcons": [[["h", a], r, ["h", b]] for a, r, b in hcons], "icons": [], "vars": []}}
        a0 = lambda s, i: ["ARG0", [s, i]]                                    # noqa: E731
        # (i) predications sharing a label but not adjacent in RELS
        yield mrs([ep("_a", 1, [a0("e", 1)]), ep("_b", 2, [a0("e", 2), ["ARG1", ["e", 1]]]),
                   ep("_c", 1, [a0("e", 3), ["ARG1", ["e", 1]]]), ep("_d", 2, [a0("e", 4), ["ARG1", ["e", 2]]]),
                   ep("_e", 1, [a0("e", 5), ["ARG1", ["e", 3]]]), ep("_f", 3, [a0("x", 6)]),
                   ep("_g", 2, [a0("e", 7), ["ARG1", ["x", 6]]])],
                  [(0, "qeq", 1)], leqs=[(("h", 1), ("h", 3))])
        yield mrs([ep("_a", 1, [a0("e", 1)]), ep("_b", 2, [a0("e", 2)]), ep("_c", 1, [a0("e", 3)]),
                   ep("_d", 3, [a0("e", 4)]), ep("_e", 2, [a0("e", 5)]), ep("_f", 1, [a0("e", 6)])],
                  [(0, "qeq", 2)], leqs=[(("h", 3), ("h", 2))])
        # (ii) argument-poor MRSs held together only by shared ARG0s (and one that is not)
        yield mrs([ep("_a", 1, [a0("x", 1)]), ep("_b", 2, [a0("x", 1)]), ep("_c", 3, [a0("x", 1)]),
                   ep("_d", 4, [a0("x", 1)])], [(0, "qeq", 1)])
        yield mrs([ep("_a", 1, [a0("x", 1)]), ep("_b", 2, [a0("x", 1)]), ep("_c", 2, [a0("e", 2)]),
                   ep("_d", 3, [a0("e", 2)]), ep("_q", 4, [a0("e", 2), ["RSTR", ["h", 9]]])], [(0, "qeq", 1)])
        yield mrs([ep("_a", 1, [a0("x", 1)]), ep("_b", 2, [a0("x", 1)]), ep("_c", 3, [a0("e", 2)]),
                   ep("_d", 4, [a0("e", 2)])], [(0, "qeq", 1)])          # two islands
        # (iii) a predication taking the IV of something inside its OWN scopal argument while all its
        # scope-mates depend on it (it is the representative) — and the variant where that something sits
        # below a scope-mate instead (nobody is)
        yield mrs([ep("_A", 1, [a0("e", 1), ["ARG1", ["h", 5]], ["ARG2", ["x", 4]]]),
                   ep("_B", 1, [a0("e", 2), ["ARG1", ["e", 1]]]), ep("_C", 1, [a0("e", 3), ["ARG1", ["e", 1]]]),
                   ep("_D", 6, [a0("x", 4)])], [(0, "qeq", 1), (5, "qeq", 6)])
        yield mrs([ep("_A", 1, [a0("e", 1), ["ARG2", ["x", 4]]]),
                   ep("_B", 1, [a0("e", 2), ["ARG1", ["e", 1]], ["ARG2", ["h", 5]]]),
                   ep("_C", 1, [a0("e", 3), ["ARG1", ["e", 1]]]),
                   ep("_D", 6, [a0("x", 4)])], [(0, "qeq", 1), (5, "qeq", 6)])
        yield mrs([ep("_A", 1, [a0("e", 1), ["ARG1", ["h", 6]], ["ARG2", ["x", 4]]]),      # lheq instead of qeq
                   ep("_B", 1, [a0("e", 2), ["ARG1", ["e", 1]]]),
                   ep("_D", 6, [a0("x", 4)]), ep("_E", 6, [a0("e", 7), ["ARG1", ["x", 4]]])], [(0, "qeq", 1)])

        # (iv) individual constraints are not edges: inside one component; between two otherwise
        # disconnected components (IV-IV, IV-argument-only variable, unused variables); mentioning labels;
        # a handle constraint nobody selects whose lo is a label of the other component; top qeq to the
        # component that is not otherwise reachable
        def with_icons(case, icons, extra_hcons=(), top_lo=None):
            case["m"]["icons"] = [[list(a), r, list(b)] for a, r, b in icons]
            case["m"]["hcons"] += [[["h", a], r, ["h", b]] for a, r, b in extra_hcons]
            if top_lo is not None:
                case["m"]["hcons"][0][2] = ["h", top_lo]
            return case

        def two_islands():
            return mrs([ep("_a", 1, [a0("e", 1)]), ep("_b", 1, [a0("e", 2), ["ARG1", ["e", 1]]]),
                        ep("_c", 3, [a0("e", 3), ["ARG1", ["x", 8]]]), ep("_d", 3, [a0("x", 4), ["ARG1", ["e", 3]]])],
                       [(0, "qeq", 1)])
        yield with_icons(mrs([ep("_a", 1, [a0("e", 1)]), ep("_b", 1, [a0("e", 2), ["ARG1", ["e", 1]]])],
                             [(0, "qeq", 1)]), [(("e", 1), "topic", ("e", 2))])
        yield two_islands()
        yield with_icons(two_islands(), [(("e", 1), "topic", ("e", 3))])
        yield with_icons(two_islands(), [(("x", 4), "focus", ("e", 2)), (("e", 2), "focus", ("x", 4))])
        yield with_icons(two_islands(), [(("e", 1), "topic", ("x", 8))])                    # IV - argument-only variable
        yield with_icons(two_islands(), [(("e", 1), "topic", ("x", 9)), (("x", 9), "topic", ("e", 3))])   # via unused
        yield with_icons(two_islands(), [(("h", 1), "topic", ("h", 3))])                    # labels
        yield with_icons(two_islands(), [], extra_hcons=[(7, "qeq", 3)])                    # dangling hi, lo = other label
        yield with_icons(two_islands(), [], extra_hcons=[(7, "qeq", 3), (7, "qeq", 1)])
        yield with_icons(two_islands(), [], top_lo=3)                                        # top selects the other island
        yield with_icons(two_islands(), [(("e", 2), "topic", ("e", 3))], extra_hcons=[(7, "qeq", 3)], top_lo=3)

        # DMRS: equal-comparing nodes, parallel / cyclic / self EQ links, scopal cycles, dangling links
        def node(i, pred="_dog_n_1", typ="x", props=()):
            return {"id": i, "pred": pred, "type": typ, "props": [list(p) for p in props], "carg": None,
                    "lnk": None, "surface": None, "base": None}

        def dm(top, nodes, links, index=None):
            return {"kind": "dmrs", "src": "fixed", "d": {"top": top, "index": index, "nodes": nodes,
                                                         "links": [list(l) for l in links]}}
        four = [node(10000), node(10001), node(10002), node(10003)]
        yield dm(10003, four, [(10000, 10001, "ARG1", "EQ"), (10002, 10003, "ARG1", "EQ")])
        yield dm(10002, four, [(10000, 10001, "ARG1", "EQ"), (10001, 10000, "ARG2", "EQ"),      # parallel + cycle
                               (10000, 10001, "ARG1", "EQ"), (10001, 10002, "ARG1", "EQ"),
                               (10002, 10000, "ARG1", "EQ"), (10003, 10003, "ARG1", "EQ")])     # self loop
        yield dm(10001, four, [(10000, 10001, "ARG1", "H"), (10001, 10002, "ARG1", "HEQ"),
                               (10002, 10000, "ARG1", "H"), (10002, 10003, "ARG2", "NEQ")])     # scopal cycle
        yield dm(10000, four, [(10000, 10001, "ARG1", "H"), (10001, 10002, "ARG1", "EQ"),
                               (10002, 10003, "ARG1", "NEQ"), (10000, 10003, "ARG2", "H"),
                               (10002, 10001, "MOD", "EQ")])
        yield dm(10000, four, [(10000, 10009, "ARG1", "H")])                                      # AssertionError
        yield dm(10000, four, [(10009, 10001, "ARG1", "H"), (10000, 10008, "ARG1", "HEQ")])      # KeyError first
        yield dm(10000, four, [(10000, 10009, "ARG1", "NEQ")])                                    # arguments KeyError
        yield dm(None, four, [(0, 10002, "", "H"), (0, 10001, "", "H"), (10001, 10002, "ARG1", "EQ")])
        yield dm(10001, [node(10000, "_big_a_1", "e", [("TENSE", "past")]), node(10001, "_big_a_1", "e"),
                         node(10002, "_big_a_1", "e", [("TENSE", "UNTENSED")]), node(10003, "_the_q", None),
                         node(10004, "_dog_n_1", "x")],
                 [(10000, 10001, "MOD", "EQ"), (10001, 10002, "MOD", "EQ"), (10003, 10004, "RSTR", "H"),
                  (10002, 10004, "ARG1", "NEQ")])
        # node ids beyond machine sizes / negative / non-ascending, the top on each of them in turn
        hug = [2 ** 63, 10 ** 20, -7, 2 ** 31, 2 ** 32 + 1]
        for t in hug:
            yield dm(t, [node(i, "_big_a_1" if k % 2 else "_dog_n_1", "e" if k % 2 else "x") for k, i in enumerate(hug)],
                     [(hug[0], hug[1], "ARG1", "EQ"), (hug[2], hug[3], "ARG1", "H"), (hug[4], hug[0], "ARG1", "NEQ"),
                      (hug[3], hug[4], "ARG2", "HEQ")], index=t)
        for top, links in ((None, [[0, 5, "", "H"], [0, 6, "", "H"], [5, 6, "ARG1", "EQ"]]),
                           (7, [[0, 5, "", "H"], [5, 0, "ARG1", "EQ"]]), (None, []), (0, [[0, 3, "", "H"]]),
                           (None, [[1, 2, "ARG1", "NEQ"]]), (None, None), (4, None),
                           (2 ** 63 + 5, [[0, 3, "", "H"]]), (None, [[0, 10 ** 20, "", "H"], [10 ** 20, -3, "ARG1", "EQ"]])):
            yield {"kind": "norm", "src": "fixed", "top": top, "links": links}

    # large, densely linked structures — the same list in every run (the rng only
    # decides orientation / order), then a random share inside random_cases
    big_share = 0.03

    def big_cases(self, rng, tier):
        self.big_share = 0.03 if tier == "quick" else 0.01
        def mrs(src, m, leqs=None):
            return {"kind": "mrs", "src": src, "m": m, "leqs": semgen.gen_leqs(rng, m) if leqs is None else leqs}
        sizes = [8, 12, 16, 24] + ([32, 40] if tier == "thorough" else [])
        for n in sizes:
            yield mrs("big-clique", semgen.gen_mrs_clique(n))
            yield mrs("big-clique", semgen.gen_mrs_clique(n, rng, drop=0.0))             # shuffled
            yield mrs("big-clique", semgen.gen_mrs_clique(n, rng, drop=0.3))             # near-clique
            yield mrs("big-clique", semgen.gen_mrs_clique(n, rng, drop=0.6, shared_label=False))
        for k in [10, 16, 20, 30] + ([45] if tier == "thorough" else []):
            for kind in ("complete", "chords", "star", "ring", "two"):
                m = semgen.gen_mrs_labels(k)
                yield mrs("big-conjoin", m, semgen.gen_leqs_dense(k, kind))
                yield mrs("big-conjoin", m, semgen.gen_leqs_dense(k, kind, rng))
                yield {"kind": "dmrs", "src": "big-dmrs", "d": semgen.gen_dmrs_dense(k, kind)}
                yield {"kind": "dmrs", "src": "big-dmrs", "d": semgen.gen_dmrs_dense(k, kind, rng)}
        for depth in [50, 80] + ([120] if tier == "thorough" else []):
            yield mrs("big-chain", semgen.gen_mrs_chain(depth))
            yield mrs("big-chain", semgen.gen_mrs_chain(depth, rng, close_cycle=True))
        for f in (12, 30, 60):
            yield mrs("big-star", semgen.gen_mrs_star(f, rng))
            yield mrs("big-star", semgen.gen_mrs_star(f, rng, scopal=True))
        yield from self.size_boundary_cases(tier)

    @staticmethod
    def size_boundary_cases(tier):
        """Structures of more than 64 / 128 (thorough: 256) predications whose ONLY defect sits at the first,
        the middle or the last predication / handle constraint: a duplicated intrinsic variable, an unconnected
        predication, a predication scoping over itself, a handle constraint nobody selects — and the intact base.
        A test that looks at a bounded prefix (or drops the last element) answers wrongly on exactly these."""
        import copy
        # cost of the model side grows with the cube of the size: the larger sizes carry the last-position
        # defects only (quick: 131 predications; thorough: 131 in full, 261 last-position)
        plan = [(66, True)] + ([(130, True), (260, False)] if tier == "thorough" else [(130, False)])
        for fan, full in plan:
            for scopal in (False, True):
                base = semgen.gen_mrs_star(fan, None, scopal=scopal)
                n = len(base["rels"])
                nh = len(base["hcons"])
                if full:
                    yield {"kind": "mrs", "src": "big-boundary", "m": base, "leqs": []}
                    rel_pos, ins_pos, hc_pos = (1, n // 2, n - 1), (0, n // 2, n), sorted({0, nh // 2, nh})
                else:
                    rel_pos, ins_pos, hc_pos = (n - 1,), (n,), (nh,)
                for pos in rel_pos:          # rels[0] is the hub
                    if not full and scopal:
                        continue
                    m = copy.deepcopy(base)
                    other = m["rels"][1 if pos != 1 else n - 1]
                    m["rels"][pos]["args"][0] = ["ARG0", list(other["args"][0][1])]
                    yield {"kind": "mrs", "src": "big-boundary", "m": m, "leqs": [], "defect": "dup-iv@%d" % pos}
                for pos in ins_pos:
                    if not full and scopal:
                        continue
                    m = copy.deepcopy(base)
                    m["rels"].insert(pos, semgen._ep("_isl_n_1", ["h", 9000], [["ARG0", ["x", 9000]]]))
                    yield {"kind": "mrs", "src": "big-boundary", "m": m, "leqs": [], "defect": "island@%d" % pos}
                    m = copy.deepcopy(base)
                    m["rels"].insert(pos, semgen._ep("_self_v_1", ["h", 9001],
                                                     [["ARG0", ["e", 9001]], ["ARG1", ["h", 9001]], ["ARG2", ["e", 100]]]))
                    yield {"kind": "mrs", "src": "big-boundary", "m": m, "leqs": [], "defect": "self-scope@%d" % pos}
                for pos in hc_pos:
                    if not full and not scopal:
                        continue
                    m = copy.deepcopy(base)
                    m["hcons"].insert(pos, [["h", 9002], "qeq", ["h", 1]])
                    yield {"kind": "mrs", "src": "big-boundary", "m": m, "leqs": [], "defect": "unselected-hcons@%d" % pos}

    def random_big(self, rng):
        r = rng.random()
        if r < 0.3:
            m = semgen.gen_mrs_clique(rng.randrange(8, 17), rng, drop=rng.choice([0.0, 0.2, 0.5]),
                                      pendants=rng.random() < 0.8, shared_label=rng.random() < 0.7)
            if rng.random() < 0.3:
                m = semgen.mutate_mrs(rng, m)
            return {"kind": "mrs", "src": "big-clique", "m": m, "leqs": semgen.gen_leqs(rng, m)}
        if r < 0.55:
            k = rng.randrange(8, 21)
            kind = rng.choice(["complete", "chords", "star", "ring", "two"])
            leqs = semgen.gen_leqs_dense(k, kind, rng)
            if rng.random() < 0.3:        # thin out: several components
                leqs = [e for e in leqs if rng.random() < 0.8]
            return {"kind": "mrs", "src": "big-conjoin", "m": semgen.gen_mrs_labels(k), "leqs": leqs}
        if r < 0.8:
            d = semgen.gen_dmrs_dense(rng.randrange(8, 21), rng.choice(["complete", "chords", "star", "ring", "two"]), rng)
            if rng.random() < 0.3:
                d["links"] = [l for l in d["links"] if rng.random() < 0.8]
            d["top"] = rng.choice([n["id"] for n in d["nodes"]])
            return {"kind": "dmrs", "src": "big-dmrs", "d": d}
        if r < 0.9:
            m = semgen.gen_mrs_chain(rng.randrange(20, 51), rng, close_cycle=rng.random() < 0.3)
            return {"kind": "mrs", "src": "big-chain", "m": m, "leqs": semgen.gen_leqs(rng, m)}
        m = semgen.gen_mrs_star(rng.randrange(8, 31), rng, scopal=rng.random() < 0.5)
        return {"kind": "mrs", "src": "big-star", "m": m, "leqs": semgen.gen_leqs(rng, m)}

    BIG_OFFSETS = [2 ** 8 - 3, 2 ** 16 - 3, 2 ** 31 - 30, 2 ** 32 - 30, 2 ** 63 - 30, 10 ** 20]

    @staticmethod
    def remap_dmrs_ids(rng, d):
        """the same DMRS with its node ids mapped injectively to negative / huge / non-ascending numbers
        (0 = TOP_NODE_ID is never produced); ids that are not nodes (dangling ends, missing top) move too"""
        import copy
        d = copy.deepcopy(d)
        pool = [-7, -1, 1, 2 ** 31 - 1, 2 ** 31, 2 ** 32 + 1, 2 ** 63 - 1, 2 ** 63, 10 ** 20, 3, 255, 65536]
        rng.shuffle(pool)
        mp = {}

        def f(i):
            if i is None or i == 0:
                return i
            if i not in mp:
                mp[i] = pool[len(mp)] if len(mp) < len(pool) else 10 ** 21 + len(mp)
            return mp[i]
        for n in d["nodes"]:
            n["id"] = f(n["id"])
        d["links"] = [[f(a), f(b), r, p] for a, b, r, p in d["links"]]
        d["top"] = f(d["top"])
        d["index"] = f(d["index"])
        return d

    def random_cases(self, rng, n, kinds=None):
        for c in self._random_cases(rng, n, kinds):
            # numbers beyond machine sizes: 4% of the MRSs shifted as a whole, 6% of the DMRSs re-numbered
            if c["kind"] == "mrs" and rng.random() < 0.04:
                c = dict(c, m=semgen.shift_vars(c["m"], rng.choice(self.BIG_OFFSETS)))
                c["leqs"] = semgen.gen_leqs(rng, c["m"])
            elif c["kind"] == "dmrs" and rng.random() < 0.06:
                c = dict(c, d=self.remap_dmrs_ids(rng, c["d"]))
            yield c

    def _random_cases(self, rng, n, kinds=None):
        for _ in range(n):
            r = rng.random()
            if kinds:
                r = rng.choice([{"tree": 0.1, "mut": 0.4, "wild": 0.6, "dmrs": 0.9, "islands": 0.1}.get(k, 2.0) for k in kinds])
            if r > 1.0 or (not kinds and rng.random() < self.big_share):
                yield self.random_big(rng)
                continue
            if not kinds and rng.random() < 0.04:
                m = semgen.gen_mrs_islands(rng)
                yield {"kind": "mrs", "src": "islands", "m": m, "leqs": semgen.gen_leqs(rng, m)}
                continue
            if r < 0.3:
                m = semgen.gen_mrs_tree(rng)
                if rng.random() < 0.3:
                    m = semgen.add_icons(rng, m)
                yield {"kind": "mrs", "src": "tree", "m": m, "leqs": semgen.gen_leqs(rng, m)}
            elif r < 0.5:
                m = semgen.gen_mrs_tree(rng)
                for _ in range(rng.choice([1, 1, 2])):
                    m = semgen.mutate_mrs(rng, m)
                if rng.random() < 0.3:
                    m = semgen.add_icons(rng, m)
                yield {"kind": "mrs", "src": "mut", "m": m, "leqs": semgen.gen_leqs(rng, m)}
            elif r < 0.78:
                m = semgen.gen_mrs_wild(rng, allow_missing_iv=rng.random() < 0.1)
                if rng.random() < 0.3:
                    m = semgen.add_icons(rng, m)
                yield {"kind": "mrs", "src": "wild", "m": m, "leqs": semgen.gen_leqs(rng, m)}
            elif r < 0.97:
                yield {"kind": "dmrs", "src": "dmrs", "d": semgen.gen_dmrs(rng)}
            else:
                links = [[rng.choice([0, 0, 1, 2, 3]), rng.choice([0, 1, 2, 3]), rng.choice(["", "ARG1"]),
                          rng.choice(["H", "EQ", "NEQ"])] for _ in range(rng.randrange(0, 5))]
                yield {"kind": "norm", "src": "norm", "top": rng.choice([None, None, 0, 2, 9]), "links": links}

    def search_cases(self, rng, tier, n, seeds):
        kinds = sorted({c.get("src") for c in seeds if c.get("src") in
                        ("tree", "mut", "wild", "dmrs", "islands", "big-clique", "big-conjoin", "big-dmrs", "big-chain", "big-star")})
        if any(c.get("src") == "big-boundary" for c in seeds):
            yield from self.size_boundary_cases(tier)
        for c in seeds[:20]:
            if c["kind"] == "mrs":
                for _ in range(20):
                    m = semgen.mutate_mrs(rng, c["m"])
                    yield {"kind": "mrs", "src": "mut", "m": m, "leqs": semgen.gen_leqs(rng, m)}
        yield from self.random_cases(rng, n, kinds or None)

    # ---- implementation
    def impl(self, case):
        if case["kind"] == "mrs":
            return self.impl_mrs(case)
        if case["kind"] == "norm":
            return self.impl_norm(case)
        return self.impl_dmrs(case)

    def impl_mrs(self, case):
        m = build_mrs(case)
        before = canon(semgen.mrs_to_json(m))
        leqs = [(semgen.var_from_json(a), semgen.var_from_json(b)) for a, b in case.get("leqs", [])]
        res = {"ids": _ids(m.rels)}
        res["connected"] = bool(ops.is_connected(m))
        res["complete"] = bool(ops.has_complete_intrinsic_variables(m))
        res["unique"] = bool(ops.has_unique_intrinsic_variables(m))
        res["ivprop"] = bool(ops.has_intrinsic_variable_property(m))
        res["plausible"] = bool(ops.plausibly_scopes(m))
        res["wf"] = bool(ops.is_well_formed(m))
        top, scopes = m.scopes()
        shadow = {l: list(ps) for l, ps in scopes.items()}
        res["top"] = V(top)
        res["scopes"] = [[V(l), _ids(ps)] for l, ps in scopes.items()]
        scargs = m.scopal_arguments(scopes=scopes)
        res["scargs"] = _scarg_map(scargs)
        try:
            cj = scope.conjoin(scopes, leqs)
            res["conjoin"] = {"ok": [[V(l), _ids(ps)] for l, ps in cj.items()]}
        except KeyError:
            cj = None
            res["conjoin"] = {"err": "KeyError"}
        try:
            ds = scope.descendants(m)
            res["descendants"] = {"ok": [[V(i), _ids(ps)] for i, ps in ds.items()]}
        except KeyError:
            res["descendants"] = {"err": "KeyError"}
        try:
            reps = scope.representatives(m)
            res["reps"] = {"ok": [[V(l), _ids(ps)] for l, ps in reps.items()]}
        except KeyError:
            res["reps"] = {"err": "KeyError"}
        # ---- round 6: the option plumbing of the same functions
        res["args_menu"] = [_arg_map(m.arguments(types=t, expressed=e)) for t, e in MRS_ARGS_MENU]
        res["scargs_default"] = _scarg_map(m.scopal_arguments())
        if cj is not None:
            # scopal arguments / descendants over the CONJOINED scope map (explicit `scopes=`)
            sc2 = m.scopal_arguments(scopes=cj)
            res["scargs_conj"] = _scarg_map(sc2)
            targets = {ep.id: [p.id for _, _, l in sc2[ep.id] for p in cj.get(l, [])] for ep in m.rels}
            if sim_desc_sizes([ep.id for ep in m.rels], targets) <= self.heavy_limit:
                try:
                    d2 = scope.descendants(m, cj)
                    res["desc_conj"] = {"ok": [[V(i), _ids(ps)] for i, ps in d2.items()]}
                except KeyError:
                    res["desc_conj"] = {"err": "KeyError"}
        index = {ep.id: i for i, ep in enumerate(m.rels, 1)}
        fns = {"revpos": lambda p: -index[p.id], "rankrev": lambda p: (rep_rank(m, p), -index[p.id]),
               "const": lambda p: 0}

        def with_prio(k):
            try:
                return {"ok": [[V(l), _ids(ps)] for l, ps in scope.representatives(m, priority=fns[k]).items()]}
            except KeyError:
                return {"err": "KeyError"}
        res["reps_prio"] = [with_prio(k) for k in PRIOS]
        res["reps_const"] = with_prio("const")
        # ---- purity: the same object asked again after everything else; nothing was modified
        scope_map_unchanged = (list(scopes) == list(shadow) and all(
            len(scopes[l]) == len(shadow[l]) and all(a is b for a, b in zip(scopes[l], shadow[l])) for l in shadow))
        # the conjoined map is a NEW map with NEW lists: scribbling on it leaves the input alone …
        conj_independent = True
        if cj is not None:
            for v in cj.values():
                v.append(None)
            cj["*scribble*"] = [None]
            conj_independent = (list(scopes) == list(shadow) and all(
                len(scopes[l]) == len(shadow[l]) and all(a is b for a, b in zip(scopes[l], shadow[l])) for l in shadow))
        # … and scribbling on the map m.scopes() returned does not reach the next call
        for v in scopes.values():
            v.append(None)
        scopes["*scribble*"] = [None]
        again = {"connected": bool(ops.is_connected(m)), "plausible": bool(ops.plausibly_scopes(m)),
                 "ivprop": bool(ops.has_intrinsic_variable_property(m)), "wf": bool(ops.is_well_formed(m))}
        top2, scopes2 = m.scopes()
        again["top"] = V(top2)
        again["scopes"] = [[V(l), _ids(ps)] for l, ps in scopes2.items()]
        again["scargs"] = _scarg_map(m.scopal_arguments(scopes=scopes2))
        try:
            again["reps"] = {"ok": [[V(l), _ids(ps)] for l, ps in scope.representatives(m).items()]}
        except KeyError:
            again["reps"] = {"err": "KeyError"}
        again["mrs_unchanged"] = canon(semgen.mrs_to_json(m)) == before
        again["scope_map_unchanged"] = scope_map_unchanged
        again["conj_independent"] = conj_independent
        res["again"] = again
        return res

    def impl_dmrs(self, case):
        d = semgen.dmrs_from_json(case["d"])
        before = canon(semgen.dmrs_to_json(d))
        res = {}

        def attempt(f):
            try:
                return {"ok": f()}
            except (KeyError, AssertionError) as e:      # a link to/from a node that does not exist
                return {"err": type(e).__name__}
        res["args_all"] = attempt(lambda: [[i, [[r, t] for r, t in a]] for i, a in d.arguments().items()])
        res["args_ns"] = attempt(lambda: [[i, [[r, t] for r, t in a]] for i, a in d.arguments(types="xeipu").items()])
        res["is_quantifier"] = [bool(d.is_quantifier(n.id)) for n in d.nodes]
        res["args_menu"] = [attempt(lambda: [[i, [[r, t] for r, t in a]] for i, a in
                                             d.arguments(types=ty, expressed=ex).items()])
                            for ty, ex in DMRS_ARGS_MENU]
        res["scargs_raw"] = attempt(lambda: [[i, [[r, rel, t] for r, rel, t in a]]
                                             for i, a in d.scopal_arguments().items()])
        try:
            top, scopes = d.scopes()
            res["scopes"] = {"ok": {"top": V(top), "scopes": [[V(l), [n.id for n in ns]] for l, ns in scopes.items()]}}
        except KeyError:
            res["scopes"] = {"err": "KeyError"}
            return res
        res["scargs"] = attempt(lambda: [[i, [[r, rel, (V(t) if isinstance(t, str) else None)] for r, rel, t in a]]
                                         for i, a in d.scopal_arguments(scopes=scopes).items()])
        res["descendants"] = attempt(lambda: [[i, [n.id for n in ns]] for i, ns in scope.descendants(d, scopes).items()])
        # representatives() calls d.scopes() itself: same construction, same set order as `scopes`
        res["reps"] = attempt(lambda: [[V(l), [n.id for n in ns]] for l, ns in scope.representatives(d).items()])
        res["descendants_default"] = attempt(
            lambda: [[i, [n.id for n in ns]] for i, ns in scope.descendants(d).items()])
        # purity: scribble on the returned scope map, ask again; the DMRS itself is untouched
        first_scopes = [[V(l), [n.id for n in ns]] for l, ns in scopes.items()]
        for v in scopes.values():
            v.append(None)
        scopes["*scribble*"] = [None]
        top2, scopes2 = d.scopes()
        res["again"] = {"scopes": V(top2) == V(top) and
                        sorted(sorted(n.id for n in ns) for ns in scopes2.values()) == sorted(sorted(x) for _, x in first_scopes),
                        "reps": attempt(lambda: sorted([sorted(n.id for n in ns)
                                                        for ns in scope.representatives(d).values()])) ==
                        ({"ok": sorted(sorted(x) for _, x in res["reps"]["ok"])} if "ok" in res["reps"] else res["reps"]),
                        "args": attempt(lambda: [[i, [[r, t] for r, t in a]] for i, a in d.arguments().items()]) == res["args_all"],
                        "unchanged": canon(semgen.dmrs_to_json(d)) == before}
        return res

    def impl_norm(self, case):
        from delphin.dmrs import DMRS, Link
        if case["links"] is None:            # DMRS(top) / DMRS(): `links` left to the default
            d = DMRS(top=case["top"]) if case["top"] is not None else DMRS()
        else:
            d = DMRS(top=case["top"], links=[Link(a, b, r, p) for a, b, r, p in case["links"]])
        return {"top": d.top, "links": [[l.start, l.end, l.role, l.post] for l in d.links]}

    # ---- model
    def model_request(self, case):
        if case["kind"] == "mrs":
            req = {"op": "mrs", "m": case["m"], "leqs": case.get("leqs", []), "args_menu": MRS_ARGS_MENU,
                   "prio": PRIOS}
            # descendants over the conjoined map: the model is given the map the real conjoin returned
            # (key choice and member order inside a conjoined scope are Python set order)
            m = semgen.mrs_from_json(case["m"])
            if len({ep.id for ep in m.rels}) == len(m.rels):
                leqs = [(semgen.var_from_json(a), semgen.var_from_json(b)) for a, b in case.get("leqs", [])]
                try:
                    cj = scope.conjoin(m.scopes()[1], leqs)
                except KeyError:
                    cj = None
                if cj is not None:
                    sc2 = m.scopal_arguments(scopes=cj)
                    targets = {ep.id: [p.id for _, _, l in sc2[ep.id] for p in cj.get(l, [])] for ep in m.rels}
                    if sim_desc_sizes([ep.id for ep in m.rels], targets) <= self.heavy_limit:
                        req["obs_conj"] = [[V(l), _ids(ps)] for l, ps in cj.items()]
            return req
        if case["kind"] == "norm":
            return {"op": "dmrs_norm", "top": case["top"], "links": case["links"] or []}
        d = semgen.dmrs_from_json(case["d"])
        req = {"op": "dmrs", "d": semgen.dmrs_to_json(d), "args_menu": DMRS_ARGS_MENU}
        # descendants / representatives are computed by the model over the scope map the real
        # d.scopes() returned (the order inside a conjoined scope is Python set order)
        try:
            _, scopes = d.scopes()
            req["obs"] = [[V(l), [n.id for n in ns]] for l, ns in scopes.items()]
        except KeyError:
            pass
        return req

    @staticmethod
    def _canon_partition(scopemap):
        """[[label, [ids]]...] -> sorted list of sorted member lists (labels dropped)"""
        return sorted(sorted(canon(x) for x in ids) for _, ids in scopemap)

    def model_expected(self, case, res):
        if case["kind"] == "mrs":
            exp = {k: v for k, v in res.items() if k not in ("again", "reps_const")}
            exp["connected_any_start"] = True
            return exp
        if case["kind"] == "norm":
            return res
        return {k: v for k, v in res.items() if k not in ("descendants_default", "again")}

    def model_compare(self, case, expected, answer):
        if isinstance(answer, dict) and "unmodelled" in answer:
            # EP ids not pairwise distinct: outside the model; the ids themselves are still compared
            if case["kind"] == "mrs" and canon(answer.get("ids")) != canon(expected.get("ids")):
                return {"expected_from_impl": expected.get("ids"), "model": answer.get("ids")}
            return None
        if case["kind"] == "mrs":
            e = dict(expected)
            a = dict(answer) if isinstance(answer, dict) else answer
            if isinstance(a, dict) and "ok" in e.get("conjoin", {}) and "ok" in a.get("conjoin", {}):
                e["conjoin"] = {"ok": self._canon_partition(e["conjoin"]["ok"])}
                a["conjoin"] = {"ok": self._canon_partition(a["conjoin"]["ok"])}
            if isinstance(a, dict):
                # over the conjoined map: not run when the lists would be too long (doubling)
                if "scargs_conj" not in a:
                    e.pop("scargs_conj", None)
                    e.pop("desc_conj", None)
                if "desc_conj" not in e or "desc_conj" not in a:
                    e.pop("desc_conj", None)
                    a.pop("desc_conj", None)
            return super().model_compare(case, e, a)
        if case["kind"] == "norm":
            return super().model_compare(case, expected, answer)
        # dmrs: scopes as a partition plus the members of the top scope; everything else exactly
        def norm(o):
            if not (isinstance(o, dict) and "ok" in o):
                return o
            o = o["ok"]
            top = o["top"]
            topm = None
            if top is not None:
                topm = [sorted(ids) for l, ids in o["scopes"] if l == top]
            return {"top": topm, "scopes": sorted(sorted(ids) for _, ids in o["scopes"])}
        e = dict(expected)
        a = dict(answer) if isinstance(answer, dict) else answer
        if isinstance(a, dict) and "scopes" in a:
            e["scopes"] = norm(e["scopes"])
            a["scopes"] = norm(a["scopes"])
        return super().model_compare(case, e, a)

    # ---- direct oracle
    def oracle(self, case, res):
        if case["kind"] == "mrs":
            return self.oracle_mrs(case, res)
        if case["kind"] == "norm":
            return self.oracle_norm(case, res)
        return self.oracle_dmrs(case, res)

    def oracle_mrs(self, case, res):
        fails = []

        def fail(clause, detail):
            fails.append({"clause": clause, "detail": detail})
        m = build_mrs(case)
        eps = list(m.rels)
        ids = [ep.id for ep in eps]
        distinct_ids = len(set(ids)) == len(ids)

        # -- connectedness = graph connectivity
        first, last = {}, {}
        for hc in m.hcons:
            first.setdefault(hc.hi, hc.lo)
            last[hc.hi] = hc.lo
        c_last = naive_connected(m, lambda v: last.get(v, v))
        c_first = naive_connected(m, lambda v: first.get(v, v))
        # every clause that goes through EP ids (is_connected's graph, m.arguments(), m[id], descendants,
        # representatives) is judged only when the real ids are pairwise distinct: colliding ids arise only
        # outside the property's input space (predications without ARG0 / ARG0 of sort '_'), where the
        # id-keyed dictionaries of the code silently merge predications
        if distinct_ids and c_last == c_first and res["connected"] != c_last:
            fail("is_connected differs from graph connectivity of the predications",
                 {"impl": res["connected"], "definition": c_last})
        # start independence / order independence: the same MRS with its EPs reversed
        if distinct_ids:
            mj = dict(case["m"])
            mj["rels"] = list(reversed(case["m"]["rels"]))
            if bool(ops.is_connected(semgen.mrs_from_json(mj))) != res["connected"]:
                fail("is_connected depends on the order of the predications", None)

        # -- intrinsic-variable tests
        nq = [ep for ep in eps if "RSTR" not in ep.args]
        complete = all("ARG0" in ep.args for ep in nq)
        unique = not any(a is not b and a.args.get("ARG0") is not None and a.args.get("ARG0") == b.args.get("ARG0")
                         for a in nq for b in nq)
        if res["complete"] != complete:
            fail("has_complete_intrinsic_variables differs from its definition", {"impl": res["complete"]})
        if res["unique"] != unique:
            fail("has_unique_intrinsic_variables differs from its definition", {"impl": res["unique"]})
        if res["ivprop"] != (complete and unique):
            fail("has_intrinsic_variable_property is not the conjunction of its two tests", None)

        # -- plausible scoping and the conjunction
        if distinct_ids and res["plausible"] != naive_plausible(m):
            fail("plausibly_scopes differs from its documented tests", {"impl": res["plausible"]})
        if res["wf"] != (res["connected"] and res["ivprop"] and res["plausible"]):
            fail("is_well_formed is not the conjunction of is_connected, IV property and plausibly_scopes",
                 {k: res[k] for k in ("wf", "connected", "ivprop", "plausible")})

        # -- the scope map partitions the predications by label
        top, scopes = m.scopes()
        labels = []
        for ep in eps:
            if ep.label not in labels:
                labels.append(ep.label)
        if list(scopes) != labels:
            fail("scope map keys are not the labels in order of first occurrence", None)
        else:
            for l in labels:
                want = [ep for ep in eps if ep.label == l]
                got = scopes[l]
                if len(want) != len(got) or any(a is not b for a, b in zip(want, got)):
                    fail("a scope is not exactly the predications carrying its label (in order)", V(l))
        if sum(len(v) for v in scopes.values()) != len(eps):
            fail("the scopes do not partition the predications", None)
        tgt = next((hc.lo for hc in m.hcons if hc.hi == m.top), m.top)
        want_top = tgt if tgt in labels else None
        if top != want_top:
            fail("top label is not the label the top handle resolves to", {"impl": V(top), "want": V(want_top)})

        # -- conjoin = connected components of the label equalities
        leqs = [(semgen.var_from_json(a), semgen.var_from_json(b)) for a, b in case.get("leqs", [])]
        foreign = bool(leqs) and any(a not in labels or b not in labels for a, b in leqs)
        try:
            cj = scope.conjoin(scopes, leqs)
        except KeyError:
            cj = None
        if foreign:
            if cj is not None:
                fail("conjoin accepts an equality on a label that is not a scope", None)
        elif cj is None:
            fail("conjoin raises KeyError although every equated label is a scope", None)
        else:
            classes = _closure(labels, leqs)
            seen_classes = []
            for key, preds in cj.items():
                cls = next((c for c in classes if key in c), None)
                if cls is None:
                    fail("conjoined scope label is not one of the scope labels", V(key))
                    continue
                if cls in seen_classes:
                    fail("two conjoined scopes for one class of equated labels", V(key))
                seen_classes.append(cls)
                want = [id(ep) for l in labels if l in cls for ep in scopes[l]]
                if sorted(id(p) for p in preds) != sorted(want):
                    fail("conjoined scope is not the union of the scopes of its class", V(key))
            if len(seen_classes) != len(classes):
                fail("conjoin does not produce one scope per connected component", None)

        # -- round 6: option plumbing.  arguments(types, expressed) against its definition
        if distinct_ids:
            ivs = [ep.args.get("ARG0") for ep in eps]
            for (t, e), got in zip(MRS_ARGS_MENU, res["args_menu"]):
                want = [[V(ep.id), [[r, V(v)] for r, v in ep.args.items()
                                    if r not in ("ARG0", "CARG")
                                    and (t is None or variable.type(v) in t)
                                    and (e is None or (v in ivs) == e)]] for ep in eps]
                if got != want:
                    fail("MRS.arguments(types, expressed) differs from its definition", {"types": t, "expressed": e})
            if res["scargs_default"] != res["scargs"]:
                fail("scopal_arguments() differs from scopal_arguments(scopes=m.scopes()[1])", None)
            # scopal arguments by definition: a label of the map as such (lheq), else through the LAST hcons
            lasthc = {}
            for hc in m.hcons:
                lasthc[hc.hi] = hc
            cj_res = None
            if "ok" in res["conjoin"]:
                cj_res = {semgen.var_from_json(l): [semgen.var_from_json(i) for i in ids_]
                          for l, ids_ in res["conjoin"]["ok"]}
            for key, keyset in (("scargs", set(labels)), ("scargs_conj", set(cj_res) if cj_res is not None else None)):
                if keyset is None or key not in res:
                    continue
                want = [[V(ep.id), [[r, "lheq", V(v)] if v in keyset else
                                    [r, lasthc[v].relation, V(lasthc[v].lo)]
                                    for r, v in _out_args(ep) if v in keyset or v in lasthc]] for ep in eps]
                if res[key] != want:
                    fail("scopal_arguments(scopes=S) differs from its definition", {"which": key})
            # descendants over the conjoined map: sound always, complete when that structure is acyclic
            if cj_res is not None and "ok" in res.get("desc_conj", {}):
                pos_of = {ep.id: i for i, ep in enumerate(eps)}
                mem2 = {l: [pos_of[i] for i in ids_] for l, ids_ in cj_res.items()}
                succ2 = {}
                for i, ep in enumerate(eps):
                    out = []
                    for _, v in _out_args(ep):
                        if v in mem2:
                            out.extend(mem2[v])
                        elif v in lasthc:
                            out.extend(mem2.get(lasthc[v].lo, []))
                    succ2[i] = out
                cyc2 = scopal_cyclic(succ2)
                got2 = {canon(i): ps for i, ps in res["desc_conj"]["ok"]}
                if sorted(got2) != sorted(canon(V(ep.id)) for ep in eps):
                    fail("descendants(m, scopes=S) is not keyed by exactly the predication ids", None)
                else:
                    vpos = {canon(V(ep.id)): i for i, ep in enumerate(eps)}
                    for ep in eps:
                        g = {vpos[canon(x)] for x in got2[canon(V(ep.id))]}
                        w = set(naive_reach(succ2, pos_of[ep.id]))
                        if not g <= w:
                            fail("descendants(m, scopes=S): a listed descendant is not a scopal descendant over S", V(ep.id))
                        elif not cyc2 and g != w:
                            fail("descendants(m, scopes=S) (acyclic) differ from the transitive closure over S", V(ep.id))
            elif cj_res is not None and "err" in res.get("desc_conj", {}):
                fail("descendants(m, scopes=S) raised on a scope map made of m's own predications", None)
        # -- purity: asked again after every other call the answers are the same; nothing was modified
        ag = res["again"]
        for k in ("connected", "plausible", "ivprop", "wf", "top", "scopes", "scargs", "reps"):
            if ag[k] != res[k]:
                fail("a second call on the same object gives a different answer", k)
        if not ag["mrs_unchanged"]:
            fail("the MRS was modified by the tests / scope functions", None)
        if not ag["conj_independent"]:
            fail("the map scope.conjoin returned shares its dict or its lists with the scope map it was given", None)
        if not ag["scope_map_unchanged"]:
            fail("the scope map handed to scopal_arguments / conjoin / descendants was modified", None)

        # -- descendants / representatives: termination, membership, existence
        if "err" in res["descendants"] or "err" in res["reps"]:
            if distinct_ids:
                fail("descendants/representatives raised on an MRS with distinct predication ids", None)
            return fails
        pos = {id(ep): i for i, ep in enumerate(eps)}
        _, members, succ = mrs_scopal_structure(m)
        ds = scope.descendants(m)
        cyclic = scopal_cyclic(succ)
        if distinct_ids:
            for ep in eps:
                got = {pos[id(p)] for p in ds[ep.id]}
                want = set(naive_reach(succ, pos[id(ep)]))
                if not got <= want:
                    fail("a listed descendant is not a scopal descendant", V(ep.id))
                elif not cyclic and got != want:
                    fail("descendants (acyclic scopal structure) differ from the transitive closure", V(ep.id))
        reps = scope.representatives(m)
        if list(reps) != labels:
            fail("representatives' keys are not the scope labels", None)
            return fails
        for l in labels:
            for p in reps[l]:
                if not any(p is q for q in scopes[l]):
                    fail("a representative is not a member of its scope", V(l))
            if len({id(p) for p in reps[l]}) != len(reps[l]):
                fail("a representative is listed twice", V(l))
        if distinct_ids and not cyclic:
            blk, _, _ = blocking(m)
            for l in labels:
                mem = members[l]
                want = mem if len(mem) == 1 else [i for i in mem if not blk[i]]
                want = sorted(want, key=lambda i: (rep_rank(m, eps[i]), i))
                if [pos[id(p)] for p in reps[l]] != want:
                    fail("representatives differ from their definition (unblocked members by priority)", V(l))
        # -- representatives(priority=f): the same members, ordered by f (Python's sort is stable)
        if distinct_ids:
            default = [[V(l), _ids(reps[l])] for l in labels]
            posv = {canon(V(ep.id)): i for i, ep in enumerate(eps)}

            def resort(keyf):
                return [[l, sorted(ids_, key=lambda v: keyf(posv[canon(v)]))] for l, ids_ in default]
            wants = {"revpos": resort(lambda i: -i), "rankrev": resort(lambda i: (rep_rank(m, eps[i]), -i)),
                     "const": resort(lambda i: i)}
            for k, got in list(zip(PRIOS, res["reps_prio"])) + [("const", res["reps_const"])]:
                if got.get("ok") != wants[k]:
                    fail("representatives(priority=f) is not the default representatives re-ordered by f", k)
        if res["wf"] and distinct_ids:
            for l in labels:
                if not reps[l]:
                    fail("well-formed MRS has a scope without a representative", V(l))
        return fails

    def oracle_dmrs(self, case, res):
        fails = []

        def fail(clause, detail):
            fails.append({"clause": clause, "detail": detail})
        d = semgen.dmrs_from_json(case["d"])
        nodes = list(d.nodes)
        ids = [n.id for n in nodes]
        eq = [(l.start, l.end) for l in d.links if l.post == "EQ"]
        must_raise = any(a not in ids or b not in ids for a, b in eq) or (d.top is not None and d.top not in ids)
        if "err" in res["scopes"]:
            if not must_raise:
                fail("DMRS.scopes raises although top and all EQ links name nodes", None)
            return fails
        if must_raise:
            fail("DMRS.scopes returns although top or an EQ link names a missing node", None)
            return fails
        top, scopes = d.scopes()
        classes = _closure(ids, eq)
        lbl = {n.id: "h%d" % (i + 1) for i, n in enumerate(nodes)}
        got = []
        for key, ns in scopes.items():
            c = frozenset(n.id for n in ns)
            got.append(c)
            if len(c) != len(ns):
                fail("a node occurs twice in a DMRS scope", key)
            if c not in classes:
                fail("a DMRS scope is not a class of the EQ-link closure", key)
            if key not in {lbl[i] for i in c}:
                fail("a DMRS scope label is not the label of one of its nodes", key)
        if sorted(map(sorted, got)) != sorted(map(sorted, classes)):
            fail("DMRS scopes do not partition the nodes into the EQ-link classes", None)
        if d.top is None:
            if top is not None:
                fail("DMRS without top has a top scope", None)
        else:
            topnode = d[d.top]
            holder = [key for key, ns in scopes.items() if any(n is topnode for n in ns)]
            if len(holder) != 1 or top != holder[0]:
                fail("DMRS top scope is not the scope containing the top node itself",
                     {"impl": top, "holds_top_node": holder})
        for k, ok in res.get("again", {}).items():
            if not ok:
                fail("DMRS: a second call on the same object gives a different answer / the object was modified", k)
        # ---- arguments / scopal arguments / descendants / representatives over the links
        idset = set(ids)
        node_of = {n.id: n for n in nodes}
        links = list(d.links)
        scopal = [l for l in links if l.post in ("H", "HEQ")]

        def want_args(types, expressed=None):
            out = {i: [] for i in ids}
            for l in links:
                if l.role == "MOD":
                    continue
                if types:                              # '' and None: no filter
                    if l.post in ("H", "HEQ"):
                        if "h" not in types:
                            continue
                    else:
                        if l.end not in idset:
                            return "KeyError"
                        t = node_of[l.end].type
                        if t is None or t not in types:
                            continue
                if expressed is False:
                    continue                           # a DMRS has no unexpressed arguments
                if l.start not in idset:
                    return "KeyError"
                out[l.start].append([l.role, l.end])
            return [[i, out[i]] for i in ids]
        for key, types in (("args_all", None), ("args_ns", "xeipu")):
            w = want_args(types)
            got = res[key].get("ok", res[key].get("err"))
            if got != w:
                fail("DMRS.arguments differs from the links it is defined by", {"which": key, "want": w, "got": got})
        for (ty, ex), g in zip(DMRS_ARGS_MENU, res["args_menu"]):
            w = want_args(ty, ex)
            if g.get("ok", g.get("err")) != w:
                fail("DMRS.arguments(types, expressed) differs from the links it is defined by",
                     {"types": ty, "expressed": ex, "want": w, "got": g})
        if any(l.start not in idset for l in scopal):
            w = "KeyError"
        else:
            wd = {i: [] for i in ids}
            for l in scopal:
                wd[l.start].append([l.role, "lheq" if l.post == "HEQ" else "qeq", l.end])
            w = [[i, wd[i]] for i in ids]
        if res["scargs_raw"].get("ok", res["scargs_raw"].get("err")) != w:
            fail("DMRS.scopal_arguments() differs from the H/HEQ links", None)
        isq = [any(l.role == "RSTR" and l.start == i for l in links) for i in ids]
        if res["is_quantifier"] != isq:
            fail("DMRS.is_quantifier differs from 'has an outgoing RSTR link'", None)
        label_of = {n.id: key for key, ns in scopes.items() for n in ns}
        members = {key: [n.id for n in ns] for key, ns in scopes.items()}
        if any(l.start not in idset for l in scopal):
            want_desc_err = "KeyError"
        elif any(l.end not in idset for l in scopal):
            want_desc_err = "AssertionError"
        else:
            want_desc_err = None
        if "err" in res["scargs"]:
            if not any(l.start not in idset for l in scopal):
                fail("DMRS.scopal_arguments raises although every scopal link starts at a node", None)
        else:
            w = {i: [] for i in ids}
            ok = True
            for l in scopal:
                if l.start not in idset:
                    ok = False
                    break
                lab = label_of.get(l.end)
                w[l.start].append([l.role, "lheq" if l.post == "HEQ" else "qeq", V(lab) if lab is not None else None])
            if not ok or res["scargs"]["ok"] != [[i, w[i]] for i in ids]:
                fail("DMRS.scopal_arguments differs from the H/HEQ links resolved to scope labels", None)
        for key in ("descendants", "descendants_default"):
            got_err = res[key].get("err")
            if got_err != want_desc_err:
                fail("scope.descendants on a DMRS: wrong outcome for dangling scopal links",
                     {"which": key, "want": want_desc_err, "got": got_err})
        if res["descendants"] != res["descendants_default"]:
            fail("scope.descendants(d) differs from scope.descendants(d, d.scopes()[1])", None)
        succ = None
        if want_desc_err is None and "ok" in res["descendants"]:
            succ = {i: [] for i in ids}
            for l in scopal:
                succ[l.start].extend(members[label_of[l.end]])
            cyclic = scopal_cyclic(succ)
            got = dict((i, ns) for i, ns in res["descendants"]["ok"])
            if sorted(got) != sorted(ids):
                fail("descendants of a DMRS are not keyed by exactly the node ids", None)
            else:
                for i in ids:
                    want = set(naive_reach(succ, i))
                    if not set(got[i]) <= want:
                        fail("a listed DMRS descendant is not a scopal descendant", i)
                    elif not cyclic and set(got[i]) != want:
                        fail("DMRS descendants (acyclic scopal links) differ from the transitive closure", i)
        # representatives
        ns_w = want_args("xeipu")
        want_rep_err = "KeyError" if ns_w == "KeyError" else want_desc_err
        if res["reps"].get("err") != want_rep_err:
            fail("scope.representatives on a DMRS: wrong outcome for dangling links",
                 {"want": want_rep_err, "got": res["reps"].get("err")})
        if "ok" in res["reps"] and want_rep_err is None:
            reps = res["reps"]["ok"]
            if [canon(l) for l, _ in reps] != [canon(V(k)) for k in scopes]:
                fail("DMRS representatives' keys are not the scope labels", None)
            else:
                nsargs = {i: {t for _, t in a} for i, a in ns_w}
                position = {i: k for k, i in enumerate(ids)}

                def rank(i):
                    n = node_of[i]
                    if isq[position[i]] or n.type == "x":
                        return 0
                    if n.type == "e":
                        return 2 if n.properties.get("TENSE", "").lower() in ("", "untensed") else 1
                    return 3
                cyclic = scopal_cyclic(succ)
                for (l, got), key in zip(reps, scopes):
                    mem = members[key]
                    if any(i not in mem for i in got) or len(set(got)) != len(got):
                        fail("a DMRS representative is not a member of its scope", key)
                        continue
                    if cyclic:
                        continue
                    if len(mem) == 1:
                        want = list(mem)
                    else:
                        want = []
                        for i in mem:
                            others = [j for j in mem if j != i]
                            blocked = bool(nsargs[i] & set(others)) or any(
                                nsargs[i] & set(naive_reach(succ, j)) for j in others)
                            if not blocked:
                                want.append(i)
                    want.sort(key=lambda i: (rank(i), position[i]))
                    if got != want:
                        fail("DMRS representatives differ from their definition (unblocked members by priority)",
                             {"scope": key, "want": want, "got": got})
        return fails

    def oracle_norm(self, case, res):
        fails = []
        top = case["top"]
        links = case["links"] or []
        if top is None:
            top = next((l[1] for l in links if l[0] == 0), None)
        want = {"top": top, "links": [l for l in links if l[0] != 0]}
        if res != want:
            fails.append({"clause": "DMRS constructor: top / links differ from the documented normalisation "
                                    "(links from node 0 removed; the first gives the top when none is given)",
                          "detail": {"want": want, "got": res}})
        return fails

    # ---- known findings
    def classify(self, case, failure):
        if case.get("kind") != "mrs":
            return None
        if failure.get("clause") == "well-formed MRS has a scope without a representative":
            # F08: by the definition (not by what the code returned) EVERY member of that scope takes
            # another member, or a scopal descendant of another member, as a non-scopal argument
            m = semgen.mrs_from_json(case["m"])
            eps = list(m.rels)
            if len({ep.id for ep in eps}) != len(eps):
                return None
            lab = semgen.var_from_json(failure.get("detail"))
            blk, _, _ = blocking(m)
            mem = [i for i, ep in enumerate(eps) if ep.label == lab]
            if len(mem) >= 2 and all(blk[i] for i in mem):
                return "F08"
        return None

    # ---- evidence
    def nontrivial_key(self, case, res):
        body = (case["m"]["rels"] if case["kind"] == "mrs" else (case["links"] or [None]) if case["kind"] == "norm"
                else case["d"]["nodes"])
        if not body:
            return None
        return canon(case)

    def stats(self, case, res, c):
        def inc(k):
            c[k] = c.get(k, 0) + 1
        inc("src:" + case.get("src", "corpus"))
        if res is None:
            inc("impl:none")
            return
        if case["kind"] == "norm":
            inc("norm:top=" + ("given" if case["top"] is not None else "from-link" if res["top"] is not None else "none"))
            return
        if case["kind"] == "mrs":
            m = case["m"]
            ne = len(m["rels"])
            if case.get("ctor") == "omit-empty":
                inc("mrs:ctor=omit-empty (defaults of MRS()/EP())")
            if case.get("src") == "big-boundary":
                inc("mrs:big-boundary %s: connected=%s unique=%s plausible=%s" % (
                    (case.get("defect") or "intact").split("@")[0], res["connected"], res["unique"], res["plausible"]))
            inc("mrs:eps=%s" % (ne if ne <= 8 else "9-15" if ne <= 15 else "16-31" if ne <= 31 else "32-63" if ne <= 63 else "64+"))
            nl = len(case.get("leqs", []))
            if nl >= 10:
                inc("mrs:leqs>=10")
            inc("mrs:hcons=%d" % min(len(m["hcons"]), 5))
            for k in ("connected", "complete", "unique", "plausible", "wf"):
                inc("mrs:%s=%s" % (k, res[k]))
            inc("mrs:top=" + ("none" if res["top"] is None else "label"))
            his = [canon(h[0]) for h in m["hcons"]]
            if len(set(his)) != len(his):
                inc("mrs:duplicate-hi")
            if m.get("icons"):
                inc("mrs:icons")
                if not res["connected"]:
                    inc("mrs:icons-on-disconnected")
            if len({canon(i) for i in res["ids"]}) != len(res["ids"]):
                inc("mrs:out-of-space: colliding EP ids (id-based clauses not judged, model answers unmodelled)")
            if any(not any(r == "ARG0" for r, _ in e["args"]) for e in m["rels"]):
                inc("mrs:out-of-space: predication without intrinsic argument")
            if any(r == "ARG0" and v[0] == "_" for e in m["rels"] for r, v in e["args"]):
                inc("mrs:out-of-space: ARG0 of sort '_'")
            if any(canon(e["label"]) in [canon(v) for r, v in e["args"] if r != "ARG0"] for e in m["rels"]):
                inc("mrs:self-scoping-arg")
            inc("mrs:conjoin=" + ("KeyError" if "err" in res["conjoin"] else
                                  ("merged" if len(res["conjoin"]["ok"]) < len(res["scopes"]) else "unmerged")))
            if "ok" in res["reps"]:
                if any(not ids for _, ids in res["reps"]["ok"]):
                    inc("mrs:scope-without-representative")
                if any(len(ids) > 1 for _, ids in res["scopes"]):
                    inc("mrs:shared-scope")
            else:
                inc("mrs:reps=KeyError")
            if "ok" in res["descendants"] and any(ids for _, ids in res["descendants"]["ok"]):
                inc("mrs:has-descendants")
            mm = semgen.mrs_from_json(m)
            if scopal_cyclic(mrs_scopal_structure(mm)[2]):
                inc("mrs:cyclic-scopal-structure")
            # round 6: option plumbing reached
            am = dict((canon(k), v) for k, v in zip(MRS_ARGS_MENU, res["args_menu"]))
            if any(a for _, a in am[canon([None, True])]):
                inc("mrs:args expressed=True non-empty")
            if any(a for _, a in am[canon([None, False])]):
                inc("mrs:args expressed=False non-empty")
            if am[canon(["eh", None])] != am[canon(["h", None])]:
                inc("mrs:args types='eh' differs from 'h'")
            if "desc_conj" in res:
                inc("mrs:desc_conj=" + ("err" if "err" in res["desc_conj"] else
                                        "same-as-default" if res["desc_conj"] == res["descendants"] else "differs-from-default"))
            elif "ok" in res["conjoin"]:
                inc("mrs:desc_conj=skipped-heavy")
            if "scargs_conj" in res and res["scargs_conj"] != res["scargs"]:
                inc("mrs:scargs over conjoined map differ from default")
            for k, r in zip(PRIOS, res["reps_prio"]):
                if r != res["reps"]:
                    inc("mrs:reps priority=%s reorders" % k)
            if res["reps_const"] != res["reps"]:
                inc("mrs:reps priority=const reorders")
            if any(v[1] >= 2 ** 31 for e in m["rels"] for _, v in e["args"]):
                inc("mrs:variable ids >= 2^31")
        else:
            d = case["d"]
            nn = len(d["nodes"])
            inc("dmrs:nodes=%s" % (nn if nn <= 6 else "7-15" if nn <= 15 else "16-31" if nn <= 31 else "32+"))
            if sum(1 for l in d["links"] if l[3] == "EQ") >= 20:
                inc("dmrs:eq-links>=20")
            for k in ("args_ns", "scargs", "descendants", "reps"):
                if k in res:
                    inc("dmrs:%s=%s" % (k, res[k].get("err", "ok")))
            for (ty, ex), r in zip(DMRS_ARGS_MENU, res["args_menu"]):
                if "err" in r:
                    inc("dmrs:args(types=%r, expressed=%r)=%s" % (ty, ex, r["err"]))
            if "ok" in res["scargs_raw"] and any(a for _, a in res["scargs_raw"]["ok"]):
                inc("dmrs:scargs_raw non-empty")
            if any(abs(n["id"]) >= 2 ** 31 or n["id"] < 0 for n in d["nodes"]):
                inc("dmrs:node ids negative or >= 2^31")
            if "ok" in res.get("descendants", {}) and any(ns for _, ns in res["descendants"]["ok"]):
                inc("dmrs:has-descendants")
            if "ok" in res.get("reps", {}) and any(not ns for _, ns in res["reps"]["ok"]):
                inc("dmrs:scope-without-representative")
            if "ok" in res.get("reps", {}) and "ok" in res["scopes"] and any(
                    len(ns) < len(ms) for (_, ns), (_, ms) in zip(res["reps"]["ok"], res["scopes"]["ok"]["scopes"])):
                inc("dmrs:some-member-not-representative")
            if "err" in res["scopes"]:
                inc("dmrs:KeyError")
            else:
                o = res["scopes"]["ok"]
                inc("dmrs:top=" + ("none" if o["top"] is None else "label"))
                if len(o["scopes"]) < len(d["nodes"]):
                    inc("dmrs:merged-scopes")
                ns = d["nodes"]
                if any(a is not b and (a["pred"], a["type"], a["props"], a["carg"]) ==
                       (b["pred"], b["type"], b["props"], b["carg"]) for a in ns for b in ns):
                    inc("dmrs:equal-nodes")

    def shrink(self, case, still_fails):
        """delta debugging over the structured case: blocks of predications / constraints /
        equalities / nodes / links first (halves, quarters, …), then single elements and single
        arguments; at most 300 re-evaluations, so that big dense cases report quickly."""
        import copy
        budget = [300]

        def ok(c):
            if budget[0] <= 0:
                return False
            budget[0] -= 1
            try:
                return bool(still_fails(c))
            except Exception:
                return False

        def lists(c):
            if c["kind"] == "mrs":
                return [(c["m"], "rels"), (c["m"], "hcons"), (c, "leqs"), (c["m"], "vars")]
            if c["kind"] == "norm":
                return [(c, "links")]
            return [(c["d"], "links"), (c["d"], "nodes")]

        cur = copy.deepcopy(case)
        for li in range(len(lists(cur))):
            n = len(lists(cur)[li][0].get(lists(cur)[li][1]) or [])
            chunk = max(1, n // 2)
            while chunk >= 1 and budget[0] > 0:
                k = 0
                progressed = False
                while budget[0] > 0:
                    holder, key = lists(cur)[li]
                    xs = holder.get(key) or []
                    if k >= len(xs):
                        break
                    c = copy.deepcopy(cur)
                    h2, _ = lists(c)[li]
                    h2[key] = xs[:k] + xs[k + chunk:]
                    if ok(c):
                        cur = c
                        progressed = True
                    else:
                        k += chunk
                if chunk == 1 and not progressed:
                    break
                chunk = chunk // 2 if chunk > 1 else (1 if progressed else 0)
        if cur["kind"] == "mrs":
            changed = True
            while changed and budget[0] > 0:
                changed = False
                for i, ep in enumerate(cur["m"]["rels"]):
                    for k in range(len(ep["args"])):
                        if ep["args"][k][0] != "ARG0":
                            c = copy.deepcopy(cur)
                            del c["m"]["rels"][i]["args"][k]
                            if ok(c):
                                cur = c
                                changed = True
                                break
                    if changed:
                        break
        return cur


CHECK = C07()
