"""C19 — ACE interaction keeps responses aligned with inputs across processor failures.

The real `delphin.ace` front ends are run in-process against the scripted stand-in
`harness/standins/fakeace.py` (through the documented `executable=` / `env=` parameters).
A case is one whole session: front end, protocol, a list of inputs with, for each, the exact bytes
the stand-in writes when it reads that input and how (whether) it exits afterwards.

Exit visibility is forced from outside so that every model trace is replayable on the real code:
  exited     the stand-in exits first and a helper that inherited stdout writes the bytes afterwards
  afterItem  the stand-in lingers (>= 60 ms) after closing stdout; the harness waits for the exit
             (waitid WNOWAIT, the zombie stays pollable) before the next step
  onInput    the stand-in closes stdout and stays alive until the next line arrives, swallows it, exits
  race       nothing is forced (small random delays): both outcomes are legitimate; oracle only
"""
import gc
import json
import os
import re
import shutil
import signal
import tempfile
import threading
import time

from .common import paths, tables
from .common.runner import Check

paths.ensure_repo_on_path()
from delphin import ace, interface  # noqa: E402

import logging  # noqa: E402
logging.getLogger("delphin.ace").setLevel(logging.CRITICAL + 1)   # "Could not read output" chatter

FAKE = os.path.join(os.path.dirname(os.path.abspath(__file__)), "standins", "fakeace.py")
STEP_TIMEOUT = 6.0
REFUSAL = "PyDelphin could not validate the input and refused to send it to ACE"
BASE_TEXTS = ["incomplete output from ACE", ":error", ":p-input", ":p-tokens", ":results", ":chart", ":surface",
              REFUSAL]
STD_KEYS = {"NOTES", "WARNINGS", "ERRORS", "run", "input", "surface", "results", "tokens", "keys", "task"}
DECODE_ERRORS = ("TypeError", "ValueError", "AttributeError")
FRONTS = [("parser", True), ("parser", False), ("transferer", False), ("generator", True), ("generator", False)]


def cps(s):
    return [ord(c) for c in s]


# what the stand-in answers to `-V` (case["ace_version"]; None = the stand-in's own 0.9.30)
VERSION_BANNERS = {"unparsable": "ACE build of today, version unknown", "none": ""}


def version_tuple(case):
    """what `ace._ace_version` makes of the banner, restated: digits and dots after 'ACE version ', else 0.9.0"""
    v = case.get("ace_version")
    if v is None:
        return (0, 9, 30)
    if v in VERSION_BANNERS:
        return (0, 9, 0)
    return tuple(int(x) for x in v.split("."))


def requested_tsdbinfo(case):
    """the option given to the front end (None: not given at all, i.e. the default True)"""
    if "tsdbinfo" in case:
        return case["tsdbinfo"]
    return bool(case["tsdb"])


def protocol_consistent(case):
    """case["tsdb"] is the protocol IN EFFECT (what the stand-in answers in); it must be what the requested
    option and the reported version lead to"""
    want = requested_tsdbinfo(case) is not False and version_tuple(case) >= (0, 9, 24)
    if case["front"] == "transferer":
        return True
    return bool(case["tsdb"]) == want


# --------------------------------------------------------------------------------------------
# what the stand-in writes for an input (fixed by the case; the stand-in has no logic of its own)

def big(ex):
    """padding that makes one result line longer than the pipe buffer"""
    n = ex.get("biglen", 0)
    return (" " + "q" * n) if n else ""


def sx_result(front, tok, r, ex):
    fs = ["(:result-id . %d)" % r]
    if front == "generator":
        fs.append('(:surface . "%s %d surf%s")' % (tok, r, big(ex)))
    if ex.get("deriv", True):
        fs.append('(:derivation . "(d %s %d)")' % (tok, r))
    if front != "generator" or ex.get("genmrs"):
        fs.append('(:mrs . "[ %s \\"q\\" %d%s ]")' % (tok, r, big(ex) if front != "generator" else ""))
    if ex.get("tree"):
        fs.append('(:tree . "t %s %d")' % (tok, r))
    if ex.get("score"):
        fs.append("(:score . -%d)" % (r + 1))
    nf = ex.get("flags", 0)
    if nf:
        fs.append("(:flags (%s))" % " ".join("(:f%d%s . %d)" % (k, tok, 10 * r + k) for k in range(nf)))
    return "(" + " ".join(fs) + ")"


def sx_parts(front, tok, nres, ex):
    """top-level pairs of the tsdb answer, in order"""
    parts = []
    if ex.get("pinput"):
        parts.append('(:p-input . "%s in")' % tok)
    if ex.get("pre"):
        parts.append('(:pre%s . %d)' % (tok, 7))
    parts.append("(:results . (%s))" % " ".join(sx_result(front, tok, r, ex) for r in range(nres)))
    parts.append("(:readings . %d)" % (nres if nres or not ex.get("score") else -1))
    if ex.get("post"):
        parts.append('(:comment%s . "%s done")' % (tok, tok))
    return parts


def answer_text(case, item):
    """the complete, well-formed answer of the processor for this input"""
    if item.get("raw") is not None:
        return item["raw"]
    front, tsdb = case["front"], case["tsdb"] and case["front"] != "transferer"
    tok, nres, ex = item["tok"], item.get("nres", 1), item.get("ex", {})
    out = []
    if ex.get("note"):
        out.append("NOTE: %s remark\n" % tok)
    if ex.get("warning"):
        out.append("WARNING: %s careful\n" % tok)
    if ex.get("error"):
        out.append("ERROR: %s wrong\n" % tok)
    if ex.get("wsline") and front == "generator":
        out.append("  \n")
    if tsdb:
        parts = sx_parts(front, tok, nres, ex)
        k = ex.get("split")
        if k and front == "parser" and 0 < k < len(parts):
            out.append(" ".join(parts[:k]) + "\n")
            out.append(" ".join(parts[k:]) + "\n")
        elif k and front == "generator" and ex.get("pinput"):
            # only before the line that carries the terminus
            out.append(parts[0] + "\n")
            out.append(" ".join(parts[1:]) + "\n")
        else:
            out.append(" ".join(parts) + "\n")
        if front == "parser":
            out.append("\n\n")
    elif front == "parser":
        out.append(("SENT: %s sentence\n" if nres else "SKIP: %s sentence\n") % tok)
        for r in range(nres):
            out.append("[ %s %d%s ] ; (d %s %d)\n" % (tok, r, big(ex), tok, r))
        if ex.get("tailnote"):
            out.append("NOTE: %s afterthought\n" % tok)
        if ex.get("resent"):
            out.append("SENT: %s once more\n" % tok)      # a second surface line: the last one is reported
        out.append("\n\n")
    elif front == "transferer":
        for r in range(nres):
            out.append("[ %s %d%s ]\n" % (tok, r, big(ex)))
        if ex.get("tailnote"):
            out.append("NOTE: %s afterthought\n" % tok)
        out.append("\n")
    else:
        st, sm = case.get("show", [False, False])
        for r in range(nres):
            out.append("%s %d surf%s\n" % (tok, r, big(ex)))
            if st and not ex.get("nodtree"):
                out.append("DTREE = (d %s %d)\n" % (tok, r))
            if sm:
                out.append("MRS = [ %s %d ]\n" % (tok, r))
        out.append('NOTE: tsdb parse: (:readings . %d) (:tag . "%s")\n' % (nres, tok))
    return "".join(out)


def written(case, item):
    """bytes the stand-in writes for this input (a prefix of the answer when it dies on the way)"""
    full = answer_text(case, item)
    cut = item.get("cut")
    return full if cut is None else full[:max(0, min(cut, len(full)))]


def expected_results(case, item):
    """naive statement of the results a complete answer stands for"""
    if item.get("raw") is not None:
        return item.get("raw_results", [])
    front, tsdb = case["front"], case["tsdb"] and case["front"] != "transferer"
    tok, nres, ex = item["tok"], item.get("nres", 1), item.get("ex", {})
    res = []
    for r in range(nres):
        if tsdb:
            d = {"result-id": r}
            if front == "generator":
                d["surface"] = "%s %d surf%s" % (tok, r, big(ex))
            if ex.get("deriv", True):
                d["derivation"] = "(d %s %d)" % (tok, r)
            if front != "generator" or ex.get("genmrs"):
                d["mrs"] = '[ %s "q" %d%s ]' % (tok, r, big(ex) if front != "generator" else "")
            if ex.get("tree"):
                d["tree"] = "t %s %d" % (tok, r)
            if ex.get("score"):
                d["score"] = -(r + 1)
            if ex.get("flags", 0):
                d["flags"] = [{"p": [":f%d%s" % (k, tok), 10 * r + k]} for k in range(ex["flags"])]
        elif front == "parser":
            d = {"mrs": "[ %s %d%s ]" % (tok, r, big(ex)), "derivation": "(d %s %d)" % (tok, r)}
        elif front == "transferer":
            d = {"mrs": "[ %s %d%s ]" % (tok, r, big(ex))}
        else:
            st, sm = case.get("show", [False, False])
            d = {"SENT": "%s %d surf%s" % (tok, r, big(ex))}
            if st and not ex.get("nodtree"):
                d["derivation"] = "(d %s %d)" % (tok, r)
            if sm:
                d["mrs"] = "[ %s %d ]" % (tok, r)
        res.append(d)
    return res


def expected_partial(case, item, wrote):
    """default protocol: the results that consist of COMPLETE lines of what was written (naive restatement)"""
    front = case["front"]
    tok, ex = item["tok"], item.get("ex", {})
    full = expected_results(case, item)
    out = []
    for r, d in enumerate(full):
        if front == "parser":
            ok = ("[ %s %d%s ] ; (d %s %d)\n" % (tok, r, big(ex), tok, r)) in wrote
            if ok:
                out.append(d)
        elif front == "transferer":
            if ("[ %s %d%s ]\n" % (tok, r, big(ex))) in wrote:
                out.append(d)
        else:
            if ("%s %d surf%s\n" % (tok, r, big(ex))) not in wrote:
                break
            e = {"SENT": d["SENT"]}
            if "derivation" in d and ("DTREE = (d %s %d)\n" % (tok, r)) in wrote:
                e["derivation"] = d["derivation"]
            if "mrs" in d and ("MRS = [ %s %d ]\n" % (tok, r)) in wrote:
                e["mrs"] = d["mrs"]
            out.append(e)
    return out


# --------------------------------------------------------------------------------------------
# line attributes and tokens for the model (plain `==`, `startswith`, `in`)

SYM_RE = re.compile(r'(?:[^"\s()\[\]{};\\]+|\\.)+')


class Registry:
    def __init__(self):
        self.ids = {}
        for t in BASE_TEXTS:
            self.id(t)

    def id(self, text):
        if text not in self.ids:
            self.ids[text] = len(self.ids)
        return self.ids[text]

    def get(self, text):
        return self.ids.get(text, -1)


def tokenize(r, reg):
    toks = []
    i, n = 0, len(r)
    while i < n:
        c = r[i]
        if c.isdigit() or (c == "-" and i + 1 < n and r[i + 1].isdigit()):
            j = i + 1
            while j < n and r[j].isdigit():
                j += 1
            if j == n:
                toks.append("tn")
                break
            toks.append({"n": int(r[i:j])})
            i = j
        elif c == '"':
            j = i + 1
            while j < n and r[j] != '"':
                j += 2 if r[j] == "\\" else 1
            if j >= n:
                toks.append("ts")
                break
            toks.append({"t": reg.id(re.sub(r'\\(["\\])', r"\1", r[i + 1:j]))})
            i = j + 1
        elif c == "(":
            toks.append("(")
            i += 1
        elif c == ")":
            toks.append(")")
            i += 1
        elif c.isspace():
            i += 1
        else:
            m = SYM_RE.match(r, i)
            if m is None:
                toks.append("bad")      # no symbol here: util._SExpr_parse_symbol raises ValueError
                break
            toks.append("." if m.group(0) == "." else {"t": reg.id(m.group(0))})
            i = m.end()
    return toks


def line_attrs(s, reg, tsdb):
    r = s.rstrip()
    d = {"cls": "content"}
    if not s.endswith("\n"):
        d["nl"] = False
    if s == "\n":
        d["blank"] = True
    if "NOTE: tsdb parse: " in s:
        d["parseNote"] = True
    if "(:results ." in s:
        d["resOpen"] = True
    if s.startswith("NOTE: tsdb run:"):
        d["runNote"] = True
    if r == "":
        d["empty"] = True
    payload = r
    if r.startswith("NOTE: "):
        d["cls"], payload = "note", r[6:]
    elif r.startswith("WARNING: "):
        d["cls"], payload = "warning", r[9:]
    elif r.startswith("ERROR: "):
        d["cls"], payload = "error", r[7:]
    elif r.startswith("SENT: ") or r.startswith("SKIP: "):
        d["cls"], payload = "surface", r[6:]
    elif r.startswith("DTREE = "):
        d["dtree"], payload = True, r[8:].strip()
    elif r.startswith("MRS = "):
        d["mrsp"], payload = True, r[6:].strip()
    d["full"] = reg.id(r.strip())
    d["payload"] = reg.id(payload)
    if tsdb and d["cls"] == "content" and r:
        d["toks"] = tokenize(r, reg)
    return d


def policy_of(item):
    die = item.get("die")
    if not die:
        return None
    mode = die["mode"]
    if mode == "exit_first":
        return "exited"
    if mode == "linger_stdin":
        return "onInput"
    if item.get("sync") or die.get("close_stdin"):
        return "afterItem"
    return "race"


def is_free(case):
    return any(policy_of(it) == "race" for it in case["items"])


def build_model(case):
    reg = Registry()
    tsdb = case["tsdb"] and case["front"] != "transferer"
    items = []
    for it in case["items"]:
        lines = []
        if it.get("tok"):
            text = written(case, it)
            lines = [line_attrs(s, reg, tsdb) for s in text.splitlines(True)]
        die = None
        if it.get("die"):
            die = {"code": it["die"].get("code", 1), "pol": policy_of(it),
                   "closeStdin": bool(it["die"].get("close_stdin"))}
        items.append({"text": cps(it["text"]), "out": lines, "die": die})
    st, sm = case.get("show", [False, False])
    ti = requested_tsdbinfo(case)
    user = list(case.get("cmdargs", [])) + (["--show-realization-trees"] if st else []) \
        + (["--show-realization-mrses"] if sm else [])
    req = {"op": "run", "front": case["front"], "tsdbinfo": True if ti is None else bool(ti),
           "version": list(version_tuple(case)), "cmdargs": user, "showTree": bool(st), "showMrs": bool(sm),
           "runnote": bool(case.get("runnote", True)), "exitOk": case.get("exit_ok", 0), "items": items, "orc": [],
           "processItem": bool(case.get("process_item"))}
    return req, reg


# --------------------------------------------------------------------------------------------
# running the real code

def jsonable(v):
    if isinstance(v, tuple) and len(v) == 2:
        return {"p": [jsonable(v[0]), jsonable(v[1])]}
    if isinstance(v, (list, tuple)):
        return [jsonable(x) for x in v]
    if isinstance(v, dict):
        return {str(k): jsonable(x) for k, x in v.items()}
    if isinstance(v, (int, str)) or v is None:
        return v
    return {"repr": type(v).__name__}


def call_with_timeout(fn, timeout=STEP_TIMEOUT):
    box = {}

    def work():
        try:
            box["v"] = fn()
        except BaseException as e:   # noqa: BLE001 — the exception type is the observation
            box["e"] = e

    t = threading.Thread(target=work, daemon=True)
    t.start()
    t.join(timeout)
    if t.is_alive():
        return "hang", None
    if "e" in box:
        return "exc", box["e"]
    return "ok", box["v"]


def read_log(d):
    out = []
    try:
        with open(os.path.join(d, "log.jsonl"), encoding="utf-8") as f:
            for line in f:
                line = line.strip()
                if line:
                    try:
                        out.append(json.loads(line))
                    except ValueError:
                        pass
    except OSError:
        pass
    return out


def kill_all(d):
    for ev in read_log(d):
        for key in ("pid", "helper"):
            pid = ev.get(key)
            if isinstance(pid, int) and pid > 1:
                try:
                    os.kill(pid, signal.SIGKILL)
                except OSError:
                    pass
                try:
                    os.waitpid(pid, os.WNOHANG)
                except OSError:
                    pass


def scenario_of(case):
    items = {}
    for it in case["items"]:
        tok = it.get("tok")
        if not tok:
            continue
        text = written(case, it)
        chunks = []
        pos = 0
        for off, delay in it.get("chunks", []):
            off = max(pos, min(off, len(text)))
            chunks.append([delay, text[pos:off]])
            pos = off
        chunks.append([it.get("last_delay", 0), text[pos:]])
        items[tok] = {"chunks": chunks, "die": it.get("die")}
    # a line that carries no known token (an input that should not have been sent) still gets a complete,
    # empty answer: the session goes on and the oracle reports what was sent instead of timing out
    unknown = answer_text(case, {"tok": "unknown", "nres": 0, "ex": {}})
    return {"items": items, "default": {"chunks": [[0, unknown]], "die": None},
            "runnote": case.get("runnote", True), "exit_ok": case.get("exit_ok", 0)}


def observe(r):
    notes = list(r.get("NOTES", []))
    run = r.get("run")
    o = {"input": r.get("input"),
         "skipped": any(n.startswith("PyDelphin could not validate") for n in notes),
         "run": run.get("run-id") if isinstance(run, dict) else None,
         # close() ran on the process of this response during the interaction: its run record carries `end`
         "closed": isinstance(run, dict) and run.get("end") is not None,
         "notes": notes, "warnings": list(r.get("WARNINGS", [])), "errors": list(r.get("ERRORS", [])),
         "surface": r.get("surface"), "results": jsonable(r.get("results")),
         "extra": [[k, jsonable(v)] for k, v in r.items() if k not in STD_KEYS],
         "tokens": jsonable(r.get("tokens")), "keys": jsonable(r.get("keys")), "task": r.get("task"),
         "is_response": isinstance(r, interface.Response)}
    if o["is_response"] and isinstance(r.get("results"), list):
        # the accessors of interface.Response give the same results, in the same order
        try:
            o["accessors_ok"] = ([dict(x) for x in r.results()] == r["results"]
                                 and all(dict(r.result(i)) == r["results"][i] for i in range(len(r["results"])))
                                 and len(r.results()) == len(r["results"]))
        except Exception:      # noqa: BLE001
            o["accessors_ok"] = False
    return o


def run_case(case, workdir):
    d = tempfile.mkdtemp(dir=workdir)
    steps = []
    final = {"close": None, "runs": None}
    try:
        with open(os.path.join(d, "scenario.json"), "w", encoding="utf-8") as f:
            json.dump(scenario_of(case), f)
        env = dict(os.environ)
        env["FAKEACE_DIR"] = d
        front = case["front"]
        st, sm = case.get("show", [False, False])
        cmdargs = (["--show-realization-trees"] if st else []) + (["--show-realization-mrses"] if sm else [])

        via = case.get("via") or "interact"
        user_args = list(case.get("cmdargs", []))
        exe = FAKE
        if case.get("ace_version") is not None:
            # a wrapper that answers `-V` itself and is the stand-in otherwise (`-V` is asked without `env`)
            v = case["ace_version"]
            exe = os.path.join(d, "ace")
            with open(exe, "w", encoding="utf-8") as f:
                f.write("#!/bin/sh\nif [ \"$1\" = \"-V\" ]; then echo '%s'; exit 0; fi\nexec '%s' \"$@\"\n"
                        % (VERSION_BANNERS.get(v, "ACE version %s" % v), FAKE))
            os.chmod(exe, 0o755)
        if not protocol_consistent(case):
            raise RuntimeError("C19 generator: protocol in effect inconsistent with option and version")
        kw = {"executable": exe, "env": env}
        if front != "transferer" and requested_tsdbinfo(case) is not None:
            kw["tsdbinfo"] = bool(requested_tsdbinfo(case))
        if cmdargs or user_args:
            kw["cmdargs"] = user_args + cmdargs
        gen = None
        p = None

        def kwargs():
            k = dict(kw)      # the constructor appends to the list it is given
            if "cmdargs" in k:
                k["cmdargs"] = list(k["cmdargs"])
            return k
        if via in ("iterable", "single"):
            fn = {("parser", "iterable"): ace.parse_from_iterable, ("parser", "single"): ace.parse,
                  ("transferer", "iterable"): ace.transfer_from_iterable, ("transferer", "single"): ace.transfer,
                  ("generator", "iterable"): ace.generate_from_iterable, ("generator", "single"): ace.generate}[front, via]
        if via == "iterable":
            feed = {"k": 0}

            def data():
                # lazily: the wrapper asks for the next input only when the caller asks for the next response
                while feed["k"] < len(case["items"]):
                    feed["k"] += 1
                    yield case["items"][feed["k"] - 1]["text"]
            gen = fn("fake.dat", data(), **kwargs())
        elif via == "single":
            pass
        else:
            def make():
                if front == "parser":
                    return ace.ACEParser("fake.dat", **kwargs())
                if front == "transferer":
                    return ace.ACETransferer("fake.dat", **kwargs())
                return ace.ACEGenerator("fake.dat", **kwargs())
            how, p = call_with_timeout(make)
            if how != "ok":
                return {"init": how if how == "hang" else type(p).__name__, "steps": [], "log": read_log(d)}
            if via == "with":
                p.__enter__()
        dead = False
        for idx, it in enumerate(case["items"]):
            if dead:
                steps.append({"aborted": True})
                continue
            if via == "iterable":
                how, r = call_with_timeout(lambda: next(gen))
                if p is None and gen.gi_frame is not None:
                    # the processor object the wrapper created (a local of the suspended generator)
                    p = [v for v in gen.gi_frame.f_locals.values() if isinstance(v, ace.ACEProcess)][0]
            elif via == "single":
                how, r = call_with_timeout(lambda: fn("fake.dat", it["text"], **kwargs()))
                gc.collect()
            elif case.get("process_item"):
                how, r = call_with_timeout(lambda: p.process_item(it["text"], keys={"i-id": idx}))
            else:
                how, r = call_with_timeout(lambda: p.interact(it["text"]))
            if how == "hang":
                steps.append({"hang": True})
                dead = True
                kill_all(d)
                continue
            if how == "exc":
                steps.append({"err": type(r).__name__})
            else:
                steps.append(observe(r))
                if via == "single":
                    # the wrapper's generator is dropped when `parse` returns: close() has run by now
                    steps[-1]["closed_after"] = steps[-1].pop("closed")
                    steps[-1]["closed"] = None
            if it.get("die") and policy_of(it) == "afterItem" and it.get("sync"):
                # wait until the process that read this input has exited, without reaping it
                for ev in read_log(d):
                    if ev.get("ev") == "read" and ev.get("tok") == it.get("tok"):
                        try:
                            os.waitid(os.P_PID, ev["pid"], os.WEXITED | os.WNOWAIT)
                        except OSError:
                            pass
            if it.get("pause"):
                time.sleep(it["pause"] / 1000.0)
        if not dead and via != "single" and p is not None:
            if via == "iterable":
                how, v = call_with_timeout(lambda: next(gen, "exhausted"))
                if how == "ok":
                    v = p._p.returncode if v == "exhausted" else {"err": "not exhausted"}
            elif via == "with":
                how, v = call_with_timeout(lambda: p.__exit__(None, None, None))
                if how == "ok":
                    v = p._p.returncode if v is False else {"err": "__exit__ swallows exceptions"}
            else:
                how, v = call_with_timeout(p.close)
            final["close"] = v if how == "ok" else ({"hang": True} if how == "hang" else {"err": type(v).__name__})
            infos = []
            for ri in p.run_infos:
                end, start = ri.get("end"), ri.get("start")
                infos.append({"id": ri.get("run-id"), "ended": end is not None,
                              "end_ok": end is None or (hasattr(end, "year") and start is not None and end >= start),
                              "note": ri.get("pid-tag"),
                              "app_ok": str(ri.get("application", "")).startswith(
                                  "ACE %s via PyDelphin" % ".".join(map(str, version_tuple(case)))),
                              "env": ri.get("environment"),
                              "fields_ok": all(k in ri for k in ("run-id", "application", "environment", "user",
                                                                 "host", "os", "start"))})
            final["runs"] = infos
            final["distinct_runs"] = len({id(x) for x in p.run_infos}) == len(p.run_infos)
        log = read_log(d)
        return {"steps": steps, "close": final["close"], "runs": final["runs"],
                "distinct_runs": final.get("distinct_runs"), "log": [
                    {k: v for k, v in ev.items() if k in ("k", "ev", "tok", "line", "mode", "swallowed", "helper_w", "argv")}
                    for ev in log]}
    finally:
        kill_all(d)
        shutil.rmtree(d, ignore_errors=True)


# --------------------------------------------------------------------------------------------
# acceptability, stated naively

def acceptable(front, text):
    """True / False / None (None: the property does not say; e.g. unbalanced brackets)"""
    if front == "parser":
        return not all(ch.isspace() for ch in text)     # blank = nothing but white space (str.isspace)
    if "[" not in text or "]" not in text:
        return False
    m = re.match(r"^[^\[\]]*(\[[^\[\]]*(?:\[[^\[\]]*\][^\[\]]*)*\])", text)   # prefix, then a balanced group (depth ≤ 2)
    if m:
        return True
    return None


def mk_item(idx, front, kind="ok", nres=1, ex=None, die=None, cut=None, sync=False, text=None, chunks=None):
    tok = "i%dx" % idx
    if text is None:
        text = ("%s dogs bark" % tok) if front == "parser" else ("[ LTOP: h0 %s [ x ] ]" % tok)
    it = {"text": text, "tok": tok if kind != "skip" else None, "nres": nres, "ex": ex or {}, "kind": kind}
    if kind == "skip":
        it["tokhint"] = tok
    if die:
        it["die"] = die
    if cut is not None:
        it["cut"] = cut
    if sync:
        it["sync"] = True
    if chunks:
        it["chunks"] = chunks
    return it


def die_spec(mode="plain", code=3, close_stdin=False, delay_close=0, delay_exit=25):
    d = {"mode": mode, "code": code}
    if close_stdin:
        d["close_stdin"] = True
    if delay_close:
        d["delay_close"] = delay_close
    if mode == "plain":
        d["delay_exit"] = delay_exit
    return d


UNI_BLANK = ["\u00a0", "\u2003", "\u3000", "\x85", "\u2028", "\u2029", "\x1c", "\x1d", "\x1e", "\x1f", "\u1680",
             "\u2000", "\u200a", "\u202f", "\u205f", "\x0b", "\x0c"]
SKIP_TEXTS = {
    "parser": ["", " ", "\t \t", "   \t", "\u00a0", "\u2003", "\u3000", "\x85", "\u2028", "\x1c", "\x1f",
               "\x1c\x1d\x1e\x1f", " \u00a0 ", "\t\u2003\u3000", "\u2029\u205f\u1680", "\u202f \x85\t\u200a", "\x0b\x0c\u2000"],
    "other": ["", "no mrs here TOK", "TOK ] [ reversed", "[ TOK unclosed [ x ]", "]] TOK", "TOK",
              "\uff3b TOK \uff3d", "\u3010 TOK \u3011", "\u27e6TOK\u27e7", "\u3014 TOK \u3015", "\u2045 TOK \u2046 \uff3b x \uff3d",
              "\uff3b TOK ]", "( TOK ) { x }"],
}


def skip_text(front, idx, rng):
    tok = "i%dx" % idx
    if front == "parser":
        return rng.choice(SKIP_TEXTS["parser"])
    return rng.choice(SKIP_TEXTS["other"]).replace("TOK", tok)


def ok_text(front, idx, rng):
    tok = "i%dx" % idx
    if front == "parser":
        return rng.choice(["%s dogs bark", "  %s leading", "%s trailing  \t", "\t%s [ brackets ] too ", "%s",
                           "\u00a0%s dogs\u3000", "\u2003 %s\u2028", "%s\u2003inner\u00a0blanks \x85", "\x1c%s bark\x1f\u2029",
                           " \u202f%s\u205fx\u1680 \t", "%s \u3000\u3000",
                           "%s dogs bark\n", "%s dogs bark\r\n", "\n\t%s bark \n\n", "\r\n%s\x0b\x0c\n"]
                          + BREAK_TEXTS["parser"]) % tok
    return rng.choice(["[ LTOP: h0 %s [ x ] ]", "junk before [ %s ] and after", "[ %s ] tail", "  [ %s ]  ",
                       "pre [ %s [ a ] [ b ] ]", "[%s]", "x ] [ %s ]", "junk [ %s [ a ] ] tail",
                       "\u00a0[ %s\u3000x ]\u2003", "\uff3b y \uff3d [ %s ] \u3010 z \u3011", "[ %s \u2028 x ]\x85",
                       "j [ [ b ] %s ] t", "[ %s x ]\n", "[ %s x ]\r\n", "[ %s [ y ] ] \n\n", "pre [ %s ]\n"]
                      + BREAK_TEXTS["other"]) % tok


class C19(Check):
    pid = "C19"
    level = "proof"
    props_modules = ["Verif.C19.Props", "Verif.C19.Props2"]
    quick_cases = 265
    thorough_cases = 1700
    search_budget = {"quick": 150, "thorough": 2000}
    rule = ("distinct (front end, protocol, per-input behaviour/cut/exit policy) sessions with at least one "
            "acceptable input")
    assumptions = [
        "the processor writes nothing after the terminator of an answer and answers every input it reads "
        "while it lives (hypothesis `WF` of the theorems; the stand-in is built that way)",
        "pipes, buffering, reaping and signal delivery are outside the model: the model has one oracle bit per "
        "observation of a dying child; the harness forces three exit schedules on the real code and checks "
        "only the property itself (not the model) when the race is left free",
        "the processor reads its input line by line, splitting at LF only (as the stand-in does: os.read + split "
        "at b'\\n'); VT, FF, U+0085, U+2028/9 inside an input are ordinary characters of its one line",
    ]
    trusted_base = ["harness/standins/fakeace.py follows the scenario it is given (its log is the ground truth "
                    "for what the processor read and wrote)",
                    "line attributes and S-expression tokens are computed from the real text by the harness"]

    def extra_evidence(self):
        return {"model_answers_unmodelled": getattr(self, "n_unmodelled", 0),
                "shaped": "every compared session except the %d `unshaped` ones satisfied shapedItem "
                          "(the model answered `unmodelled` nowhere else)" % len(unshaped_cases()),
                "free_race_sessions_deterministic_block": len(free_race_cases())}

    def setup(self):
        self.n_unmodelled = 0
        self.workdir = tempfile.mkdtemp(prefix="c19-", dir="/var/tmp")

    def teardown(self):
        shutil.rmtree(getattr(self, "workdir", ""), ignore_errors=True)

    # ---- generated tables
    def tables(self):
        def classify(pat):
            if pat == r"^$":
                return ".blank"
            if pat == r"NOTE: tsdb parse: ":
                return ".parseNote"
            if pat == r"\(:results \.":
                return ".resultsOpen"
            raise RuntimeError("C19: terminus pattern %r is not one the model knows" % pat)

        # the generator's tsdb termini are an argument of a call inside _tsdb_receive: capture it
        captured = []
        g = ace.ACEGenerator.__new__(ace.ACEGenerator)
        g.run_infos = [{}]
        g._result_lines = lambda termini=None, **kw: (captured.append(termini), [])[1]
        ace.ACEGenerator._tsdb_receive(g)
        gt = [t.pattern for t in captured[0]]
        rows = [("parserTermini", "ACEParser._termini", [t.pattern for t in ace.ACEParser._termini]),
                ("transfererTermini", "ACETransferer._termini", [t.pattern for t in ace.ACETransferer._termini]),
                ("generatorTermini", "ACEGenerator._termini", [t.pattern for t in ace.ACEGenerator._termini])]
        out = ["/-- what a terminus pattern of `delphin.ace` looks for in a line (classified from the live regex "
               "objects) -/",
               "inductive Terminus | blank | parseNote | resultsOpen",
               "deriving DecidableEq, Repr"]
        for name, src, pats in rows:
            out.append("/-- `%s`: %s -/" % (src, json.dumps(pats)))
            out.append("def %s : List Terminus := [%s]" % (name, ", ".join(classify(p) for p in pats)))
        out.append("/-- termini `ACEGenerator._tsdb_receive` passes to `_result_lines`: %s -/" % json.dumps(gt))
        out.append("def generatorTsdbTermini : List Terminus := [%s]" % ", ".join(classify(p) for p in gt))
        out.extend(self.pins(captured[0]))
        out.append("/-- every code point `c` with `chr(c).isspace()` in the running interpreter: what `str.strip()` "
                   "removes -/")
        out.append("def c19SpaceCodes : List Nat := [%s]"
                   % ", ".join(str(c) for c in range(0x110000) if chr(c).isspace()))
        return out

    # ---- pins: the source constants the model (and the oracle) hand-code an equivalent of
    MESSAGE_PREFIXES = ("cannot ", "Process closed", "ACE process", "Attempt", "Could not", "Failed to",
                        "Possible MRS", "interact() argument", "ACE cleanup", "Invalid S-Expression", "Discarding ")

    def pins(self, gen_tsdb_termini):
        import types
        from delphin import itsdb, util
        lit = tables.lean_strlit

        def render(c):
            if isinstance(c, str):
                return c
            if isinstance(c, (tuple, frozenset, list)):
                xs = sorted(c, key=repr) if isinstance(c, frozenset) else c
                return "(" + ", ".join(render(x) for x in xs) + ")"
            return repr(c)

        def consts(fn):
            """string/number/bool/tuple constants of a function and of the code objects nested in it, in
            order; None, the docstring and log/exception message texts are left out"""
            out = []

            def walk(code):
                for c in code.co_consts:
                    if isinstance(c, types.CodeType):
                        walk(c)
                    elif c is None or c == fn.__doc__:
                        continue
                    elif isinstance(c, str) and c.startswith(self.MESSAGE_PREFIXES):
                        continue
                    elif isinstance(c, (str, int, float, bool, tuple, frozenset)):
                        out.append(render(c))
            walk(fn.__code__)
            return out

        def strlist(name, doc, xs):
            return ["/-- %s -/" % doc, "def %s : List String := [%s]" % (name, ", ".join(lit(x) for x in xs))]

        P, PA, TR, GE = ace.ACEProcess, ace.ACEParser, ace.ACETransferer, ace.ACEGenerator
        rows = [
            ("c19InitConsts", "ACEProcess.__init__: default executable, version thresholds, options per protocol", consts(P.__init__)),
            ("c19InitDefaults", "__defaults__ of ACEProcess/ACEParser, ACETransferer, ACEGenerator .__init__ and of "
             "_result_lines, process_item", [render(P.__init__.__defaults__), render(PA.__init__.__defaults__),
                                             render(TR.__init__.__defaults__), render(GE.__init__.__defaults__),
                                             render(P._result_lines.__defaults__), render(P.process_item.__defaults__)]),
            ("c19TransfererInitConsts", "ACETransferer.__init__: what it passes on (tsdbinfo=False, full_forest=False)", consts(TR.__init__)),
            ("c19GeneratorInitConsts", "ACEGenerator.__init__: what it passes on (full_forest=False)", consts(GE.__init__)),
            ("c19OpenConsts", "ACEProcess._open", consts(P._open)),
            ("c19ResultLinesConsts", "ACEProcess._result_lines", consts(P._result_lines)),
            ("c19ReadRunInfoConsts", "ACEProcess._read_run_info", consts(P._read_run_info)),
            ("c19SendConsts", "ACEProcess.send", consts(P.send)),
            ("c19TsdbReceiveConsts", "ACEProcess._tsdb_receive", consts(P._tsdb_receive)),
            ("c19InteractConsts", "ACEProcess.interact", consts(P.interact)),
            ("c19ProcessItemConsts", "ACEProcess.process_item", consts(P.process_item)),
            ("c19CloseConsts", "ACEProcess.close", consts(P.close)),
            ("c19ValidateNames", "names used by the three _validate_input (parser; transferer; generator)",
             [render(PA._validate_input.__code__.co_names) + render(tuple(consts(PA._validate_input))),
              render(TR._validate_input.__code__.co_names) + render(tuple(consts(TR._validate_input))),
              render(GE._validate_input.__code__.co_names) + render(tuple(consts(GE._validate_input)))]),
            ("c19ParserReceiveConsts", "ACEParser._default_receive", consts(PA._default_receive)),
            ("c19TransfererReceiveConsts", "ACETransferer._default_receive", consts(TR._default_receive)),
            ("c19GeneratorReceiveConsts", "ACEGenerator._default_receive", consts(GE._default_receive)),
            ("c19GeneratorTsdbReceiveConsts", "ACEGenerator._tsdb_receive", consts(GE._tsdb_receive)),
            ("c19AceVersionConsts", "ace._ace_version", consts(ace._ace_version)),
            ("c19PossibleMrsConsts", "ace._possible_mrs", consts(ace._possible_mrs)),
            ("c19MakeResponseConsts", "ace._make_response", consts(ace._make_response)),
            ("c19SexprDataConsts", "ace._sexpr_data", consts(ace._sexpr_data)),
            ("c19TsdbResponseConsts", "ace._tsdb_response", consts(ace._tsdb_response)),
            ("c19SExprParseConsts", "util._SExpr_parse", consts(util._SExpr_parse)),
            ("c19SExprNumberConsts", "util._SExpr_parse_number", consts(util._SExpr_parse_number)),
            ("c19SExprStringConsts", "util._SExpr_parse_string", consts(util._SExpr_parse_string)),
            ("c19SExprSymbolConsts", "util._SExpr_parse_symbol, _SExpr_unescape_string, _SExpr_unescape_symbol; "
             "_SExpr_symbol_re pattern and flags; _SExpr_escape_chars",
             consts(util._SExpr_parse_symbol) + consts(util._SExpr_unescape_string)
             + consts(util._SExpr_unescape_symbol)
             + [util._SExpr_symbol_re.pattern, str(util._SExpr_symbol_re.flags), util._SExpr_escape_chars]),
            ("c19ClassTables", "task and _cmdargs of ACEProcess, ACEParser, ACETransferer, ACEGenerator; "
             "interface.Processor.task",
             [render((getattr(k, "task", None), tuple(k._cmdargs))) for k in (P, PA, TR, GE)]
             + [render(interface.Processor.task)]),
            ("c19TerminiPatterns", "pattern/flags of the termini: parser, transferer, generator, generator tsdb",
             ["%s/%d" % (t.pattern, t.flags) for t in list(PA._termini) + list(TR._termini) + list(GE._termini)
              + list(gen_tsdb_termini)]),
            ("c19TaskSelectors", "itsdb._default_task_selectors (which column feeds each task)",
             ["%s:%s" % (k, render(v)) for k, v in sorted(itsdb._default_task_selectors.items())]),
        ]
        out = []
        for name, doc, xs in rows:
            out.extend(strlist(name, "`%s`" % doc, xs))
        return out

    # ---- implementation
    def impl(self, case):
        if case.get("op") == "validate":
            fn = {"parser": lambda s: isinstance(s, str) and s.strip()}.get(case["front"], ace._possible_mrs)
            v = fn(case["s"])
            return cps(re.sub(r"[\r\n]+", " ", v.rstrip())) if v else None
        hit = getattr(self, "_cache", {}).pop(id(case), None)
        if hit is not None and hit[0] is case:
            return hit[1]
        if not hasattr(self, "workdir") or not os.path.isdir(self.workdir):
            self.setup()
        return run_case(case, self.workdir)

    # ---- model
    def model_request(self, case):
        if case.get("op") == "validate":
            return {"op": "validate", "front": case["front"], "s": cps(case["s"])}
        if is_free(case) or case.get("multiline"):
            return None
        return build_model(case)[0]

    def model_expected(self, case, res):
        if case.get("op") == "validate":
            return res
        _, reg = build_model(case)
        tsdb = case["tsdb"] and case["front"] != "transferer"
        front = case["front"]
        steps = []
        for it, o in zip(case["items"], res["steps"]):
            if "err" in o or "hang" in o or "aborted" in o:
                steps.append({"err": "hang" if "hang" in o else o.get("err", "aborted")})
                continue
            e = {"input": cps(o["input"]) if isinstance(o["input"], str) else o["input"],
                 "skipped": o["skipped"], "run": o["run"]}
            if case.get("process_item"):
                e["task"] = o.get("task")
            if o["skipped"]:
                # the fabricated response: the refusal note, `SKIP: <datum>` as surface, nothing else
                e.update(notes=[reg.get(t) for t in o["notes"]], warnings=[reg.get(t) for t in o["warnings"]],
                         errors=[reg.get(t) for t in o["errors"]],
                         surface={"input": cps(o["surface"])} if isinstance(o["surface"], str) else o["surface"],
                         results={"lines": []} if o["results"] == [] else {"impl": o["results"]}, wrote=None,
                         served=False, eof=False)
                steps.append(e)
                continue
            e["notes"] = [reg.get(t) for t in o["notes"]]
            e["warnings"] = [reg.get(t) for t in o["warnings"]]
            e["errors"] = [reg.get(t) for t in o["errors"]]
            e["surface"] = None if o["surface"] is None else reg.get(o["surface"])
            if tsdb:
                def val(v):
                    if isinstance(v, str):
                        return {"t": reg.get(v)}
                    if isinstance(v, list):
                        return [val(x) for x in v]
                    if isinstance(v, dict) and "p" in v:
                        return {"p": [val(v["p"][0]), val(v["p"][1])]}
                    return v

                def key(name):
                    c = [i for t, i in reg.ids.items() if t[1:] == name]
                    return min(c) if c else -1
                toks = o.get("tokens") or {}
                e["results"] = {"tsdb": {
                    "results": [[[key(k), val(v)] for k, v in r.items()] for r in o["results"]],
                    "initial": val(toks["initial"]) if "initial" in toks else None,
                    "internal": val(toks["internal"]) if "internal" in toks else None,
                    "extra": [[key(k), val(v)] for k, v in o["extra"]]}}
            elif front == "generator":
                e["results"] = {"gen": [[reg.get(r.get("SENT")),
                                         reg.get(r["derivation"]) if "derivation" in r else None,
                                         reg.get(r["mrs"]) if "mrs" in r else None] for r in o["results"]]}
            else:
                back = {}
                for t, i in reg.ids.items():
                    back.setdefault(json.dumps(self._line_result(front, t), sort_keys=True), i)
                e["results"] = {"lines": [back.get(json.dumps(r, sort_keys=True), -1) for r in o["results"]]}
            # what the processor read for this input, from its own log
            reads = [ev for ev in res["log"] if ev.get("ev") == "read" and ev.get("tok") == it.get("tok")]
            swallowed = [ev for ev in res["log"] if ev.get("ev") == "die" and ev.get("swallowed") is not None
                         and it.get("tok") and it["tok"] in ev["swallowed"]]
            e["served"] = bool(reads)
            e["wrote"] = cps(reads[0]["line"]) if reads else (cps(swallowed[0]["swallowed"]) if swallowed else None)
            e["eof"] = None if o.get("closed") is None else bool(o["closed"])
            steps.append(e)
        runs = None if res.get("runs") is None else [{"id": r["id"], "ended": r["ended"], "note": r["note"]}
                                                      for r in res["runs"]]
        argvs = [ev.get("argv") for ev in res["log"] if ev.get("ev") == "start"]
        return {"steps": steps, "close": res.get("close"), "runs": runs, "argvs": argvs}

    @staticmethod
    def _line_result(front, text):
        if front == "parser":
            return dict(zip(("mrs", "derivation"), [x.strip() for x in text.split(" ; ")]))
        return {"mrs": text.strip()}

    def model_compare(self, case, expected, answer):
        if case.get("op") == "validate":
            return None if expected == answer else {"expected_from_impl": expected, "model": answer}
        ans = json.loads(json.dumps(answer))
        exp = expected
        diffs = []
        if len(ans.get("steps", [])) != len(exp["steps"]):
            return {"expected_from_impl": exp, "model": ans}
        for k, (a, e) in enumerate(zip(ans["steps"], exp["steps"])):
            if "err" in a or "err" in e:
                if a.get("err") == "unmodelled":
                    self.n_unmodelled = getattr(self, "n_unmodelled", 0) + 1
                if a.get("err") == "unmodelled" and e.get("err") in DECODE_ERRORS:
                    continue      # the shapes on which the real _tsdb_response raises (unshaped sessions)
                if a.get("err") != e.get("err"):
                    diffs.append({"step": k, "model": a, "impl": e})
                continue
            a = dict(a)
            e = dict(e)
            if e.get("eof") is None:
                a.pop("eof", None)
                e.pop("eof", None)
            if e.get("wrote") is None and not e.get("served") and not e.get("skipped"):
                # the line went into the void: nobody logged it
                a.pop("wrote", None)
                e.pop("wrote", None)
            if a != e:
                diffs.append({"step": k, "model": a, "impl": e})
        for a in exp.get("argvs", []):
            if a != ans.get("argv"):
                diffs.append({"argv": {"model": ans.get("argv"), "impl": a}})
                break
        if case.get("via") == "single":
            return diffs or None      # the wrapper keeps the processor to itself: no close() value, no run_infos
        if ans.get("close") != exp.get("close"):
            diffs.append({"close": {"model": ans.get("close"), "impl": exp.get("close")}})
        if ans.get("runs") != exp.get("runs"):
            diffs.append({"runs": {"model": ans.get("runs"), "impl": exp.get("runs")}})
        return diffs or None

    # ---- direct oracle
    def oracle(self, case, res):
        if case.get("op") == "validate":
            return []
        F = []

        def fail(clause, **detail):
            F.append({"clause": clause, "detail": detail})

        if res.get("init"):
            fail("start-up of the front end failed or hung", how=res["init"])
            return F
        front = case["front"]
        items = case["items"]
        steps = res["steps"]
        log = res["log"]
        if len(steps) != len(items):
            fail("exactly one response per interaction", got=len(steps), want=len(items))
            return F
        toks = [it.get("tok") or it.get("tokhint") for it in items]
        reads = {}       # tok -> list of (position in log, incarnation)
        for pos, ev in enumerate(log):
            if ev.get("ev") == "read":
                reads.setdefault(ev.get("tok"), []).append((pos, ev["k"], ev.get("line")))
        swallowed = {}
        for ev in log:
            if ev.get("ev") == "die" and ev.get("swallowed") is not None:
                m = re.search(r"i\d+x", ev["swallowed"])
                if m:
                    swallowed[m.group(0)] = ev["k"]
        last_failed_run = None
        last_failed_k = None
        for idx, (it, o) in enumerate(zip(items, steps)):
            tok = toks[idx]
            if "hang" in o:
                fail("an interaction hangs", step=idx)
                break
            if "aborted" in o:
                continue
            if "err" in o:
                if it.get("unshaped") and o["err"] in DECODE_ERRORS:
                    # a LIVE processor answered with a shape ACE never produces (e.g. `(:results . 3)`): not one of
                    # the property's failure patterns; the session must simply go on (checked on the next items)
                    continue
                fail("an interaction raises instead of returning a response", step=idx, error=o["err"])
                continue
            if not o.get("is_response"):
                fail("an interaction returns something that is not a Response", step=idx)
            if o["input"] != it["text"]:
                fail("the response records its own input", step=idx, got=o["input"])
            if o.get("accessors_ok") is False:
                fail("results()/result(i) of the response give its results in order", step=idx)
            if case.get("process_item"):
                if o.get("keys") != {"i-id": idx}:
                    fail("process_item keeps the item keys", step=idx, got=o.get("keys"))
                want_task = {"parser": "parse", "transferer": "transfer", "generator": "generate"}[front]
                if o.get("task") != want_task:
                    fail("process_item records the task", step=idx, got=o.get("task"))
            # nothing of another input in this response
            blob = json.dumps([o["results"], o["surface"], o["notes"], o["warnings"], o["errors"], o["extra"],
                               o["tokens"]])
            for j, other in enumerate(toks):
                if j != idx and other and other in blob and not (tok and other in it["text"]):
                    fail("a response contains material of another input", step=idx, other=j)
                    break
            acc = acceptable(front, it["text"])
            was_read = bool(reads.get(tok)) or tok in swallowed
            if acc is False:
                if not o["skipped"]:
                    fail("an unacceptable input is reported as skipped", step=idx)
                if o["results"] != []:
                    fail("a skipped input has no results", step=idx)
                if o["surface"] != it["text"] or not any(n == REFUSAL for n in o["notes"]):
                    fail("a skipped input is reported with a SKIP surface and the refusal note", step=idx,
                         surface=o["surface"])
                if was_read and tok:
                    fail("an unacceptable input is not sent to the processor", step=idx)
                continue
            if acc is True and o["skipped"]:
                fail("an acceptable input is sent, not skipped", step=idx)
                continue
            if o["skipped"]:
                if was_read:
                    fail("an input reported as skipped is not sent to the processor", step=idx)
                if o["results"] != []:
                    fail("a skipped input has no results", step=idx)
                continue
            # sent: what did the processor read?
            if tok and reads.get(tok):
                if len(reads[tok]) > 1:
                    fail("an input is read by the processor at most once", step=idx, times=len(reads[tok]))
                line = reads[tok][0][2]

                def one_line(t):
                    # line breaks inside an input go out as blanks (one per run of CR/LF)
                    return " ".join(x for x in re.split(r"[\r\n]+", t))
                if line.strip() == "" or line not in one_line(it["text"]) or "\n" in line or "\r" in line:
                    fail("the processor receives (a part of) the input text on one line", step=idx, line=line)
                if front == "parser" and line != one_line(it["text"].strip()):
                    fail("the parser's processor receives exactly the input without its surrounding white space",
                         step=idx, line=line)
                if front != "parser" and not (line.startswith("[") and line.endswith("]")) \
                        and line != one_line(it["text"].rstrip()):
                    fail("the processor receives the MRS part of the input", step=idx, line=line)
            k_read = reads[tok][0][1] if tok and reads.get(tok) else None
            # restart after a failure: a new processor and a new run record
            if k_read is not None:
                if last_failed_k is not None and k_read <= last_failed_k:
                    fail("after a failure later inputs are served by a restarted processor", step=idx,
                         read_by=k_read, failed=last_failed_k)
                if last_failed_run is not None and (o["run"] is None or o["run"] <= last_failed_run):
                    fail("after a failure later inputs get a new run record", step=idx, run=o["run"],
                         failed_run=last_failed_run)
                if o["run"] != k_read:
                    fail("the response's run record is that of the processor that served it", step=idx,
                         run=o["run"], read_by=k_read)
            full = (it.get("cut") is None or it["cut"] >= len(answer_text(case, it)))
            served = tok and reads.get(tok)
            wrote = written(case, it) if served else ""
            if served and full:
                want = expected_results(case, it)
                if o["results"] != want:
                    fail("an answered input gets exactly the results the processor produced for it", step=idx,
                         got=o["results"], want=want)
            elif wrote.strip() == "":
                if o["results"] != []:
                    fail("a failed item yields an empty result", step=idx, got=o["results"])
            elif not (case["tsdb"] and front != "transferer"):
                # default protocol, died in the middle: only COMPLETE lines written for this input count
                want = expected_partial(case, it, wrote)
                if o["results"] != want:
                    fail("results are built from complete lines the processor wrote for this input only",
                         step=idx, got=o["results"], want=want)
                for n_ in o["notes"]:
                    if ("NOTE: %s\n" % n_) not in wrote:
                        fail("notes are complete lines the processor wrote for this input", step=idx, note=n_)
                if o["surface"] is not None and ("SENT: %s\n" % o["surface"]) not in wrote \
                        and ("SKIP: %s\n" % o["surface"]) not in wrote:
                    fail("the surface is a complete line the processor wrote for this input", step=idx,
                         surface=o["surface"])
            else:
                # tsdb protocol, died in the middle: the tolerant decoding may use the fragment, but whatever is
                # reported stems from what was written for this input
                flat = []

                def leaves(v):
                    if isinstance(v, dict):
                        for x in v.values():
                            leaves(x)
                    elif isinstance(v, list):
                        for x in v:
                            leaves(x)
                    elif isinstance(v, str):
                        flat.append(v)
                leaves(o["results"])
                plain = wrote.replace('\\"', '"')
                for s in flat:
                    if s not in wrote and s not in plain:
                        fail("results of a half-answered input stem from what the processor wrote for it",
                             step=idx, value=s)
                        break
            lingering = bool(it.get("die")) and it["die"].get("mode") == "linger_stdin" and full
            if (served and it.get("die") and not lingering) or not served:
                # this input saw the processor fail, or was lost to a dying one
                if isinstance(o["run"], int):
                    last_failed_run = o["run"] if last_failed_run is None else max(last_failed_run, o["run"])
                kk = k_read if k_read is not None else swallowed.get(tok)
                if kk is not None:
                    last_failed_k = kk if last_failed_k is None else max(last_failed_k, kk)
        # an answered-then-died item followed by a lost one is legitimate only when the race was left free
        # or the child was told to swallow it
        for idx, (it, o) in enumerate(zip(items, steps)):
            tok = toks[idx]
            if o.get("skipped") is False and tok and not reads.get(tok) and tok not in swallowed and "err" not in o:
                if not is_free(case):
                    fail("an input that was sent reaches a processor", step=idx)
        sent_toks = {toks[i] for i, o in enumerate(steps) if o.get("skipped") is False or "err" in o}
        for ev in log:
            if ev.get("ev") == "read" and (ev.get("tok") is None or ev["tok"] not in sent_toks):
                fail("the processor reads only the lines of inputs that were sent", line=ev.get("line"))
                break
        # the command line of every started processor
        st_, sm_ = case.get("show", [False, False])
        tsdb_ = bool(case["tsdb"]) and front != "transferer"
        argvs = [ev.get("argv") for ev in log if ev.get("ev") == "start" and ev.get("argv") is not None]
        if argvs:
            a0 = argvs[0]
            if any(a != a0 for a in argvs):
                fail("a restarted processor is started with the same command line as the first", argvs=argvs)
            if a0[:2] != ["-g", "fake.dat"]:
                fail("the processor is started on the grammar", argv=a0)
            if ("--tsdb-stdout" in a0) != tsdb_:
                fail("the processor is started with the output protocol the front end decodes", argv=a0)
            if ("--tsdb-notes" in a0) != (front == "generator" or version_tuple(case) >= (0, 9, 14)):
                fail("the processor is started with the options its version understands", argv=a0)
            if ("-e" in a0) != (front == "generator"):
                fail("the processor is started in the mode of the front end", argv=a0)
            for opt, on in (("--show-realization-trees", st_), ("--show-realization-mrses", sm_)):
                if (opt in a0) != bool(on):
                    fail("the processor is started with the requested options", argv=a0, option=opt)
            ua = list(case.get("cmdargs", []))
            if ua and not any(a0[i:i + len(ua)] == ua for i in range(len(a0))):
                fail("the processor is started with the requested options", argv=a0, option=ua)
        last_k = max([ev["k"] for ev in log if ev.get("ev") == "start"], default=None)
        if case.get("via") == "single":
            for idx, o in enumerate(steps):
                # (a processor replaced inside the interaction leaves the response with the record of the old one;
                # the record that close() stamps is then out of reach of the caller)
                if "err" not in o and "hang" not in o and "aborted" not in o and o.get("run") == last_k \
                        and not o.get("closed_after"):
                    fail("closing records the run's end time", step=idx)
                if "hang" not in o and "aborted" not in o and last_k is not None and not any(
                        ev.get("ev") in ("eof", "die") and ev.get("k") == last_k for ev in log):
                    fail("closing ends the processor", step=idx)
        # run records and close
        if all("aborted" not in o and "hang" not in o for o in steps) and case.get("via") != "single":
            runs = res.get("runs")
            starts = len([ev for ev in log if ev.get("ev") == "start"])
            if runs is None:
                fail("run_infos can be read after the session")
            else:
                if [r["id"] for r in runs] != list(range(len(runs))):
                    fail("run records are numbered in order", ids=[r["id"] for r in runs])
                if len(runs) != starts:
                    fail("one run record per started processor", runs=len(runs), started=starts)
                if not res.get("distinct_runs"):
                    fail("each restart gets a new run record")
                if not runs or not runs[-1]["ended"] or not all(r["end_ok"] for r in runs):
                    fail("closing records the run's end time")
                for r in runs:
                    if r["note"] is not None and r["note"] != r["id"]:
                        fail("a run record holds the run information of its own processor", run=r)
                    if not r["app_ok"]:
                        fail("a run record names the application", run=r)
                    if not r.get("fields_ok", True):
                        fail("a run record has its start-up fields", run=r)
                    if r.get("env") is not None and argvs and (
                            any(w not in argvs[0] for w in r["env"].split())
                            or ("--tsdb-stdout" in r["env"].split()) != tsdb_):
                        fail("a run record holds the options its processor was started with", run=r)
                if last_k is not None and not any(ev.get("ev") in ("eof", "die") and ev.get("k") == last_k
                                                  for ev in log):
                    fail("closing ends the processor")
            want_close = case.get("exit_ok", 0)
            last = None
            for ev in log:
                if ev.get("ev") == "start":
                    last = None
                if ev.get("ev") == "die":
                    last = ev
            if last is not None:
                died = [it for it in items if it.get("tok") == last.get("tok")]
                if died and died[0].get("die"):
                    want_close = died[0]["die"].get("code", 1)
            if res.get("close") != want_close:
                fail("closing returns the exit status of the processor", got=res.get("close"), want=want_close)
        return F

    # ---- known findings
    def classify(self, case, failure):
        return None

    # ---- generation
    def cases(self, rng, tier, n):
        out = []
        k = 0
        from .common.runner import load_corpus
        in_corpus = {json.dumps(c, sort_keys=True) for _, c in load_corpus(self.pid)}
        for c in self.fixed_cases(tier):
            if json.dumps(c, sort_keys=True) in in_corpus:
                continue          # the same session already ran as a corpus case
            out.append(c)
        for c in validate_cases(rng, 40 if tier == "quick" else 400):
            out.append(c)
        budget = 40 if tier == "quick" else 500      # random sessions on top of the deterministic blocks
        while k < budget:
            out.append(self.random_case(rng, tier))
            k += 1
        self.prefetch(out)
        return out

    PREFETCH_WORKERS = 4

    def prefetch(self, cases):
        """the sessions are independent of each other (own scenario directory, own front-end object, own child
        processes) and spend their time waiting for child processes: run them on a few threads and let `impl`
        hand out the stored observation.  Replays, shrinking and the corpus do not go through here."""
        from concurrent.futures import ThreadPoolExecutor
        self._cache = {}
        todo = [c for c in cases if c.get("op") != "validate"]
        if not todo or not hasattr(self, "workdir") or not os.path.isdir(self.workdir):
            return

        def one(c):
            try:
                return c, run_case(c, self.workdir)
            except Exception:      # noqa: BLE001 — left to the sequential path, which reports it
                return c, None
        with ThreadPoolExecutor(max_workers=self.PREFETCH_WORKERS) as ex:
            for c, r in ex.map(one, todo):
                if r is not None:
                    self._cache[id(c)] = (c, r)

    def fixed_cases(self, tier):
        import random as _r
        rng = _r.Random(1909)
        cs = []
        configs = [(f, t, [False, False]) for f, t in FRONTS] + [("generator", False, [True, False]),
                                                                 ("generator", False, [True, True])]
        for ci, (front, tsdb, show) in enumerate(configs):
            def case(kind, items, **kw):
                c = {"kind": kind, "front": front, "tsdb": tsdb, "show": show, "items": items,
                     "runnote": True, "exit_ok": 0, "process_item": False}
                c.update(kw)
                return c
            base = {"front": front, "tsdb": tsdb, "show": show}
            alen = len(answer_text(base, mk_item(1, front, nres=2)))
            # exit before answering, detected when the stream ends
            cs.append(case("dieBefore", [mk_item(0, front), mk_item(1, front, "die", die=die_spec(), cut=0, sync=True),
                                         mk_item(2, front, nres=2), mk_item(3, front)], process_item=(ci % 2 == 0)))
            # exit in the middle of an answer
            cs.append(case("dieMid", [mk_item(0, front), mk_item(1, front, "die", nres=2, die=die_spec(),
                                                                 cut=alen // 2, sync=True),
                                      mk_item(2, front)], exit_ok=5))
            # exit right after an answer: the four ways the exit can show
            cs.append(case("dieAfter-exited", [mk_item(0, front), mk_item(1, front, "die", die=die_spec("exit_first")),
                                               mk_item(2, front), mk_item(3, front)]))
            cs.append(case("dieAfter-afterItem", [mk_item(0, front), mk_item(1, front, "die", die=die_spec(), sync=True),
                                                  mk_item(2, front)]))
            cs.append(case("dieAfter-onInput", [mk_item(0, front),
                                                mk_item(1, front, "die", die=die_spec("linger_stdin", code=4)),
                                                mk_item(2, front), mk_item(3, front, nres=2)]))
            cs.append(case("dieAfter-closeStdin", [mk_item(0, front),
                                                   mk_item(1, front, "die", die=die_spec(close_stdin=True, delay_exit=150)),
                                                   mk_item(2, front)]))
            # unacceptable inputs around failures
            cs.append(case("skips", [mk_item(0, front, "skip", text=skip_text(front, 0, rng)), mk_item(1, front),
                                     mk_item(2, front, "skip", text=skip_text(front, 2, rng)),
                                     mk_item(3, front, "die", die=die_spec(), cut=0, sync=True),
                                     mk_item(4, front, "skip", text=skip_text(front, 4, rng)),
                                     mk_item(5, front)], process_item=True))
            # failure on the first and on the last input; close() on a dead processor
            cs.append(case("dieFirst", [mk_item(0, front, "die", die=die_spec(code=7), cut=0, sync=True)], exit_ok=2))
            cs.append(case("dieLast", [mk_item(0, front), mk_item(1, front, "die", die=die_spec(code=9), sync=True)]))
            cs.append(case("plain", [mk_item(0, front, nres=0), mk_item(1, front, nres=3,
                                                                       ex={"note": True, "warning": True, "error": True})],
                           exit_ok=6, runnote=(ci % 2 == 1)))
        cs.extend(regression_cases())
        cs.extend(long_cases())
        cs.extend(unicode_cases())
        cs.extend(unshaped_cases())
        cs.extend(free_race_cases())
        cs.extend(keeper_cases())
        cs.extend(via_cases())
        cs.extend(version_cases())
        cs.extend(coverage_cases())
        cs.extend(linebreak_cases())
        if tier == "thorough":
            # every byte position of one answer per configuration
            for front, tsdb, show in configs:
                base = {"front": front, "tsdb": tsdb, "show": show}
                probe = mk_item(1, front, "die", nres=2, ex={"note": True, "flags": 2, "pinput": True})
                n = len(answer_text(base, probe))
                for cut in range(n + 1):
                    it = mk_item(1, front, "die", nres=2, ex={"note": True, "flags": 2, "pinput": True},
                                 die=die_spec(delay_exit=20), cut=cut, sync=True)
                    cs.append({"kind": "cut-sweep", "front": front, "tsdb": tsdb, "show": show, "runnote": True,
                               "exit_ok": 0, "process_item": False,
                               "items": [mk_item(0, front), it, mk_item(2, front)]})
        return cs

    def random_case(self, rng, tier):
        front, tsdb = rng.choice(FRONTS)
        show = [False, False]
        if front == "generator" and not tsdb and rng.random() < 0.5:
            show = [rng.random() < 0.7, rng.random() < 0.5]
        case = {"kind": "random", "front": front, "tsdb": tsdb, "show": show, "items": [],
                "runnote": rng.random() < 0.85, "exit_ok": rng.choice([0, 0, 2, 11]),
                "process_item": rng.random() < 0.4}
        if rng.random() < 0.25:
            ver = rng.choice(VERSIONS)
            case["ace_version"] = ver
            eff = version_tuple(case) >= (0, 9, 24)
            if front != "transferer":
                case["tsdbinfo"] = rng.choice([None, True, True, False])
                case["tsdb"] = tsdb = bool(eff and case["tsdbinfo"] is not False)
            if tsdb:
                case["show"] = show = [False, False]
        via = rng.choice(["interact", "interact", "with", "iterable", "iterable"])
        if via != "interact":
            case["via"] = via
            case["process_item"] = False
        ua = rng.choice([[], [], [], ["-n", "3"], ["--timeout", "30"], ["-1", "-p"]])
        if ua:
            case["cmdargs"] = ua
        n = rng.choice([1, 2, 3, 3, 4, 4, 5, 6] if tier == "quick" else [1, 2, 3, 4, 5, 6, 7, 8])
        free = rng.random() < 0.12
        for idx in range(n):
            r = rng.random()
            ex = {}
            for key, p in (("note", .2), ("warning", .1), ("error", .1), ("pinput", .3), ("pre", .15), ("post", .2),
                           ("genmrs", .3), ("wsline", .1), ("tailnote", .2), ("tree", .25), ("score", .25), ("resent", .2)):
                if rng.random() < p:
                    ex[key] = True
            if rng.random() < 0.3:
                ex["deriv"] = False
            if rng.random() < 0.3:
                ex["flags"] = rng.choice([1, 2, 3])
            if rng.random() < 0.2:
                ex["split"] = rng.choice([1, 2])
            nres = rng.choice([0, 1, 1, 2, 2, 3])
            if r < 0.18:
                case["items"].append(mk_item(idx, front, "skip", text=skip_text(front, idx, rng)))
                continue
            text = ok_text(front, idx, rng)
            if r < 0.55:
                it = mk_item(idx, front, "ok", nres=nres, ex=ex, text=text)
            else:
                it = mk_item(idx, front, "die", nres=nres, ex=ex, text=text)
                alen = len(answer_text(case, it))
                where = rng.choice(["before", "mid", "mid", "mid", "after", "after"])
                cut = {"before": 0, "after": None}.get(where, rng.randrange(1, max(2, alen)))
                if where == "mid" and rng.random() < 0.4:
                    # right after a closing parenthesis or a line break: the interesting byte positions
                    full = answer_text(case, it)
                    pts = [m.end() for m in re.finditer(r"\)|\n", full)]
                    if pts:
                        cut = rng.choice(pts)
                if cut is not None:
                    it["cut"] = cut
                mode = rng.choice(["plain", "plain", "exit_first", "linger_stdin"])
                code = rng.choice([1, 3, 9, 0])
                if mode == "plain":
                    if free:
                        it["die"] = die_spec("plain", code, False, rng.choice([0, 1, 5]), rng.choice([0, 1, 3, 10, 30]))
                    else:
                        cs_ = rng.random() < 0.3
                        it["die"] = die_spec("plain", code, cs_, rng.choice([0, 0, 5, 15]), 150 if cs_ else 25)
                        it["sync"] = True if not cs_ else rng.random() < 0.5
                else:
                    it["die"] = die_spec(mode, code, False, rng.choice([0, 0, 5]))
            if rng.random() < 0.3:
                text_len = len(written(case, it))
                offs = sorted(rng.randrange(0, text_len + 1) for _ in range(rng.choice([1, 2, 3])))
                it["chunks"] = [[o, rng.choice([0, 1, 3])] for o in offs]
            case["items"].append(it)
        if not any(it.get("tok") for it in case["items"]):
            case["items"].append(mk_item(n, front))
        return case

    def search_cases(self, rng, tier, n, seeds):
        for _ in range(n):
            yield self.random_case(rng, tier)

    def shrink(self, case, still_fails):
        if case.get("op") == "validate":
            return case
        cur = case
        changed = True
        while changed and len(cur["items"]) > 1:
            changed = False
            for i in range(len(cur["items"])):
                cand = dict(cur)
                cand["items"] = cur["items"][:i] + cur["items"][i + 1:]
                if not cand["items"]:
                    continue
                try:
                    if still_fails(cand):
                        cur = cand
                        changed = True
                        break
                except Exception:
                    pass
        return cur

    def nontrivial_key(self, case, res):
        if case.get("op") == "validate":
            return None
        if not any(it.get("tok") for it in case["items"]):
            return None
        return json.dumps([case["front"], case["tsdb"], case.get("show"), case.get("via"),
                           [[it.get("kind"), it.get("cut"), policy_of(it), it.get("nres")] for it in case["items"]]])

    def stats(self, case, res, counters):
        def inc(k, d=1):
            counters[k] = counters.get(k, 0) + d
        if case.get("op") == "validate":
            inc("validate:" + case["front"] + (":refused" if res is None else ":sent"))
            return
        inc("kind:" + case.get("kind", "?"))
        inc("config:%s/%s%s" % (case["front"], "tsdb" if case["tsdb"] and case["front"] != "transferer" else "default",
                                "+show" if any(case.get("show", [])) else ""))
        inc("len:%d" % len(case["items"]))
        inc("free-race" if is_free(case) else "forced")
        inc("via:" + ("process_item" if case.get("process_item") else case.get("via") or "interact"))
        if case.get("cmdargs"):
            inc("cmdargs:user-options")
        inc("ace-version:%s/tsdbinfo=%s->%s" % (case.get("ace_version") or "0.9.30(stand-in)", requested_tsdbinfo(case),
                                             "tsdb" if case["tsdb"] and case["front"] != "transferer" else "default"))
        for it in case["items"]:
            t = it["text"]
            if "\n" in t or "\r" in t:
                core = t.strip("\r\n")
                inc("input:line-break-" + ("inner" if ("\n" in core or "\r" in core) else "outer-only"))
                if re.search(r"[\r\n]{2,}", core):
                    inc("input:line-break-run")
        for it in case["items"]:
            n = len(it["text"])
            inc("inlen:" + ("<100" if n < 100 else "<4095" if n < 4095 else "4095-4097" if n <= 4097 else
                            "<8191" if n < 8191 else "8191-8193" if n <= 8193 else "<65535" if n < 65535 else
                            "65535-65537" if n <= 65537 else ">65537"))
            if it.get("ex", {}).get("biglen"):
                inc("answer:line>64KiB")
            if it.get("nres", 0) >= 1000:
                inc("answer:thousands-of-lines")
            if it.get("kind") == "skip":
                inc("item:skip")
            elif it.get("die"):
                full = len(answer_text(case, it))
                cut = it.get("cut")
                where = "after" if cut is None or cut >= full else ("before" if cut == 0 else "mid")
                inc("item:die-%s" % where)
                inc("policy:%s" % policy_of(it))
            else:
                inc("item:ok")
        if res and is_free(case):
            steps = res.get("steps", [])
            for k, it in enumerate(case["items"][:-1]):
                if policy_of(it) == "race" and k + 1 < len(steps) and case["items"][k + 1].get("tok"):
                    nxt = steps[k + 1]
                    if "err" not in nxt and "hang" not in nxt and "aborted" not in nxt:
                        inc("race:next-input-" + ("served" if nxt.get("results") else "lost"))
        if res:
            for o in res.get("steps", []):
                if "err" in o:
                    inc("exception:" + o["err"])
                if "hang" in o:
                    inc("hang")
            if res.get("runs") is not None:
                inc("restarts", len(res["runs"]) - 1)


def regression_cases():
    """the answers cut at the byte positions behind F18/F19 and F47-F49 (all repaired in /repo)"""
    cs = []

    def case(kind, front, tsdb, items, show=(False, False)):
        return {"kind": kind, "front": front, "tsdb": tsdb, "show": list(show), "items": items, "runnote": True,
                "exit_ok": 0, "process_item": False}
    for front in ("parser", "generator"):
        base = {"front": front, "tsdb": True, "show": [False, False]}
        variants = ((2, {}), (1, {"deriv": front == "generator", "flags": 0}), (1, {"flags": 2}), (3, {"flags": 2}))
        for nres, ex in (variants if front == "parser" else variants[:2]):
            it = mk_item(1, front, "die", nres=nres, ex=dict(ex))
            full = answer_text(base, it)
            # right after each closing parenthesis that leaves the expression unfinished
            pts = [m.end() for m in re.finditer(r"\)", full) if m.end() < full.index(" (:readings")]
            for cut in (pts[-3:] if front == "parser" else pts[-2:]):
                it2 = mk_item(1, front, "die", nres=nres, ex=dict(ex), die=die_spec(), cut=cut, sync=True)
                cs.append(case("F47-sexpr-cut", front, True, [mk_item(0, front), it2, mk_item(2, front)]))
        for cut in (1, 3):
            it2 = mk_item(1, front, "die", ex={"note": True}, die=die_spec(), cut=cut, sync=True)
            cs.append(case("F49-prefix-cut", front, True, [mk_item(0, front), it2, mk_item(2, front)]))
    for show in ((True, False), (False, True), (True, True)):
        base = {"front": "generator", "tsdb": False, "show": list(show)}
        it = mk_item(1, "generator", "die", nres=2)
        full = answer_text(base, it)
        for cut in [m.end() for m in re.finditer(r"\n", full)][:-1]:
            it2 = mk_item(1, "generator", "die", nres=2, die=die_spec(), cut=cut, sync=True)
            cs.append(case("F48-gen-lookahead", "generator", False, [mk_item(0, "generator"), it2,
                                                                     mk_item(2, "generator")], show))
    # F54: a line cut short by the exit is not a result (default protocol)
    for front in ("parser", "transferer", "generator"):
        base = {"front": front, "tsdb": False, "show": [False, False]}
        ex = {"tailnote": True} if front != "generator" else {}
        full = answer_text(base, mk_item(1, front, "die", nres=1, ex=dict(ex)))
        cuts = [full.index("NOTE:") + 2, 3, full.index("\n") + 4]
        for cut in cuts:
            it2 = mk_item(1, front, "die", nres=1, ex=dict(ex), die=die_spec(delay_exit=20), cut=cut, sync=True)
            cs.append(case("F54-cut-line-as-result", front, False, [mk_item(0, front), it2, mk_item(2, front)]))
    for front, tsdb in FRONTS:
        cs.append(case("F18-F19-exit-unanswered", front, tsdb,
                       [mk_item(0, front), mk_item(1, front, "die", die=die_spec(delay_exit=30), cut=0, sync=True),
                        mk_item(2, front), mk_item(3, front)]))
    return cs


LENS = [10, 3000, 4095, 4096, 4097, 8191, 8192, 8193, 65535, 65536, 65537, 200000]


def long_text(front, idx, n):
    """an acceptable input of exactly `n` characters (never shorter than its fixed parts)"""
    tok = "i%dx" % idx
    head, tail = (tok + " ", " dogs bark") if front == "parser" else ("[ LTOP: h0 " + tok + " ", " [ x ] ]")
    return head + "p" * max(0, n - len(head) - len(tail)) + tail


def long_cases():
    """input and answer LENGTH as a dimension: the buffer sizes of TextIOWrapper/BufferedWriter (8192), of the
    chunk a text write hands down (4096) and of the pipe (65536), at every failure point"""
    cs = []

    def case(kind, front, tsdb, items):
        return {"kind": kind, "front": front, "tsdb": tsdb, "show": [False, False], "items": items,
                "runnote": True, "exit_ok": 0, "process_item": False}

    def ok(front, idx, n, **kw):
        return mk_item(idx, front, "ok", text=long_text(front, idx, n), **kw)

    def die(front, idx, n, spec, **kw):
        return mk_item(idx, front, "die", text=long_text(front, idx, n), die=spec, **kw)

    for k, n in enumerate(LENS):
        for rep, (front, tsdb) in enumerate([FRONTS[k % 5]] + ([FRONTS[(k + 3) % 5]] if n >= 4095 else [])):
            # the child closes its stdin, answers, lingers (still running for poll()): the next write breaks
            cs.append(case("long-brokenPipe", front, tsdb,
                           [ok(front, 0, n), die(front, 1, 10, die_spec(close_stdin=True, delay_exit=300)),
                            ok(front, 2, n), ok(front, 3, 10)]))
        front, tsdb = FRONTS[(k + 1) % 5]
        base = {"front": front, "tsdb": tsdb, "show": [False, False]}
        half = len(answer_text(base, mk_item(2, front, nres=2))) // 2
        cs.append(case("long-allPoints", front, tsdb, [
            die(front, 0, 10, die_spec(delay_exit=20), cut=0, sync=True), ok(front, 1, n),
            die(front, 2, n, die_spec(delay_exit=20), nres=2, cut=half, sync=True), ok(front, 3, n),
            die(front, 4, 10, die_spec("exit_first")), ok(front, 5, n),
            die(front, 6, 10, die_spec("linger_stdin", code=4)), ok(front, 7, n), ok(front, 8, 10),
            die(front, 9, 10, die_spec(delay_exit=20), sync=True), ok(front, 10, n)]))
    # long answers: one line beyond the pipe buffer, thousands of lines; complete and cut by an exit
    for front, tsdb in FRONTS:
        base = {"front": front, "tsdb": tsdb, "show": [False, False]}
        one = {"biglen": 70000}
        n1 = len(answer_text(base, mk_item(1, front, nres=1, ex=one)))
        n3 = len(answer_text(base, mk_item(3, front, nres=3000)))
        cs.append(case("long-answers", front, tsdb, [
            mk_item(0, front, nres=1, ex=dict(one)),
            mk_item(1, front, "die", nres=1, ex=dict(one), die=die_spec(delay_exit=20), cut=n1 - 30000, sync=True),
            mk_item(2, front, nres=3000),
            mk_item(3, front, "die", nres=3000, die=die_spec(delay_exit=20), cut=n3 // 2, sync=True),
            mk_item(4, front, "die", nres=2, ex={"biglen": 66000}, die=die_spec("exit_first")),
            mk_item(5, front)]))
    # long unacceptable inputs
    cs.append(case("long-skip", "parser", True, [mk_item(0, "parser", "skip", text=" " * 70000), ok("parser", 1, 10)]))
    cs.append(case("long-skip", "generator", False,
                   [mk_item(0, "generator", "skip", text="i0x " + "p" * 70000), ok("generator", 1, 10),
                    mk_item(2, "generator", "skip", text="[ i2x " + "p" * 9000)]))
    return cs


def unicode_cases():
    """Unicode white space and Unicode brackets: blank for the parser iff only str.isspace() characters; no MRS
    for the generator/transferer when the only brackets are not ASCII `[` `]`"""
    cs = []

    def case(kind, front, tsdb, items):
        return {"kind": kind, "front": front, "tsdb": tsdb, "show": [False, False], "items": items,
                "runnote": True, "exit_ok": 0, "process_item": False}
    blanks = SKIP_TEXTS["parser"][4:]
    oks = ["\u00a0%s dogs\u3000", "\u2003 %s\u2028", "%s\u2003inner\u00a0blanks \x85", "\x1c%s bark\x1f\u2029",
           " \u202f%s\u205fx\u1680 \t", "%s \u3000\u3000"]
    for tsdb in (True, False):
        for k in range(0, len(blanks), 3):
            items = []
            for j, b in enumerate(blanks[k:k + 3]):
                items.append(mk_item(2 * j, "parser", "skip", text=b))
                items.append(mk_item(2 * j + 1, "parser", text=oks[(k + j) % len(oks)] % ("i%dx" % (2 * j + 1))))
            # a failure in between: the skipped inputs around it stay skipped
            if len(items) > 3:
                items[3] = dict(items[3], kind="die", die=die_spec(delay_exit=20), cut=0, sync=True)
            cs.append(case("unicode-blank", "parser", tsdb, items))
        cs.append(case("unicode-blank", "parser", tsdb,
                       [mk_item(i, "parser", "skip", text=ch) for i, ch in enumerate(UNI_BLANK)]
                       + [mk_item(len(UNI_BLANK), "parser")]))
    for front, tsdb in (("generator", True), ("generator", False), ("transferer", False)):
        items = []
        for j, b in enumerate(SKIP_TEXTS["other"][6:]):
            items.append(mk_item(2 * j, front, "skip", text=b.replace("TOK", "i%dx" % (2 * j))))
            items.append(mk_item(2 * j + 1, front, text=["\u00a0[ %s\u3000x ]\u2003", "\uff3b y \uff3d [ %s ] \u3010 z \u3011",
                                                         "[ %s \u2028 x ]\x85"][j % 3] % ("i%dx" % (2 * j + 1))))
        cs.append(case("unicode-brackets", front, tsdb, items))
    return cs


def unshaped_cases():
    """a live processor answering with S-expression shapes ACE never produces: the real `_tsdb_response` raises
    TypeError / ValueError / AttributeError, the model answers `unmodelled` (hypothesis `shapedItem` of
    `shaped_always_responds`); the session must go on aligned afterwards"""
    cs = []
    raws = ['(:results . 3)', '(:results . "x")', '(:results . ((:result-id . 0)))', '(:results . (3))',
            '(:results . (((:a . 1) 5)))', '(:p-input . 3) (:results . ())', '(:p-tokens . (1 2)) (:results . ())']
    for front in ("parser", "generator"):
        for k, raw in enumerate(raws):
            text = raw + ("\n\n\n" if front == "parser" else "\n")
            it = mk_item(1, front)
            it.update(raw=text, raw_results=[], unshaped=True, kind="unshaped")
            cs.append({"kind": "unshaped", "front": front, "tsdb": True, "show": [False, False], "runnote": True,
                       "exit_ok": 0, "process_item": k % 2 == 0,
                       "items": [mk_item(0, front), it, mk_item(2, front, nres=2)]})
    return cs


def free_race_cases():
    """exit right after a complete answer with NOTHING forced: the child lingers 0-30 ms with stdin open, the next
    input follows after 0-10 ms; whether it is served by a restarted processor or lost to the dying one is a
    race, both outcomes are legitimate; the oracle alone judges (no model comparison)"""
    cs = []
    timings = [(0, 0, 0), (0, 1, 0), (0, 3, 2), (1, 10, 0), (5, 30, 10), (0, 0, 10)]
    for front, tsdb in FRONTS:
        for k, (dc, de, pause) in enumerate(timings):
            d1 = mk_item(1, front, "die", nres=2, die=die_spec("plain", 3, False, dc, de))
            d4 = mk_item(4, front, "die", die=die_spec("plain", 5, False, de % 4, dc))
            if pause:
                d1["pause"] = pause
            cs.append({"kind": "free-race", "front": front, "tsdb": tsdb, "show": [False, False], "runnote": True,
                       "exit_ok": 0, "process_item": False,
                       "items": [mk_item(0, front), d1, mk_item(2, front), mk_item(3, front), d4,
                                 mk_item(5, front)]})
    return cs


def keeper_cases():
    """deterministic versions of seeded changes that were caught: a failure on the LAST item followed by close();
    cuts right after a blank inside a result line (default protocol)"""
    cs = []

    def case(kind, front, tsdb, items, **kw):
        c = {"kind": kind, "front": front, "tsdb": tsdb, "show": [False, False], "items": items, "runnote": True,
             "exit_ok": 0, "process_item": False}
        c.update(kw)
        return c
    for front, tsdb in FRONTS:
        base = {"front": front, "tsdb": tsdb, "show": [False, False]}
        n = len(answer_text(base, mk_item(1, front, nres=2)))
        for cut in (0, n // 2):
            cs.append(case("dieLast-cut", front, tsdb,
                           [mk_item(0, front), mk_item(1, front, "die", nres=2, die=die_spec(code=7, delay_exit=20),
                                                       cut=cut, sync=True)], exit_ok=2))
    for front in ("parser", "transferer", "generator"):
        base = {"front": front, "tsdb": False, "show": [False, False]}
        full = answer_text(base, mk_item(1, front, nres=2))
        for cut in [m.end() for m in re.finditer(r" ", full)][::3]:
            cs.append(case("cut-after-blank", front, False,
                           [mk_item(0, front), mk_item(1, front, "die", nres=2, die=die_spec(delay_exit=20), cut=cut,
                                                       sync=True), mk_item(2, front)]))
    return cs


VIA_ARGS = [["-n", "5"], ["--timeout", "60"], ["-1"], [], ["--max-words", "40", "-p"]]
NL_TEXTS = {"parser": ["%s dogs bark\n", "\n %s dogs bark\r\n", "%s\n\n"],
            "other": ["[ %s x ]\n", "pre [ %s [ y ] ]\r\n", "[ %s ] \n\n"]}


def via_cases():
    """the other ways into the same code: the context manager (`with … as p`, close through __exit__), the
    module-level wrappers `parse/transfer/generate_from_iterable` (one processor for a lazily consumed iterable,
    closed when the iterable is exhausted) and `parse/transfer/generate` (one processor per call, closed when the
    call returns); user options passed through `cmdargs`; inputs that end (or, for the parser, begin) with a line
    break"""
    cs = []
    for ci, (front, tsdb) in enumerate(FRONTS):
        base = {"front": front, "tsdb": tsdb, "show": [False, False]}
        alen = len(answer_text(base, mk_item(1, front, nres=2)))
        nl = NL_TEXTS["parser" if front == "parser" else "other"]
        skip = SKIP_TEXTS["parser"][ci + 1] if front == "parser" else SKIP_TEXTS["other"][ci + 1].replace("TOK", "i0x")

        def case(kind, items, via, **kw):
            c = {"kind": kind, "front": front, "tsdb": tsdb, "show": [False, False], "items": items, "runnote": True,
                 "exit_ok": 0, "process_item": False, "via": via}
            if VIA_ARGS[ci]:
                c["cmdargs"] = VIA_ARGS[ci]
            c.update(kw)
            return c
        for via in ("with", "iterable"):
            items = [mk_item(0, front, "skip", text=skip),
                     mk_item(1, front, "die", nres=2, die=die_spec(code=5, delay_exit=20), cut=alen // 2, sync=True,
                             text=nl[0] % "i1x"),
                     mk_item(2, front, nres=2, text=nl[1] % "i2x"),
                     mk_item(3, front, "die", die=die_spec("exit_first")),
                     mk_item(4, front, text=nl[2] % "i4x")]
            if via == "iterable":
                items.append(mk_item(5, front, "die", die=die_spec(code=7, delay_exit=20), cut=0, sync=True))
            cs.append(case("via-" + via, items, via, exit_ok=(3 if via == "with" else 0)))
        singles = [mk_item(0, front, nres=2, text=nl[ci % 3] % "i0x"),
                   mk_item(0, front, "skip", text=skip),
                   mk_item(0, front, "die", nres=2, die=die_spec(code=5, delay_exit=20), cut=alen // 2, sync=True),
                   mk_item(0, front, "die", die=die_spec(code=6, delay_exit=20), cut=0, sync=True),
                   mk_item(0, front, "die", die=die_spec("exit_first"))]
        for it in singles:
            cs.append(case("via-single", [it], "single"))
    return cs


VERSIONS = ["0.9.13", "0.9.23", "0.9.24", "0.9.31", "unparsable", "0.9", "1.0", "0.9.24.1", "0.9.14"]


def version_cases():
    """the protocol IN EFFECT is not the option: front ends built with default options (tsdbinfo not given, i.e.
    True) or tsdbinfo=True against a processor whose `-V` answer is below / at / above the 0.9.24 threshold or does
    not parse; every exit pattern (in the middle of a result line, after a complete answer — seen at once or at
    the next input —, before answering, on the last input) and unacceptable inputs in each such session"""
    cs = []
    for vi, ver in enumerate(VERSIONS):
        eff = version_tuple({"ace_version": ver}) >= (0, 9, 24)
        fronts = ("parser", "transferer", "generator") if vi < 5 else (("parser", "generator", "transferer")[vi % 3],)
        for fi, front in enumerate(fronts):
            tsdb = eff and front != "transferer"
            show = [True, True] if (front == "generator" and not tsdb and vi % 2 == 0) else [False, False]
            base = {"front": front, "tsdb": tsdb, "show": show}
            full = answer_text(base, mk_item(1, front, nres=2))
            # inside the first result line (default protocol) / inside the results list (tsdb)
            probe = "i1x 0" if not tsdb else "(:result-id . 1)"
            cut = full.index(probe) + 3
            skip = SKIP_TEXTS["parser"][vi + 1] if front == "parser" else SKIP_TEXTS["other"][vi + 1].replace("TOK", "i3x")
            items = [mk_item(0, front, nres=2),
                     mk_item(1, front, "die", nres=2, die=die_spec(code=5, delay_exit=20), cut=cut, sync=True),
                     mk_item(2, front, nres=1),
                     mk_item(3, front, "skip", text=skip),
                     mk_item(4, front, "die", die=die_spec("exit_first")),
                     mk_item(5, front, nres=2, ex={"note": True}),
                     mk_item(6, front, "die", die=die_spec(delay_exit=20), cut=0, sync=True),
                     mk_item(7, front),
                     mk_item(8, front, "die", die=die_spec("linger_stdin", code=4)),
                     mk_item(9, front), mk_item(10, front),
                     mk_item(11, front, "die", nres=2, die=die_spec(code=9, delay_exit=20),
                             cut=(full.index("\n") + 2 if not tsdb else len(full) // 3), sync=True)]
            c = {"kind": "version", "front": front, "tsdb": tsdb, "show": show, "items": items, "runnote": True,
                 "exit_ok": 0, "process_item": (vi + fi) % 2 == 0, "ace_version": ver}
            if front != "transferer":
                c["tsdbinfo"] = None if (vi + fi) % 2 == 0 else True      # not given (default) / given as True
            if (vi + fi) % 3 == 0:
                c["process_item"] = False
                c["via"] = "iterable"
            cs.append(c)
        # requested off: the default protocol whatever the version
        if vi in (2, 3):
            front = ("parser", "generator")[vi % 2]
            cs.append({"kind": "version", "front": front, "tsdb": False, "show": [False, False], "runnote": True,
                       "exit_ok": 0, "process_item": False, "ace_version": ver, "tsdbinfo": False,
                       "items": [mk_item(0, front), mk_item(1, front, "die", nres=2, die=die_spec(delay_exit=20),
                                                           cut=7, sync=True), mk_item(2, front)]})
    return cs


def coverage_cases():
    """branches of the anchored code no other block reaches (work list from tools/anchor_coverage.py): a run note
    that carries `:application` (skipped by `_read_run_info`) arriving in the middle of a session; stray characters
    inside an S-expression (`ValueError` out of util.SExpr.parse, caught by `_sexpr_data`); negative integers and
    other string-valued result fields in the tsdb answer, complete and cut"""
    cs = []

    def case(kind, front, tsdb, items, **kw):
        c = {"kind": kind, "front": front, "tsdb": tsdb, "show": [False, False], "items": items, "runnote": True,
             "exit_ok": 0, "process_item": False}
        c.update(kw)
        return c
    # run note with :application, before the answer of the first input of a run
    note = 'NOTE: tsdb run: (:application . "someone else") (:pid-tag . 0) (:extra . "x")\n'
    for front, tsdb in FRONTS:
        base = {"front": front, "tsdb": tsdb, "show": [False, False]}
        it = mk_item(0, front, nres=1)
        it.update(raw=note + answer_text(base, it), raw_results=expected_results(base, it), kind="runnote-mid")
        cs.append(case("runnote-application", front, tsdb, [it, mk_item(1, front, nres=2)]))
    # stray characters inside / after an S-expression
    strays = ['(:results . ()) (:comment . [x])', '(:results . ()) (:readings . 0) (:a . {1})', '(:a ; b) (:results . ())',
              '(:results . ()) (:readings . 0) \\']
    for front in ("parser", "generator"):
        for k, raw in enumerate(strays):
            it = mk_item(1, front)
            it.update(raw=raw + ("\n\n\n" if front == "parser" else "\n"), raw_results=[], kind="stray")
            cs.append(case("stray-characters", front, True, [mk_item(0, front), it, mk_item(2, front, nres=2)],
                           process_item=k % 2 == 1))
    # two surface lines in one answer (the last one is reported), complete and cut between them
    base = {"front": "parser", "tsdb": False, "show": [False, False]}
    full = answer_text(base, mk_item(1, "parser", nres=1, ex={"resent": True}))
    cs.append(case("two-surfaces", "parser", False, [mk_item(0, "parser", nres=2, ex={"resent": True}),
                                                    mk_item(1, "parser", "die", nres=1, ex={"resent": True},
                                                            die=die_spec(delay_exit=20), cut=full.index("SENT: i1x once") + 8,
                                                            sync=True),
                                                    mk_item(2, "parser", nres=0, ex={"resent": True})]))
    # negative integers, an extra string field; complete and cut right inside them
    for front in ("parser", "generator"):
        base = {"front": front, "tsdb": True, "show": [False, False]}
        ex = {"tree": True, "score": True}
        full = answer_text(base, mk_item(1, front, nres=2, ex=dict(ex)))
        cuts = [None, full.index("(:score . -") + 11, full.index("(:score . -") + 12, full.index('(:tree . "') + 12]
        for cut in cuts:
            it = mk_item(1, front, "ok" if cut is None else "die", nres=2, ex=dict(ex))
            if cut is not None:
                it.update(die=die_spec(delay_exit=20), cut=cut, sync=True)
            cs.append(case("tsdb-fields", front, True, [mk_item(0, front, nres=0, ex={"score": True}), it,
                                                         mk_item(2, front)]))
    return cs


BREAK_TEXTS = {
    "parser": ["%s dogs\nbark", "%s\r\ndogs\r\nbark", "\n\n%s dogs\n\n\nbark\n", "%s\rdogs", "\r\n %s \n\r\n\r x\r",
               "%s a\n\tb", "%s\x0bv\x0cf\x85n\u2028l\u2029p\nq", "\r%s\r\r\ry"],
    "other": ["[ LTOP: h0\n  %s\n  [ x ] ]", "[ %s\r\n [ y ]\r\n]", "\n[ %s ]", "pre\n[ %s\n\n\n[ a ] ]\npost",
              "[ %s\r[ b ] ]\r\n", "\r\n[ %s ]\n\ntail", "[ %s\x0bv\x85n\u2028l\n]", "x\n[ %s\r\r]"],
}
BREAK_SKIPS = {"parser": ["\n\r\n", "\r", "\n \n\t\r\n"], "other": ["no\nmrs TOK", "]\n[ TOK", "TOK\r\n"]}


def linebreak_cases():
    """F60 (repaired in 0806f59): inputs with \\n, \\r, \\r\\n leading, inner, trailing and several in a row - parser
    sentences and multi-line MRSs, both protocols - are written as ONE line; crossed with every exit pattern.  The
    other line-boundary characters (VT, FF, NEL, LS, PS) are ordinary characters of that line."""
    cs = []
    for ci, (front, tsdb) in enumerate(FRONTS):
        fam = "parser" if front == "parser" else "other"
        texts = BREAK_TEXTS[fam]
        base = {"front": front, "tsdb": tsdb, "show": [False, False]}
        alen = len(answer_text(base, mk_item(1, front, nres=2)))

        def t(k, idx):
            return texts[(k + ci) % len(texts)] % ("i%dx" % idx)

        def sk(k, idx):
            return BREAK_SKIPS[fam][(k + ci) % 3].replace("TOK", "i%dx" % idx)
        items = [mk_item(0, front, nres=2, text=t(0, 0)),
                 mk_item(1, front, "die", nres=2, die=die_spec(code=5, delay_exit=20), cut=alen // 2, sync=True, text=t(1, 1)),
                 mk_item(2, front, nres=1, text=t(2, 2)),
                 mk_item(3, front, "skip", text=sk(0, 3)),
                 mk_item(4, front, "die", die=die_spec("exit_first"), text=t(3, 4)),
                 mk_item(5, front, nres=2, text=t(4, 5)),
                 mk_item(6, front, "die", die=die_spec(delay_exit=20), cut=0, sync=True, text=t(5, 6)),
                 mk_item(7, front, text=t(6, 7)),
                 mk_item(8, front, "skip", text=sk(1, 8)),
                 mk_item(9, front, "die", die=die_spec("linger_stdin", code=4), text=t(7, 9)),
                 mk_item(10, front, text=t(0, 10)), mk_item(11, front, nres=3, text=t(1, 11)),
                 mk_item(12, front, "die", die=die_spec(close_stdin=True, delay_exit=150), text=t(2, 12)),
                 mk_item(13, front, text=t(3, 13)),
                 mk_item(14, front, "die", nres=2, die=die_spec(code=9, delay_exit=20), sync=True, text=t(4, 14))]
        c = {"kind": "line-breaks", "front": front, "tsdb": tsdb, "show": [False, False], "items": items,
             "runnote": True, "exit_ok": 0, "process_item": ci % 2 == 0}
        if ci in (1, 3):
            c["process_item"] = False
            c["via"] = "iterable"
        cs.append(c)
        # the same texts without any failure: every response carries the results of its own input
        cs.append({"kind": "line-breaks", "front": front, "tsdb": tsdb, "show": [False, False], "runnote": True,
                   "exit_ok": 0, "process_item": False,
                   "items": [mk_item(k, front, nres=1 + k % 3, text=texts[k] % ("i%dx" % k)) for k in range(len(texts))]})
    return cs


def validate_cases(rng, n):
    alpha = ["[", "]", "[", "]", " ", "\t", "a", "b ", "x", "\x0b", "\r", "\n", "\r\n", "\n", " ", "\u00a0", "\u3000", "\x85", "\u2028", "\x1c",
             "\x1f", "\u2003", "\uff3b", "\uff3d", "\u200b", "\ufeff"]
    seen = set()
    fixed = ["", " ", "[]", "[ ]", "a[b]c", "[a", "a]", "][", "] [ ]", "[[]]", "[[]", "[]]", " [a] ", "x [a] [b]",
             "\u00a0", "\u2003\u3000", "\x85", "\x1c\x1d\x1e\x1f", "\u200b", "\ufeff", "\u00a0a\u3000", "\uff3ba\uff3d", "\u00a0[a]\u2028",
             "a\nb", "a\r\n\r\nb\n", "\na", "[a\n[b]\n]", "\n[a]", "x\n[a\r]\ny", "[a]\n", "a\rb\r", "\r\n", "[a\x0bb\x85c\u2028]\n",
             "[a] tail", "pre [a]", "x [a [b] c] y", "x [[a] b] y", "pre [a] ", "\t[a]\t", "a", " a ", "[a][b]", "[ [ ] ] x", "x [ [ ] ]"]
    for s in fixed:
        for front in ("parser", "generator"):
            yield {"op": "validate", "front": front, "s": s}
    k = 0
    while k < n:
        s = "".join(rng.choice(alpha) for _ in range(rng.choice([1, 2, 3, 4, 5, 6, 8, 12])))
        front = rng.choice(["parser", "generator", "transferer"])
        if (front, s) in seen:
            continue
        seen.add((front, s))
        k += 1
        yield {"op": "validate", "front": front, "s": s}


CHECK = C19()
