"""C17 — hierarchies stay rooted DAGs and failed updates change nothing.

A case is ONE history: a constructor call (optionally with an initial batch) followed by
`update` / `__setitem__` calls.  After the constructor and after EVERY call, accepted or
rejected, the full query set over the case's universe `U` of identifiers is asked
(parents, children, ancestors, descendants, data, `in` of every u; subsumes/compatible of every
pair; items; len) and an internal snapshot (_hier/_loer/_data) is taken.

  impl    : the observations of the real code
  model   : the same list from lean/Verif/C17/Driver.lean (snapshot excluded)
  oracle  : every clause of the property recomputed naively from the `parents` answers alone,
            atomicity = observation (and snapshot) after a rejected call == the one before it,
            spelling invariance = identical answers for all u, v in U that the normaliser identifies.
"""
import itertools

from .common import paths
from .common.runner import Check

paths.ensure_repo_on_path()
from delphin import hierarchy as dh  # noqa: E402
from delphin import semi as dsemi  # noqa: E402
from delphin import tfs as dtfs  # noqa: E402


def from_py(x):
    """the NAME of a non-string identifier (int 3 -> '3', tuple ('a', 1) -> '(a,1)'); strings are their own name"""
    if isinstance(x, str):
        return x
    if isinstance(x, tuple):
        return "(" + ",".join(from_py(y) for y in x) + ")"
    return str(x)


def to_py(name):
    """inverse of from_py on the names the non-string block uses: '-?digits' is an int, '(..,..)' a tuple"""
    if len(name) >= 2 and name[0] == "(" and name[-1] == ")":
        return tuple(to_py(y) for y in name[1:-1].split(",")) if len(name) > 2 else ()
    if name.lstrip("-").isdigit():
        return int(name)
    return name


# identifiers handed to the real code: the name itself, or (cases with "ids") the object the name stands for
_DEC = [lambda name: name]


def pyid(a):
    return _DEC[0](uncps(a))


def cps(s):
    if not isinstance(s, str):
        s = from_py(s)
    return [ord(c) for c in s]


def uncps(a):
    return "".join(chr(x) for x in a)


CLASSES = ("multi", "type", "semi")
# a caller-supplied normaliser (str.upper) through MultiHierarchy and through TypeHierarchy
UPPER_CLASSES = ("multi_upper", "type_upper")


def norm_name(cls):
    return "id" if cls == "multi" else "upper" if cls in UPPER_CLASSES else "lower"


def nf_of(cls):
    if cls in UPPER_CLASSES:
        return lambda s: s.upper()
    return (lambda s: s) if cls == "multi" else (lambda s: s.lower())


# --------------------------------------------------------------------------- case building

def S(text):
    """parents given as a string"""
    return {"s": cps(text)}


def T(*names):
    """parents given as a tuple"""
    return {"t": [cps(n) for n in names]}


def upd(sub=None, data=None):
    return {"k": "update",
            "sub": None if sub is None else [[cps(i), p] for i, p in sub],
            "data": None if data is None else [[cps(i), v] for i, v in data]}


def setitem(i, v):
    return {"k": "set", "id": cps(i), "val": v}


def spec_names(p):
    if "s" in p:
        return uncps(p["s"]).split()
    return [uncps(x) for x in p["t"]]


def step_names(st):
    out = []
    if st is None:
        return out
    if st["k"] == "set":
        return [uncps(st["id"])]
    for i, p in st.get("sub") or []:
        out.append(uncps(i))
        out.extend(spec_names(p))
    for i, _ in st.get("data") or []:
        out.append(uncps(i))
    return out


def mk_case(cls, top, init, steps, tags=(), extra_u=()):
    names = [top]
    for st in [init] + list(steps):
        names.extend(step_names(st))
    names.extend(extra_u)
    nf = nf_of(cls)
    U = []
    for n in names:
        for v in (n, nf(n)):
            if v not in U:
                U.append(v)
    for n in list(U):
        if cls != "multi":
            vs = [n.upper(), n.capitalize(), n.swapcase(), n.lower()]
        else:
            vs = [n.swapcase()]       # a different node for the identity normaliser
        for v in vs:
            if v not in U and len(U) < 10:
                U.append(v)
    if "zz9" not in U:
        U.append("zz9")
    return {"cls": cls, "norm": norm_name(cls), "top": cps(top), "init": init, "steps": list(steps),
            "U": [cps(u) for u in U], "tags": sorted(set(tags))}


# --------------------------------------------------------------------------- naive tracker (generator only)

class Naive:
    """what the generator believes the hierarchy contains (used only to aim the generator)"""

    def __init__(self, top, nf):
        self.nf = nf
        self.P = {nf(top): ()}

    def anc(self, n, P=None):
        P = self.P if P is None else P
        seen = set()
        todo = list(P.get(n, ()))
        while todo:
            x = todo.pop()
            if x not in seen:
                seen.add(x)
                todo.extend(P.get(x, ()))
        return seen

    def try_update(self, sub, data):
        nf = self.nf
        new = {}
        for i, p in sub or []:
            new[nf(i)] = tuple(nf(x) for x in spec_names(p))
        dat = {nf(i) for i, _ in data or []}
        if set(new) & set(self.P) or any(not ps for ps in new.values()):
            return False
        if dat - set(self.P) - set(new):
            return False
        P = dict(self.P)
        rest = dict(new)
        while rest:
            el = [i for i, ps in rest.items() if all(p in P for p in ps)]
            if not el:
                return False
            for i in el:
                ps = rest.pop(i)
                a = set()
                for p in ps:
                    a |= self.anc(p, P)
                if a & set(ps):
                    return False
                P[i] = ps
        self.P = P
        return True


WS = [" ", " ", " ", "  ", "\t", "\n", " \t ", "\r\n", "\x0b", "\x1f", "\x85", "\xa0", "\u1680", "\u2003", "\u2029",
      "\u3000"]


def render_parents(rng, ps, tuple_bias=0.35):
    if not ps or any((not p) or p.split() != [p] for p in ps) or rng.random() < tuple_bias:
        return T(*ps)
    s = rng.choice(["", "", "", " ", "\n"]) + ps[0]
    for p in ps[1:]:
        s += rng.choice(WS) + p
    s += rng.choice(["", "", "", " ", "\t"])
    return S(s)


FAULTS = ["unknown_parent", "cycle", "self_parent", "redundant_old", "redundant_new", "duplicate", "dup_top",
          "empty", "data_unknown", "dup_spelling", "late_unknown"]


def respell(rng, cls, n):
    if cls == "multi":
        return n
    return rng.choice([n, n, n.upper(), n.capitalize(), n.lower()])


def gen_batch(rng, cls, nv, pool, fault=None):
    """a batch aimed at the current (believed) hierarchy; returns (sub pairs, data pairs, tags)"""
    nf = nv.nf
    existing = list(nv.P)
    fresh = [n for n in pool if nf(n) not in nv.P]
    rng.shuffle(fresh)
    seen = set()
    fr = []
    for n in fresh:
        if nf(n) not in seen:
            seen.add(nf(n))
            fr.append(n)
    k = min(len(fr), rng.choice([1, 1, 2, 2, 2, 3, 3, 4]))
    tags = []
    P = dict(nv.P)
    entries = []
    for n in fr[:k]:
        cand = list(P)
        m = rng.choice([1, 1, 1, 2, 2, 3])
        # prefer recently added nodes so that chains inside the batch appear
        ps = []
        for _ in range(m):
            c = rng.choice(cand[-3:] if rng.random() < 0.5 else cand)
            if c not in ps or rng.random() < 0.05:
                ps.append(c)
        if rng.random() < 0.85:
            # make it non-redundant
            ps = [p for p in ps if not any(p in nv.anc(q, P) for q in ps)]
        P[nf(n)] = tuple(ps)
        entries.append([n, ps])
    new_names = [e[0] for e in entries]
    data = None
    if fault is not None and entries or fault in ("data_unknown",):
        tags.append("fault:" + fault)
        pos = rng.randrange(len(entries) + 1)
        z = fr[k] if len(fr) > k else "zq"
        if fault == "unknown_parent":
            entries.insert(pos, [z, [rng.choice(existing), "nope"][rng.randrange(2):]])
        elif fault == "late_unknown" and entries:
            entries.insert(pos, [z, [rng.choice(new_names), "nope"]])
        elif fault == "cycle":
            w = fr[k + 1] if len(fr) > k + 1 else "zw"
            entries.insert(pos, [z, [w]])
            entries.insert(rng.randrange(len(entries) + 1), [w, [z] + ([rng.choice(existing)] if rng.random() < 0.5 else [])])
        elif fault == "self_parent":
            entries.insert(pos, [z, [z] + ([rng.choice(existing)] if rng.random() < 0.5 else [])])
        elif fault == "redundant_old":
            deep = [n for n in existing if nv.anc(n)]
            if deep:
                d = rng.choice(deep)
                a = rng.choice(sorted(nv.anc(d)))
                entries.insert(pos, [z, [d, a] if rng.random() < 0.5 else [a, d]])
            else:
                entries.insert(pos, [z, ["nope"]])
        elif fault == "redundant_new" and entries:
            d = nf(rng.choice(new_names))
            anc = sorted(nv.anc(d, P))
            if anc:
                a = rng.choice(anc)
                entries.insert(pos, [z, [d, a] if rng.random() < 0.5 else [a, d]])
            else:
                entries.insert(pos, [z, [d, "nope"]])
        elif fault == "duplicate":
            entries.insert(pos, [respell(rng, cls, rng.choice(existing)), [rng.choice(existing)]])
        elif fault == "dup_top":
            entries.insert(pos, [respell(rng, cls, existing[0]), [rng.choice(new_names or existing)]])
        elif fault == "empty":
            entries.insert(pos, [z, []])
        elif fault == "dup_spelling" and entries:
            e = rng.choice(entries)
            alt = e[0].swapcase() if e[0].swapcase() != e[0] else e[0] + ""
            entries.insert(pos, [alt, [rng.choice(existing)]])
        elif fault == "data_unknown":
            data = [["nope", 7]]
        else:
            entries.insert(pos, [z, ["nope"]])
    if rng.random() < 0.5:
        rng.shuffle(entries)
        tags.append("shuffled")
    sub = []
    for n, ps in entries:
        if fault == "empty" and not ps:
            spec = rng.choice([S(""), S("  "), T(), S("\n")])
        else:
            spec = render_parents(rng, [respell(rng, cls, p) for p in ps])
        sub.append([respell(rng, cls, n) if n in new_names else n, spec])
    if rng.random() < 0.35:
        targets = [e[0] for e in entries] + existing
        more = [[respell(rng, cls, rng.choice(targets)), rng.randrange(-3, 50)] for _ in range(rng.choice([1, 1, 2]))]
        data = (data or []) + more
    return sub, data, tags


POOLS = {
    "multi": ["a", "b", "c", "d", "e", "f", "g", "A", "a b", "", "é", "*x*"],
    "type": ["a", "b", "c", "d", "e", "f", "g", "Ab", "aB", "*x*"],
    "semi": ["a", "b", "c", "d", "e", "f", "g", "X", "u", "i-p"],
    "multi_upper": ["a", "b", "c", "d", "e", "f", "g", "Ab", "aB", "*x*"],
    "type_upper": ["a", "B", "c", "D", "e", "f", "g", "Ab", "aB", "i-p"],
}


def gen_history(rng, cls=None):
    cls = cls or rng.choice(CLASSES + CLASSES + UPPER_CLASSES)
    nf = nf_of(cls)
    top = "*top*" if cls == "semi" else rng.choice(["top", "top", "*top*", "Top", "T"])
    nv = Naive(top, nf)
    pool = rng.sample(POOLS[cls], rng.choice([5, 6, 7]))
    tags = []
    init = None
    via = None
    if cls == "semi" and rng.random() < 0.4:
        # the hierarchy is one of those semi.SemI builds from its arguments
        sub, _, t = gen_batch(rng, cls, nv, pool, rng.choice(FAULTS) if rng.random() < 0.2 else None)
        entries = []
        for n, p in sub:
            if "s" in p:
                entries.append([n, "str", [uncps(p["s"])], rng.randrange(3)])
            else:
                names = spec_names(p)
                form = rng.choice(["list", "tuple"]) if names else rng.choice(["absent", "none", "list", "tuple"])
                entries.append([n, form, names, rng.randrange(3)])
        via = (rng.choice(VIA_KINDS), entries)
        eff = via_effective(*via)
        nv.try_update([[uncps(i), p] for i, p in eff["sub"]], None)
        tags += t
    if cls != "semi" and rng.random() < 0.5:
        sub, data, t = gen_batch(rng, cls, nv, pool, rng.choice(FAULTS) if rng.random() < 0.15 else None)
        init = upd(sub, data)
        tags += t
        nv.try_update(sub, data)
    steps = []
    nsteps = rng.choice([1, 1, 2, 2, 3, 3, 4, 5, 6, 8])
    for _ in range(nsteps):
        r = rng.random()
        if r < 0.08:
            steps.append(setitem(respell(rng, cls, rng.choice(list(nv.P) + ["nope"])), rng.randrange(100)))
            tags.append("set")
        elif r < 0.14:
            steps.append(upd(None, [[respell(rng, cls, rng.choice(list(nv.P) + ["nope"])), rng.randrange(100)]]))
            tags.append("data_only")
        elif r < 0.17:
            steps.append(upd(rng.choice([None, []]), None))
            tags.append("empty_update")
        else:
            fault = rng.choice(FAULTS) if rng.random() < 0.5 else None
            sub, data, t = gen_batch(rng, cls, nv, pool, fault)
            steps.append(upd(sub, data))
            tags += t
            nv.try_update(sub, data)
    if via is not None:
        return via_case(via[0], via[1], steps, tags)
    return mk_case(cls, top, init, steps, tags)


def placement_cases():
    """every documented kind of invalid entry at every position of a batch whose other entries
    become eligible before it (round 1: x; round 2: y), then a valid call, then the same batch
    without the invalid entry"""
    faults = {
        "unknown_parent": [["z", S("nope")]],
        "late_unknown": [["z", S("y nope")]],
        "unknown_tuple": [["z", T("x", "nope")]],
        "redundant_old": [["z", S("a b")]],
        "redundant_top": [["z", S("top b")]],
        "redundant_new": [["z", S("x a")]],
        "redundant_new2": [["z", T("top", "y")]],
        "redundant_rev": [["z", S("y a")]],
        "redundant_desc_first": [["z", T("b", "a")]],
        "redundant_a_top": [["z", S("a top")]],
        "dup_top_spelled": [["TOP", S("a")]],
        "cycle": [["z", S("w")], ["w", S("z")]],
        "cycle_anchored": [["z", S("w a")], ["w", S("z")]],
        "self_parent": [["z", S("z")]],
        "duplicate": [["a", S("top")]],
        "duplicate_leaf": [["b", S("x")]],
        "dup_top": [["top", S("a")]],
        "empty_str": [["z", S("")]],
        "empty_ws": [["z", S(" \t")]],
        "empty_tuple": [["z", T()]],
    }
    for cls in CLASSES:
        top = "*top*" if cls == "semi" else "top"

        def fix(sub):
            out = []
            for n, p in sub:
                if "s" in p:
                    p = S(uncps(p["s"]).replace("top", top))
                else:
                    p = T(*[x.replace("top", top) for x in spec_names(p)])
                out.append([n.replace("top", top), p])
            return out
        base = fix([["a", S("top")], ["b", S("a")]])
        for valid in ([["x", S("a")], ["y", S("x")]], [["y", S("x")], ["x", S("a")]], [["x", S("a")], ["y", T("x", "b")]]):
            for fname, fent in faults.items():
                for pos in range(len(valid) + 1):
                    batch = fix(valid[:pos] + fent + valid[pos:])
                    steps = [upd(base), upd(batch), upd(fix([["v", S("b")]])), upd(fix(valid))]
                    yield mk_case(cls, top, None, steps, ["placement", "fault:" + fname])
            for pos in range(3):
                steps = [upd(base), upd(fix(valid), [["nope", 1], ["x", 2], ["a", 3]][pos:] + [["nope", 1], ["x", 2], ["a", 3]][:pos]),
                         upd(fix(valid), [["x", 5]])]
                yield mk_case(cls, top, None, steps, ["placement", "fault:data_unknown"])
        # parents at different depths (valid), then the same node list with a redundant member added
        yield mk_case(cls, top, None,
                      [upd(fix([["a", S("top")], ["b", S("top")], ["c", S("b")], ["x", T("a", "c")]])),
                       upd(fix([["y", T("a", "c", "b")]])), upd(fix([["w", S("  ")]])), upd(fix([["y", T("c", "a")]]))],
                      ["placement", "depths"])
        # the constructor with an invalid batch
        yield mk_case(cls, top, None if cls == "semi" else upd(fix([["a", S("top")], ["z", S("nope")]])), [],
                      ["placement", "ctor"])


def data_cases():
    """the DATA side, deterministically: `update` calls that carry data only (subhierarchy None or {}) or data
    together with a subhierarchy, the data mapping naming known nodes (with and without stored data, the top,
    nodes added by the same call) and ONE unknown identifier at every position (first / middle / last), in
    normal-form and other spellings; every rejected call is followed by the full query set (data of every
    node included), then by the same call without the unknown entry (accepted: stores exactly the given
    data), a second rejected data batch over the now stored data, and __setitem__ on unknown and on
    differently spelled identifiers.  Also: a batch rejected for a HIERARCHY reason whose data is all valid,
    two spellings of one data key, and the constructor's data argument."""
    for cls in CLASSES + ("type_upper",):
        nrm = cls != "multi"
        top = "*top*" if cls == "semi" else "top"
        # spellings of known nodes that are not their normal form (for the identity normaliser a different
        # spelling IS an unknown identifier, so there the same positions carry unknown names)
        A, B, C, TOPS = ("A", "B", "C", top.upper()) if nrm else ("a", "b", "c", top)
        unknowns = ["nope"] + (["Nope"] if nrm else ["A", top.upper()])
        base = [["a", S(top)], ["b", S("a")], ["c", S(top)]]
        pre = [upd(base, [["a", 10]])]                      # a has data, b and c have none
        newsub = [["x", S("a")], ["y", T("x", "c")]]
        X, Y = ("X", "Y") if nrm else ("x", "y")
        forms = {
            "none": (None, [[["a", 1]], [[A, 1], ["b", 2]], [["b", 1], [TOPS, 2], [C, 3]]]),
            "empty": ([], [[[A, 1]], [["a", 1], [B, 2]], [["c", 1], [top, 2], ["a", 3]]]),
            "new": (newsub, [[["x", 1]], [[A, 1], [Y, 2]], [[X, 1], ["b", 2], ["y", 3]], [[TOPS, 4], ["x", 5]]]),
        }
        for fname, (sub, Ks) in forms.items():
            for ki, K in enumerate(Ks):
                for pos in range(len(K) + 1):
                    unk = unknowns[(ki + pos) % len(unknowns)]
                    where = "first" if pos == 0 else ("last" if pos == len(K) else "middle")
                    bad = K[:pos] + [[unk, 99]] + K[pos:]
                    bad2 = [[k, v + 100] for k, v in K[:pos]] + [[unk, 98]] + [[k, v + 100] for k, v in K[pos:]]
                    steps = pre + [
                        upd(sub, bad),                       # rejected: nothing may be stored, no node added
                        upd(sub, K),                         # accepted: exactly K is stored
                        upd(None if fname != "empty" else [], bad2),   # rejected again, now over stored data
                        setitem(unk, 5),                     # rejected
                        setitem(A, 6),                       # accepted, non-normal spelling
                        upd(None, [["zz9", 1]]),             # rejected: a lone unknown entry
                        setitem(B.swapcase() if not nrm else "zz9", 7),   # rejected
                    ]
                    yield mk_case(cls, top, None, steps,
                                  ["data", "data:sub_" + fname, "data:unknown_" + where, "data:n%d" % len(bad)],
                                  extra_u=["x", "y", "nope"])
        # a batch rejected for a hierarchy reason although all of its data is valid: no data may be stored
        hfaults = {
            "unknown_parent": [["z", S("nope")]], "late_unknown": [["z", S("y nope")]],
            "redundant_old": [["z", S("a b")]], "redundant_new": [["z", S("x a")]],
            "cycle": [["z", S("w")], ["w", S("z")]], "self_parent": [["z", S("z")]],
            "duplicate": [["a", S(top)]], "dup_top": [[top, S("a")]], "empty_str": [["z", S("")]],
            "dup_spelled": [[A if nrm else "z", S("nope" if not nrm else top)]],
        }
        for hname, hent in hfaults.items():
            for pos in range(len(newsub) + 1):
                batch = newsub[:pos] + hent + newsub[pos:]
                dat = [[A, 1], ["x", 2], [Y, 3], ["b", 4], [TOPS, 5]]
                dat = dat[pos:] + dat[:pos]
                steps = pre + [upd(batch, dat), upd(None, [["b", 8]]), upd(newsub, dat), upd(batch, [["a", 0]])]
                yield mk_case(cls, top, None, steps, ["data", "data:hier_fault", "fault:" + hname])
        # two data keys the normaliser identifies (last wins), given together with an unknown one or not
        for dat in ([["a", 1], [A.swapcase() if nrm else "a", 2]], [[A, 1], ["a", 2], ["nope", 3]],
                    [["nope", 3], ["b", 1], [B, 2]], [[B, 1], ["nope", 3], ["b", 2]]):
            yield mk_case(cls, top, None, pre + [upd(None, dat), upd([], dat), upd(None, dat[:2][::-1])],
                          ["data", "data:two_spellings"])
        # the constructor: hierarchy=None ignores data (no update call); {} and a batch pass it on
        if cls != "semi":
            ctor = [upd(None, [["nope", 1]]), upd(None, [[top, 1]]), upd([], [[TOPS, 1]]), upd([], [["nope", 1]]),
                    upd([], [[top, 1], ["nope", 2]]), upd(base, [["a", 1], ["nope", 2], ["b", 3]]),
                    upd(base, [["nope", 2], [A, 1]]), upd(base, [[A, 1], [TOPS, 2], ["c", 3]]),
                    upd(base, [[B, 1], ["nope", 2]])]
            for init in ctor:
                yield mk_case(cls, top, init, [upd(None, [["a", 4], ["nope", 5]]), setitem(A, 6), setitem("nope", 7)],
                              ["data", "data:ctor"])
        else:
            for init in (upd([], [[TOPS, 1]]), upd([], [[top, 1], ["nope", 2]]), upd(base, [["a", 1], ["nope", 2]])):
                yield mk_case(cls, top, init, [upd(None, [["a", 4], ["nope", 5]]), setitem(A, 6), setitem("nope", 7)],
                              ["data", "data:ctor"])


# --------------------------------------------------------------------------- hierarchies built by semi.SemI

VIA_KINDS = ("variables", "properties", "predicates")
VIA_PROPS = [["pers", "3"], ["Num", "SG"]]           # stored by SemI._init_variables as ('PERS','3'), ('NUM','sg')
DATA_LIST_BASE = 1000                                  # a list-valued datum is observed as 1000 + its length


def via_effective(which, entries):
    """the update call SemI._init_<which> makes for these entries: `parents or TOP_TYPE` (None, a missing key,
    '', [] and () become the top; a whitespace-only string stays and has no parents), data for EVERY entry
    of variables (its property list) and predicates (its synopsis list), none for properties"""
    sub, data = [], []
    for name, pform, pvals, nprops in entries:
        if pform == "str" and pvals[0] != "":
            spec = S(pvals[0])
        elif pform in ("list", "tuple") and pvals:
            spec = T(*pvals)
        else:
            spec = T("*top*")
        sub.append([name, spec])
        if which == "variables":
            data.append([name, DATA_LIST_BASE + nprops])
        elif which == "predicates":
            data.append([name, DATA_LIST_BASE])
    return upd(sub, data if which != "properties" else None)


def via_case(which, entries, steps, tags):
    case = mk_case("semi", "*top*", via_effective(which, entries) if entries else None, steps,
                   ["via_semi", "via:" + which] + list(tags))
    case["via"] = {"which": which,
                   "entries": [[cps(n), pf, [cps(x) for x in pv], k] for n, pf, pv, k in entries]}
    return case


def construct_via(via):
    which = via["which"]
    spec = {}
    for name, pform, pvals, nprops in via["entries"]:
        vals = [uncps(x) for x in pvals]
        d = {}
        if pform == "none":
            d["parents"] = None
        elif pform == "str":
            d["parents"] = vals[0]
        elif pform == "list":
            d["parents"] = list(vals)
        elif pform == "tuple":
            d["parents"] = tuple(vals)
        if which == "variables" and nprops:
            d["properties"] = [list(x) for x in VIA_PROPS[:nprops]]
        if which == "predicates" and nprops:
            d["synopses"] = []
        spec[uncps(name)] = d
    kw = {which: spec}
    if which == "variables":
        kw["properties"] = {"3": {}, "SG": {"parents": None}}
    smi = dsemi.SemI.from_dict(kw) if len(via["entries"]) % 2 else dsemi.SemI(**kw)
    return getattr(smi, which)


def enc_data(v):
    return DATA_LIST_BASE + len(v) if isinstance(v, (list, tuple)) else v


def semi_api_cases():
    """the SEM-I's variable / property / predicate hierarchies, built by SemI(...) / SemI.from_dict through
    `update(subhierarchy=…, data=…)`: every form of the 'parents' value, mixed spellings, every documented
    invalid entry at the first / a middle / the last position (the constructor must raise HierarchyError),
    and accepted constructions followed by rejected and accepted calls on the hierarchy SemI exposes"""
    base = [["u", "absent", [], 0], ["i", "list", ["u"], 0], ["E", "list", ["I"], 1], ["p", "tuple", ["U"], 0],
            ["x", "str", ["i \t P"], 2], ["h", "none", [], 0]]
    follow = [upd([["q", S("X")]], [["Q", 5]]), upd([["r", S("q nope")]], [["x", 1]]), setitem("E", 9),
              upd(None, [["e", 2], ["nope", 3]]), upd([["r", S("e P")]], [["R", 4], ["u", 6]]), setitem("nope", 1),
              upd([["s", T("x", "I")]], None)]
    faults = {
        "ok_emptylist": [["z", "list", [], 0]], "ok_emptystr": [["z", "str", [""], 1]], "ok_emptytuple": [["z", "tuple", [], 0]],
        "ok_two_spellings": [["I", "list", ["U"], 1]], "ok_multi": [["z", "list", ["E", "p"], 2]],
        "unknown_parent": [["z", "list", ["nope"], 0]], "late_unknown": [["z", "str", ["x nope"], 0]],
        "cycle": [["z", "list", ["w"], 0], ["w", "tuple", ["Z"], 0]], "self_parent": [["z", "str", ["Z"], 0]],
        "redundant": [["z", "list", ["x", "u"], 0]], "redundant_top": [["z", "str", ["*TOP* e"], 0]],
        "dup_top": [["*TOP*", "list", ["u"], 0]], "blank_str": [["z", "str", [" "], 0]],
    }
    for which in VIA_KINDS:
        yield via_case(which, [], follow[:3], ["via:empty"])
        yield via_case(which, base, follow, ["via:base"])
        for fname, fent in faults.items():
            for pos in (0, 3, len(base)):
                yield via_case(which, base[:pos] + fent + base[pos:], follow, ["fault:" + fname])


NONSTR_MODES = {
    # symbolic name -> NAME of the identifier (see to_py): ints, ints and strings mixed, tuples
    "int": {"top": "0", "a": "1", "b": "2", "x": "3", "y": "4", "z": "5", "w": "6", "v": "7", "q": "9"},
    "mixed": {"top": "top", "a": "1", "b": "b", "x": "3", "y": "y", "z": "5", "w": "w", "v": "7", "q": "9"},
    "mixed_q": {"top": "0", "a": "a", "b": "2", "x": "x", "y": "4", "z": "z", "w": "6", "v": "v", "q": "nope"},
    "tuple": {"top": "(t)", "a": "(a,1)", "b": "(b)", "x": "(x,2)", "y": "(y)", "z": "(z,0)", "w": "(w,w)",
              "v": "(v)", "q": "(q,9)"},
}


def nonstr_cases():
    """node identifiers that are NOT strings (ints, ints and strings mixed, tuples), parents as tuples: every
    documented invalid entry before / between / after valid entries, the batch failing only in a LATER
    insertion wave (x joins in wave 1, y in wave 2), followed by a valid call, the same batch without the
    invalid entry, a rejected data batch and __setitem__.  With such identifiers the rejection surfaces as
    TypeError (', '.join of the ids in the message) or HierarchyError: the kind is recorded, not demanded;
    after ANY exception the full query set must be as before, and accepted calls behave as with strings."""
    faults = {
        "unknown_parent": [["z", ["q"]]], "late_unknown": [["z", ["y", "q"]]], "unknown_after_x": [["z", ["x", "q"]]],
        "cycle": [["z", ["w"]], ["w", ["z"]]], "cycle_anchored": [["z", ["w", "a"]], ["w", ["z"]]],
        "cycle_late": [["z", ["w", "y"]], ["w", ["z"]]], "self_parent": [["z", ["z"]]], "self_late": [["z", ["z", "x"]]],
        "redundant_old": [["z", ["a", "b"]]], "redundant_wave2": [["z", ["x", "a"]]], "redundant_wave3": [["z", ["y", "a"]]],
        "redundant_rev": [["z", ["top", "y"]]], "redundant_chain": [["z", ["y"]], ["w", ["z", "x"]]],
        "duplicate": [["a", ["top"]]], "duplicate_leaf": [["b", ["x"]]], "dup_top": [["top", ["a"]]],
        "empty": [["z", []]],
    }
    valid = [["x", ["a"]], ["y", ["x", "b"]]]
    for mode, nm in NONSTR_MODES.items():
        def ren(sub):
            return [[nm[n], T(*[nm[p] for p in ps])] for n, ps in sub]

        def mk(init, steps, tags):
            c = mk_case("multi", nm["top"], init, steps, ["nonstr", "nonstr:" + mode] + tags, extra_u=[nm["q"], nm["z"]])
            c["ids"] = mode
            return c
        base = ren([["a", ["top"]], ["b", ["a"]]])
        for fname, fent in faults.items():
            for pos in range(len(valid) + 1):
                batch = ren(valid[:pos] + fent + valid[pos:])
                steps = [upd(base, [[nm["a"], 10]]), upd(batch, [[nm["x"], 1]] if pos == 1 else None),
                         upd(ren([["v", ["b"]]])), upd(ren(valid), [[nm["y"], 2], [nm["a"], 3]]),
                         upd(None, [[nm["a"], 4], [nm["q"], 5], [nm["x"], 6]]), setitem(nm["q"], 7), setitem(nm["x"], 8),
                         upd(batch)]
                yield mk(None, steps, ["fault:" + fname])
        # data for an unknown identifier next to a later-wave batch; the constructor with an invalid batch
        yield mk(None, [upd(base), upd(ren(valid), [[nm["x"], 1], [nm["q"], 2]]), upd(ren(valid), [[nm["y"], 1]])],
                 ["fault:data_unknown"])
        yield mk(upd(ren([["a", ["top"]], ["x", ["a"]], ["z", ["x", "q"]]])), [], ["ctor"])
        yield mk(upd(base, [[nm["b"], 1]]), [upd(ren(valid + [["z", ["y", "a"]]])), upd(ren(valid))], ["ctor"])
    # mixed: parents given as a STRING name string identifiers only
    nm = NONSTR_MODES["mixed"]
    c = mk_case("multi", "top", None, [upd([["1", T("top")], ["b", S("top")], ["w", S("b top")], ["y", S("b  w")]]),
                                       upd([["3", T("1", "b")], ["5", S("3")]]), upd([["3", T("1", "b")]])],
                ["nonstr", "nonstr:mixed", "string_parents"])
    c["ids"] = "mixed"
    yield c


EXH_CAND = ["top", "a", "b", "x", "y", "q"]


def exhaustive_batches():
    """all batches of <= 2 entries over the new names x, y with parents any <=2-subset of
    {top, a, b, x, y, q(unknown)}"""
    subsets = [()] + [(c,) for c in EXH_CAND] + list(itertools.combinations(EXH_CAND, 2))
    for ps in subsets:
        yield [["x", ps]]
    for ps in subsets:
        for qs in subsets:
            yield [["x", ps], ["y", qs]]


def exhaustive_cases(rng, tier):
    base = [["a", S("top")], ["b", S("a")]]
    batches = list(exhaustive_batches())
    stride = 1 if tier == "thorough" else 2
    off = rng.randrange(stride)
    for idx, b in enumerate(batches):
        if idx % stride != off and len(b) > 1:
            continue
        sub = [[n, (S(" ".join(ps)) if (idx % 3) else T(*ps))] for n, ps in b]
        steps = [upd(sub), upd([["y", S("b")]] if len(b) == 1 else [["z", S("b")]])]
        yield mk_case("multi", "top", upd(base), steps, ["exhaustive"])
    if tier == "thorough":
        # two-call histories: every 1-entry batch followed by every 2-entry batch over the other name
        subsets = [()] + [(c,) for c in EXH_CAND] + list(itertools.combinations(EXH_CAND, 2))
        for ps in subsets:
            for qs in subsets:
                for rs in subsets[::3]:
                    steps = [upd([["x", S(" ".join(ps))]]), upd([["y", S(" ".join(qs))], ["x", S(" ".join(rs))]])]
                    yield mk_case("multi", "top", upd(base), steps, ["exhaustive2"])
        for idx, b in enumerate(batches):
            sub = [[n.upper() if idx % 2 else n, S(" ".join(p.capitalize() for p in ps))] for n, ps in b]
            yield mk_case("type", "Top", upd(base), [upd(sub), upd([["Z", S("B")]])], ["exhaustive", "spelled"])


# --------------------------------------------------------------------------- running the real code

def py_spec(p):
    if "s" in p:
        return uncps(p["s"])
    return tuple(pyid(x) for x in p["t"])


def py_sub(sub):
    if sub is None:
        return None
    d = {}
    for i, p in sub:
        d[pyid(i)] = py_spec(p)
    return d


def py_data(data):
    if data is None:
        return None
    d = {}
    for i, v in data:
        d[pyid(i)] = v
    return d


def err_of(e):
    if isinstance(e, dh.HierarchyError):
        return {"err": "HierarchyError"}
    return {"err": type(e).__name__}


def guarded(f):
    try:
        return f()
    except RecursionError:
        return {"err": "RecursionError"}
    except Exception as e:  # noqa: BLE001 — every exception of a query is an observation
        return err_of(e)


def sset(xs):
    return sorted([cps(x) for x in set(xs)])


def observe(h, U, r):
    q = []
    for u in U:
        q.append({
            "in": guarded(lambda: u in h),
            "par": guarded(lambda: {"ok": [cps(x) for x in h.parents(u)]}),
            "chi": guarded(lambda: {"ok": sset(h.children(u))}),
            "anc": guarded(lambda: {"ok": sset(h.ancestors(u))}),
            "des": guarded(lambda: {"ok": sset(h.descendants(u))}),
            "get": guarded(lambda: {"ok": enc_data(h[u])}),
        })
    sub = [[guarded(lambda: bool(h.subsumes(a, b))) for b in U] for a in U]
    com = [[guarded(lambda: bool(h.compatible(a, b))) for b in U] for a in U]
    items = guarded(lambda: [[cps(i), enc_data(d)] for i, d in h.items()])
    state = {
        "hier": sorted([cps(k), [cps(p) for p in v]] for k, v in h._hier.items()),
        "loer": sorted([cps(k), sset(v)] for k, v in h._loer.items()),
        "data": sorted([cps(k), enc_data(v)] for k, v in h._data.items()),
        "order": [cps(k) for k in h._hier],
    }
    return {"r": r, "top": guarded(lambda: cps(h.top)), "eq": guarded(lambda: rebuilt_eq(h)),
            "len": guarded(lambda: len(h)), "items": items, "q": q, "sub": sub, "com": com, "_state": state}


def rebuilt_eq(h):
    """the class docstring's `Hierarchy(top, {id: h.parents(id) for id in h}) == h`, data included: the same
    class and normaliser, built by the constructor from the parents()/items() answers, compared with `==`
    both ways (model: `rebuild`, `eqH`)"""
    r = type(h)(h.top, {i: h.parents(i) for i in h}, {i: d for i, d in h.items() if d is not None}, h._norm)
    if h[h.top] is not None:
        r[h.top] = h[h.top]
    r0 = type(h)(h.top, {i: h.parents(i) for i in h}, None, h._norm)        # the same graph without the data
    return [bool(r == h), bool(h == r), bool(r0 == h)]


def construct(case):
    cls = case["cls"]
    top = pyid(case["top"])
    init = case.get("init")
    if case.get("via"):
        return construct_via(case["via"])
    if cls == "semi":
        h = dsemi._new_hierarchy()
        if init is not None:
            h.update(py_sub(init["sub"]), py_data(init["data"]))
        return h
    if cls in UPPER_CLASSES:
        K = dh.MultiHierarchy if cls == "multi_upper" else dtfs.TypeHierarchy
        if init is None:
            return K(top, normalize_identifier=str.upper)
        if len(top) % 2:        # positional and keyword forms of the same call
            return K(top, py_sub(init["sub"]), py_data(init["data"]), str.upper)
        return K(top, hierarchy=py_sub(init["sub"]), data=py_data(init["data"]), normalize_identifier=str.upper)
    K = dh.MultiHierarchy if cls == "multi" else dtfs.TypeHierarchy
    if init is None:
        return K(top)
    return K(top, hierarchy=py_sub(init["sub"]), data=py_data(init["data"]))


def run_history(case):
    _DEC[0] = to_py if case.get("ids") else (lambda name: name)
    try:
        return run_history_(case)
    finally:
        _DEC[0] = lambda name: name


def run_history_(case):
    U = [pyid(u) for u in case["U"]]
    try:
        h = construct(case)
    except Exception as e:  # noqa: BLE001
        return [{"r": err_of(e)}]
    obs = [observe(h, U, "ok")]
    for st in case["steps"]:
        try:
            if st["k"] == "set":
                h[pyid(st["id"])] = st["val"]
            else:
                h.update(py_sub(st["sub"]), py_data(st["data"]))
            r = "ok"
        except Exception as e:  # noqa: BLE001
            r = err_of(e)
        obs.append(observe(h, U, r))
    return obs


# --------------------------------------------------------------------------- the direct oracle

def closure(P, n):
    seen = []
    todo = list(P.get(n, []))
    while todo:
        x = todo.pop()
        if x not in seen:
            seen.append(x)
            todo.extend(P.get(x, []))
    return seen


def strip(o):
    return {k: v for k, v in o.items() if k not in ("r", "_state")}


def check_observation(case, o, fail):
    """all structural clauses on one observation, from the real answers only"""
    nf = nf_of(case["cls"])
    U = [uncps(u) for u in case["U"]]
    top = nf(uncps(case["top"]))
    ix = {u: i for i, u in enumerate(U)}
    q = o["q"]

    # every answer is a value or a KeyError for an unknown id
    for u in U:
        for k, v in q[ix[u]].items():
            if isinstance(v, dict) and "err" in v and (v["err"] != "KeyError" or q[ix[u]]["in"] is True):
                fail("a query on a node of the hierarchy raises", (u, k, v))
                return
    for row in o["sub"] + o["com"]:
        for v in row:
            if isinstance(v, dict) and v.get("err") != "KeyError":
                fail("a query on a node of the hierarchy raises", v)
                return
    if not isinstance(o["items"], list) or not isinstance(o["len"], int):
        fail("items()/len() raises", (o["items"], o["len"]))
        return

    # spelling invariance
    for u in U:
        for v in U:
            if u < v and nf(u) == nf(v):
                if q[ix[u]] != q[ix[v]]:
                    fail("a query answers differently for two spellings the normaliser identifies", (u, v))
                if o["sub"][ix[u]] != o["sub"][ix[v]] or o["com"][ix[u]] != o["com"][ix[v]] \
                        or [r[ix[u]] for r in o["sub"]] != [r[ix[v]] for r in o["sub"]] \
                        or [r[ix[u]] for r in o["com"]] != [r[ix[v]] for r in o["com"]]:
                    fail("subsumes/compatible answer differently for two spellings the normaliser identifies", (u, v))

    known = [u for u in U if q[ix[u]]["in"] is True]
    N = []
    rep = {}
    for u in known:
        if nf(u) not in rep:
            # the spelling that is its own normal form if it is in U, else the first
            rep[nf(u)] = u
            N.append(nf(u))
    item_ids = [uncps(i) for i, _ in o["items"]]
    if top not in N:
        fail("the top is not in the hierarchy", top)
        return
    if sorted(item_ids + [top]) != sorted(N) or len(set(item_ids)) != len(item_ids):
        fail("items() is not the node set without the top", (item_ids, N))
        return
    if o["len"] != len(N) - 1:
        fail("len() is not the number of nodes without the top", (o["len"], N))

    def ans(n, k):
        return q[ix[rep[n]]][k]["ok"]
    P = {n: [uncps(p) for p in ans(n, "par")] for n in N}
    for n in N:
        for p in P[n]:
            if p not in P:
                fail("a parent is not a node", (n, p))
                return
    if P[top]:
        fail("the top has parents", P[top])
    A = {n: sorted(closure(P, n)) for n in N}
    for n in N:
        if n in A[n]:
            fail("cycle: a node is its own ancestor", n)
            return
    for n in N:
        kids = sorted(c for c in N if n in P[c])
        if sorted(uncps(c) for c in ans(n, "chi")) != kids:
            fail("children is not the inverse of parents", (n, kids, [uncps(c) for c in ans(n, "chi")]))
        if sorted(uncps(c) for c in ans(n, "anc")) != A[n]:
            fail("ancestors is not the transitive closure of parents", (n, A[n], [uncps(c) for c in ans(n, "anc")]))
        D = sorted(d for d in N if n in A[d])
        if sorted(uncps(c) for c in ans(n, "des")) != D:
            fail("descendants is not the transitive closure of children", (n, D, [uncps(c) for c in ans(n, "des")]))
        if n != top and top not in A[n]:
            fail("a node does not descend from the top", (n, P[n]))
        for p in P[n]:
            for p2 in P[n]:
                if p in A[p2]:
                    fail("a node lists a parent that is an ancestor of another of its parents", (n, P[n]))

    def sub(a, b):
        return o["sub"][ix[rep[a]]][ix[rep[b]]]

    def com(a, b):
        return o["com"][ix[rep[a]]][ix[rep[b]]]
    for a in N:
        if sub(a, a) is not True:
            fail("subsumes is not reflexive", a)
        if sub(top, a) is not True:
            fail("the top does not subsume a node", a)
        for b in N:
            want = (a == b) or (a in A[b])
            if sub(a, b) is not want:
                fail("subsumes(a,b) is not 'a is b or an ancestor of b'", (a, b, sub(a, b)))
            if a != b and sub(a, b) is True and sub(b, a) is True:
                fail("subsumes is not antisymmetric", (a, b))
            if com(a, b) != com(b, a):
                fail("compatible is not symmetric", (a, b))
            common = any(sub(a, c) is True and sub(b, c) is True for c in N)
            if com(a, b) is not common:
                fail("compatible(a,b) is not 'a common descendant-or-self exists'", (a, b, com(a, b)))
            for c in N:
                if sub(a, b) is True and sub(b, c) is True and sub(a, c) is not True:
                    fail("subsumes is not transitive", (a, b, c))


def normalised_case(case):
    """the same history with every identifier written in its normal form"""
    nf = nf_of(case["cls"])

    def nspec(p):
        if "s" in p:
            return S(nf(uncps(p["s"])))       # lower() leaves the separators alone
        return T(*[nf(x) for x in spec_names(p)])

    def nstep(st):
        if st is None:
            return None
        if st["k"] == "set":
            return setitem(nf(uncps(st["id"])), st["val"])
        return {"k": "update",
                "sub": None if st["sub"] is None else [[cps(nf(uncps(i))), nspec(p)] for i, p in st["sub"]],
                "data": None if st["data"] is None else [[cps(nf(uncps(i))), v] for i, v in st["data"]]}
    out = dict(case, top=cps(nf(uncps(case["top"]))), init=nstep(case.get("init")),
               steps=[nstep(st) for st in case["steps"]])
    if case.get("via"):
        out["via"] = None        # the SemI-built hierarchy against the same update made directly
    return out


class C17(Check):
    pid = "C17"
    props_modules = ["Verif.C17.Props", "Verif.C17.PropsData", "Verif.C17.Translated", "Verif.C17.TranslatedAnc"]
    quick_cases = 550
    thorough_cases = 15000
    rule = ("histories of 0-8 update/__setitem__ calls on MultiHierarchy (identity normaliser), tfs.TypeHierarchy and "
            "semi's hierarchy (str.lower), MultiHierarchy/TypeHierarchy with a caller-supplied normaliser (str.upper, "
            "positional and keyword), and the variable/property/predicate hierarchies semi.SemI(...)/SemI.from_dict build "
            "through update(subhierarchy=, data=) from every form of the 'parents' value (missing, None, '', [], (), list, "
            "tuple, string, blank string); <= 12 names incl. mixed-case spellings, '' and 'a b' (tuple only); batches "
            "of 1-6 entries, parents as strings (random Unicode-whitespace separators) or tuples; every documented "
            "invalid entry (unknown parent, cycle, self parent, redundant parent old/new, duplicate id, duplicate top, "
            "empty parents, data for unknown id, two spellings of one id) at every batch position with valid entries "
            "eligible in earlier rounds; DATA: update calls with data only (subhierarchy None or {}) and data with a "
            "subhierarchy, 1-4 data entries naming nodes with and without stored data, the top, nodes added by the same "
            "call and one unknown identifier first/middle/last, normal-form and other spellings, two spellings of one "
            "key; batches rejected for a hierarchy reason whose data is valid; the constructor's data argument with "
            "hierarchy None / {} / a batch; __setitem__/__getitem__ on unknown and differently spelled identifiers; "
            "NON-STRING identifiers (ints, ints and strings mixed, tuples; parents as tuples): every invalid entry "
            "before/between/after valid entries, failing only in a later insertion wave; the exception kind (TypeError "
            "from message formatting or HierarchyError) recorded, not demanded; "
            "exhaustive: all batches of <= 2 entries over 2 new names with parents any <=2-subset of 6 names. "
            "After the constructor and after EVERY call the full query set (incl. h[id] of every identifier, items, "
            "top, == with a rebuilt hierarchy). Non-trivial = at least one call; distinct by JSON text.")
    assumptions = [
        "identifiers of normalising hierarchies are ASCII (model's lower = Char.toLower; Python's str.lower agrees there)",
        "str.split() splits exactly on the model's spaceCodes (pinned against the live code for every code point "
        "< U+3001 by c17_pins; no code point above is generated)",
        "data values are integers (the property/synopsis lists SemI stores are observed as 1000 + their length); "
        "identifiers are strings, or (deterministic block) ints/tuples that the model sees under injective string names",
        "the caller-supplied normaliser is str.upper on ASCII identifiers (model: Char.toUpper, pinned by c17_pins_upper)",
        "atomicity is true of the pure model by construction; it is checked on the real code only (oracle: full query "
        "set and a snapshot of _hier/_loer/_data after every rejected call equal those before it)",
    ]
    trusted_base = ["hand-written model lean/Verif/C17/Model.lean, tied to delphin.hierarchy by the correspondence run",
                    "normaliser is a parameter of the model and of every theorem; the theorems about descendants/"
                    "subsumes/compatible and the query form of the redundancy clause assume it idempotent (the code "
                    "re-normalises in nested public calls; str.lower and the identity are idempotent)",
                    "source translator py2lean + PyRt (TRANSLATOR.md)"]

    def translation_specs(self):
        from .common import py2lean as P
        from delphin import hierarchy
        al = P.Dict(P.STR, P.Lst(P.STR))
        return [P.Spec(hierarchy._get_eligible, "get_eligible", [("hier", al), ("sub", al)], P.Lst(P.STR)),
                # recursion with explicit fuel; the result is a set (duplicate-free list)
                P.Spec(hierarchy._ancestors, "ancestors", [("id", P.STR), ("hier", al)], P.Set(P.STR)),
                # `id` only occurs in the (unevaluated) message of the HierarchyError
                P.Spec(hierarchy._validate_parentage, "validate_parentage",
                       [("id", P.UNUSED), ("parents", P.Lst(P.STR)), ("hier", al)], P.NONE)]

    def translations(self):
        """Source translation (TRANSLATOR.md): hierarchy._get_eligible → lean/Verif/Generated/TransC17.lean, proved equal
        to the model's eligibility filter in lean/Verif/C17/Translated.lean."""
        from .common import py2lean as P
        return P.translate_module(self.translation_specs(), "Verif.Trans.C17")

    # ---- pins: constants, defaults and shape facts of the live code that the model mirrors
    def tables(self):
        import types

        from .common import tables as TB
        lit = TB.lean_strlit
        M = dh.MultiHierarchy
        TH = dtfs.TypeHierarchy

        def consts(fn):
            """non-message constants (nested code objects included); docstrings and message texts dropped"""
            out = []

            def walk(code):
                for c in code.co_consts:
                    if isinstance(c, types.CodeType):
                        walk(c)
                    elif c is None or c == fn.__doc__:
                        continue
                    elif isinstance(c, str) and (" " in c or "{}" in c):
                        continue
                    else:
                        out.append(repr(c))
            walk(fn.__code__)
            return out

        def names(fn):
            return " ".join(fn.__code__.co_names)
        fns = [("__init__", M.__init__), ("update", M.update), ("validate_update", M.validate_update),
               ("_normalize_update", dh._normalize_update), ("_get_eligible", dh._get_eligible),
               ("_validate_parentage", dh._validate_parentage), ("_ancestors", dh._ancestors),
               ("__len__", M.__len__), ("compatible", M.compatible), ("subsumes", M.subsumes),
               ("TypeHierarchy.__init__", TH.__init__), ("_new_hierarchy", dsemi._new_hierarchy)]
        defaults = ["%s:%r:%r" % (n, f.__defaults__, f.__kwdefaults__) for n, f in fns]
        cons = ["%s:%s" % (n, ",".join(consts(f))) for n, f in fns]
        nms = ["%s:%s" % (n, names(f)) for n, f in fns
               if n in ("_normalize_update", "_get_eligible", "_validate_parentage", "_ancestors",
                        "TypeHierarchy.__init__", "_new_hierarchy")]
        # shape facts read off live objects
        ident = lambda x: x  # noqa: E731
        ws = [c for c in range(0x3001)
              if dh._normalize_update(ident, {"k": "a" + chr(c) + "b"}, None)[0]["k"] != ("a" + chr(c) + "b",)]
        hm, ht, hs = M("ToP"), TH("ToP"), dsemi._new_hierarchy()

        def ascii_image(h):
            return "[" + ", ".join("[" + ", ".join(str(ord(x)) for x in h._norm(chr(c))) + "]" for c in range(128)) + "]"
        fresh = M("t")
        um, ut = M("ToP", normalize_identifier=str.upper), TH("ToP", normalize_identifier=str.upper)
        upper = [
            "def c17MultiUpperNormAscii : List (List Nat) := %s" % ascii_image(um),
            "def c17TypeUpperNormAscii : List (List Nat) := %s" % ascii_image(ut),
            "def c17UpperPlumbing : List Bool := [%s]" % ", ".join(
                "true" if b else "false" for b in (um._norm is str.upper, ut._norm is str.upper)),
            "def c17UpperTops : List String := [%s]" % ", ".join(lit(x) for x in (um.top, ut.top)),
        ]
        return upper + [
            "def c17Defaults : List String := [%s]" % ", ".join(lit(x) for x in defaults),
            "def c17Consts : List String := [%s]" % ", ".join(lit(x) for x in cons),
            "def c17Names : List String := [%s]" % ", ".join(lit(x) for x in nms),
            "def c17SplitWhitespace : List Nat := [%s]" % ", ".join(str(c) for c in ws),
            "def c17MultiNormAscii : List (List Nat) := %s" % ascii_image(hm),
            "def c17TypeNormAscii : List (List Nat) := %s" % ascii_image(ht),
            "def c17SemiNormAscii : List (List Nat) := %s" % ascii_image(hs),
            "def c17NormIdentity : List Bool := [%s]" % ", ".join(
                "true" if b else "false" for b in (hm._norm is dh._norm_id, ht._norm is str.lower, hs._norm is str.lower)),
            "def c17Tops : List String := [%s]" % ", ".join(lit(x) for x in (hm.top, ht.top, hs.top, dsemi.TOP_TYPE)),
            "def c17NewState : String := %s" % lit(repr((fresh._hier, fresh._loer, fresh._data))),
        ]

    # ---- cases
    def cases(self, rng, tier, n):
        yield from data_cases()
        yield from nonstr_cases()
        yield from semi_api_cases()
        yield from placement_cases()
        yield from exhaustive_cases(rng, tier)
        for _ in range(n):
            yield gen_history(rng)

    def search_cases(self, rng, tier, n, seeds):
        for _ in range(n):
            yield gen_history(rng)

    # ---- implementation / model
    def impl(self, case):
        return run_history(case)

    def model_request(self, case):
        return {"norm": case["norm"], "top": case["top"], "init": case.get("init"), "steps": case["steps"],
                "U": case["U"]}

    def model_expected(self, case, impl_res):
        out = [{k: v for k, v in o.items() if k != "_state"} for o in impl_res]
        if case.get("ids"):
            # the model (over the identifiers' names) says WHICH calls are rejected; the exception kind with
            # non-string identifiers (TypeError from ', '.join while formatting the message) is observed only
            for o in out:
                if isinstance(o["r"], dict) and o["r"].get("err") == "TypeError":
                    o["r"] = {"err": "HierarchyError"}
        return out

    # ---- oracle
    def oracle(self, case, res):
        fails = []
        seen = set()

        def mk(step):
            def fail(clause, detail):
                if clause not in seen:
                    seen.add(clause)
                    fails.append({"clause": clause, "detail": repr(detail)[:600], "step": step})
            return fail
        for k, o in enumerate(res):
            fail = mk(k)
            r = o["r"]
            allowed = ("HierarchyError", "TypeError") if case.get("ids") else ("HierarchyError",)
            if isinstance(r, dict) and r.get("err") not in allowed:
                # (non-string identifiers: building the HierarchyError message may itself raise TypeError)
                fail("a call raises something other than HierarchyError", r)
            if "q" not in o:
                continue
            if isinstance(r, dict) and k > 0:
                if strip(o) != strip(res[k - 1]):
                    diff = [key for key in strip(o) if o[key] != res[k - 1][key]]
                    fail("a rejected call changed a query answer", diff)
                if o["_state"] != res[k - 1]["_state"]:
                    diff = [key for key in o["_state"] if o["_state"][key] != res[k - 1]["_state"][key]]
                    fail("a rejected call changed the stored state", diff)
            nodes = {uncps(k) for k, _ in o["_state"]["hier"]}
            stray = [uncps(k) for k, _ in o["_state"]["data"] if uncps(k) not in nodes]
            if stray:
                fail("data is stored for an identifier that is no node", stray)
            check_observation(case, o, fail)
        self.data_oracle(case, res, mk)
        if case["cls"] != "multi":
            nc = normalised_case(case)
            if nc != case:
                res2 = run_history(nc)
                if res2 != res:
                    k = next((i for i, (x, y) in enumerate(zip(res, res2)) if x != y), min(len(res), len(res2)))
                    mk(k)("the same history written in normal-form spellings gives different answers",
                          [key for key in (res[k] if k < len(res) else {}) if k >= len(res2) or res[k][key] != res2[k].get(key)])
        return fails

    def data_oracle(self, case, res, mk):
        """the stored data, tracked naively from the calls alone: an accepted update stores exactly the given
        data (the last entry among those the normaliser identifies), an accepted __setitem__ exactly its value,
        a rejected call nothing; h[u] is that value (None for a node without data) for every spelling u of a
        node, KeyError otherwise; items() pairs every node with the same value; data is kept for nodes only."""
        if not res or "q" not in res[0]:
            return
        nf = nf_of(case["cls"])
        U = [uncps(u) for u in case["U"]]
        D = {}
        init = case.get("init")
        if init is not None and (init.get("sub") is not None or case["cls"] == "semi"):
            # (a constructor called with hierarchy=None does not call update: its data is not looked at)
            for i, v in init.get("data") or []:
                D[nf(uncps(i))] = v
        for k, o in enumerate(res):
            fail = mk(k)
            if k > 0 and o["r"] == "ok":
                st = case["steps"][k - 1]
                if st["k"] == "set":
                    D[nf(uncps(st["id"]))] = st["val"]
                else:
                    for i, v in st.get("data") or []:
                        D[nf(uncps(i))] = v
            for u, qq in zip(U, o["q"]):
                want = {"ok": D.get(nf(u))} if qq["in"] is True else {"err": "KeyError"}
                if qq["get"] != want:
                    fail("h[id] is not the data given by the accepted calls", (u, qq["get"], want))
            if isinstance(o["items"], list):
                for i, d in o["items"]:
                    if d != D.get(uncps(i)):
                        fail("items() does not pair a node with the data given by the accepted calls",
                             (uncps(i), d, D.get(uncps(i))))
            stored = {uncps(i): v for i, v in o["_state"]["data"]}
            if stored != D:
                fail("the stored data is not exactly the data given by the accepted calls", (stored, D))

    def classify(self, case, failure):
        """F01: a rejected batch one of whose entries was insertable leaked a child link.
        F02: an accepted batch had an entry with no parents (second root)."""
        clause = failure.get("clause", "")
        k = failure.get("step")
        if k is None or k < 1 or k > len(case["steps"]):
            return None
        st = case["steps"][k - 1]
        if st["k"] != "update" or not st.get("sub"):
            return None
        if clause in ("a rejected call changed a query answer", "a rejected call changed the stored state") \
                and ("loer" in failure.get("detail", "") or "'q'" in failure.get("detail", "")) \
                and len(st["sub"]) >= 2:
            return "F01"
        if clause == "a node does not descend from the top" and any(not spec_names(p) for _, p in st["sub"]):
            return "F02"
        return None

    # ---- distribution
    def nontrivial_key(self, case, res):
        if not case["steps"] and case.get("init") is None:
            return None
        return super().nontrivial_key(case, res)

    def stats(self, case, res, c):
        def inc(k, d=1):
            c[k] = c.get(k, 0) + d
        inc("class:" + case["cls"])
        if case.get("ids") and res:
            for o in res:
                if isinstance(o.get("r"), dict):
                    inc("nonstr_rejected_with:%s" % o["r"].get("err"))
                elif "q" in o:
                    inc("nonstr_accepted")
        if case.get("via"):
            inc("via_semi:%s:%s" % (case["via"]["which"], "rejected" if res and "q" not in res[0] else "built"))
            for _, pform, _, _ in case["via"]["entries"]:
                inc("via_parents:" + pform)
        inc("steps:%d" % len(case["steps"]))
        inc("universe:%d" % len(case["U"]))
        for t in case.get("tags", []):
            inc("tag:" + t)
        if res is None:
            return
        if len(res) == 1 and "q" not in res[0]:
            inc("ctor:rejected")
            return
        sts = [case.get("init")] + list(case["steps"])
        for k, o in enumerate(res):
            st = sts[k] if k < len(sts) else None
            if k == 0 and st is None:
                continue
            r = o["r"]
            kind = st["k"] if st else "?"
            inc("call:%s:%s" % (kind, "accepted" if r == "ok" else r.get("err")))
            if st and st["k"] == "update" and st.get("data"):
                nfd = nf_of(case["cls"])
                form = "data_only" if not st.get("sub") else "data_with_sub"
                inc("call:update:%s:%s" % (form, "accepted" if r == "ok" else r.get("err")))
                if r != "ok" and k > 0:
                    known = {nfd(uncps(u)) for u, qq in zip(case["U"], res[k - 1]["q"]) if qq["in"] is True}
                    new = {nfd(uncps(i)) for i, _ in st.get("sub") or []}
                    flags = [nfd(uncps(i)) in known or nfd(uncps(i)) in new for i, _ in st["data"]]
                    if False in flags:
                        p = flags.index(False)
                        inc("data_unknown:%s" % ("only" if len(flags) == 1 else "first" if p == 0 else
                                                 "last" if p == len(flags) - 1 else "middle"))
                        if any(nfd(uncps(i)) != uncps(i) for i, _ in st["data"]):
                            inc("data_unknown:with_respelled_keys")
                    else:
                        inc("data_valid_but_batch_rejected")
            if st and st["k"] == "update" and st.get("sub"):
                inc("batch:%d" % len(st["sub"]))
                for _, p in st["sub"]:
                    inc("parents:" + ("str" if "s" in p else "tuple"))
                    inc("nparents:%d" % len(spec_names(p)))
                if r != "ok" and k > 0:
                    # was anything insertable in the first round (work done before the failure)?
                    nf = nf_of(case["cls"])
                    known = {nf(uncps(u)) for u, qq in zip(case["U"], res[k - 1]["q"]) if qq["in"] is True}
                    ins = [i for i, p in st["sub"] if nf(uncps(i)) not in known and spec_names(p)
                           and all(nf(x) in known for x in spec_names(p))]
                    inc("rejected:after_partial_insert" if ins else "rejected:before_any_insert")
        last = res[-1]
        if "q" in last:
            n = last["len"] if isinstance(last["len"], int) else -1
            inc("final_nodes:%s" % (n if n < 8 else "8+"))
            multi = sum(1 for qq in last["q"] if isinstance(qq["par"], dict) and len(qq["par"].get("ok", [])) > 1)
            inc("final_has_multi_parent:%s" % (multi > 0))

    # ---- shrinking: drop calls, then batch entries, then data
    def shrink(self, case, still_fails):
        cur = case
        changed = True
        while changed:
            changed = False
            for i in range(len(cur["steps"]) - 1, -1, -1):
                c2 = dict(cur, steps=cur["steps"][:i] + cur["steps"][i + 1:])
                if still_fails(c2):
                    cur = c2
                    changed = True
                    break
            if changed:
                continue
            for i, st in enumerate(cur["steps"]):
                if st["k"] != "update":
                    continue
                for j in range(len(st.get("sub") or [])):
                    st2 = dict(st, sub=st["sub"][:j] + st["sub"][j + 1:])
                    c2 = dict(cur, steps=cur["steps"][:i] + [st2] + cur["steps"][i + 1:])
                    if still_fails(c2):
                        cur = c2
                        changed = True
                        break
                if changed:
                    break
                if st.get("data"):
                    st2 = dict(st, data=None)
                    c2 = dict(cur, steps=cur["steps"][:i] + [st2] + cur["steps"][i + 1:])
                    if still_fails(c2):
                        cur = c2
                        changed = True
                        break
        return cur


CHECK = C17()
