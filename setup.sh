#!/bin/bash
# Build the Lean library from files on disk (offline) after regenerating the tables from /repo.
# Only the modules of properties claimed in MANIFEST.json are built (plus what they import).
cd "$(dirname "$0")" || exit 2
export PYTHONDONTWRITEBYTECODE=1 PYTHONPATH="/repo${PYTHONPATH:+:$PYTHONPATH}" DELPH_IN_PYDELPHIN_VERIF=1
/venv/bin/python -B -m harness.common.tables --all || exit 2
TARGETS=$(/venv/bin/python -B -c "
import json
m=json.load(open('MANIFEST.json'))
print(' '.join('Verif.%s.Props Verif.%s.Driver' % (c['property_id'], c['property_id']) for c in m['checks']))")
cd lean && lake build $TARGETS 2>&1 | grep -v '^trace' | tail -40
exit ${PIPESTATUS[0]}
