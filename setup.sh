#!/bin/bash
# Build the whole Lean library from files on disk (offline) after regenerating the tables from /repo.
cd "$(dirname "$0")" || exit 2
export PYTHONDONTWRITEBYTECODE=1 PYTHONPATH="/repo${PYTHONPATH:+:$PYTHONPATH}" DELPH_IN_PYDELPHIN_VERIF=1
/venv/bin/python -B -m harness.common.tables --all || exit 2
cd lean && lake build 2>&1 | grep -v '^trace' | tail -40
exit ${PIPESTATUS[0]}
