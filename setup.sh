#!/bin/bash
# Build the Lean library from files on disk (offline) after regenerating the tables from /repo.
# Only the modules of properties claimed in MANIFEST.json are built (plus what they import).
cd "$(dirname "$0")" || exit 2
export PYTHONDONTWRITEBYTECODE=1 PYTHONPATH="/repo${PYTHONPATH:+:$PYTHONPATH}" DELPH_IN_PYDELPHIN_VERIF=1
/venv/bin/python -B -m harness.common.tables --all || exit 2
TARGETS=$(/venv/bin/python -B -c "
import json, importlib
m=json.load(open('MANIFEST.json'))
ts=[]
for c in m['checks']:
    pid=c['property_id']
    chk=importlib.import_module('harness.%s' % pid.lower()).CHECK
    props=chk.props_modules or ['Verif.%s.Props' % pid]
    driver=(chk.driver or 'Verif/%s/Driver.lean' % pid)[:-5].replace('/', '.')
    for t in (chk.build_targets or (props + [driver])):
        if t not in ts: ts.append(t)
print(' '.join(ts))")
[ -n "$TARGETS" ] || exit 2
cd lean && lake build $TARGETS 2>&1 | grep -v '^trace' | tail -40
exit ${PIPESTATUS[0]}
