/-
C04 — the round trip as ONE variable map, part 5: top, handle constraints, index, and the
assembly of `IsoVia` on the fragment `NoHoleSpace`.
-/
import Verif.C04.Iso4

namespace Verif.C04
open Verif.Sem

section Frag
variable {m : MRS} {reps : Reps} {d : DMRS} {m2 : MRS} {chosen : List Var}

theorem label_key (m : MRS) (reps : Reps) (hr : m.representatives = .ok reps) (l : Var)
    (hl : l ∈ m.labels) : ∃ rs, dlookup l reps = some rs := by
  have hk : l ∈ dkeys reps := by
    rw [(Verif.C07.representatives_subset m reps hr).1]
    show l ∈ dkeys m.scopeMap
    rw [mem_scopeMap_keys]
    obtain ⟨e, he, hel⟩ := (mem_labels m l).mp hl
    rw [← preds_map_snd m] at he
    obtain ⟨p, hp, rfl⟩ := List.mem_map.mp he
    exact ⟨p, hp, hel⟩
  exact dlookup_of_mem_keys hk

/-- what the top of `m` becomes. -/
theorem top_cases (sp : NoHoleSpace m reps) (hr : m.representatives = .ok reps)
    (h1 : fromMrs m = .ok d) :
    ((strip m).top = none ∧ d.top = none ∧
      ∀ hc ∈ m.hcons, m.top = some hc.hi → m.hcLast hc.hi = some hc → hc.lo ∉ m.labels) ∨
    (∃ t hc p r rest, m.top = some t ∧ (strip m).top = some t ∧ m.hcLast t = some hc ∧
      hc.lo ∈ m.labels ∧ dlookup hc.lo reps = some (r :: rest) ∧ d.top = some (nidAt p) ∧
      predAt m (nidAt p) = some r ∧ r.2.label = hc.lo) := by
  obtain ⟨t1, t2⟩ := top_shape m sp.hN reps d hr h1
  have hstrip : ∀ t, m.top = some t →
      (strip m).top = if selectsScope m t then some t else none := by
    intro t ht; unfold strip; simp only [ht]
  cases hmt : m.top with
  | none =>
    left
    refine ⟨by unfold strip; simp only [hmt], t1 hmt, ?_⟩
    intro hc _ h; cases h
  | some t =>
    obtain ⟨ts, tl, targ⟩ := sp.topOk t hmt
    cases hlast : m.hcLast t with
    | none =>
      left
      have hsel : selectsScope m t = false := by unfold selectsScope; rw [hlast]
      have hlbl : (m.hcmap t).getD t = t := by unfold MRS.hcmap; rw [hlast]; rfl
      refine ⟨by rw [hstrip t hmt, hsel]; rfl, ?_, ?_⟩
      · rcases t2 t hmt with ⟨_, h⟩ | ⟨r, rest, n, hlook, _, _, hrl⟩
        · exact h
        · exfalso
          rw [hlbl] at hlook hrl
          have := (rep_lookup_member m reps hr _ _ hlook r List.mem_cons_self).1
          exact tl ((mem_labels m t).mpr ⟨r.2, by
            rw [← preds_map_snd m]; exact List.mem_map_of_mem this, hrl⟩)
      · intro hc _ hh hl
        simp only [Option.some.injEq] at hh
        rw [← hh, hlast] at hl; cases hl
    | some hc =>
      have hlbl : (m.hcmap t).getD t = hc.lo := by unfold MRS.hcmap; rw [hlast]; rfl
      by_cases hlo : hc.lo ∈ m.labels
      · right
        have hsel : selectsScope m t = true := by
          unfold selectsScope; rw [hlast]; simpa using hlo
        rcases t2 t hmt with ⟨hnone, _⟩ | ⟨r, rest, n, hlook, hdt, hpred, hrl⟩
        · exfalso
          rw [hlbl] at hnone
          obtain ⟨rs, hrs⟩ := label_key m reps hr hc.lo hlo
          rw [hrs] at hnone; cases hnone
        · obtain ⟨p, hp, _, _⟩ := predAt_some m _ _ hpred
          rw [hlbl] at hlook hrl
          exact ⟨t, hc, p, r, rest, rfl, by rw [hstrip t hmt, hsel]; rfl, hlast, hlo, hlook,
            by rw [hdt, hp], by rw [← hp]; exact hpred, hrl⟩
      · left
        have hsel : selectsScope m t = false := by
          unfold selectsScope; rw [hlast]; simpa using hlo
        refine ⟨by rw [hstrip t hmt, hsel]; rfl, ?_, ?_⟩
        · rcases t2 t hmt with ⟨_, h⟩ | ⟨r, rest, n, hlook, _, _, hrl⟩
          · exact h
          · exfalso
            rw [hlbl] at hlook hrl
            have := (rep_lookup_member m reps hr _ _ hlook r List.mem_cons_self).1
            exact hlo ((mem_labels m hc.lo).mpr ⟨r.2, by
              rw [← preds_map_snd m]; exact List.mem_map_of_mem this, hrl⟩)
        · intro hc' _ hh hl
          simp only [Option.some.injEq] at hh
          rw [← hh, hlast] at hl
          simp only [Option.some.injEq] at hl
          rw [← hl]; exact hlo

/-- the handle constraints of `m2` in the fragment: only the one on the top. -/
theorem m2_hcons_frag (sp : NoHoleSpace m reps) (h1 : fromMrs m = .ok d)
    (h2 : fromDmrs chosen d = .ok m2) :
    ∃ topLbl, m2.hcons = hcTop (topNew d).1 topLbl ∧
      ∀ (j : Nat) (e2 : EP), d.top = some (nidAt j) → m2.rels[j]? = some e2 →
        topLbl = some e2.label := by
  obtain ⟨reps', topLbl, sc, lbl, leqs, idToIv, ns, scs, lo, hi, C⟩ :=
    rtctx m sp.hN sp.hR chosen d m2 h1 h2
  obtain ⟨news, e1, e2', _⟩ := C.spec.hcons
  have hnil : news = [] := by
    rw [List.eq_nil_iff_forall_not_mem]
    intro hc hhc
    obtain ⟨_, _, x, hx, hq, _⟩ := e2' hc hhc
    obtain ⟨l, hl, _, _, a3, _⟩ := C.spec.scMem x hx
    exact no_qeq_justified sp l (C.links_just l hl) (scRel_qeq l _ a3 hq)
  refine ⟨topLbl, by rw [e1, hnil]; simp, ?_⟩
  intro j e2 hdt he2
  have hjin : nidAt j ∈ d.ids := (C.spec.scopes.topSome _ hdt).1
  have hjlt : j < m.rels.length := (mem_fromMrs_ids m sp.hN d h1 j).mp hjin
  obtain ⟨n, e2'', iv, hn, hid, he2'', ps, _⟩ :=
    C.at_pos j m.rels[j] (List.getElem?_eq_getElem hjlt)
  rw [he2] at he2''; cases he2''
  rw [C.spec.scopes.top_eq (List.mem_of_getElem? hn) (by rw [hid]; exact hdt), ps.labelOk]

end Frag

end Verif.C04
