/-
C04 — the round trip as ONE variable map, part 2: the fragment without quantifiers and without
constrained arguments.
-/
import Verif.C04.Iso1
import Verif.C04.PropsRT

namespace Verif.C04
open Verif.Sem

/-- The fragment of the input space on which the isomorphism is proved: no quantifiers and no
argument constrained by a handle constraint (so: no `H` links, no holes); labels and the top are
handles, the top is used nowhere else and its constraint is a qeq; every label-valued argument
selects a scope that has a representative. -/
structure NoHoleSpace (m : MRS) (reps : Reps) : Prop where
  hN : BaseIdsDistinct m
  hR : RolesOk m = true
  hS : IVSorts m = true
  noQuant : ∀ e ∈ m.rels, e.isQuantifier = false
  noConstr : ∀ e ∈ m.rels, ∀ a ∈ e.args, m.hcLast a.2 = none
  noCargRole : ∀ e ∈ m.rels, ∀ a ∈ e.args, a.1 ≠ CONSTANT_ROLE
  labelSort : ∀ e ∈ m.rels, e.label.sort = HANDLE
  topOk : ∀ t, m.top = some t → t.sort = HANDLE ∧ t ∉ m.labels ∧
    ∀ e ∈ m.rels, ∀ a ∈ e.args, a.2 ≠ t
  topQeq : ∀ t hc, m.top = some t → m.hcLast t = some hc → hc.rel = QEQ
  labelArgs : ∀ e ∈ m.rels, ∀ a ∈ e.outArgs none, a.2 ∈ m.labels → argLinked m reps a.2 = true

/-! ### `strip` position by position -/

theorem strip_rels_getElem (m : MRS) (i : Nat) :
    (strip m).rels[i]? = (m.rels[i]?).map (fun e => { e with args := e.args.filter (expressible m e) }) := by
  unfold strip
  simp only [List.getElem?_map]

theorem strip_rel (m : MRS) (i : Nat) (es : EP) (h : (strip m).rels[i]? = some es) :
    ∃ e, m.rels[i]? = some e ∧ es = { e with args := e.args.filter (expressible m e) } := by
  rw [strip_rels_getElem] at h
  cases he : m.rels[i]? with
  | none => rw [he] at h; cases h
  | some e =>
    rw [he] at h
    simp only [Option.map_some, Option.some.injEq] at h
    exact ⟨e, rfl, h.symm⟩

theorem keys_nodup_of_rolesOk (m : MRS) (hR : RolesOk m = true) (e : EP) (he : e ∈ m.rels) :
    (dkeys e.args).Nodup := by
  unfold RolesOk at hR
  rw [List.all_eq_true] at hR
  have := hR e he
  simp only [Bool.and_eq_true, decide_eq_true_eq] at this
  exact this.1

/-- `strip` keeps ARG0. -/
theorem strip_iv (m : MRS) (hR : RolesOk m = true) (e : EP) (he : e ∈ m.rels) :
    EP.iv { e with args := e.args.filter (expressible m e) } = e.iv := by
  unfold EP.iv
  simp only
  cases hl : dlookup INTRINSIC_ROLE e.args with
  | none =>
    rw [dlookup_eq_none_iff] at hl ⊢
    intro hin
    apply hl
    obtain ⟨a, ha, hk⟩ := List.mem_map.mp hin
    exact List.mem_map.mpr ⟨a, (List.mem_filter.mp ha).1, hk⟩
  | some v =>
    have hk := keys_nodup_of_rolesOk m hR e he
    have hsub : (dkeys (e.args.filter (expressible m e))).Nodup := by
      unfold dkeys
      exact List.Nodup.sublist (List.Sublist.map _ List.filter_sublist) hk
    apply dlookup_of_mem_nodup hsub
    rw [List.mem_filter]
    exact ⟨dlookup_mem hl, by unfold expressible; simp⟩

end Verif.C04
