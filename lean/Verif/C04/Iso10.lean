/-
C04 — the round trip as ONE variable map, general case, part 4: arguments, forward and backward.
-/
import Verif.C04.Iso9

namespace Verif.C04
open Verif.Sem

theorem ivToNid_none_of (m : MRS) (v : Var)
    (h : ∀ e ∈ m.rels, e.isQuantifier = false → e.iv ≠ some v) : ivToNid m v = none := by
  cases hn : ivToNid m v with
  | none => rfl
  | some n =>
    obtain ⟨j, e, c1, c2, c3, _⟩ := ivToNid_some m v n hn
    exact absurd c3 (h e (List.mem_of_getElem? c1) c2)

namespace RTCtx
variable {m : MRS} {d : DMRS} {m2 : MRS} {reps : Reps} {topLbl : Option Var}
  {sc : List (Var × List Node)} {lbl : Node → Var} {leqs : List (Var × Var)}
  {idToIv : List (Int × Var)} {ns : List (Int × Role × Int)}
  {scs : List (Int × Role × String × Var)} {lo hi : Nat}

/-- a label is constrained by nothing: it selects its scope directly. -/
theorem label_target (sp : InSpace m reps d) (v : Var) (hv : v ∈ m.labels) :
    scopalTarget m v = (v, HEQ_POST) := by
  unfold scopalTarget
  cases hl : m.hcLast v with
  | none => rfl
  | some hc =>
    obtain ⟨h1, h2⟩ := hcLast_some m v hc hl
    exact absurd (h2 ▸ hv) (sp.hiNotLabel hc h1)

/-- forward: an argument that `strip` keeps comes back, with a corresponding value. -/
theorem arg_forwardG (C : RTCtx m d m2 reps topLbl sc lbl leqs idToIv ns scs lo hi)
    (sp : InSpace m reps d) (chosen : List Var) (h2 : fromDmrs chosen d = .ok m2)
    (i : Nat) (e e2 : EP) (he : m.rels[i]? = some e) (he2 : m2.rels[i]? = some e2)
    (r : Role) (v : Var) (ha : (r, v) ∈ e.args) (hx : expressible m e (r, v) = true) :
    ∃ w, (r, w) ∈ e2.args ∧ (IsIvPair m m2 v w ∨ IsLbPair m m2 v w ∨ IsHolePair m m2 v w) := by
  have h1 := C.hd
  have hem := List.mem_of_getElem? he
  obtain ⟨n, e2', iv, hn, hid, he2', ps, he2iv⟩ := C.at_pos i e he
  rw [he2] at he2'; cases he2'
  by_cases hr0 : r = INTRINSIC_ROLE
  · subst hr0
    have hiv : e.iv = some v := by
      unfold EP.iv
      exact dlookup_of_mem_nodup (keys_nodup_of_rolesOk m sp.hR e hem) ha
    obtain ⟨c1, _, _⟩ := ps.complete (C.rf n.id)
    exact ⟨iv, c1, Or.inl ⟨i, e, e2, he, he2, hiv, he2iv⟩⟩
  · have hout : (r, v) ∈ e.outArgs none := mem_outArgs_of e _ ha hr0 (sp.noCarg e hem _ ha)
    by_cases hiv : (ivToNid m v).isSome = true
    · -- the intrinsic variable of a non-quantifier
      obtain ⟨nn, hnn⟩ := Option.isSome_iff_exists.mp hiv
      obtain ⟨j, ej, c1, c2, c3, _⟩ := ivToNid_some m v nn hnn
      obtain ⟨_, ej2, _, _, _, hej2, _, _⟩ := C.at_pos j ej c1
      obtain ⟨v2, hv2, hm⟩ := roundtrip_nonscopal_args m sp.hN sp.hR sp.hS chosen d m2 h1 h2
        i j e ej e2 ej2 he c1 he2 hej2 r v hout c2 c3
      exact ⟨v2, hm, Or.inl ⟨j, ej, ej2, c1, hej2, c3, hv2⟩⟩
    · have hniv : ivToNid m v = none := by
        cases h : ivToNid m v with
        | none => rfl
        | some x => rw [h] at hiv; simp at hiv
      by_cases hlab : v ∈ m.labels
      · -- a label
        have hlinked := sp.linked e hem (r, v) hout (Or.inl hlab)
        unfold argLinked at hlinked
        rw [hniv] at hlinked
        simp only [Option.isSome_none, Bool.false_or] at hlinked
        have hst := label_target sp v hlab
        rw [hst] at hlinked
        cases hlk : dlookup v reps with
        | none => rw [hlk] at hlinked; cases hlinked
        | some rs =>
          cases rs with
          | nil => rw [hlk] at hlinked; cases hlinked
          | cons tgt rest =>
            obtain ⟨htm, htl⟩ := rep_lookup_member m reps C.hreps _ _ hlk tgt List.mem_cons_self
            obtain ⟨nid, _, hn2⟩ := idToNid_spec m sp.hN tgt htm
            obtain ⟨p, hp1, hp2, _⟩ := predAt_some m _ _ hn2
            have hpt : predAt m (nidAt p) = some tgt := by rw [← hp1]; exact hn2
            have hrelp := preds_snd m p tgt hp2
            obtain ⟨_, ep2, _, _, _, hep2, _, _⟩ := C.at_pos p tgt.2 hrelp
            have := (roundtrip_scopal_args m sp.hN sp.hR chosen d m2 h1 h2 reps C.hreps i p e e2 ep2
              he he2 hep2 r v hout hniv tgt rest (by rw [hst]; exact hlk) hpt).1 (by rw [hst])
            exact ⟨ep2.label, this, Or.inr (Or.inl ⟨p, tgt.2, ep2, hrelp, hep2, htl, rfl⟩)⟩
      · -- a hole
        unfold expressible at hx
        simp only [Bool.or_eq_true, beq_iff_eq, Bool.and_eq_true, decide_eq_true_eq] at hx
        have hcase : selectsScope m v = true ∨ (r = BODY_ROLE ∧ e.isQuantifier = true) := by
          rcases hx with (((h0 | h0) | h0) | h0) | h0
          · exact absurd h0 hr0
          · exact absurd h0 hiv
          · exact absurd h0 hlab
          · exact Or.inl h0
          · exact Or.inr h0
        have hhole : isHoleArg m e (r, v) = true :=
          (isHoleArg_iff m e (r, v)).mpr ⟨hr0, hniv, hlab, hcase⟩
        have fin : ∀ w, (r, w) ∈ e2.args →
            ∃ w, (r, w) ∈ e2.args ∧
              (IsIvPair m m2 v w ∨ IsLbPair m m2 v w ∨ IsHolePair m m2 v w) := by
          intro w hw
          exact ⟨w, hw, Or.inr (Or.inr ⟨i, e, e2, (r, v), he, he2, ha, hhole, rfl,
            dlookup_of_mem_nodup ps.keys hw⟩)⟩
        by_cases hsel : selectsScope m v = true
        · have hlinked := sp.linked e hem (r, v) hout (Or.inr hsel)
          unfold argLinked at hlinked
          rw [hniv] at hlinked
          simp only [Option.isSome_none, Bool.false_or] at hlinked
          have hst : (scopalTarget m v).2 = H_POST := by
            unfold selectsScope at hsel
            unfold scopalTarget
            cases hl : m.hcLast v with
            | none => rw [hl] at hsel; cases hsel
            | some hc => rfl
          cases hlk : dlookup (scopalTarget m v).1 reps with
          | none => rw [hlk] at hlinked; cases hlinked
          | some rs =>
            cases rs with
            | nil => rw [hlk] at hlinked; cases hlinked
            | cons tgt rest =>
              obtain ⟨htm, _⟩ := rep_lookup_member m reps C.hreps _ _ hlk tgt List.mem_cons_self
              obtain ⟨nid, _, hn2⟩ := idToNid_spec m sp.hN tgt htm
              obtain ⟨p, hp1, hp2, _⟩ := predAt_some m _ _ hn2
              have hpt : predAt m (nidAt p) = some tgt := by rw [← hp1]; exact hn2
              obtain ⟨_, ep2, _, _, _, hep2, _, _⟩ := C.at_pos p tgt.2 (preds_snd m p tgt hp2)
              obtain ⟨hole, hm, _⟩ := (roundtrip_scopal_args m sp.hN sp.hR chosen d m2 h1 h2 reps
                C.hreps i p e e2 ep2 he he2 hep2 r v hout hniv tgt rest hlk hpt).2 hst
              exact fin hole hm
        · rcases hcase with h0 | ⟨hb, hq⟩
          · exact absurd h0 hsel
          · obtain ⟨l, hl, hs, hrl⟩ := C.rstr_link_of_quant sp.hQ i e he hq
            have hdq : dIsQuantifier d n.id = true := by
              unfold dIsQuantifier
              rw [List.any_eq_true]
              exact ⟨l, hl, by simp [hs, hid, hrl]⟩
            obtain ⟨w, hw⟩ := (RTSpec.holes C.spec).2.2 i n e2 hn he2 hdq
            exact fin w (by rw [hb]; exact hw)

/-- backward: every argument of the rebuilt predication comes from one that `strip` keeps. -/
theorem arg_backwardG (C : RTCtx m d m2 reps topLbl sc lbl leqs idToIv ns scs lo hi)
    (sp : InSpace m reps d) (chosen : List Var) (h2 : fromDmrs chosen d = .ok m2)
    (i : Nat) (e e2 : EP) (he : m.rels[i]? = some e) (he2 : m2.rels[i]? = some e2)
    (r : Role) (w : Var) (ha : (r, w) ∈ e2.args) :
    ∃ v, (r, v) ∈ e.args ∧ expressible m e (r, v) = true ∧
      (IsIvPair m m2 v w ∨ IsLbPair m m2 v w ∨ IsHolePair m m2 v w) := by
  have h1 := C.hd
  have hem := List.mem_of_getElem? he
  obtain ⟨n, e2', iv, hn, hid, he2', ps, he2iv⟩ := C.at_pos i e he
  rw [he2] at he2'; cases he2'
  have hlook : dlookup r e2.args = some w := dlookup_of_mem_nodup ps.keys ha
  cases ps.origin (r, w) ha with
  | arg0 h =>
    simp only [Prod.mk.injEq] at h
    obtain ⟨rfl, rfl⟩ := h
    -- the predication has an ARG0
    have hiv : ∃ v, e.iv = some v := by
      cases hq : e.isQuantifier with
      | false =>
        have hS := sp.hS
        unfold IVSorts at hS
        rw [List.all_eq_true] at hS
        have := hS e hem
        rw [hq] at this
        cases hiv : e.iv with
        | none => rw [hiv] at this; simp at this
        | some v => exact ⟨v, rfl⟩
      | true =>
        obtain ⟨l, hl, hs, hrl⟩ := C.rstr_link_of_quant sp.hQ i e he hq
        obtain ⟨_, p, _, _, ht, _, _, _⟩ := justified_ends m reps l (C.links_just l hl)
        obtain ⟨_, v, _, _, c3, _⟩ := sp.head l hl hrl i p hs ht e he
        exact ⟨v, c3⟩
    obtain ⟨v, hiv⟩ := hiv
    refine ⟨v, ?_, by unfold expressible; simp, Or.inl ⟨i, e, e2, he, he2, hiv, he2iv⟩⟩
    unfold EP.iv at hiv
    exact dlookup_mem hiv
  | ns x hx hidx hrole hv =>
    obtain ⟨l, hl, rfl, hnsl⟩ := C.spec.nsMem x hx
    obtain ⟨i0, j0, e0, ej, v, a1, a2, a3, a4, a5, a6, a7⟩ := C.nsl_ends l hl hnsl
    have : i0 = i := nidAt_inj _ _ (by rw [← a1]; simp only at hidx; rw [hidx, hid])
    subst this
    rw [he] at a3; cases a3
    obtain ⟨ej2, iv2, b1, b2, _, _, b5⟩ := C.iv2_facts j0 ej a4 a6 v a7
    have hw : w = iv2 := by
      simp only at hv
      rw [a2, b5] at hv
      simpa using hv.symm
    simp only at hrole
    subst hrole
    refine ⟨v, (mem_outArgs e _ a5).1, ?_, Or.inl ⟨j0, ej, ej2, a4, b1, a7, by rw [hw]; exact b2⟩⟩
    obtain ⟨nn, hnn⟩ := ivToNid_isSome m v ej (List.mem_of_getElem? a4) a6 a7
    unfold expressible; simp [hnn]
  | lheq x hx hidx hrole hrel hv =>
    obtain ⟨l, hl, a1, a2, a3, a4⟩ := C.spec.scMem x hx
    have hpost := scRel_lheq l _ a3 hrel
    have hne : H_POST ≠ HEQ_POST := by decide
    cases C.links_just l hl with
    | nonscopal src tgt w' hs' ht harg htq hiv hp =>
      exfalso; rw [hpost] at hp; split at hp <;> revert hp <;> decide
    | mod src tgt lb' rest hs' ht hrep hsrc hrl hp =>
      exfalso; rw [hpost] at hp; revert hp; decide
    | qeq src tgt v' hc rest hs' ht harg hniv hhc hhi hrep hp =>
      exfalso; rw [hpost] at hp; exact hne hp.symm
    | lheq src tgt v rest hs' ht harg hniv hnohc hrep hp =>
      obtain ⟨i0, q1, q2, _⟩ := predAt_some m _ _ hs'
      obtain ⟨p, r1, r2, _⟩ := predAt_some m _ _ ht
      have : i0 = i := nidAt_inj _ _ (by rw [← q1, ← a1, hidx, hid])
      subst this
      have hsrc := preds_snd m i0 src q2
      rw [he] at hsrc
      simp only [Option.some.injEq] at hsrc
      have htgt := preds_snd m p tgt r2
      obtain ⟨np, ep2, ivp, hnp, hidp, hep2, psp, _⟩ := C.at_pos p tgt.2 htgt
      have hwl : w = ep2.label := by
        have := psp.labelOk
        rw [hidp, ← r1, a4] at this
        simp only at hv
        rw [hv]; simpa using this
      have htl := (rep_lookup_member m reps C.hreps _ _ hrep tgt List.mem_cons_self).2
      simp only at hrole
      refine ⟨v, ?_, ?_, Or.inr (Or.inl ⟨p, tgt.2, ep2, htgt, hep2, htl, hwl.symm⟩)⟩
      · rw [hrole, a2, hsrc]; exact (mem_outArgs src.2 _ harg).1
      · unfold expressible
        have : v ∈ m.labels := (mem_labels m v).mpr ⟨tgt.2, List.mem_of_getElem? htgt, htl⟩
        simp [this]
  | qeq x hx hidx hrole hrel hnew hhc =>
    obtain ⟨l, hl, a1, a2, a3, a4⟩ := C.spec.scMem x hx
    have hpost := scRel_qeq l _ a3 hrel
    have hne : H_POST ≠ HEQ_POST := by decide
    cases C.links_just l hl with
    | nonscopal src tgt w' hs' ht harg htq hiv hp =>
      exfalso; rw [hpost] at hp; split at hp <;> revert hp <;> decide
    | mod src tgt lb' rest hs' ht hrep hsrc hrl hp =>
      exfalso; rw [hpost] at hp; revert hp; decide
    | lheq src tgt v' rest hs' ht harg hniv hnohc hrep hp =>
      exfalso; rw [hpost] at hp; exact hne hp
    | qeq src tgt v hc rest hs' ht harg hniv hhc' hhi hrep hp =>
      obtain ⟨i0, q1, q2, _⟩ := predAt_some m _ _ hs'
      have : i0 = i := nidAt_inj _ _ (by rw [← q1, ← a1, hidx, hid])
      subst this
      have hsrc := preds_snd m i0 src q2
      rw [he] at hsrc
      simp only [Option.some.injEq] at hsrc
      simp only at hrole
      have hargs : (r, v) ∈ e.args := by
        rw [hrole, a2, hsrc]; exact (mem_outArgs src.2 _ harg).1
      have hr0 : r ≠ INTRINSIC_ROLE := by
        rw [hrole, a2]; exact (mem_outArgs src.2 _ harg).2.1
      have hnivm := ivToNid_none_of m v hniv
      have hnl : v ∉ m.labels := by rw [← hhi]; exact sp.hiNotLabel hc hhc'
      have htl := (rep_lookup_member m reps C.hreps _ _ hrep tgt List.mem_cons_self)
      have hsel : selectsScope m v = true := by
        unfold selectsScope
        rw [← hhi, sp.hcLast_of_mem hc hhc']
        have : hc.lo ∈ m.labels := (mem_labels m hc.lo).mpr ⟨tgt.2, by
          rw [← preds_map_snd m]; exact List.mem_map_of_mem htl.1, htl.2⟩
        simpa using this
      have hhole : isHoleArg m e (r, v) = true :=
        (isHoleArg_iff m e (r, v)).mpr ⟨hr0, hnivm, hnl, Or.inl hsel⟩
      refine ⟨v, hargs, ?_, Or.inr (Or.inr ⟨i0, e, e2, (r, v), he, he2, hargs, hhole, rfl, hlook⟩)⟩
      unfold expressible; simp [hsel]
  | body hrole hq hnew hfree =>
    simp only at hrole
    subst hrole
    -- `e` is a quantifier and has a BODY
    unfold dIsQuantifier at hq
    rw [List.any_eq_true] at hq
    obtain ⟨l, hl, hc⟩ := hq
    simp only [Bool.and_eq_true, decide_eq_true_eq] at hc
    have hqe := rstr_link_quantifier m reps l (C.links_just l hl) hc.2 i e (by rw [hc.1, hid]) he
    obtain ⟨v, hv⟩ := sp.body e hem hqe
    have hout : (BODY_ROLE, v) ∈ e.outArgs none :=
      mem_outArgs_of e _ hv (show BODY_ROLE ≠ INTRINSIC_ROLE by decide)
        (show BODY_ROLE ≠ CONSTANT_ROLE by decide)
    have hw2 : ∀ w', (BODY_ROLE, w') ∈ e2.args → w' = w := by
      intro w' hw'
      have := dlookup_of_mem_nodup ps.keys hw'
      rw [hlook] at this
      simpa using this.symm
    -- the BODY value produced no link: it is no intrinsic variable, no label
    have hniv : ivToNid m v = none := by
      cases hn' : ivToNid m v with
      | none => rfl
      | some nn =>
        exfalso
        obtain ⟨j, ej, c1, c2, c3, _⟩ := ivToNid_some m v nn hn'
        obtain ⟨_, ej2, _, _, _, hej2, _, _⟩ := C.at_pos j ej c1
        obtain ⟨v2, hv2, hm⟩ := roundtrip_nonscopal_args m sp.hN sp.hR sp.hS chosen d m2 h1 h2
          i j e ej e2 ej2 he c1 he2 hej2 BODY_ROLE v hout c2 c3
        have := hw2 v2 hm
        subst this
        have hqj2 : ej2.isQuantifier = false := by
          obtain ⟨_, _, b1, _, b3, _⟩ := C.iv2_facts j ej c1 c2 v c3
          rw [hej2] at b1
          simp only [Option.some.injEq] at b1
          rw [b1]; exact b3
        exact (C.iv_sort sp.hS j ej2 hej2 hqj2 v2 hv2).1 hnew.1
    have hnl : v ∉ m.labels := by
      intro hlab
      have hlinked := sp.linked e hem (BODY_ROLE, v) hout (Or.inl hlab)
      unfold argLinked at hlinked
      rw [hniv] at hlinked
      simp only [Option.isSome_none, Bool.false_or] at hlinked
      have hst := label_target sp v hlab
      rw [hst] at hlinked
      cases hlk : dlookup v reps with
      | none => rw [hlk] at hlinked; cases hlinked
      | some rs =>
        cases rs with
        | nil => rw [hlk] at hlinked; cases hlinked
        | cons tgt rest =>
          obtain ⟨htm, _⟩ := rep_lookup_member m reps C.hreps _ _ hlk tgt List.mem_cons_self
          obtain ⟨nid, _, hn2⟩ := idToNid_spec m sp.hN tgt htm
          obtain ⟨p, hp1, hp2, _⟩ := predAt_some m _ _ hn2
          have hpt : predAt m (nidAt p) = some tgt := by rw [← hp1]; exact hn2
          obtain ⟨np, ep2, _, hnp, _, hep2, psp, _⟩ := C.at_pos p tgt.2 (preds_snd m p tgt hp2)
          have := (roundtrip_scopal_args m sp.hN sp.hR chosen d m2 h1 h2 reps C.hreps i p e e2 ep2
            he he2 hep2 BODY_ROLE v hout hniv tgt rest (by rw [hst]; exact hlk) hpt).1 (by rw [hst])
          have hwl := hw2 _ this
          have := (C.label_props (List.mem_of_getElem? hnp) psp).1
          rw [hwl] at this
          exact hnew.2.2.2 this
    have hhole : isHoleArg m e (BODY_ROLE, v) = true :=
      (isHoleArg_iff m e (BODY_ROLE, v)).mpr
        ⟨show BODY_ROLE ≠ INTRINSIC_ROLE by decide, hniv, hnl, Or.inr ⟨rfl, hqe⟩⟩
    refine ⟨v, hv, ?_, Or.inr (Or.inr ⟨i, e, e2, (BODY_ROLE, v), he, he2, hv, hhole, rfl, hlook⟩)⟩
    unfold expressible; simp [hqe]

end RTCtx

end Verif.C04
