/-
C04 — model of `dmrs.from_mrs` (delphin/dmrs/_operations.py) and `mrs.from_dmrs`
(delphin/mrs/_operations.py), over the shared structures of `Verif.Common.Sem`.

Conventions (in addition to those of Sem.lean):
* Positional model: the predication at position `i` of `m.rels` becomes node
  `10000 + i`.  The code goes through dictionaries keyed by EP id
  (`id_to_nid`, `m.arguments()`, `m[src]`); both agree when the ids are pairwise
  distinct (`MRS.idsDistinct`, guaranteed by `_uniquify_ids` unless an ARG0 has the
  sort `_`).  The driver answers `unmodelled` otherwise.
* `iv_to_nid = {ep.iv: nid for non-quantifier ep}` and `m[tgt]` (`_pidx`) are
  dictionaries built by comprehension: the LAST entry for a key wins.  This is
  modelled (`ivToNid`, `epById`), no uniqueness of intrinsic variables is assumed.
* `DMRS.__init__` drops links whose start is the pseudo node `0`; every link made by
  `from_mrs` starts at a node id ≥ 10000, so the normalisation is the identity here.
* `scope.conjoin` (inside `DMRS.scopes`) takes "the first element of a Python set" as
  the label of a conjoined scope.  `fromDmrs` therefore takes the list `chosen` of
  labels the implementation picked (read off its result by the harness); a scope
  none of whose labels is in `chosen` keeps the model's own choice.  Theorems hold
  for every `chosen`.
* warnings (`DMRSWarning`) are not part of the observation.
-/
import Verif.Common.Sem

namespace Verif.C04
open Verif.Sem

inductive Err where
  | keyError
  | indexError
  | valueError
  | unmodelled    -- a DMRS link ends at a node that does not exist (the code would put an `int` where a variable belongs)
  | fuel
deriving DecidableEq, Repr

def liftErr : Sem.Err → Err
  | .keyError => .keyError
  | .valueError => .valueError
  | .fuel => .fuel

/-- `[f(x) for x in xs]` where `f` may raise: the first error wins. -/
def mapE {α β ε : Type} (f : α → Except ε β) : List α → Except ε (List β)
  | [] => .ok []
  | x :: xs =>
    match f x with
    | .error e => .error e
    | .ok y =>
      match mapE f xs with
      | .error e => .error e
      | .ok ys => .ok (y :: ys)

/-! ## `dmrs.from_mrs` -/

def FIRST_NODE_ID : Int := 10000
def NEQ_POST : String := "NEQ"
def BARE_EQ_ROLE : String := "MOD"
def UNSPECIFIC : String := "u"

def nidAt (i : Nat) : Int := FIRST_NODE_ID + (i : Int)

/-- `id_to_nid.get(id)` (`{ep.id: i for i, ep in enumerate(m.rels, 10000)}`) -/
def idToNid (m : MRS) (id : Var) : Option Int :=
  if id ∈ m.ids then some (nidAt (m.ids.idxOf id)) else none

/-- the items of `iv_to_nid` in insertion order (key `none` = EP without ARG0). -/
def ivEntries (m : MRS) : List (Option Var × Int) :=
  (m.rels.zipIdx.filter (fun ei => !ei.1.isQuantifier)).map (fun ei => (ei.1.iv, nidAt ei.2))

/-- `iv_to_nid.get(v)`: the last non-quantifier predication whose ARG0 is `v`. -/
def ivToNid (m : MRS) (v : Var) : Option Int :=
  ((ivEntries m).reverse.find? (fun e => e.1 = some v)).map (·.2)

/-- `m[id]` (`_pidx.get(id)`): the last predication with that id. -/
def epById (m : MRS) (id : Var) : Option EP :=
  (m.preds.reverse.find? (fun p => p.1 = id)).map (·.2)

abbrev Reps := List (Var × List Pred)

/-- `_mrs_get_top` -/
def getTop (m : MRS) (reps : Reps) : Except Err (Option Int) :=
  match m.top with
  | none => .ok none
  | some t =>
    let lbl := (m.hcmap t).getD t
    match dlookup lbl reps with
    | none => .ok none                      -- warning 'unusable TOP'
    | some [] => .error .indexError         -- reps[lbl][0]
    | some (r :: _) =>
      match idToNid m r.1 with
      | some n => .ok (some n)
      | none => .error .keyError

/-- `index = iv_to_nid[m.index] if m.index and m.index in iv_to_nid else None` -/
def getIndex (m : MRS) : Option Int := m.index.bind (ivToNid m)

/-- one iteration of `_mrs_to_nodes` (`m.properties(iv)` looks the EP up by id `iv`
and takes the properties of ITS intrinsic variable). -/
def nodeOf (m : MRS) (i : Nat) (e : EP) : Except Err Node :=
  let mk := fun (ty : Option String) (ps : Props) =>
    ({ id := nidAt i, predicate := e.predicate, type := ty, properties := ps, carg := e.carg,
       lnk := e.lnk, surface := e.surface, base := e.base } : Node)
  if e.isQuantifier then .ok (mk none [])
  else match e.iv with
    | none => .ok (mk (some UNSPECIFIC) [])          -- warning 'missing intrinsic variable'
    | some v =>
      match epById m v with
      | none => .error .keyError
      | some e' =>
        match e'.iv with
        | none => .error .keyError
        | some v' => .ok (mk (some v.sort) (m.props v'))

def mrsToNodes (m : MRS) : Except Err (List Node) :=
  mapE (fun ei : EP × Nat => nodeOf m ei.2 ei.1) m.rels.zipIdx

/-- the label an argument selects and the post it gets when it is not an intrinsic
variable: through the (last) handle constraint on it, else the value itself. -/
def scopalTarget (m : MRS) (v : Var) : Var × String :=
  match m.hcLast v with
  | some hc => (hc.lo, H_POST)
  | none => (v, HEQ_POST)

/-- the body of the inner loop of `_mrs_to_links`: the link for one (role, value) of
the predication at node `start`, `none` for `continue`. -/
def argLink (m : MRS) (reps : Reps) (start : Int) (src : EP) (a : Role × Var) :
    Except Err (Option Link) :=
  match ivToNid m a.2 with
  | some stop =>
    match epById m a.2 with
    | none => .error .keyError
    | some tgtEp =>
      .ok (some ⟨start, stop, a.1, if src.label = tgtEp.label then EQ_POST else NEQ_POST⟩)
  | none =>
    let lp := scopalTarget m a.2
    match dlookup lp.1 reps with
    | some (r :: _) =>
      match idToNid m r.1 with
      | some stop => .ok (some ⟨start, stop, a.1, lp.2⟩)
      | none => .error .keyError
    | _ => .ok none

/-- all argument links of the predication at position `i`. -/
def argLinksOf (m : MRS) (reps : Reps) (ei : EP × Nat) : Except Err (List (Option Link)) :=
  mapE (argLink m reps (nidAt ei.2) ei.1) (ei.1.outArgs none)

/-- the MOD/EQ links of one scope: from every further representative to the first. -/
def modLinksOf (m : MRS) (rs : List Pred) : Except Err (List Link) :=
  match rs with
  | r :: s :: rest =>
    match idToNid m r.1 with
    | none => .error .keyError
    | some stop =>
      mapE (fun p : Pred => match idToNid m p.1 with
        | some start => .ok (⟨start, stop, BARE_EQ_ROLE, EQ_POST⟩ : Link)
        | none => .error .keyError) (s :: rest)
  | _ => .ok []

/-- `_mrs_to_links` -/
def mrsToLinks (m : MRS) (reps : Reps) : Except Err (List Link) :=
  match mapE (argLinksOf m reps) m.rels.zipIdx with
  | .error e => .error e
  | .ok argls =>
    match mapE (fun s : Var × List Pred => modLinksOf m s.2) reps with
    | .error e => .error e
    | .ok modls => .ok ((argls.flatten.filterMap id) ++ modls.flatten)

/-- `dmrs.from_mrs(m)` given the representative map. -/
def fromMrsWith (m : MRS) (reps : Reps) : Except Err DMRS :=
  match getTop m reps with
  | .error e => .error e
  | .ok top =>
    match mrsToNodes m with
    | .error e => .error e
    | .ok nodes =>
      match mrsToLinks m reps with
      | .error e => .error e
      | .ok links => .ok { top := top, index := getIndex m, nodes := nodes, links := links }

/-- `dmrs.from_mrs(m)` -/
def fromMrs (m : MRS) : Except Err DMRS :=
  match m.representatives with
  | .error e => .error (liftErr e)
  | .ok reps => fromMrsWith m reps

/-! ## `variable.VariableFactory` -/

structure VFac where
  vid : Nat
  index : List Nat            -- keys of `vfac.index`
  store : List (Var × Props)  -- `vfac.store`
deriving Repr

/-- `while vid in index: vid += 1` (at most `index.length` iterations) -/
def nextFree (index : List Nat) : Nat → Nat → Nat
  | 0, v => v
  | fuel + 1, v => if v ∈ index then nextFree index fuel (v + 1) else v

/-- `vfac.new(type, properties)` -/
def VFac.new (f : VFac) (type : Option String) (props : Props) : Var × VFac :=
  let vid := nextFree f.index (f.index.length + 1) f.vid
  let v : Var := ⟨type.getD UNSPECIFIC, vid⟩
  (v, { vid := vid + 1, index := vid :: f.index, store := dset v props f.store })

/-! ## `mrs.from_dmrs` -/

def BODY_ROLE : String := "BODY"
def HANDLE : String := "h"

/-- the label the implementation chose for a conjoined scope. -/
def relabel (chosen : List Var) (lblOf : Int → Option Var) (s : Var × List Node) :
    Var × List Node :=
  match (s.2.filterMap (fun n => lblOf n.id)).find? (fun l => l ∈ chosen) with
  | some l => (l, s.2)
  | none => s

/-- `d.scopes()` with the implementation's choice of labels. -/
def scopesCh (chosen : List Var) (d : DMRS) :
    Except Err (Option Var × List (Var × List Node)) :=
  match d.scopes with
  | .error e => .error (liftErr e)
  | .ok r =>
    let sc := r.2.map (relabel chosen (fun i => dlookup i d.idToLbl))
    let top := match d.top with
      | none => none
      | some t => (sc.find? (fun s => s.2.any (fun n => n.id = t))).map (·.1)
    .ok (top, sc)

def nodeById (d : DMRS) (i : Int) : Option Node := d.nodes.reverse.find? (fun n => n.id = i)

/-- `d.arguments(types='xeipu')` as (start, role, end) triples in link order. -/
def nsArgsD (d : DMRS) : Except Err (List (Int × Role × Int)) :=
  match mapE (fun l : Link =>
      if l.role = BARE_EQ_ROLE then .ok none
      else if l.post = H_POST ∨ l.post = HEQ_POST then .ok none
      else match nodeById d l.stop with
        | none => .error Err.keyError
        | some n =>
          match n.type with
          | none => .ok none
          | some t =>
            if !isInfix t.toList "xeipu".toList then .ok none
            else if l.start ∈ d.ids then .ok (some (l.start, l.role, l.stop))
            else .error Err.keyError) d.links with
  | .error e => .error e
  | .ok xs => .ok (xs.filterMap id)

/-- `id_to_lbl` of `scopal_arguments` / `_dmrs_build_maps` -/
def lblOfNode (sc : List (Var × List Node)) (i : Int) : Option Var :=
  (sc.reverse.find? (fun s => s.2.any (fun n => n.id = i))).map (·.1)

/-- `d.scopal_arguments(scopes=scopes)` as (start, role, relation, label) in link order. -/
def scArgsD (d : DMRS) (sc : List (Var × List Node)) :
    Except Err (List (Int × Role × String × Var)) :=
  match mapE (fun l : Link =>
      let rel : Option String :=
        if l.post = HEQ_POST then some LHEQ else if l.post = H_POST then some QEQ else none
      match rel with
      | none => .ok none
      | some r =>
        match lblOfNode sc l.stop with
        | none => .error Err.unmodelled
        | some lbl =>
          if l.start ∈ d.ids then .ok (some (l.start, l.role, r, lbl)) else .error Err.keyError)
      d.links with
  | .error e => .error e
  | .ok xs => .ok (xs.filterMap id)

/-- `d.quantification_pairs()` reduced to what `_dmrs_build_maps` uses: the set of
quantifier ids and `qmap` (target id ↦ quantifier id, last RSTR link wins). -/
def quantStarts (d : DMRS) : List Int :=
  (d.links.filter (fun l => l.role = RESTRICTION_ROLE)).map (·.start)

def qmapD (d : DMRS) : Except Err (List (Int × Int)) :=
  (d.links.filter (fun l => l.role = RESTRICTION_ROLE)).foldlM (fun acc l =>
    if l.start ∈ d.ids then .ok (dset l.stop l.start acc) else .error Err.keyError) []

/-- one iteration of the loop over `d.quantification_pairs()` in `_dmrs_build_maps`. -/
def ivStep (d : DMRS) (qmap : List (Int × Int)) (st : List (Int × Var) × VFac) (n : Node) :
    List (Int × Var) × VFac :=
  if n.id ∈ quantStarts d then st
  else
    let r := st.2.new n.type n.properties
    let m1 := dset n.id r.1 st.1
    (match dlookup n.id qmap with
      | some q => dset q r.1 m1
      | none => m1, r.2)

/-- the loop over `d.quantification_pairs()` in `_dmrs_build_maps`. -/
def buildIvs (d : DMRS) (qmap : List (Int × Int)) (vf : VFac) : List (Int × Var) × VFac :=
  d.nodes.foldl (ivStep d qmap) ([], vf)

structure BuildSt where
  vf : VFac
  hcons : List HCons
  rels : List EP

def dIsQuantifier (d : DMRS) (i : Int) : Bool :=
  d.links.any (fun l => l.start = i && l.role = RESTRICTION_ROLE)

/-- `for role, tgt in ns_args[id]: args[role] = id_to_iv[tgt]` (one step) -/
def nsStep (idToIv : List (Int × Var)) (args : List (Role × Var)) (a : Int × Role × Int) :
    Except Err (List (Role × Var)) :=
  match dlookup a.2.2 idToIv with
  | some v => .ok (dset a.2.1 v args)
  | none => .error .keyError

/-- `for role, relation, tgt_label in sc_args[id]: …` (one step) -/
def scStep (acc : List (Role × Var) × VFac × List HCons) (a : Int × Role × String × Var) :
    Except Err (List (Role × Var) × VFac × List HCons) :=
  if a.2.2.1 = LHEQ then .ok (dset a.2.1 a.2.2.2 acc.1, acc.2.1, acc.2.2)
  else if a.2.2.1 = QEQ then
    let r := acc.2.1.new (some HANDLE) []
    .ok (dset a.2.1 r.1 acc.1, r.2, acc.2.2 ++ [⟨r.1, QEQ, a.2.2.2⟩])
  else .error .valueError

/-- one iteration of `for node in d.nodes:` in `from_dmrs`. -/
def buildRel (d : DMRS) (sc : List (Var × List Node)) (idToIv : List (Int × Var))
    (ns : List (Int × Role × Int)) (scs : List (Int × Role × String × Var))
    (st : BuildSt) (n : Node) : Except Err BuildSt :=
  match lblOfNode sc n.id, dlookup n.id idToIv with
  | some label, some iv =>
    match (ns.filter (fun a => a.1 = n.id)).foldlM (nsStep idToIv) [(INTRINSIC_ROLE, iv)] with
    | .error e => .error e
    | .ok args1 =>
      match (scs.filter (fun a => a.1 = n.id)).foldlM scStep (args1, st.vf, st.hcons) with
      | .error e => .error e
      | .ok (args2, vf2, hcons2) =>
        let r : List (Role × Var) × VFac :=
          if dIsQuantifier d n.id && !(args2.any (fun a => a.1 == BODY_ROLE)) then
            let b := vf2.new (some HANDLE) []
            (dset BODY_ROLE b.1 args2, b.2)
          else (args2, vf2)
        .ok { vf := r.2, hcons := hcons2,
              rels := st.rels ++ [{ predicate := n.predicate, label := label, args := r.1,
                                    carg := n.carg, lnk := n.lnk, surface := n.surface,
                                    base := n.base }] }
  | _, _ => .error .keyError

/-- `_fill_variables` -/
def fillVars (vars : List (Var × Props)) (top index : Option Var) (rels : List EP)
    (hcons : List HCons) : List (Var × Props) :=
  let add := fun (vs : List (Var × Props)) (v : Var) =>
    if (dlookup v vs).isSome then vs else vs ++ [(v, [])]
  let vs := match top with | some t => add vars t | none => vars
  let vs := match index with | some t => add vs t | none => vs
  let vs := rels.foldl (fun vs e => e.args.foldl (fun vs a => add vs a.2) (add vs e.label)) vs
  hcons.foldl (fun vs hc => add (add vs hc.lo) hc.hi) vs

def vfac0 : VFac := { vid := 0, index := [], store := [] }

/-- `top = vfac.new(H) if d.top is not None else None` (on a fresh factory starting at 0) -/
def topNew (d : DMRS) : Option Var × VFac :=
  match d.top with
  | some _ => (some (vfac0.new (some HANDLE) []).1, (vfac0.new (some HANDLE) []).2)
  | none => (none, vfac0)

/-- `index = None if not d.index else id_to_iv[d.index]` -/
def indexOf (d : DMRS) (idToIv : List (Int × Var)) : Except Err (Option Var) :=
  match d.index with
  | none => .ok none
  | some i =>
    if i = 0 then .ok none      -- `if not d.index`
    else match dlookup i idToIv with
      | some v => .ok (some v)
      | none => .error .keyError

/-- `if top is not None: hcons.append(qeq(top, _top))` -/
def hcTop (top topLbl : Option Var) : List HCons :=
  match top, topLbl with
  | some t, some l => [⟨t, QEQ, l⟩]
  | _, _ => []

/-- the factory after `_dmrs_build_maps` reserved the ids of the scope labels -/
def vfReserve (vf : VFac) (sc : List (Var × List Node)) : VFac :=
  { vf with index := (sc.map (fun s => s.1.vid)).reverse ++ vf.index }

/-- `mrs.from_dmrs(d)`; `chosen` = the scope labels the implementation's `conjoin` picked. -/
def fromDmrs (chosen : List Var) (d : DMRS) : Except Err MRS :=
  match scopesCh chosen d with
  | .error e => .error e
  | .ok tsc =>
    match nsArgsD d with
    | .error e => .error e
    | .ok ns =>
      match scArgsD d tsc.2 with
      | .error e => .error e
      | .ok scs =>
        match qmapD d with
        | .error e => .error e
        | .ok qmap =>
          match indexOf d (buildIvs d qmap (vfReserve (topNew d).2 tsc.2)).1 with
          | .error e => .error e
          | .ok index =>
            match d.nodes.foldlM
                (buildRel d tsc.2 (buildIvs d qmap (vfReserve (topNew d).2 tsc.2)).1 ns scs)
                { vf := (buildIvs d qmap (vfReserve (topNew d).2 tsc.2)).2,
                  hcons := hcTop (topNew d).1 tsc.1, rels := [] } with
            | .error e => .error e
            | .ok st =>
              .ok { top := (topNew d).1, index := index, rels := st.rels, hcons := st.hcons,
                    icons := [],
                    variables := fillVars st.vf.store (topNew d).1 index st.rels st.hcons }

/-! ## The input space of the round-trip theorems (decidable, evaluated by the driver) -/

/-- position of a predication (by its id) -/
def posOf (m : MRS) (p : Pred) : Nat := m.ids.idxOf p.1

/-- the representative map as lists of positions, in scope order -/
def repsPos (m : MRS) (reps : Reps) : List (List Nat) := reps.map (fun s => s.2.map (posOf m))

/-- roles of a predication are pairwise distinct (they are the keys of a `dict`) and none is
`MOD` (DMRS reserves that role for the `MOD/EQ` link, `DMRS.arguments` skips it). -/
def RolesOk (m : MRS) : Bool :=
  m.rels.all (fun e => decide (e.args.map (·.1)).Nodup && !(e.args.any (fun a => a.1 == BARE_EQ_ROLE)))

/-- every non-quantifier predication has an intrinsic variable whose sort `from_dmrs` reads as an
argument target (`node.type in 'xeipu'`, a substring test). -/
def IVSorts (m : MRS) : Bool :=
  m.rels.all (fun e => e.isQuantifier ||
    match e.iv with
    | some v => isInfix v.sort.toList "xeipu".toList
    | none => false)

/-- the argument value produces a link: it is an intrinsic variable, or selects a scope that
has a representative. -/
def argLinked (m : MRS) (reps : Reps) (v : Var) : Bool :=
  (ivToNid m v).isSome ||
    match dlookup (scopalTarget m v).1 reps with
    | some (_ :: _) => true
    | _ => false

/-- every quantifier's RSTR argument produces a link, so its node is still a quantifier in the
DMRS. -/
def RstrLinked (m : MRS) (reps : Reps) : Bool :=
  m.rels.all (fun e => e.args.all (fun a => a.1 != RESTRICTION_ROLE || argLinked m reps a.2))

/-- the `EQ` links of a DMRS as edges between node ids. -/
def eqEdges (d : DMRS) : List (Int × Int) :=
  (d.links.filter (fun l => l.post = EQ_POST)).map (fun l => (l.start, l.stop))

/-- every scope of `m` is held together by the `EQ` links of its DMRS `d` (argument links inside
the scope and the `MOD/EQ` links between its representatives): no group of members is cut off
(the input class of finding F08 is exactly the failure of this). -/
def ScopesHeld (m : MRS) (d : DMRS) : Bool :=
  m.rels.zipIdx.all (fun ei => m.rels.zipIdx.all (fun ej =>
    ei.1.label != ej.1.label ||
      decide (nidAt ej.2 ∈ bfs (symm (eqEdges d)) (nidAt ei.2))))

/-- does the predication have a scopal argument selecting the scope labelled `lab`?  (directly,
or through any handle constraint on the argument) -/
def selects (m : MRS) (e : EP) (lab : Var) : Bool :=
  (e.outArgs none).any (fun a => a.2 == lab || m.hcons.any (fun hc => hc.hi == a.2 && hc.lo == lab))

/-- the scopal-successor relation between positions. -/
def selEdges (m : MRS) : List (Nat × Nat) :=
  m.rels.zipIdx.flatMap (fun ei =>
    (m.rels.zipIdx.filter (fun ek => selects m ei.1 ek.1.label)).map (fun ek => (ei.2, ek.2)))

/-- `e` takes the intrinsic variable of the non-quantifier `ek` as a non-scopal argument. -/
def nsArgOf (e ek : EP) : Bool :=
  !ek.isQuantifier && (e.outArgs (some "xeipu")).any (fun a => ek.iv == some a.2)

/-- no predication takes, as a non-scopal argument, a scopal descendant of another member of its
own scope (the second blocking test of `scope.representatives` never fires). -/
def NoDescArg (m : MRS) : Bool :=
  m.rels.zipIdx.all (fun ei => m.rels.zipIdx.all (fun ej =>
    ei.2 == ej.2 || ei.1.label != ej.1.label ||
      (selEdges m).all (fun st => st.1 != ej.2 ||
        (bfs (selEdges m) st.2).all (fun k =>
          match m.rels[k]? with
          | some ek => !nsArgOf ei.1 ek
          | none => true))))

/-! ## "what DMRS cannot express … removed", and isomorphism by a variable map -/

/-- does the handle select a scope (through its last handle constraint)? -/
def selectsScope (m : MRS) (v : Var) : Bool :=
  match m.hcLast v with
  | some hc => hc.lo ∈ m.labels
  | none => false

/-- can DMRS express the argument?  the intrinsic argument; the intrinsic variable of a
non-quantifier predication; a label; a constrained handle selecting a scope; the BODY of a
quantifier (an unconstrained hole, re-created by `from_dmrs`). -/
def expressible (m : MRS) (e : EP) (a : Role × Var) : Bool :=
  a.1 == INTRINSIC_ROLE || (ivToNid m a.2).isSome || decide (a.2 ∈ m.labels) || selectsScope m a.2 ||
    (a.1 == BODY_ROLE && e.isQuantifier)

/-- `strip m`: arguments DMRS cannot express, individual constraints, a top that selects no
scope, an index that is no intrinsic variable and handle constraints that are not the (last)
constraint of the top or of an argument are removed. -/
def strip (m : MRS) : MRS :=
  let keepHc := fun (hc : HCons) =>
    m.hcLast hc.hi == some hc && decide (hc.lo ∈ m.labels) &&
      (m.top == some hc.hi || m.rels.any (fun e => e.args.any (fun a => a.2 == hc.hi)))
  { top := match m.top with
      | some t => if selectsScope m t then some t else none
      | none => none
    index := match m.index with
      | some v => if (ivToNid m v).isSome then some v else none
      | none => none
    rels := m.rels.map (fun e => { e with args := e.args.filter (expressible m e) })
    hcons := m.hcons.filter keepHc
    icons := []
    variables := m.variables }

/-- the variables an MRS mentions. -/
def varsOf (m : MRS) : List Var :=
  m.top.toList ++ m.index.toList ++ m.rels.flatMap (fun e => e.label :: e.args.map (·.2)) ++
    m.hcons.flatMap (fun hc => [hc.hi, hc.lo])

/-- `b` is `a` with its variables renamed by `f`, predication by predication in the same order:
same predicates / constants / surface information, labels, arguments (role by role), handle
constraints, top and index mapped by `f`; `f` injective and sort-preserving on the variables of
`a`, and the properties of intrinsic variables preserved. -/
structure IsoVia (f : Var → Var) (a b : MRS) : Prop where
  len : a.rels.length = b.rels.length
  rels : ∀ (i : Nat) (e e2 : EP), a.rels[i]? = some e → b.rels[i]? = some e2 →
    (e.predicate, e.carg, e.lnk, e.surface, e.base) =
      (e2.predicate, e2.carg, e2.lnk, e2.surface, e2.base) ∧
    e2.label = f e.label ∧
    (∀ r v, (r, v) ∈ e.args → (r, f v) ∈ e2.args) ∧
    (∀ r w, (r, w) ∈ e2.args → ∃ v, (r, v) ∈ e.args ∧ w = f v) ∧
    (∀ v, e.iv = some v → b.props (f v) = a.props v)
  hconsF : ∀ hc ∈ a.hcons, (⟨f hc.hi, hc.rel, f hc.lo⟩ : HCons) ∈ b.hcons
  hconsB : ∀ hc2 ∈ b.hcons, ∃ hc ∈ a.hcons, hc2 = ⟨f hc.hi, hc.rel, f hc.lo⟩
  top : b.top = a.top.map f
  index : b.index = a.index.map f
  icons : b.icons = []
  inj : ∀ v ∈ varsOf a, ∀ w ∈ varsOf a, f v = f w → v = w
  sorts : ∀ v ∈ varsOf a, (f v).sort = v.sort

/-! ## The in-space class of the isomorphism theorem (named, decidable hypotheses) -/

/-- a hole: an argument value DMRS expresses although it is neither an intrinsic variable nor a
label — a constrained handle selecting a scope, or the (unexpressed) BODY of a quantifier. -/
def isHoleArg (m : MRS) (e : EP) (a : Role × Var) : Bool :=
  a.1 != INTRINSIC_ROLE && (ivToNid m a.2).isNone && !decide (a.2 ∈ m.labels) &&
    (selectsScope m a.2 || (a.1 == BODY_ROLE && e.isQuantifier))

/-- labels, the top, constrained handles and holes have the sort `h`. -/
def HandleSorts (m : MRS) : Bool :=
  m.rels.all (fun e => e.label.sort == HANDLE) &&
  (match m.top with | some t => t.sort == HANDLE | none => true) &&
  m.hcons.all (fun hc => hc.hi.sort == HANDLE) &&
  m.rels.all (fun e => e.args.all (fun a => !isHoleArg m e a || a.2.sort == HANDLE))

/-- the top handle is no label and no argument value. -/
def TopOk (m : MRS) : Bool :=
  match m.top with
  | some t => !decide (t ∈ m.labels) && m.rels.all (fun e => e.args.all (fun a => a.2 != t))
  | none => true

/-- all handle constraints are qeq. -/
def QeqOnly (m : MRS) : Bool := m.hcons.all (fun hc => hc.rel == QEQ)

/-- every scopal argument DMRS can express selects a scope that has a representative. -/
def ArgsLinked (m : MRS) (reps : Reps) : Bool :=
  m.rels.all (fun e => (e.outArgs none).all (fun a =>
    !(decide (a.2 ∈ m.labels) || selectsScope m a.2) || argLinked m reps a.2))

/-- no variable-valued argument carries the role CARG. -/
def NoCargRole (m : MRS) : Bool := m.rels.all (fun e => e.args.all (fun a => a.1 != CONSTANT_ROLE))

/-- one constraint per handle. -/
def OneConstraint (m : MRS) : Bool := (m.hcons.map (·.hi)).eraseDups.length == m.hcons.length

/-- no label is constrained. -/
def NoConstrainedLabel (m : MRS) : Bool := m.hcons.all (fun hc => !decide (hc.hi ∈ m.labels))

/-- each hole is used once: as the value of one argument of one predication. -/
def HolesOnce (m : MRS) : Bool :=
  m.rels.zipIdx.all (fun ei => ei.1.args.all (fun a => !isHoleArg m ei.1 a ||
    m.rels.zipIdx.all (fun ej => ej.1.args.all (fun a' => !isHoleArg m ej.1 a' || a.2 != a'.2 ||
      (ei.2 == ej.2 && a == a')))))

/-- every quantifier has a BODY role. -/
def QuantBody (m : MRS) : Bool :=
  m.rels.all (fun e => !e.isQuantifier || e.args.any (fun a => a.1 == BODY_ROLE))

/-- the predication (EP) a node id stands for. -/
def relAt (m : MRS) (n : Int) : Option EP :=
  if FIRST_NODE_ID ≤ n then m.rels[(n - FIRST_NODE_ID).toNat]? else none

/-- O1: each quantifier binds the first representative of its restriction — the target of every
RSTR link is a non-quantifier whose intrinsic variable is the quantifier's ARG0. -/
def QuantHead (m : MRS) (d : DMRS) : Bool :=
  d.links.all (fun l => l.role != RESTRICTION_ROLE ||
    match relAt m l.start, relAt m l.stop with
    | some s, some t => !t.isQuantifier && s.iv.isSome && t.iv == s.iv
    | _, _ => false)

/-- the correspondence table of the round trip: tops, intrinsic variables, labels, holes. -/
def corrTableG (m m2 : MRS) : List (Var × Var) :=
  (match (strip m).top, m2.top with
    | some t, some t2 => [(t, t2)]
    | _, _ => []) ++
  (List.zip m.rels m2.rels).filterMap (fun p =>
    match p.1.iv, p.2.iv with
    | some v, some w => some (v, w)
    | _, _ => none) ++
  (List.zip m.rels m2.rels).map (fun p => (p.1.label, p.2.label)) ++
  (List.zip m.rels m2.rels).flatMap (fun p => p.1.args.filterMap (fun a =>
    if isHoleArg m p.1 a then (dlookup a.1 p.2.args).map (fun w => (a.2, w)) else none))

def corrMapG (m m2 : MRS) (v : Var) : Var := (dlookup v (corrTableG m m2)).getD v

/-! ## Source-only forms of the hypotheses that mention the DMRS, and of "strip removes only what
the claim names" (all decidable on `m` and `scope.representatives(m)`, evaluated by the driver) -/

/-- the scope the top selects has a representative (the negation is the IndexError of F08). -/
def TopRep (m : MRS) (reps : Reps) : Bool :=
  match m.top with
  | some t =>
    (match dlookup ((m.hcmap t).getD t) reps with
      | some [] => false
      | _ => true)
  | none => true

/-- label-internal non-scopal arguments: `e` (position `i`) takes the intrinsic variable of a
non-quantifier with the same label. -/
def srcArgEdges (m : MRS) : List (Int × Int) :=
  m.rels.zipIdx.flatMap (fun ei => (ei.1.outArgs none).filterMap (fun a =>
    match ivToNid m a.2 with
    | some stop =>
      (match relAt m stop with
        | some t => if ei.1.label = t.label then some (nidAt ei.2, stop) else none
        | none => none)
    | none => none))

/-- every further representative of a scope is tied to the first one (`MOD/EQ`). -/
def srcModEdges (m : MRS) (reps : Reps) : List (Int × Int) :=
  reps.flatMap (fun s =>
    match s.2 with
    | r :: s' :: rest => (s' :: rest).map (fun p => (nidAt (posOf m p), nidAt (posOf m r)))
    | _ => [])

/-- `ScopesHeld` without the DMRS: the members of every scope of `m` are connected through
label-internal non-scopal arguments and the ties between the scope's representatives. -/
def ScopesHeldSrc (m : MRS) (reps : Reps) : Bool :=
  m.rels.zipIdx.all (fun ei => m.rels.zipIdx.all (fun ej =>
    ei.1.label != ej.1.label ||
      decide (nidAt ej.2 ∈ bfs (symm (srcArgEdges m ++ srcModEdges m reps)) (nidAt ei.2))))

/-- the predication a RSTR argument leads to: the owner of the intrinsic variable, else the first
representative of the scope the argument selects. -/
def rstrTarget (m : MRS) (reps : Reps) (v : Var) : Option EP :=
  match ivToNid m v with
  | some n => relAt m n
  | none =>
    match dlookup (scopalTarget m v).1 reps with
    | some (r :: _) => some r.2
    | _ => none

/-- O1 without the DMRS: the first representative of every quantifier's restriction is a
non-quantifier whose intrinsic variable is the quantifier's ARG0. -/
def QuantHeadSrc (m : MRS) (reps : Reps) : Bool :=
  m.rels.all (fun e => (e.outArgs none).all (fun a => a.1 != RESTRICTION_ROLE ||
    match rstrTarget m reps a.2 with
    | some t => !t.isQuantifier && e.iv.isSome && t.iv == e.iv
    | none => true))

/-- the top selects a scope (through its handle constraint). -/
def TopSelects (m : MRS) : Bool :=
  match m.top with
  | some t => selectsScope m t
  | none => true

/-- the index is the intrinsic variable of a non-quantifier predication. -/
def IndexIV (m : MRS) : Bool :=
  match m.index with
  | some v => (ivToNid m v).isSome
  | none => true

/-- every handle constraint is used: its low end is a label and its high end is the top or an
argument value. -/
def HconsUsed (m : MRS) : Bool :=
  m.hcons.all (fun hc => decide (hc.lo ∈ m.labels) &&
    (m.top == some hc.hi || m.rels.any (fun e => e.args.any (fun a => a.2 == hc.hi))))

end Verif.C04
