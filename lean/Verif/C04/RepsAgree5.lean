/-
C04 — discharging `RepsAgree`, part 5: the blocking test of `scope.representatives` gives the
same answer on `m` and on the MRS that comes back; hence the representatives agree.
-/
import Verif.C04.RepsAgree4

namespace Verif.C04
open Verif.Sem

theorem nodup_getElem?_inj {α : Type} [DecidableEq α] {l : List α} (h : l.Nodup) {k j : Nat} {a : α}
    (hk : l[k]? = some a) (hj : l[j]? = some a) : k = j := by
  have h1 := List.getElem?_eq_some_iff.mp hk
  have h2 := List.getElem?_eq_some_iff.mp hj
  have e1 := h.idxOf_getElem k h1.1
  have e2 := h.idxOf_getElem j h2.1
  rw [h1.2] at e1
  rw [h2.2] at e2
  rw [← e1, ← e2]

theorem preds_nodup (m : MRS) (hnd : m.ids.Nodup) : m.preds.Nodup := by
  apply c07_nodup_of_nodup_map (fun p : Pred => p.1)
  rw [preds_map_fst]; exact hnd

theorem rel2_map_eq_mem {α β γ : Type} {Q : α → β → Prop} (f : α → γ) (g : β → γ) :
    ∀ {l : List α} {l' : List β}, Rel2 Q l l' →
      (∀ a b, a ∈ l → b ∈ l' → Q a b → f a = g b) → l.map f = l'.map g := by
  intro l l' h
  induction h with
  | nil => intro _; rfl
  | @cons a b l l' hab _ ih =>
    intro hq
    simp only [List.map_cons]
    rw [hq a b List.mem_cons_self List.mem_cons_self hab,
      ih (fun x y hx hy => hq x y (List.mem_cons_of_mem _ hx) (List.mem_cons_of_mem _ hy))]

namespace RTCtx
variable {m : MRS} {d : DMRS} {m2 : MRS} {reps : Reps} {topLbl : Option Var}
  {sc : List (Var × List Node)} {lbl : Node → Var} {leqs : List (Var × Var)}
  {idToIv : List (Int × Var)} {ns : List (Int × Role × Int)}
  {scs : List (Int × Role × String × Var)} {lo hi : Nat}

/-- under `NoDescArg`, in `m` and in `m2` alike, a member of a scope is blocked exactly when it
has a non-scopal link to another member. -/
theorem blocked_char (C : RTCtx m d m2 reps topLbl sc lbl leqs idToIv ns scs lo hi)
    (hS : IVSorts m = true) (hD : NoDescArg m = true) (μ : MRS) (hndμ : μ.ids.Nodup)
    (descs : List (Var × List Pred)) (hdesc : μ.descendants = .ok descs)
    (nslμ : ∀ (i i' : Nat) (p q : Pred), μ.preds[i]? = some p → μ.preds[i']? = some q →
      (q.1 ∈ μ.nsArgs p ↔ NSL d i i'))
    (selμ : ∀ i k : Nat, (i, k) ∈ selEdges μ → (i, k) ∈ selEdges m)
    (labμ : ∀ (i j : Nat) (e ej : EP), μ.rels[i]? = some e → μ.rels[j]? = some ej →
      e.label = ej.label →
      ∃ e' ej' : EP, m.rels[i]? = some e' ∧ m.rels[j]? = some ej' ∧ e'.label = ej'.label)
    (l : Var) (S : List Pred) (hSm : (l, S) ∈ μ.scopeMap) (k : Nat) (a : Pred)
    (ha : S[k]? = some a) :
    blocked (fun p : Pred => p.1) μ.nsArgs
        (fun j => ((dlookup j descs).getD []).map (fun p : Pred => p.1)) S k a = true ↔
      ∃ (j : Nat) (q : Pred), S[j]? = some q ∧ j ≠ k ∧
        ∃ i i' : Nat, μ.preds[i]? = some a ∧ μ.preds[i']? = some q ∧ NSL d i i' := by
  have hSeq := ((mem_scopeMap μ l S).mp hSm).1
  have hSnd : S.Nodup := by
    rw [hSeq]; exact List.Nodup.sublist List.filter_sublist (preds_nodup μ hndμ)
  have memS : ∀ (j : Nat) (q : Pred), S[j]? = some q → q ∈ μ.preds ∧ q.2.label = l := by
    intro j q hq
    have := List.mem_of_getElem? hq
    rw [hSeq, List.mem_filter] at this
    exact ⟨this.1, by simpa using this.2⟩
  rw [blocked_iff _ _ _ S k a ha]
  constructor
  · rintro ⟨j, p, q, hp, hq, hjk, hcase⟩
    rw [ha] at hp; cases hp
    obtain ⟨hpm, hpl⟩ := memS k a ha
    obtain ⟨hqm, hql⟩ := memS j q hq
    obtain ⟨i, hi⟩ := List.mem_iff_getElem?.mp hpm
    obtain ⟨i', hi'⟩ := List.mem_iff_getElem?.mp hqm
    refine ⟨j, q, hq, hjk, i, i', hi, hi', ?_⟩
    rcases hcase with h1 | ⟨x, hx, hxd⟩
    · exact (nslμ i i' a q hi hi').mp h1
    · exfalso
      -- `x` is the id of a scopal descendant `r` of `q`
      obtain ⟨r, hr, hrx⟩ := List.mem_map.mp hxd
      cases hlk : dlookup q.1 descs with
      | none => rw [hlk] at hr; simp at hr
      | some rs =>
        rw [hlk] at hr
        simp only [Option.getD_some] at hr
        have hinv := descendantsOf_sound (fun p : Pred => p.1) μ.ids μ.scargs μ.scopeMap descs
          (by unfold MRS.descendants at hdesc; exact hdesc)
        have hdr := hinv q.1 rs hlk r hr
        obtain ⟨t, kk, he, hreach, hkk⟩ := dreach_pos μ hndμ q.1 r hdr i' q hi' rfl
        have hnsl : NSL d i kk := (nslμ i kk a r hi hkk).mp (by rw [hrx]; exact hx)
        -- back in `m`
        obtain ⟨l0, hl0, hnsl0, hs0, ht0⟩ := hnsl
        obtain ⟨i0, j0, e, ek, v, a1, a2, a3, a4, _, _, _⟩ := C.nsl_ends l0 hl0 hnsl0
        have : i0 = i := nidAt_inj _ _ (by rw [← a1, hs0])
        subst this
        have : j0 = kk := nidAt_inj _ _ (by rw [← a2, ht0])
        subst this
        have htrue := C.nsl_nsArgOf hS i0 j0 e ek a3 a4 ⟨l0, hl0, hnsl0, hs0, ht0⟩
        obtain ⟨e', ei', h1, h2, h3⟩ := labμ i0 i' a.2 q.2 (preds_snd μ i0 a hi)
          (preds_snd μ i' q hi') (by rw [hpl, hql])
        rw [a3] at h1; cases h1
        have hne : i0 ≠ i' := by
          intro e0
          subst e0
          rw [hi] at hi'
          cases hi'
          exact hjk (nodup_getElem?_inj hSnd hq ha)
        have hfalse := noDesc_use m hD i0 i' t j0 e ei' ek a3 h2 hne h3 (selμ _ _ he)
          (reach_mono _ _ (fun e0 he0 => selμ e0.1 e0.2 he0) hreach) a4
        rw [htrue] at hfalse
        cases hfalse
  · rintro ⟨j, q, hq, hjk, i, i', hi, hi', hnsl⟩
    exact ⟨j, a, q, ha, hq, hjk, Or.inl ((nslμ i i' a q hi hi').mpr hnsl)⟩

/-- **the representatives agree**, from hypotheses on `m` (and its DMRS `d = fromMrs m`) alone. -/
theorem repsAgree (C : RTCtx m d m2 reps topLbl sc lbl leqs idToIv ns scs lo hi)
    (hR : RolesOk m = true) (hS : IVSorts m = true) (hQ : RstrLinked m reps = true)
    (hH : ScopesHeld m d = true) (hD : NoDescArg m = true) (reps2 : Reps)
    (hr2 : m2.representatives = .ok reps2) : repsPos m reps = repsPos m2 reps2 := by
  have hN2 := C.baseIds2 hS
  have hnd := ids_nodup m C.hN
  have hnd2 := ids_nodup m2 hN2
  have hr := C.hreps
  unfold MRS.representatives at hr hr2
  cases hdesc : m.descendants with
  | error e => rw [hdesc] at hr; cases hr
  | ok descs =>
    cases hdesc2 : m2.descendants with
    | error e => rw [hdesc2] at hr2; cases hr2
    | ok descs2 =>
      rw [hdesc] at hr
      rw [hdesc2] at hr2
      simp only [Except.ok.injEq] at hr hr2
      subst hr; subst hr2
      unfold repsPos representativesOf
      rw [List.map_map, List.map_map]
      apply rel2_map_eq_mem _ _ (C.scopeMap_rel hH)
      intro s s' hs hs' hrel
      simp only [Function.comp_apply]
      -- one scope
      have hposeq : ∀ p p2, Paired m.preds m2.preds p p2 → posOf m p = posOf m2 p2 := by
        rintro p p2 ⟨k, h1, h2⟩
        rw [posOf_of_getElem m hnd k p h1, posOf_of_getElem m2 hnd2 k p2 h2]
      apply forall₂_map_eq (posOf m) (posOf m2) hposeq
      apply reps_scope_agree (Paired m.preds m2.preds) _ _ _ _ _ _ _ _
        (fun p p2 hp => C.key_eq hS hQ p p2 hp) s.2 s'.2 hrel
      intro k a a2 ha ha2
      obtain ⟨b, hb, hpair⟩ := forall₂_getElem? hrel k a ha
      rw [ha2] at hb
      simp only [Option.some.injEq] at hb
      subst hb
      -- the two characterisations
      have c1 := C.blocked_char hS hD m hnd descs hdesc
        (fun i i' p q hp hq => C.nsl_iff_m hR hS i i' p q hp hq) (fun _ _ h => h)
        (fun i j e ej he hej hl => ⟨e, ej, he, hej, hl⟩) s.1 s.2 hs k a ha
      have c2 := C.blocked_char hS hD m2 hnd2 descs2 hdesc2
        (fun i i' p q hp hq => C.nsl_iff_m2 hR hS i i' p q hp hq)
        (fun i k h => C.sel2_sub hH hS i k h)
        (fun i j e ej he hej hl => by
          have hilt := C.pos_lt i e he
          have hjlt := C.pos_lt j ej hej
          exact ⟨m.rels[i], m.rels[j], List.getElem?_eq_getElem hilt, List.getElem?_eq_getElem hjlt,
            (C.labels_iff hH i j m.rels[i] m.rels[j] e ej (List.getElem?_eq_getElem hilt)
              (List.getElem?_eq_getElem hjlt) he hej).mpr hl⟩)
        s'.1 s'.2 hs' k a2 ha2
      rw [Bool.eq_iff_iff, c1, c2]
      obtain ⟨ka, hka1, hka2⟩ := hpair
      constructor
      · rintro ⟨j, q, hq, hjk, i, i', hi, hi', hnsl⟩
        obtain ⟨q2, hq2, ⟨kq, hkq1, hkq2⟩⟩ := forall₂_getElem? hrel j q hq
        have e1 : i = ka := nodup_getElem?_inj (preds_nodup m hnd) hi hka1
        have e2 : i' = kq := nodup_getElem?_inj (preds_nodup m hnd) hi' hkq1
        subst e1; subst e2
        exact ⟨j, q2, hq2, hjk, i, i', hka2, hkq2, hnsl⟩
      · rintro ⟨j, q2, hq2, hjk, i, i', hi, hi', hnsl⟩
        -- the partner of `q2` in `s.2`
        have hlen := forall₂_length hrel
        have hjlt : j < s.2.length := by
          rw [hlen]; exact (List.getElem?_eq_some_iff.mp hq2).1
        obtain ⟨q2', hq2', ⟨kq, hkq1, hkq2⟩⟩ :=
          forall₂_getElem? hrel j s.2[j] (List.getElem?_eq_getElem hjlt)
        rw [hq2] at hq2'
        simp only [Option.some.injEq] at hq2'
        subst hq2'
        have e1 : i = ka := nodup_getElem?_inj (preds_nodup m2 hnd2) hi hka2
        have e2 : i' = kq := nodup_getElem?_inj (preds_nodup m2 hnd2) hi' hkq2
        subst e1; subst e2
        exact ⟨j, s.2[j], List.getElem?_eq_getElem hjlt, hjk, i, i', hka1, hkq1, hnsl⟩

end RTCtx

end Verif.C04
