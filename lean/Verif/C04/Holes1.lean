/-
C04 — holes, part 1: two more invariants of the loops of `from_dmrs`:
(U) different (position, role) pairs get different fresh holes;
(O) every handle constraint made for a qeq argument constrains the hole that argument holds.
Parallel to the lemmas of RoundTrip.lean (which stay untouched).
-/
import Verif.C04.Iso6

namespace Verif.C04
open Verif.Sem

/-- a value that can only be a hole made by `vfac.new('h')` after the point `b`. -/
def FreshV (R : List Nat) (b : Nat) (v : Var) : Prop := v.sort = HANDLE ∧ b ≤ v.vid ∧ v.vid ∉ R

theorem NewHole.fresh {R : List Nat} {lo hi b : Nat} {v : Var} (h : NewHole R lo hi v)
    (hb : b ≤ lo) : FreshV R b v := ⟨h.1, Nat.le_trans hb h.2.1, h.2.2.2⟩

/-- the value of a rebuilt argument that is `FreshV` is a hole made in this step. -/
theorem origin_fresh {R : List Nat} {d : DMRS} {idToIv : List (Int × Var)}
    {ns : List (Int × Role × Int)} {scs : List (Int × Role × String × Var)} {nid : Int} {iv : Var}
    {lo hi b : Nat} {hc : List HCons} {a : Role × Var}
    (h : ArgOrigin R d idToIv ns scs nid iv lo hi hc a) (hiv : iv.vid < b)
    (hM : ∀ p ∈ idToIv, p.2.vid < b) (hlab : ∀ x ∈ scs, x.2.2.2.vid ∈ R)
    (hf : FreshV R b a.2) : NewHole R lo hi a.2 := by
  cases h with
  | arg0 h => rw [h] at hf; have := hf.2.1; simp only at this; omega
  | ns x hx hid hr hv => have := hM _ (dlookup_mem hv); have := hf.2.1; simp only at *; omega
  | lheq x hx hid hr hrel hv => rw [hv] at hf; exact absurd (hlab x hx) hf.2.2
  | qeq x hx hid hr hrel hnew hhc => exact hnew
  | body hr hq hnew hfree => exact hnew

theorem scFold_extra (R : List Nat) (b : Nat) :
    ∀ (xs : List (Int × Role × String × Var))
      (acc0 acc1 : List (Role × Var) × VFac × List HCons),
      xs.foldlM scStep acc0 = .ok acc1 → (∀ k ∈ R, k ∈ acc0.2.1.index) →
      (∀ x ∈ xs, x.2.2.2.vid ∈ R) →
      (∀ a ∈ acc0.1, FreshV R b a.2 → a.2.vid < acc0.2.1.vid) →
      (∀ a ∈ acc0.1, ∀ a' ∈ acc0.1, a.2 = a'.2 → FreshV R b a.2 → a = a') →
      (∀ a ∈ acc1.1, FreshV R b a.2 → a.2.vid < acc1.2.1.vid) ∧
      (∀ a ∈ acc1.1, ∀ a' ∈ acc1.1, a.2 = a'.2 → FreshV R b a.2 → a = a') ∧
      ((xs.map (·.2.1)).Nodup → ∀ news, acc1.2.2 = acc0.2.2 ++ news → ∀ hc ∈ news,
        ∃ x ∈ xs, x.2.2.1 = QEQ ∧ hc.lo = x.2.2.2 ∧ (x.2.1, hc.hi) ∈ acc1.1) := by
  intro xs
  induction xs with
  | nil =>
    intro acc0 acc1 h _ _ h1 h2
    simp only [List.foldlM_nil] at h
    cases h
    refine ⟨h1, h2, ?_⟩
    intro _ news hn hc hhc
    have : news = [] := by
      have := List.append_cancel_left (as := acc0.2.2) (bs := []) (cs := news) (by simpa using hn)
      exact this.symm
    rw [this] at hhc; cases hhc
  | cons x xs ih =>
    intro acc0 acc1 h hR hlab h1 h2
    rw [List.foldlM_cons] at h
    cases hx : scStep acc0 x with
    | error e => rw [hx] at h; cases h
    | ok accm =>
      rw [hx] at h
      have hRm := scStep_index R acc0 accm x hx hR
      have hlab' : ∀ y ∈ xs, y.2.2.2.vid ∈ R := fun y hy => hlab y (List.mem_cons_of_mem _ hy)
      -- the tail, as described by scFold_spec
      obtain ⟨_, _, _, ⟨news2, hn2, _, _⟩, _, t7⟩ := scFold_spec R xs accm acc1 h hRm
      unfold scStep at hx
      by_cases hL : x.2.2.1 = LHEQ
      · rw [if_pos hL] at hx
        simp only [Except.ok.injEq] at hx
        subst hx
        have hnf : ¬ FreshV R b x.2.2.2 := fun hf => hf.2.2 (hlab x List.mem_cons_self)
        obtain ⟨r1, r2, r3⟩ := ih _ acc1 h hRm hlab'
          (by
            intro a ha hf
            rcases mem_dset _ _ _ _ ha with rfl | hold
            · exact absurd hf hnf
            · exact h1 a hold hf)
          (by
            intro a ha a' ha' he hf
            rcases mem_dset _ _ _ _ ha with rfl | hold
            · exact absurd hf hnf
            · rcases mem_dset _ _ _ _ ha' with rfl | hold'
              · rw [he] at hf; exact absurd hf hnf
              · exact h2 a hold a' hold' he hf)
        refine ⟨r1, r2, ?_⟩
        intro hnd news hn hc hhc
        simp only [List.map_cons, List.nodup_cons] at hnd
        obtain ⟨y, hy, c1, c2, c3⟩ := r3 hnd.2 news hn hc hhc
        exact ⟨y, List.mem_cons_of_mem _ hy, c1, c2, c3⟩
      · rw [if_neg hL] at hx
        by_cases hQ : x.2.2.1 = QEQ
        · rw [if_pos hQ] at hx
          simp only [Except.ok.injEq] at hx
          subst hx
          have hge := VFac.new_vid_ge acc0.2.1 (some HANDLE) []
          have hnext := VFac.new_vid_next acc0.2.1 (some HANDLE) []
          obtain ⟨r1, r2, r3⟩ := ih _ acc1 h hRm hlab'
            (by
              intro a ha hf
              show a.2.vid < (acc0.2.1.new (some HANDLE) []).2.vid
              rcases mem_dset _ _ _ _ ha with rfl | hold
              · rw [hnext]; exact Nat.lt_succ_self _
              · have := h1 a hold hf; omega)
            (by
              intro a ha a' ha' he hf
              rcases mem_dset _ _ _ _ ha with rfl | hold
              · rcases mem_dset _ _ _ _ ha' with rfl | hold'
                · rfl
                · exfalso
                  have := h1 a' hold' (by rw [← he]; exact hf)
                  rw [← he] at this
                  simp only at this
                  omega
              · rcases mem_dset _ _ _ _ ha' with rfl | hold'
                · exfalso
                  have := h1 a hold hf
                  rw [he] at this
                  simp only at this
                  omega
                · exact h2 a hold a' hold' he hf)
          refine ⟨r1, r2, ?_⟩
          intro hnd news hn hc hhc
          simp only [List.map_cons, List.nodup_cons] at hnd
          -- the constraints made: this step's, then the tail's
          simp only at hn2
          have hnews : news = ⟨(acc0.2.1.new (some HANDLE) []).1, QEQ, x.2.2.2⟩ :: news2 := by
            rw [hn2, List.append_assoc] at hn
            exact (List.append_cancel_left hn).symm
          rw [hnews] at hhc
          rcases List.mem_cons.mp hhc with rfl | hin
          · refine ⟨x, List.mem_cons_self, hQ, rfl, ?_⟩
            have hfun : ∀ a ∈ xs, ∀ b ∈ xs, a.2.1 = b.2.1 → a = b := by
              intro a ha b hb hab
              exact c07_inj_of_nodup_map (fun y : Int × Role × String × Var => y.2.1) xs hnd.2
                a ha b hb hab
            exact (t7 hfun).2 _ (mem_dset_self _ _ _) hnd.1
          · obtain ⟨y, hy, c1, c2, c3⟩ := r3 hnd.2 news2 hn2 hc hin
            exact ⟨y, List.mem_cons_of_mem _ hy, c1, c2, c3⟩
        · rw [if_neg hQ] at hx; cases hx

end Verif.C04
