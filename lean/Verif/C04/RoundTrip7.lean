/-
C04 — round trip, part 7: the links of the second conversion.
-/
import Verif.C04.RoundTrip6

namespace Verif.C04
open Verif.Sem

/-- the `MOD/EQ` links of a list of representative positions. -/
def modPos : List Nat → List Link
  | r :: s :: rest => (s :: rest).map (fun p => ⟨nidAt p, nidAt r, BARE_EQ_ROLE, EQ_POST⟩)
  | _ => []

theorem mapE_of_forall {α β ε : Type} (g : α → Except ε β) (h : α → β) :
    ∀ (l : List α), (∀ x ∈ l, g x = .ok (h x)) → mapE g l = .ok (l.map h) := by
  intro l
  induction l with
  | nil => intro _; rfl
  | cons x l ih =>
    intro hl
    unfold mapE
    rw [hl x List.mem_cons_self, ih (fun y hy => hl y (List.mem_cons_of_mem _ hy))]
    rfl

theorem modLinksOf_pos (m : MRS) (hN : BaseIdsDistinct m) (rs : List Pred)
    (hmem : ∀ r ∈ rs, r ∈ m.preds) : modLinksOf m rs = .ok (modPos (rs.map (posOf m))) := by
  unfold modLinksOf
  rcases rs with _ | ⟨r, _ | ⟨s, rest⟩⟩
  · rfl
  · rfl
  · simp only [idToNid_pos m hN r (hmem r List.mem_cons_self)]
    have hrhs : modPos ((r :: s :: rest).map (posOf m)) =
        (s :: rest).map (fun p => (⟨nidAt (posOf m p), nidAt (posOf m r), BARE_EQ_ROLE, EQ_POST⟩ : Link)) := by
      simp [modPos, List.map_map, Function.comp_def]
    rw [hrhs]
    apply mapE_of_forall
    intro p hp
    simp only [idToNid_pos m hN p (hmem p (List.mem_cons_of_mem _ hp))]

namespace RTCtx
variable {m : MRS} {d : DMRS} {m2 : MRS} {reps : Reps} {topLbl : Option Var}
  {sc : List (Var × List Node)} {lbl : Node → Var} {leqs : List (Var × Var)}
  {idToIv : List (Int × Var)} {ns : List (Int × Role × Int)}
  {scs : List (Int × Role × String × Var)} {lo hi : Nat}

/-- a non-quantifier of `m` is a non-quantifier of `m2`. -/
theorem nonquant_of_m (C : RTCtx m d m2 reps topLbl sc lbl leqs idToIv ns scs lo hi)
    (i : Nat) (e : EP) (he : m.rels[i]? = some e) (hq : e.isQuantifier = false)
    {n : Node} {e2 : EP} {iv : Var} (hid : n.id = nidAt i)
    (ps : PosSpec (sc.map (fun s => s.1.vid)) d sc idToIv ns scs lo hi m2.hcons n e2 iv) :
    e2.isQuantifier = false := by
  cases hq2 : e2.isQuantifier with
  | false => rfl
  | true =>
    exfalso
    obtain ⟨l, hl, hs, hr⟩ := C.rstr_arg_link ps hq2
    have := rstr_link_quantifier m reps l (C.links_just l hl) hr i e (by rw [hs, hid]) he
    rw [hq] at this; cases this

/-- a handle-sorted variable is the intrinsic variable of no non-quantifier of `m2`. -/
theorem ivToNid_handle (C : RTCtx m d m2 reps topLbl sc lbl leqs idToIv ns scs lo hi)
    (hS : IVSorts m = true) (v : Var) (hv : v.sort = HANDLE) : ivToNid m2 v = none := by
  cases h : ivToNid m2 v with
  | none => rfl
  | some n =>
    exfalso
    obtain ⟨j, e, hj, hq, hiv, _⟩ := ivToNid_some m2 v n h
    exact (C.iv_sort hS j e hj hq v hiv).1 hv

/-- the first representative of the scope of `m2` that corresponds to a scope of `m`. -/
theorem rep_target (C : RTCtx m d m2 reps topLbl sc lbl leqs idToIv ns scs lo hi)
    (hS : IVSorts m = true) (reps2 : Reps) (hr2 : m2.representatives = .ok reps2)
    (hA : repsPos m reps = repsPos m2 reps2) (s : Var × List Pred) (hs : s ∈ reps)
    (tgt : Pred) (rest : List Pred) (hs2 : s.2 = tgt :: rest) (p : Nat)
    (hp : predAt m (nidAt p) = some tgt) (e2 : EP) (he2 : m2.rels[p]? = some e2) :
    ∃ r' rest', dlookup e2.label reps2 = some (r' :: rest') ∧
      idToNid m2 r'.1 = some (nidAt p) := by
  have hN2 := C.baseIds2 hS
  obtain ⟨s2, hs2m, hmap⟩ := reps_transfer m m2 reps reps2 hA s hs
  rw [hs2] at hmap
  rcases hs2l : s2.2 with _ | ⟨r', rest'⟩
  · rw [hs2l] at hmap; simp at hmap
  · rw [hs2l] at hmap
    simp only [List.map_cons, List.cons.injEq] at hmap
    have hpos : posOf m tgt = p := by
      have := predAt_pos m C.hN _ _ hp
      exact (nidAt_inj _ _ this).symm
    have hr'mem := rep_member m2 reps2 hr2 s2.1 s2.2 hs2m r' (by rw [hs2l]; exact List.mem_cons_self)
    have hat := pred_at_posOf m2 (ids_nodup m2 hN2) r' hr'mem.1
    rw [hmap.1, hpos] at hat
    obtain ⟨id, _, hp2⟩ := preds_getElem? m2 p e2 he2
    rw [hp2] at hat
    simp only [Option.some.injEq] at hat
    have hlab : s2.1 = e2.label := by rw [← hr'mem.2, ← hat]
    refine ⟨r', rest', ?_, ?_⟩
    · rw [← hlab, ← hs2l]; exact reps_lookup m2 reps2 hr2 s2 hs2m
    · rw [idToNid_pos m2 hN2 r' hr'mem.1, hmap.1, hpos]

/-- `argLink` of `m2` on the argument that came from a non-scopal link. -/
theorem argLink_ns (C : RTCtx m d m2 reps topLbl sc lbl leqs idToIv ns scs lo hi)
    (hS : IVSorts m = true) (reps2 : Reps) (l0 : Link) (hl0 : l0 ∈ d.links)
    (hnsl : nsLink d l0) (i : Nat) (hs : l0.start = nidAt i) (e2 : EP)
    (he2 : m2.rels[i]? = some e2) (v : Var) (hv : dlookup l0.stop idToIv = some v) :
    argLink m2 reps2 (nidAt i) e2 (l0.role, v) = .ok (some l0) := by
  have hN2 := C.baseIds2 hS
  have hj := C.links_just l0 hl0
  obtain ⟨hmod, hp1, hp2, _⟩ := hnsl
  cases hj with
  | qeq src tgt v' hc rest hs' ht harg hniv hhc hhi hrep hpost => exact absurd hpost hp1
  | lheq src tgt v' rest hs' ht harg hniv hnohc hrep hpost => exact absurd hpost hp2
  | mod src tgt lb rest hs' ht hrep hsrc hrole hpost => exact absurd hrole hmod
  | nonscopal src tgt w hs' ht harg htq hiv hpost =>
    obtain ⟨i', q1, q2, _⟩ := predAt_some m _ _ hs'
    obtain ⟨j, r1, r2, hjlt⟩ := predAt_some m _ _ ht
    have : i' = i := nidAt_inj _ _ (by rw [← q1, hs])
    subst this
    have hsrc : m.rels[i']? = some src.2 := by
      unfold MRS.preds at q2; exact (List.getElem?_zip_eq_some.mp q2).2
    have htgt : m.rels[j]? = some tgt.2 := by
      unfold MRS.preds at r2; exact (List.getElem?_zip_eq_some.mp r2).2
    obtain ⟨ni, ei, ivi, hni, hidi, hei, psi, _⟩ := C.at_pos i' src.2 hsrc
    obtain ⟨nj, ej, ivj, hnj, hidj, hej, psj, hivj⟩ := C.at_pos j tgt.2 htgt
    rw [he2] at hei; cases hei
    have hvj : v = ivj := by
      have := psj.ivOk
      rw [hidj, ← r1, hv] at this
      simpa using this
    subst hvj
    have hqj : ej.isQuantifier = false := C.nonquant_of_m j tgt.2 htgt htq hidj psj
    -- the lookups of `argLink`
    obtain ⟨nn, hnn⟩ := ivToNid_isSome m2 v ej (List.mem_of_getElem? hej) hqj hivj
    obtain ⟨j', e', c1, c2, c3, c4⟩ := ivToNid_some m2 v nn hnn
    have hjj : j' = j := C.iv_unique hS j j' ej e' hej c1 hqj c2 v hivj c3
    subst hjj
    have hep := epById_iv m2 hN2 j' ej v hej hqj hivj
    unfold argLink
    rw [hnn, hep]
    simp only
    -- the post
    have hlabel : (e2.label = ej.label) ↔ (src.2.label = tgt.2.label) := by
      have hi'lt : i' < m.rels.length := (List.getElem?_eq_some_iff.mp hsrc).1
      have e1 : m.rels[i'] = src.2 := by
        have := hsrc; rw [List.getElem?_eq_getElem hi'lt] at this; simpa using this
      have e2' : m.rels[j'] = tgt.2 := by
        have := htgt; rw [List.getElem?_eq_getElem hjlt] at this; simpa using this
      have hsl := C.spec.scopes.sameLabel_iff (List.mem_of_getElem? hni) (List.mem_of_getElem? hnj)
      rw [psi.labelOk, psj.labelOk] at hsl
      constructor
      · intro hl
        obtain ⟨k, nk, hk, hnk, hx, hlk⟩ :=
          C.reach_same_label i' hi'lt ni hni _ (hsl.mp (by rw [hl]))
        have : nk = nj := C.spec.scopes.lblInj nk (List.mem_of_getElem? hnk) nj
          (List.mem_of_getElem? hnj) hx.symm
        subst this
        have hkj : k = j' := by
          have := fromMrs_node_id m C.hN d C.hd k nk hnk
          rw [hidj] at this
          exact (nidAt_inj _ _ this.1).symm
        subst hkj
        rw [← e1, ← e2', hlk]
      · intro hl
        rw [if_pos hl] at hpost
        obtain ⟨a, b, hab, d1, d2⟩ := C.leqs_of_link l0 hl0 hpost
        have la : a = lbl ni := by
          have := C.spec.scopes.lblOk ni (List.mem_of_getElem? hni)
          rw [hidi, ← hs, d1] at this
          simpa using this
        have lb : b = lbl nj := by
          have := C.spec.scopes.lblOk nj (List.mem_of_getElem? hnj)
          rw [hidj, ← r1, d2] at this
          simpa using this
        have hreach : Reach (adjOf (symm leqs)) (lbl ni) (lbl nj) := by
          refine Reach.tail (Reach.refl _) ?_
          rw [mem_adjOf, mem_symm, ← la, ← lb]
          exact Or.inl hab
        have := hsl.mpr hreach
        simpa using this
    have hpost' : l0.post = if e2.label = ej.label then EQ_POST else NEQ_POST := by
      rw [hpost]
      by_cases hl : src.2.label = tgt.2.label
      · rw [if_pos hl, if_pos (hlabel.mpr hl)]
      · rw [if_neg hl, if_neg (fun h => hl (hlabel.mp h))]
    rw [← hpost', c4, ← r1, ← hs]

/-- `argLink` of `m2` on the argument that came from a scopal link (`H`: a hole with its
handle constraint; `HEQ`: the label itself). -/
theorem argLink_sc (C : RTCtx m d m2 reps topLbl sc lbl leqs idToIv ns scs lo hi)
    (hS : IVSorts m = true) (reps2 : Reps) (hr2 : m2.representatives = .ok reps2)
    (hA : repsPos m reps = repsPos m2 reps2) (l0 : Link) (hl0 : l0 ∈ d.links)
    (i : Nat) (hs : l0.start = nidAt i) (e2 : EP) (lb : Var)
    (hlb : lblOfNode sc l0.stop = some lb) (v : Var)
    (hcase : (l0.post = HEQ_POST ∧ v = lb) ∨
      (l0.post = H_POST ∧ NewHole (sc.map (fun s => s.1.vid)) lo hi v ∧
        (⟨v, QEQ, lb⟩ : HCons) ∈ m2.hcons)) :
    argLink m2 reps2 (nidAt i) e2 (l0.role, v) = .ok (some l0) := by
  have hj := C.links_just l0 hl0
  have hne : H_POST ≠ HEQ_POST := by decide
  have hpost : l0.post = H_POST ∨ l0.post = HEQ_POST := by
    rcases hcase with h | h
    · exact Or.inr h.1
    · exact Or.inl h.1
  -- the target: first representative of a scope of `m`
  have htarget : ∃ (sr : Var × List Pred) (tgt : Pred) (rest : List Pred) (p : Nat),
      sr ∈ reps ∧ sr.2 = tgt :: rest ∧ l0.stop = nidAt p ∧ predAt m (nidAt p) = some tgt := by
    cases hj with
    | nonscopal src tgt w hs' ht harg htq hiv hp =>
      exfalso
      split at hp
      · rcases hpost with h | h <;> rw [h] at hp <;> revert hp <;> decide
      · rcases hpost with h | h <;> rw [h] at hp <;> revert hp <;> decide
    | mod src tgt lb' rest hs' ht hrep hsrc hrole hp =>
      exfalso
      rcases hpost with h | h <;> rw [h] at hp <;> revert hp <;> decide
    | qeq src tgt v' hc rest hs' ht harg hniv hhc hhi hrep hp =>
      obtain ⟨p, r1, _, _⟩ := predAt_some m _ _ ht
      exact ⟨(hc.lo, tgt :: rest), tgt, rest, p, dlookup_mem hrep, rfl, r1, by rw [← r1]; exact ht⟩
    | lheq src tgt v' rest hs' ht harg hniv hnohc hrep hp =>
      obtain ⟨p, r1, _, _⟩ := predAt_some m _ _ ht
      exact ⟨(v', tgt :: rest), tgt, rest, p, dlookup_mem hrep, rfl, r1, by rw [← r1]; exact ht⟩
  obtain ⟨sr, tgt, rest, p, hsr, hsr2, hstop, hpt⟩ := htarget
  have hplt : p < m.rels.length := by
    have h1 := hpt
    rw [predAt_nidAt] at h1
    have h2 := (List.getElem?_eq_some_iff.mp h1).1
    unfold MRS.preds at h2
    rw [List.length_zip, ids_length] at h2
    omega
  obtain ⟨np, ep, ivp, hnp, hidp, hep, psp, _⟩ :=
    C.at_pos p m.rels[p] (List.getElem?_eq_getElem hplt)
  have hlbp : lb = ep.label := by
    have := psp.labelOk
    rw [hidp, ← hstop, hlb] at this
    simpa using this
  obtain ⟨r', rest', hlook, hnid⟩ :=
    C.rep_target hS reps2 hr2 hA sr hsr tgt rest hsr2 p hpt ep hep
  obtain ⟨lp1, lp2, lp3⟩ := C.label_props (List.mem_of_getElem? hnp) psp
  unfold argLink
  rcases hcase with ⟨hp, hv⟩ | ⟨hp, hnew, hmem⟩
  · rw [hv]
    rw [C.ivToNid_handle hS lb (by rw [hlbp]; exact lp2)]
    simp only
    have : scopalTarget m2 lb = (lb, HEQ_POST) := by
      unfold scopalTarget
      rw [C.hcLast_label lb (by rw [hlbp]; exact lp1) (by rw [hlbp]; exact lp3)]
    rw [this]
    simp only
    rw [hlbp, hlook]
    simp only [hnid]
    rw [← hp, ← hstop, ← hs]
  · rw [C.ivToNid_handle hS v hnew.1]
    simp only
    have : scopalTarget m2 v = (lb, H_POST) := by
      unfold scopalTarget
      rw [C.hcLast_hole v lb hnew hmem]
    rw [this]
    simp only
    rw [hlbp, hlook]
    simp only [hnid]
    rw [← hp, ← hstop, ← hs]

/-- `argLink` of `m2` on the BODY hole `from_dmrs` adds to a quantifier: no link. -/
theorem argLink_body (C : RTCtx m d m2 reps topLbl sc lbl leqs idToIv ns scs lo hi)
    (hS : IVSorts m = true) (reps2 : Reps) (hr2 : m2.representatives = .ok reps2)
    (start : Int) (e2 : EP) (r : Role) (b : Var)
    (hnew : NewHole (sc.map (fun s => s.1.vid)) lo hi b) (hfree : ∀ hc ∈ m2.hcons, hc.hi ≠ b) :
    argLink m2 reps2 start e2 (r, b) = .ok none := by
  unfold argLink
  rw [C.ivToNid_handle hS b hnew.1]
  simp only
  have hnone : m2.hcLast b = none := by
    cases hf : m2.hcLast b with
    | none => rfl
    | some hc =>
      obtain ⟨h1, h2⟩ := hcLast_some m2 b hc hf
      exact absurd h2 (hfree hc h1)
  have : scopalTarget m2 b = (b, HEQ_POST) := by unfold scopalTarget; rw [hnone]
  rw [this]
  simp only
  have hlk : dlookup b reps2 = none := by
    rw [dlookup_eq_none_iff, (Verif.C07.representatives_subset m2 reps2 hr2).1]
    intro hin
    have hin' : b ∈ dkeys m2.scopeMap := hin
    rw [mem_scopeMap_keys] at hin'
    obtain ⟨pr, hpr, hlab⟩ := hin'
    obtain ⟨k, hk⟩ := List.mem_iff_getElem?.mp hpr
    have hrel : m2.rels[k]? = some pr.2 := by
      unfold MRS.preds at hk; exact (List.getElem?_zip_eq_some.mp hk).2
    have hklt := C.pos_lt k pr.2 hrel
    obtain ⟨nk, ek, ivk, hnk, _, hek, psk, _⟩ :=
      C.at_pos k m.rels[k] (List.getElem?_eq_getElem hklt)
    rw [hrel] at hek; cases hek
    have := (C.label_props (List.mem_of_getElem? hnk) psk).1
    rw [hlab] at this
    exact hnew.2.2.2 this
  rw [hlk]

end RTCtx

end Verif.C04
