/-
C04 — the round-trip theorems from hypotheses on the SOURCE MRS alone, without assuming that
any conversion succeeds.

* `roundtrip_total`, `second_conversion_total`: the way back `from_dmrs` and the second
  conversion return a result (no KeyError / IndexError / MRSError) on the in-space class;
* `roundtrip_iso_total`: `roundtrip_iso` without the hypothesis that `from_dmrs` succeeds;
* `InSpaceSrc` (Src.lean): the in-space class as sixteen decidable predicates of `m` and
  `scope.representatives(m)` only — the two hypotheses that PropsIso.lean states on the DMRS
  (`ScopesHeld m d`, `QuantHead m d`) replaced by source forms that imply them
  (`scopesHeld_of_src`, `quantHead_of_src`), plus `TopRep` (the top scope has a representative:
  its failure is the IndexError of finding F08);
* `roundtrip_iso_src`, `second_conversion_stable_src`: the two claim theorems with NO hypothesis
  on a conversion: all three conversions are proved to succeed;
* `strip_only_named`: what `strip` removes.
-/
import Verif.C04.Src
import Verif.C04.PropsIso

namespace Verif.C04
open Verif.Sem

/-! ## 1. Totality of the way back and of the second conversion -/

/-- **`from_dmrs ∘ from_mrs` is total on the in-space class**: no KeyError, no MRSError, for every
choice of scope labels.  (Only distinct identifiers and O1 are used: without O1 the real code
raises KeyError — a quantifier whose RSTR link ends at another quantifier, or two quantifiers with
the same RSTR target, leave a node without intrinsic variable.) -/
theorem roundtrip_total (m : MRS) (reps : Reps) (d : DMRS) (hN : BaseIdsDistinct m)
    (hQH : QuantHead m d = true) (hr : m.representatives = .ok reps) (h1 : fromMrs m = .ok d)
    (chosen : List Var) : ∃ m2, fromDmrs chosen d = .ok m2 :=
  fromDmrs_total chosen d (dmrsOk_of_fromMrs m hN reps d hr h1 hQH)

/-- **The second conversion is total**: `from_mrs (from_dmrs (from_mrs m))` returns a DMRS (no
IndexError, no KeyError) under the hypotheses of `second_conversion_stable`. -/
theorem second_conversion_total (m : MRS) (hN : BaseIdsDistinct m)
    (hR : RolesOk m = true) (hS : IVSorts m = true) (chosen : List Var) (d : DMRS) (m2 : MRS)
    (h1 : fromMrs m = .ok d) (h2 : fromDmrs chosen d = .ok m2) (reps : Reps)
    (hr : m.representatives = .ok reps)
    (hQ : RstrLinked m reps = true) (hH : ScopesHeld m d = true) (hD : NoDescArg m = true) :
    ∃ d2, fromMrs m2 = .ok d2 := by
  obtain ⟨reps2, hr2⟩ := MRS.representatives_total m2
  obtain ⟨reps', topLbl, sc, lbl, leqs, idToIv, ns, scs, lo, hi, C⟩ :=
    rtctx m hN hR chosen d m2 h1 h2
  have : reps' = reps := by
    have := C.hreps
    rw [hr] at this
    cases this; rfl
  subst this
  exact C.second_total hS reps2 hr2 (C.repsAgree hR hS hQ hH hD reps2 hr2)

/-- **Isomorphism by one variable map, way back not assumed.**  `roundtrip_iso` with the success
of `from_dmrs` proved instead of assumed. -/
theorem roundtrip_iso_total (m : MRS) (reps : Reps) (d : DMRS) (sp : InSpace m reps d)
    (hr : m.representatives = .ok reps) (h1 : fromMrs m = .ok d) (chosen : List Var) :
    ∃ m2, fromDmrs chosen d = .ok m2 ∧ ∃ f : Var → Var, IsoVia f (strip m) m2 := by
  obtain ⟨m2, h2⟩ := roundtrip_total m reps d sp.hN sp.quantHead hr h1 chosen
  exact ⟨m2, h2, roundtrip_iso m reps d sp chosen m2 hr h1 h2⟩

/-! ## 2. From the source alone -/

/-- the first conversion succeeds on `InSpaceSrc`. -/
theorem fromMrs_total_src (m : MRS) (reps : Reps) (sp : InSpaceSrc m reps)
    (hr : m.representatives = .ok reps) : ∃ d, fromMrs m = .ok d :=
  fromMrs_total_of_topRep m sp.hN reps hr sp.topRep

/-- **Isomorphism by one variable map, from the source alone.**  For every MRS `m` of the class
`InSpaceSrc` (sixteen decidable predicates of `m` and `scope.representatives(m)`; no hypothesis
mentions a conversion): `from_mrs m` returns a DMRS `d`, and for every choice of scope labels
`from_dmrs d` returns an MRS `m2` that is `strip m` renamed by ONE injective, sort-preserving
variable map. -/
theorem roundtrip_iso_src (m : MRS) (reps : Reps) (sp : InSpaceSrc m reps)
    (hr : m.representatives = .ok reps) :
    ∃ d, fromMrs m = .ok d ∧ ∀ chosen : List Var,
      ∃ m2, fromDmrs chosen d = .ok m2 ∧ ∃ f : Var → Var, IsoVia f (strip m) m2 := by
  obtain ⟨d, h1⟩ := fromMrs_total_src m reps sp hr
  exact ⟨d, h1, roundtrip_iso_total m reps d (inSpace_of_src m reps d sp hr h1) hr h1⟩

/-- **Second conversion, from the source alone.**  For every MRS `m` with distinct identifiers,
`dict`-like roles other than `MOD`, intrinsic variables of sorts `from_dmrs` reads, quantifiers
that keep their RSTR link, scopes held together (source form), no argument into a scopal
descendant of a co-member, O1 (source form) and a top scope with a representative: all three
conversions succeed, for every choice of scope labels, and
`from_mrs (from_dmrs (from_mrs m))` has the same nodes, top, index and set of links as
`from_mrs m`. -/
theorem second_conversion_stable_src (m : MRS) (reps : Reps) (hN : BaseIdsDistinct m)
    (hR : RolesOk m = true) (hS : IVSorts m = true) (hr : m.representatives = .ok reps)
    (hQ : RstrLinked m reps = true) (hH : ScopesHeldSrc m reps = true) (hD : NoDescArg m = true)
    (hO1 : QuantHeadSrc m reps = true) (hT : TopRep m reps = true) :
    ∃ d, fromMrs m = .ok d ∧ ∀ chosen : List Var,
      ∃ m2 d2, fromDmrs chosen d = .ok m2 ∧ fromMrs m2 = .ok d2 ∧
        d2.nodes = d.nodes ∧ d2.top = d.top ∧ d2.index = d.index ∧
        ∀ l, l ∈ d2.links ↔ l ∈ d.links := by
  obtain ⟨d, h1⟩ := fromMrs_total_of_topRep m hN reps hr hT
  refine ⟨d, h1, ?_⟩
  intro chosen
  have hH' := scopesHeld_of_src m hN reps d hr h1 hH
  obtain ⟨m2, h2⟩ := roundtrip_total m reps d hN (quantHead_of_src m hN reps d hr h1 hO1) hr h1 chosen
  obtain ⟨d2, h3⟩ := second_conversion_total m hN hR hS chosen d m2 h1 h2 reps hr hQ hH' hD
  exact ⟨m2, d2, h2, h3,
    second_conversion_stable m hN hR hS chosen d m2 d2 h1 h2 h3 reps hr hQ hH' hD⟩

/-- the source class as one Boolean. -/
def inSpaceSrcCheck (m : MRS) (reps : Reps) : Bool :=
  decide (BaseIdsDistinct m) && RolesOk m && IVSorts m && RstrLinked m reps &&
  ScopesHeldSrc m reps && HandleSorts m && TopOk m && QeqOnly m && ArgsLinked m reps &&
  NoCargRole m && OneConstraint m && NoConstrainedLabel m && HolesOnce m && QuantBody m &&
  QuantHeadSrc m reps && TopRep m reps

theorem inSpaceSrc_of_check (m : MRS) (reps : Reps) (h : inSpaceSrcCheck m reps = true) :
    InSpaceSrc m reps := by
  unfold inSpaceSrcCheck at h
  simp only [Bool.and_eq_true, decide_eq_true_eq, and_assoc] at h
  obtain ⟨a1, a2, a3, a4, a5, a6, a7, a8, a9, a10, a11, a12, a13, a14, a15, a16⟩ := h
  exact ⟨a1, a2, a3, a4, a5, a6, a7, a8, a9, a10, a11, a12, a13, a14, a15, a16⟩

def inSpaceSrcRun (m : MRS) : Bool :=
  match m.representatives with
  | .ok reps => inSpaceSrcCheck m reps
  | _ => false

/-- `InSpaceSrc` is inhabited (`bigDog`: quantifier, shared label, qeq- and label-scopal
arguments), and the O1 counter-example `rebind` fails exactly `QuantHeadSrc`. -/
example : inSpaceSrcRun bigDog = true ∧ NoDescArg bigDog = true ∧
    inSpaceSrcRun rebind = false ∧ QuantHeadSrc rebind rebindReps = false :=
  ⟨by decide, by decide, by decide, by decide⟩

/-! ## 3. What `strip` removes -/

/-- **`strip` removes only what the claim names** — arguments that are neither intrinsic, nor the
intrinsic variable of a non-quantifier predication, nor a label, nor a handle selecting a scope,
nor a quantifier's BODY (`not_expressible_iff`), and the individual constraints — whenever there
is one constraint per handle, the top selects a scope (`TopSelects`), the index is an intrinsic
variable (`IndexIV`) and every handle constraint is used (`HconsUsed`): top, index, handle
constraints and the variable properties are untouched. -/
theorem strip_only_named (m : MRS) (h1 : OneConstraint m = true) (hT : TopSelects m = true)
    (hI : IndexIV m = true) (hU : HconsUsed m = true) :
    (strip m).top = m.top ∧ (strip m).index = m.index ∧ (strip m).hcons = m.hcons ∧
    (strip m).variables = m.variables ∧ (strip m).icons = [] ∧
    (strip m).rels = m.rels.map (fun e => { e with args := e.args.filter (expressible m e) }) := by
  refine ⟨?_, ?_, ?_, rfl, rfl, rfl⟩
  · have hs : (strip m).top = (match m.top with
        | some t => if selectsScope m t then some t else none
        | none => none) := rfl
    rw [hs]
    unfold TopSelects at hT
    cases ht : m.top with
    | none => rfl
    | some t =>
      rw [ht] at hT
      simp only at hT ⊢
      rw [if_pos hT]
  · have hs : (strip m).index = (match m.index with
        | some v => if (ivToNid m v).isSome then some v else none
        | none => none) := rfl
    rw [hs]
    unfold IndexIV at hI
    cases hi : m.index with
    | none => rfl
    | some v =>
      rw [hi] at hI
      simp only at hI ⊢
      rw [if_pos hI]
  · unfold strip
    simp only
    rw [List.filter_eq_self]
    intro hc hhc
    unfold HconsUsed at hU
    rw [List.all_eq_true] at hU
    have := hU hc hhc
    rw [hcLast_of_oneConstraint m h1 hc hhc]
    simpa using this

end Verif.C04
