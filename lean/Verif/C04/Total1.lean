/-
C04 — totality of the way back, part 1: `fromDmrs chosen d` returns an MRS (no KeyError, no
MRSError) for every DMRS `d` satisfying `DmrsOk` — what `from_dmrs` needs of its input.
Part 2 (Total2.lean) shows `DmrsOk (fromMrs m)` on the in-space class.
-/
import Verif.C04.RoundTrip2

namespace Verif.C04
open Verif.Sem

/-- what `from_dmrs` needs of its input: distinct node ids, links and top between existing nodes,
an index that is a non-quantifier node, every RSTR link ending at a non-quantifier, at most one
quantifier per RSTR target, and every non-scopal argument ending at a non-quantifier. -/
structure DmrsOk (d : DMRS) : Prop where
  nd : d.ids.Nodup
  ends : ∀ l ∈ d.links, l.start ∈ d.ids ∧ l.stop ∈ d.ids
  top : ∀ t, d.top = some t → t ∈ d.ids
  index : ∀ i, d.index = some i → i ∈ d.ids ∧ i ∉ quantStarts d
  rstrTgt : ∀ l ∈ d.links, l.role = RESTRICTION_ROLE → l.stop ∉ quantStarts d
  rstrFun : ∀ l ∈ d.links, ∀ l' ∈ d.links, l.role = RESTRICTION_ROLE →
    l'.role = RESTRICTION_ROLE → l'.stop = l.stop → l'.start = l.start
  nsTgt : ∀ l ∈ d.links, nsLink d l → l.stop ∉ quantStarts d

/-! ### folds -/

theorem foldlM_total {α β ε : Type} (f : β → α → Except ε β) (Q : α → Prop)
    (hstep : ∀ b a, Q a → ∃ b', f b a = .ok b') :
    ∀ (l : List α) (b : β), (∀ a ∈ l, Q a) → ∃ r, l.foldlM f b = .ok r := by
  intro l
  induction l with
  | nil => intro b _; exact ⟨b, rfl⟩
  | cons a l ih =>
    intro b hq
    obtain ⟨b', hf⟩ := hstep b a (hq a List.mem_cons_self)
    obtain ⟨r, hr⟩ := ih b' (fun x hx => hq x (List.mem_cons_of_mem _ hx))
    refine ⟨r, ?_⟩
    rw [List.foldlM_cons, hf]
    exact hr

theorem isSome_dset {κ ν : Type} [DecidableEq κ] (k k' : κ) (v : ν) (l : List (κ × ν))
    (h : (dlookup k l).isSome = true) : (dlookup k (dset k' v l)).isSome = true := by
  by_cases hk : k = k'
  · subst hk; rw [dlookup_dset_self]; rfl
  · rw [dlookup_dset_ne k' k v l hk]; exact h

/-- `qmap[target]` is the quantifier of the RSTR link into `target`, when there is only one. -/
theorem qmapD_lookup (d : DMRS) (qmap : List (Int × Int)) (h : qmapD d = .ok qmap) (l : Link)
    (hl : l ∈ d.links) (hr : l.role = RESTRICTION_ROLE)
    (hfun : ∀ l' ∈ d.links, l'.role = RESTRICTION_ROLE → l'.stop = l.stop → l'.start = l.start) :
    dlookup l.stop qmap = some l.start := by
  unfold qmapD at h
  have key : ∀ (ls : List Link) (acc res : List (Int × Int)),
      (∀ l' ∈ ls, l'.stop = l.stop → l'.start = l.start) →
      ((∃ l' ∈ ls, l'.stop = l.stop) ∨ dlookup l.stop acc = some l.start) →
      ls.foldlM (fun acc l =>
        if l.start ∈ d.ids then (Except.ok (dset l.stop l.start acc) : Except Err _)
        else .error Err.keyError) acc = .ok res →
      dlookup l.stop res = some l.start := by
    intro ls
    induction ls with
    | nil =>
      intro acc res _ hor hf
      simp only [List.foldlM_nil] at hf
      cases hf
      rcases hor with ⟨l', hl', _⟩ | h
      · cases hl'
      · exact h
    | cons l0 ls ih =>
      intro acc res hall hor hf
      rw [List.foldlM_cons] at hf
      by_cases h4 : l0.start ∈ d.ids
      · rw [if_pos h4] at hf
        refine ih _ _ (fun l' hl' => hall l' (List.mem_cons_of_mem _ hl')) ?_ hf
        by_cases hs : l0.stop = l.stop
        · right
          rw [hs, hall l0 List.mem_cons_self hs, dlookup_dset_self]
        · rcases hor with ⟨l', hl', hst⟩ | hacc
          · rcases List.mem_cons.mp hl' with rfl | hin
            · exact absurd hst hs
            · exact Or.inl ⟨l', hin, hst⟩
          · right
            rw [dlookup_dset_ne _ _ _ _ (fun e => hs e.symm)]
            exact hacc
      · rw [if_neg h4] at hf; cases hf
  refine key _ [] qmap ?_ (Or.inl ⟨l, ?_, rfl⟩) h
  · intro l' hl' hst
    rw [List.mem_filter] at hl'
    exact hfun l' hl'.1 (by simpa using hl'.2) hst
  · rw [List.mem_filter]
    exact ⟨hl, by simpa using hr⟩

theorem ivStep_isSome (d : DMRS) (qmap : List (Int × Int)) (st : List (Int × Var) × VFac)
    (n : Node) (k : Int) (h : (dlookup k st.1).isSome = true) :
    (dlookup k (ivStep d qmap st n).1).isSome = true := by
  unfold ivStep
  by_cases hq : n.id ∈ quantStarts d
  · rw [if_pos hq]; exact h
  · rw [if_neg hq]
    simp only
    cases hlk : dlookup n.id qmap with
    | none => exact isSome_dset _ _ _ _ h
    | some q => exact isSome_dset _ _ _ _ (isSome_dset _ _ _ _ h)

theorem ivFold_isSome (d : DMRS) (qmap : List (Int × Int)) :
    ∀ (nodes : List Node) (st : List (Int × Var) × VFac) (k : Int),
      (dlookup k st.1).isSome = true →
      (dlookup k (nodes.foldl (ivStep d qmap) st).1).isSome = true := by
  intro nodes
  induction nodes with
  | nil => intro st k h; exact h
  | cons n rest ih =>
    intro st k h
    rw [List.foldl_cons]
    exact ih _ k (ivStep_isSome d qmap st n k h)

/-- every non-quantifier node gets an intrinsic variable, and so does the quantifier that
`qmap` records for it. -/
theorem ivFold_keys (d : DMRS) (qmap : List (Int × Int)) :
    ∀ (nodes : List Node) (st : List (Int × Var) × VFac) (n : Node), n ∈ nodes →
      n.id ∉ quantStarts d →
      (dlookup n.id (nodes.foldl (ivStep d qmap) st).1).isSome = true ∧
      ∀ q, dlookup n.id qmap = some q →
        (dlookup q (nodes.foldl (ivStep d qmap) st).1).isSome = true := by
  intro nodes
  induction nodes with
  | nil => intro st n hn; cases hn
  | cons n0 rest ih =>
    intro st n hn hq
    rw [List.foldl_cons]
    rcases List.mem_cons.mp hn with rfl | hin
    · have hstep : (dlookup n.id (ivStep d qmap st n).1).isSome = true ∧
          ∀ q, dlookup n.id qmap = some q → (dlookup q (ivStep d qmap st n).1).isSome = true := by
        unfold ivStep
        rw [if_neg hq]
        simp only
        cases hlk : dlookup n.id qmap with
        | none =>
          refine ⟨by rw [dlookup_dset_self]; rfl, ?_⟩
          intro q hq'; cases hq'
        | some q0 =>
          refine ⟨isSome_dset _ _ _ _ (by rw [dlookup_dset_self]; rfl), ?_⟩
          intro q hq'
          cases hq'
          rw [dlookup_dset_self]; rfl
      exact ⟨ivFold_isSome d qmap rest _ _ hstep.1,
        fun q hq' => ivFold_isSome d qmap rest _ _ (hstep.2 q hq')⟩
    · exact ih _ n hin hq

/-! ### the stages -/

theorem mapE_not_error {α β ε : Type} (f : α → Except ε β) (xs : List α) (e : ε)
    (h : ∀ x ∈ xs, ∃ y, f x = .ok y) (hm : mapE f xs = .error e) : False := by
  obtain ⟨ys, hys⟩ := mapE_total f xs h
  rw [hys] at hm; cases hm

theorem nodeById_some (d : DMRS) (i : Int) (h : i ∈ d.ids) : ∃ n, nodeById d i = some n := by
  unfold DMRS.ids at h
  obtain ⟨n, hn, hid⟩ := List.mem_map.mp h
  unfold nodeById
  cases hf : d.nodes.reverse.find? (fun n => n.id = i) with
  | some n' => exact ⟨n', rfl⟩
  | none =>
    rw [List.find?_eq_none] at hf
    have := hf n (List.mem_reverse.mpr hn)
    simp [hid] at this

theorem nsFold_total (idToIv : List (Int × Var)) (l : List (Int × Role × Int))
    (args : List (Role × Var)) (h : ∀ a ∈ l, (dlookup a.2.2 idToIv).isSome = true) :
    ∃ r, l.foldlM (nsStep idToIv) args = .ok r := by
  refine foldlM_total (nsStep idToIv) (fun a => (dlookup a.2.2 idToIv).isSome = true) ?_ l args h
  intro b a ha
  unfold nsStep
  cases hlk : dlookup a.2.2 idToIv with
  | none => rw [hlk] at ha; cases ha
  | some v => exact ⟨_, rfl⟩

theorem scFold_total (l : List (Int × Role × String × Var))
    (acc : List (Role × Var) × VFac × List HCons)
    (h : ∀ a ∈ l, a.2.2.1 = LHEQ ∨ a.2.2.1 = QEQ) :
    ∃ r, l.foldlM scStep acc = .ok r := by
  refine foldlM_total scStep (fun a => a.2.2.1 = LHEQ ∨ a.2.2.1 = QEQ) ?_ l acc h
  intro b a ha
  unfold scStep
  by_cases h1 : a.2.2.1 = LHEQ
  · rw [if_pos h1]; exact ⟨_, rfl⟩
  · rw [if_neg h1]
    rcases ha with h | h
    · exact absurd h h1
    · rw [if_pos h]; exact ⟨_, rfl⟩

/-- **`from_dmrs` is total on `DmrsOk`.** -/
theorem fromDmrs_total (chosen : List Var) (d : DMRS) (hd : DmrsOk d) :
    ∃ m2, fromDmrs chosen d = .ok m2 := by
  -- the scopes
  have hsc : ∃ r, d.scopes = .ok r := by
    cases hs : d.scopes with
    | ok r => exact ⟨r, rfl⟩
    | error e =>
      exfalso
      rcases (dmrs_scopes_error d e hs).2 with ⟨l, hl, _, hbad⟩ | ⟨t, ht, hbad⟩
      · rcases hbad with hb | hb
        · exact hb (hd.ends l hl).1
        · exact hb (hd.ends l hl).2
      · exact hbad (hd.top t ht)
  obtain ⟨r, hr⟩ := hsc
  have h1 : ∃ topLbl sc, scopesCh chosen d = .ok (topLbl, sc) := by
    unfold scopesCh; rw [hr]; exact ⟨_, _, rfl⟩
  obtain ⟨topLbl, sc, h1⟩ := h1
  obtain ⟨lbl, leqs, S⟩ := scopesCh_spec chosen d hd.nd topLbl sc h1
  have hlbl : ∀ i ∈ d.ids, ∃ l, lblOfNode sc i = some l := by
    intro i hi
    unfold DMRS.ids at hi
    obtain ⟨n, hn, rfl⟩ := List.mem_map.mp hi
    obtain ⟨s, _, _, hs⟩ := S.lblOfNode_node hn
    exact ⟨s.1, hs⟩
  -- the non-scopal arguments
  have h2 : ∃ ns, nsArgsD d = .ok ns := by
    unfold nsArgsD
    split
    · rename_i e hm
      refine (mapE_not_error _ _ _ ?_ hm).elim
      intro l hl
      by_cases c1 : l.role = BARE_EQ_ROLE
      · rw [if_pos c1]; exact ⟨_, rfl⟩
      · rw [if_neg c1]
        by_cases c2 : l.post = H_POST ∨ l.post = HEQ_POST
        · rw [if_pos c2]; exact ⟨_, rfl⟩
        · rw [if_neg c2]
          obtain ⟨n, hn⟩ := nodeById_some d l.stop (hd.ends l hl).2
          rw [hn]
          simp only
          cases ht : n.type with
          | none => exact ⟨_, rfl⟩
          | some t =>
            simp only
            by_cases c3 : (!isInfix t.toList "xeipu".toList) = true
            · rw [if_pos c3]; exact ⟨_, rfl⟩
            · rw [if_neg c3, if_pos (hd.ends l hl).1]; exact ⟨_, rfl⟩
    · exact ⟨_, rfl⟩
  obtain ⟨ns, h2⟩ := h2
  -- the scopal arguments
  have h3 : ∃ scs, scArgsD d sc = .ok scs := by
    unfold scArgsD
    split
    · rename_i e hm
      refine (mapE_not_error _ _ _ ?_ hm).elim
      intro l hl
      simp only
      obtain ⟨lb, hlb⟩ := hlbl l.stop (hd.ends l hl).2
      by_cases c1 : l.post = HEQ_POST
      · rw [if_pos c1]; simp only [hlb, if_pos (hd.ends l hl).1]; exact ⟨_, rfl⟩
      · rw [if_neg c1]
        by_cases c2 : l.post = H_POST
        · rw [if_pos c2]; simp only [hlb, if_pos (hd.ends l hl).1]; exact ⟨_, rfl⟩
        · rw [if_neg c2]; exact ⟨_, rfl⟩
    · exact ⟨_, rfl⟩
  obtain ⟨scs, h3⟩ := h3
  -- qmap
  have h4 : ∃ qmap, qmapD d = .ok qmap := by
    unfold qmapD
    refine foldlM_total _ (fun l : Link => l.start ∈ d.ids) ?_ _ _ ?_
    · intro b a ha
      rw [if_pos ha]; exact ⟨_, rfl⟩
    · intro l hl
      rw [List.mem_filter] at hl
      exact (hd.ends l hl.1).1
  obtain ⟨qmap, h4⟩ := h4
  -- the intrinsic variables: every node has one
  have hiv : ∀ i ∈ d.ids,
      (dlookup i (buildIvs d qmap (vfReserve (topNew d).2 sc)).1).isSome = true := by
    intro i hi
    unfold buildIvs
    by_cases hq : i ∈ quantStarts d
    · unfold quantStarts at hq
      obtain ⟨l, hl, hls⟩ := List.mem_map.mp hq
      rw [List.mem_filter] at hl
      have hrole : l.role = RESTRICTION_ROLE := by simpa using hl.2
      have hstop := (hd.ends l hl.1).2
      unfold DMRS.ids at hstop
      obtain ⟨n, hn, hnid⟩ := List.mem_map.mp hstop
      have hnq : n.id ∉ quantStarts d := by rw [hnid]; exact hd.rstrTgt l hl.1 hrole
      have hlk := qmapD_lookup d qmap h4 l hl.1 hrole
        (fun l' hl' hr' hst => hd.rstrFun l hl.1 l' hl' hrole hr' hst)
      rw [← hnid, hls] at hlk
      exact (ivFold_keys d qmap d.nodes _ n hn hnq).2 i hlk
    · unfold DMRS.ids at hi
      obtain ⟨n, hn, rfl⟩ := List.mem_map.mp hi
      exact (ivFold_keys d qmap d.nodes _ n hn hq).1
  -- the index
  have h5 : ∃ index, indexOf d (buildIvs d qmap (vfReserve (topNew d).2 sc)).1 = .ok index := by
    unfold indexOf
    cases hi : d.index with
    | none => exact ⟨_, rfl⟩
    | some i =>
      simp only
      by_cases h0 : i = 0
      · rw [if_pos h0]; exact ⟨_, rfl⟩
      · rw [if_neg h0]
        have := hiv i (hd.index i hi).1
        cases hlk : dlookup i (buildIvs d qmap (vfReserve (topNew d).2 sc)).1 with
        | none => rw [hlk] at this; cases this
        | some v => exact ⟨_, rfl⟩
  obtain ⟨index, h5⟩ := h5
  -- the predications
  have h6 : ∃ st, d.nodes.foldlM
      (buildRel d sc (buildIvs d qmap (vfReserve (topNew d).2 sc)).1 ns scs)
      { vf := (buildIvs d qmap (vfReserve (topNew d).2 sc)).2,
        hcons := hcTop (topNew d).1 topLbl, rels := [] } = .ok st := by
    refine foldlM_total _ (fun n : Node => n ∈ d.nodes) ?_ _ _ (fun n hn => hn)
    intro st n hn
    have hnid : n.id ∈ d.ids := by unfold DMRS.ids; exact List.mem_map_of_mem hn
    obtain ⟨lb, hlb⟩ := hlbl n.id hnid
    have hivn := hiv n.id hnid
    unfold buildRel
    rw [hlb]
    cases hlk : dlookup n.id (buildIvs d qmap (vfReserve (topNew d).2 sc)).1 with
    | none => rw [hlk] at hivn; cases hivn
    | some iv =>
      simp only
      obtain ⟨args1, ha1⟩ := nsFold_total (buildIvs d qmap (vfReserve (topNew d).2 sc)).1
        (ns.filter (fun a => a.1 = n.id)) [(INTRINSIC_ROLE, iv)] (by
          intro a ha
          rw [List.mem_filter] at ha
          obtain ⟨l, hl, hx, hnsl, _⟩ := nsArgsD_mem d ns h2 a ha.1
          have : a.2.2 = l.stop := by rw [hx]
          rw [this]
          by_cases hq : l.stop ∈ quantStarts d
          · exact absurd hq (hd.nsTgt l hl hnsl)
          · exact hiv l.stop (hd.ends l hl).2)
      rw [ha1]
      simp only
      obtain ⟨r2, ha2⟩ := scFold_total (scs.filter (fun a => a.1 = n.id)) (args1, st.vf, st.hcons) (by
        intro a ha
        rw [List.mem_filter] at ha
        obtain ⟨l, _, _, _, hrel, _, _⟩ := scArgsD_mem d sc scs h3 a ha.1
        unfold scRel at hrel
        by_cases c1 : l.post = HEQ_POST
        · rw [if_pos c1] at hrel; left; simpa using hrel.symm
        · rw [if_neg c1] at hrel
          by_cases c2 : l.post = H_POST
          · rw [if_pos c2] at hrel; right; simpa using hrel.symm
          · rw [if_neg c2] at hrel; cases hrel)
      rw [ha2]
      obtain ⟨args2, vf2, hcons2⟩ := r2
      exact ⟨_, rfl⟩
  obtain ⟨st, h6⟩ := h6
  unfold fromDmrs
  rw [h1]
  simp only
  rw [h2]
  simp only
  rw [h3]
  simp only
  rw [h4]
  simp only
  rw [h5]
  simp only
  rw [h6]
  exact ⟨_, rfl⟩

end Verif.C04
