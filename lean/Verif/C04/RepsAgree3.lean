/-
C04 — discharging `RepsAgree`, part 3: non-scopal arguments and scopal successors of `m` and
of the MRS that comes back, position by position.
-/
import Verif.C04.RepsAgree2

namespace Verif.C04
open Verif.Sem

theorem sortIn_handle (v : Var) (h : v.sort = HANDLE) : v.sortIn "xeipu" = false := by
  unfold Var.sortIn; rw [h]; decide

theorem sortIn_q (v : Var) (h : v.sort = "q") : v.sortIn "xeipu" = false := by
  unfold Var.sortIn; rw [h]; decide

theorem mem_outArgs_some (e : EP) (a : Role × Var) (t : String) :
    a ∈ e.outArgs (some t) ↔ a ∈ e.outArgs none ∧ a.2.sortIn t = true := by
  unfold EP.outArgs
  simp only [List.mem_filter, Bool.and_true, Bool.and_eq_true]
  constructor
  · rintro ⟨h1, h2, h3⟩; exact ⟨⟨h1, h2⟩, h3⟩
  · rintro ⟨⟨h1, h2⟩, h3⟩; exact ⟨h1, h2, h3⟩

/-- a non-scopal argument link from node `i` to node `i'`. -/
def NSL (d : DMRS) (i i' : Nat) : Prop :=
  ∃ l ∈ d.links, nsLink d l ∧ l.start = nidAt i ∧ l.stop = nidAt i'

namespace RTCtx
variable {m : MRS} {d : DMRS} {m2 : MRS} {reps : Reps} {topLbl : Option Var}
  {sc : List (Var × List Node)} {lbl : Node → Var} {leqs : List (Var × Var)}
  {idToIv : List (Int × Var)} {ns : List (Int × Role × Int)}
  {scs : List (Int × Role × String × Var)} {lo hi : Nat}

/-- what an `nsLink` of `fromMrs m` says about its ends. -/
theorem nsl_ends (C : RTCtx m d m2 reps topLbl sc lbl leqs idToIv ns scs lo hi)
    (l : Link) (hl : l ∈ d.links) (hnsl : nsLink d l) :
    ∃ i j e ej v, l.start = nidAt i ∧ l.stop = nidAt j ∧ m.rels[i]? = some e ∧
      m.rels[j]? = some ej ∧ (l.role, v) ∈ e.outArgs none ∧ ej.isQuantifier = false ∧
      ej.iv = some v := by
  obtain ⟨hmod, hp1, hp2, _⟩ := hnsl
  cases C.links_just l hl with
  | qeq src tgt v' hc rest hs' ht harg hniv hhc hhi hrep hpost => exact absurd hpost hp1
  | lheq src tgt v' rest hs' ht harg hniv hnohc hrep hpost => exact absurd hpost hp2
  | mod src tgt lb rest hs' ht hrep hsrc hrole hpost => exact absurd hrole hmod
  | nonscopal src tgt w hs' ht harg htq hiv hpost =>
    obtain ⟨i, q1, q2, _⟩ := predAt_some m _ _ hs'
    obtain ⟨j, r1, r2, _⟩ := predAt_some m _ _ ht
    exact ⟨i, j, src.2, tgt.2, w, q1, r1, preds_snd m i src q2, preds_snd m j tgt r2, harg, htq, hiv⟩

/-- the link of a non-scopal argument. -/
theorem nsl_of_arg (C : RTCtx m d m2 reps topLbl sc lbl leqs idToIv ns scs lo hi)
    (hR : RolesOk m = true) (hS : IVSorts m = true) (i j : Nat) (e ej : EP)
    (he : m.rels[i]? = some e) (hej : m.rels[j]? = some ej) (r : Role) (v : Var)
    (ha : (r, v) ∈ e.outArgs none) (hq : ej.isQuantifier = false) (hiv : ej.iv = some v) :
    NSL d i j := by
  have hN := C.hN
  obtain ⟨o, ho, hol⟩ := fromMrs_argLink_ok m reps d C.hreps C.hd i e he (r, v) ha
  obtain ⟨nn, hnn⟩ := ivToNid_isSome m v ej (List.mem_of_getElem? hej) hq hiv
  obtain ⟨l, rfl⟩ := argLink_some_of_linked m reps _ e (r, v) o ho (by
    unfold argLinked; rw [hnn]; rfl)
  have hl := hol l rfl
  obtain ⟨hstart, hrole⟩ := argLink_start_role m reps _ e (r, v) l ho
  have hstop : l.stop = nidAt j := by
    unfold argLink at ho
    rw [hnn] at ho
    simp only at ho
    cases hep : epById m v with
    | none => rw [hep] at ho; cases ho
    | some t =>
      rw [hep] at ho
      simp only [Except.ok.injEq, Option.some.injEq] at ho
      rw [← ho]
      simp only
      obtain ⟨j', e', c1, c2, c3, c4⟩ := ivToNid_some m v nn hnn
      rw [c4]
      have b1 := preds_getElem?_base m hN j' e' c1
      have b2 := preds_getElem?_base m hN j ej hej
      rw [baseId_of_iv e' v c2 c3] at b1
      rw [baseId_of_iv ej v hq hiv] at b2
      have hk := preds_keys_nodup m hN
      have := key_unique hk (List.mem_of_getElem? b1) (List.mem_of_getElem? b2) rfl
      have hnd := ids_nodup m hN
      have p1 := posOf_of_getElem m hnd j' _ b1
      have p2 := posOf_of_getElem m hnd j _ b2
      rw [this] at p1
      rw [← p1, p2]
  have hpost : l.post ≠ H_POST ∧ l.post ≠ HEQ_POST := by
    unfold argLink at ho
    rw [hnn] at ho
    simp only at ho
    cases hep : epById m v with
    | none => rw [hep] at ho; cases ho
    | some t =>
      rw [hep] at ho
      simp only [Except.ok.injEq, Option.some.injEq] at ho
      rw [← ho]
      simp only
      split <;> exact ⟨by decide, by decide⟩
  have hmod : l.role ≠ BARE_EQ_ROLE := by
    intro hm
    unfold RolesOk at hR
    rw [List.all_eq_true] at hR
    have hre := hR e (List.mem_of_getElem? he)
    simp only [Bool.and_eq_true, Bool.not_eq_true', List.any_eq_false] at hre
    have := hre.2 (r, v) (mem_outArgs e _ ha).1
    rw [← hrole, hm] at this
    simp at this
  exact ⟨l, hl, nsLink_of_post m hN hS reps d C.hreps C.hd l hl hmod hpost.1 hpost.2, hstart, hstop⟩

/-- the intrinsic variable of a non-quantifier of `m` and of its image in `m2`. -/
theorem iv2_facts (C : RTCtx m d m2 reps topLbl sc lbl leqs idToIv ns scs lo hi)
    (j : Nat) (ej : EP) (hej : m.rels[j]? = some ej) (hq : ej.isQuantifier = false) (v : Var)
    (hiv : ej.iv = some v) :
    ∃ ej2 iv2, m2.rels[j]? = some ej2 ∧ ej2.iv = some iv2 ∧ ej2.isQuantifier = false ∧
      iv2.sort = v.sort ∧ dlookup (nidAt j) idToIv = some iv2 := by
  obtain ⟨n, e2, iv, hn, hid, he2, ps, he2iv⟩ := C.at_pos j ej hej
  have hnq : n.id ∉ quantStarts d := by
    rw [hid]; exact not_quantStart_of_nonquant m C.hN reps d C.hreps C.hd j ej hej hq
  obtain ⟨iv', c1, c2, _, _⟩ := C.spec.ivNonQ n (List.mem_of_getElem? hn) hnq
  rw [ps.ivOk] at c1
  cases c1
  obtain ⟨_, hsh⟩ := nodes_shape m C.hN d C.hd
  obtain ⟨n', hn', _, _, _, _, _, _, _, hty, _⟩ := hsh j ej hej
  rw [hn] at hn'; cases hn'
  obtain ⟨t1, _⟩ := hty hq v hiv
  exact ⟨e2, iv, he2, he2iv, C.nonquant_of_m j ej hej hq hid ps, by rw [c2, t1]; rfl,
    by rw [← hid]; exact ps.ivOk⟩

/-- in `m`: "the id of the predication at `i'` is a non-scopal argument of the one at `i`" is
"there is a non-scopal link from `i` to `i'`". -/
theorem nsl_iff_m (C : RTCtx m d m2 reps topLbl sc lbl leqs idToIv ns scs lo hi)
    (hR : RolesOk m = true) (hS : IVSorts m = true) (i i' : Nat) (p q : Pred)
    (hp : m.preds[i]? = some p) (hq : m.preds[i']? = some q) :
    q.1 ∈ m.nsArgs p ↔ NSL d i i' := by
  have hrp := preds_snd m i p hp
  have hrq := preds_snd m i' q hq
  have hqid := pred_id_eq_baseId m C.hN q (List.mem_of_getElem? hq)
  unfold MRS.nsArgs
  constructor
  · intro hmem
    obtain ⟨a, ha, ha2⟩ := List.mem_map.mp hmem
    rw [mem_outArgs_some] at ha
    cases hqq : q.2.isQuantifier with
    | true =>
      exfalso
      have : a.2.sort = "q" := by
        rw [ha2, hqid]; unfold EP.baseId; rw [hqq]; simp
      rw [sortIn_q a.2 this] at ha
      exact absurd ha.2 (by decide)
    | false =>
      have hS0 := hS
      unfold IVSorts at hS
      rw [List.all_eq_true] at hS
      have hs := hS q.2 (List.mem_of_getElem? hrq)
      rw [hqq] at hs
      cases hiv : q.2.iv with
      | none => rw [hiv] at hs; simp at hs
      | some w =>
        have hw : a.2 = w := by rw [ha2, hqid, baseId_of_iv q.2 w hqq hiv]
        have ha' : (a.1, w) ∈ p.2.outArgs none := by rw [← hw]; exact ha.1
        exact C.nsl_of_arg hR hS0 i i' p.2 q.2 hrp hrq a.1 w ha' hqq hiv
  · rintro ⟨l, hl, hnsl, hs, ht⟩
    obtain ⟨i0, j0, e, ej, v, a1, a2, a3, a4, a5, a6, a7⟩ := C.nsl_ends l hl hnsl
    have : i0 = i := nidAt_inj _ _ (by rw [← a1, hs])
    subst this
    have : j0 = i' := nidAt_inj _ _ (by rw [← a2, ht])
    subst this
    rw [hrp] at a3; cases a3
    rw [hrq] at a4; cases a4
    refine List.mem_map.mpr ⟨(l.role, v), ?_, ?_⟩
    · rw [mem_outArgs_some]
      refine ⟨a5, ?_⟩
      unfold IVSorts at hS
      rw [List.all_eq_true] at hS
      have hs' := hS q.2 (List.mem_of_getElem? hrq)
      rw [a6, a7] at hs'
      simpa [Var.sortIn] using hs'
    · rw [hqid, baseId_of_iv q.2 v a6 a7]

/-- the same in `m2`. -/
theorem nsl_iff_m2 (C : RTCtx m d m2 reps topLbl sc lbl leqs idToIv ns scs lo hi)
    (hR : RolesOk m = true) (hS : IVSorts m = true) (i i' : Nat) (p2 q2 : Pred)
    (hp : m2.preds[i]? = some p2) (hq : m2.preds[i']? = some q2) :
    q2.1 ∈ m2.nsArgs p2 ↔ NSL d i i' := by
  have hN2 := C.baseIds2 hS
  have hrp := preds_snd m2 i p2 hp
  have hrq := preds_snd m2 i' q2 hq
  have hilt := C.pos_lt i p2.2 hrp
  have hi'lt := C.pos_lt i' q2.2 hrq
  obtain ⟨n, e2, iv, hn, hid, he2, ps, he2iv⟩ :=
    C.at_pos i m.rels[i] (List.getElem?_eq_getElem hilt)
  rw [hrp] at he2; cases he2
  obtain ⟨nq, eq2, ivq, hnq, hidq, heq2, psq, heq2iv⟩ :=
    C.at_pos i' m.rels[i'] (List.getElem?_eq_getElem hi'lt)
  rw [hrq] at heq2; cases heq2
  have hqid := pred_id_eq_baseId m2 hN2 q2 (List.mem_of_getElem? hq)
  unfold MRS.nsArgs
  constructor
  · intro hmem
    obtain ⟨a, ha, ha2⟩ := List.mem_map.mp hmem
    rw [mem_outArgs_some] at ha
    obtain ⟨ham, hne0, _⟩ := mem_outArgs p2.2 a ha.1
    cases hqq : q2.2.isQuantifier with
    | true =>
      exfalso
      have : a.2.sort = "q" := by
        rw [ha2, hqid]; unfold EP.baseId; rw [hqq]; simp
      rw [sortIn_q a.2 this] at ha
      exact absurd ha.2 (by decide)
    | false =>
      have hw : a.2 = ivq := by rw [ha2, hqid, baseId_of_iv q2.2 ivq hqq heq2iv]
      cases ps.origin a ham with
      | arg0 h => rw [h] at hne0; exact absurd rfl hne0
      | ns x hx hidx hr hv =>
        obtain ⟨l, hl, rfl, hnsl⟩ := C.spec.nsMem x hx
        obtain ⟨i0, j0, e, ej, v, a1, a2, a3, a4, a5, a6, a7⟩ := C.nsl_ends l hl hnsl
        obtain ⟨ej2, iv2, b1, b2, b3, _, b5⟩ := C.iv2_facts j0 ej a4 a6 v a7
        have hiveq : iv2 = ivq := by
          simp only at hv
          rw [a2, b5] at hv
          simp only [Option.some.injEq] at hv
          rw [hv, hw]
        have : i' = j0 := C.iv_unique hS j0 i' ej2 q2.2 b1 hrq b3 hqq iv2 b2 (by rw [hiveq]; exact heq2iv)
        subst this
        exact ⟨l, hl, hnsl, by rw [← hid]; exact hidx, a2⟩
      | lheq x hx hidx hr hrel hv =>
        exfalso
        obtain ⟨l, hl, _, _, _, a4⟩ := C.spec.scMem x hx
        obtain ⟨_, j0, _, _, a2, _, hj0, _⟩ := justified_ends m reps l (C.links_just l hl)
        obtain ⟨nj, ej2, ivj, hnj, hidj, _, psj, _⟩ :=
          C.at_pos j0 m.rels[j0] (List.getElem?_eq_getElem hj0)
        have hlab : a.2 = ej2.label := by
          have := psj.labelOk
          rw [hidj, ← a2, a4] at this
          rw [hv]; simpa using this
        have := (C.label_props (List.mem_of_getElem? hnj) psj).2.1
        rw [← hlab] at this
        rw [sortIn_handle a.2 this] at ha
        exact absurd ha.2 (by decide)
      | qeq x hx hidx hr hrel hnew hhc =>
        exfalso
        rw [sortIn_handle a.2 hnew.1] at ha
        exact absurd ha.2 (by decide)
      | body hr hq' hnew hfree =>
        exfalso
        rw [sortIn_handle a.2 hnew.1] at ha
        exact absurd ha.2 (by decide)
  · rintro ⟨l, hl, hnsl, hs, ht⟩
    obtain ⟨i0, j0, e, ej, v, a1, a2, a3, a4, a5, a6, a7⟩ := C.nsl_ends l hl hnsl
    have : i0 = i := nidAt_inj _ _ (by rw [← a1, hs])
    subst this
    have : j0 = i' := nidAt_inj _ _ (by rw [← a2, ht])
    subst this
    obtain ⟨ej2, iv2, b1, b2, b3, b4, b5⟩ := C.iv2_facts j0 ej a4 a6 v a7
    rw [hrq] at b1
    simp only [Option.some.injEq] at b1
    subst b1
    obtain ⟨_, c2, _⟩ := ps.complete (C.rf n.id)
    obtain ⟨v2, hv2, hm⟩ := c2 _ (C.spec.nsComplete l hl hnsl) (by rw [hs, hid])
    have hv2' : v2 = iv2 := by
      simp only at hv2
      rw [ht, b5] at hv2
      simpa using hv2.symm
    subst hv2'
    refine List.mem_map.mpr ⟨(l.role, v2), ?_, ?_⟩
    · rw [mem_outArgs_some]
      refine ⟨mem_outArgs_of p2.2 _ hm (mem_outArgs e _ a5).2.1
        (mem_outArgs e _ a5).2.2, ?_⟩
      unfold IVSorts at hS
      rw [List.all_eq_true] at hS
      have hs' := hS ej (List.mem_of_getElem? a4)
      rw [a6, a7] at hs'
      simp only [Bool.false_or] at hs'
      unfold Var.sortIn
      rw [b4]; exact hs'
    · rw [hqid, baseId_of_iv q2.2 v2 b3 b2]

end RTCtx

end Verif.C04
