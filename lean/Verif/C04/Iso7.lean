/-
C04 — the round trip as ONE variable map, general case, part 1: the in-space class and what its
hypotheses say.
-/
import Verif.C04.Holes4

namespace Verif.C04
open Verif.Sem

/-- **The in-space class** of the isomorphism theorem: the conjunction of the named, decidable
hypotheses (all evaluated by the driver on every generated case). -/
structure InSpace (m : MRS) (reps : Reps) (d : DMRS) : Prop where
  hN : BaseIdsDistinct m
  hR : RolesOk m = true
  hS : IVSorts m = true
  hQ : RstrLinked m reps = true
  hH : ScopesHeld m d = true
  handleSorts : HandleSorts m = true
  topOk : TopOk m = true
  qeqOnly : QeqOnly m = true
  argsLinked : ArgsLinked m reps = true
  noCargRole : NoCargRole m = true
  oneConstraint : OneConstraint m = true
  noConstrainedLabel : NoConstrainedLabel m = true
  holesOnce : HolesOnce m = true
  quantBody : QuantBody m = true
  /-- O1: each quantifier binds the first representative of its restriction -/
  quantHead : QuantHead m d = true

section Unpack
variable {m : MRS} {reps : Reps} {d : DMRS}

theorem InSpace.labelSort (sp : InSpace m reps d) (e : EP) (he : e ∈ m.rels) :
    e.label.sort = HANDLE := by
  have := sp.handleSorts
  unfold HandleSorts at this
  simp only [Bool.and_eq_true, List.all_eq_true, beq_iff_eq] at this
  exact this.1.1.1 e he

theorem InSpace.topSort (sp : InSpace m reps d) (t : Var) (ht : m.top = some t) :
    t.sort = HANDLE := by
  have := sp.handleSorts
  unfold HandleSorts at this
  simp only [Bool.and_eq_true] at this
  have h2 := this.1.1.2
  rw [ht] at h2
  simpa using h2

theorem InSpace.hiSort (sp : InSpace m reps d) (hc : HCons) (hhc : hc ∈ m.hcons) :
    hc.hi.sort = HANDLE := by
  have := sp.handleSorts
  unfold HandleSorts at this
  simp only [Bool.and_eq_true, List.all_eq_true, beq_iff_eq] at this
  exact this.1.2 hc hhc

theorem InSpace.holeSort (sp : InSpace m reps d) (e : EP) (he : e ∈ m.rels) (a : Role × Var)
    (ha : a ∈ e.args) (hh : isHoleArg m e a = true) : a.2.sort = HANDLE := by
  have := sp.handleSorts
  unfold HandleSorts at this
  simp only [Bool.and_eq_true, List.all_eq_true, Bool.or_eq_true, Bool.not_eq_true',
    beq_iff_eq] at this
  rcases this.2 e he a ha with h | h
  · rw [hh] at h; cases h
  · exact h

theorem InSpace.topNot (sp : InSpace m reps d) (t : Var) (ht : m.top = some t) :
    t ∉ m.labels ∧ ∀ e ∈ m.rels, ∀ a ∈ e.args, a.2 ≠ t := by
  have := sp.topOk
  unfold TopOk at this
  rw [ht] at this
  simp only [Bool.and_eq_true, Bool.not_eq_true', decide_eq_false_iff_not, List.all_eq_true,
    bne_iff_ne, ne_eq] at this
  exact this

theorem InSpace.qeq (sp : InSpace m reps d) (hc : HCons) (hhc : hc ∈ m.hcons) : hc.rel = QEQ := by
  have := sp.qeqOnly
  unfold QeqOnly at this
  simp only [List.all_eq_true, beq_iff_eq] at this
  exact this hc hhc

theorem InSpace.linked (sp : InSpace m reps d) (e : EP) (he : e ∈ m.rels) (a : Role × Var)
    (ha : a ∈ e.outArgs none) (h : a.2 ∈ m.labels ∨ selectsScope m a.2 = true) :
    argLinked m reps a.2 = true := by
  have := sp.argsLinked
  unfold ArgsLinked at this
  simp only [List.all_eq_true, Bool.or_eq_true, Bool.not_eq_true', decide_eq_true_eq] at this
  rcases this e he a ha with h' | h'
  · rcases h with h | h
    · have : (decide (a.2 ∈ m.labels) || selectsScope m a.2) = true := by simp [h]
      rw [this] at h'; cases h'
    · have : (decide (a.2 ∈ m.labels) || selectsScope m a.2) = true := by simp [h]
      rw [this] at h'; cases h'
  · exact h'

theorem InSpace.noCarg (sp : InSpace m reps d) (e : EP) (he : e ∈ m.rels) (a : Role × Var)
    (ha : a ∈ e.args) : a.1 ≠ CONSTANT_ROLE := by
  have := sp.noCargRole
  unfold NoCargRole at this
  simp only [List.all_eq_true, bne_iff_ne, ne_eq] at this
  exact this e he a ha

theorem InSpace.hiNodup (sp : InSpace m reps d) : (m.hcons.map (·.hi)).Nodup := by
  have := sp.oneConstraint
  unfold OneConstraint at this
  rw [beq_iff_eq] at this
  have h2 : (m.hcons.map (·.hi)).eraseDups.length = (m.hcons.map (·.hi)).length := by
    rw [this, List.length_map]
  exact (eraseDups_length_eq_iff _).mp h2

/-- with one constraint per handle, any constraint on `v` is THE constraint on `v`. -/
theorem InSpace.hcLast_of_mem (sp : InSpace m reps d) (hc : HCons) (hhc : hc ∈ m.hcons) :
    m.hcLast hc.hi = some hc := by
  cases hl : m.hcLast hc.hi with
  | none => exact absurd rfl (hcLast_none m hc.hi hl hc hhc)
  | some hc' =>
    obtain ⟨h1, h2⟩ := hcLast_some m hc.hi hc' hl
    rw [c07_inj_of_nodup_map (fun c : HCons => c.hi) m.hcons sp.hiNodup hc' h1 hc hhc h2]

theorem InSpace.hiNotLabel (sp : InSpace m reps d) (hc : HCons) (hhc : hc ∈ m.hcons) :
    hc.hi ∉ m.labels := by
  have := sp.noConstrainedLabel
  unfold NoConstrainedLabel at this
  simp only [List.all_eq_true, Bool.not_eq_true', decide_eq_false_iff_not] at this
  exact this hc hhc

theorem InSpace.holeOnce (sp : InSpace m reps d) (i j : Nat) (e e' : EP) (a a' : Role × Var)
    (he : m.rels[i]? = some e) (he' : m.rels[j]? = some e') (ha : a ∈ e.args) (ha' : a' ∈ e'.args)
    (hh : isHoleArg m e a = true) (hh' : isHoleArg m e' a' = true) (hv : a.2 = a'.2) :
    i = j ∧ a = a' := by
  have := sp.holesOnce
  unfold HolesOnce at this
  simp only [List.all_eq_true, Bool.or_eq_true, Bool.not_eq_true', bne_iff_ne, ne_eq,
    Bool.and_eq_true, beq_iff_eq] at this
  have h1 := this (e, i) (List.mem_zipIdx_iff_getElem?.mpr he) a ha
  rcases h1 with h1 | h1
  · rw [hh] at h1; cases h1
  · rcases h1 (e', j) (List.mem_zipIdx_iff_getElem?.mpr he') a' ha' with (h2 | h2) | h2
    · rw [hh'] at h2; cases h2
    · exact absurd hv h2
    · exact h2

theorem InSpace.body (sp : InSpace m reps d) (e : EP) (he : e ∈ m.rels)
    (hq : e.isQuantifier = true) : ∃ v, (BODY_ROLE, v) ∈ e.args := by
  have := sp.quantBody
  unfold QuantBody at this
  simp only [List.all_eq_true, Bool.or_eq_true, Bool.not_eq_true', List.any_eq_true,
    beq_iff_eq] at this
  rcases this e he with h | ⟨a, ha, hr⟩
  · rw [hq] at h; cases h
  · exact ⟨a.2, by rw [← hr]; exact ha⟩

theorem relAt_nidAt (m : MRS) (i : Nat) : relAt m (nidAt i) = m.rels[i]? := by
  unfold relAt nidAt
  have h1 : FIRST_NODE_ID ≤ FIRST_NODE_ID + (i : Int) := by omega
  rw [if_pos h1]
  congr 1
  omega

/-- O1, unpacked: the target of a RSTR link is a non-quantifier with the quantifier's ARG0. -/
theorem InSpace.head (sp : InSpace m reps d) (l : Link) (hl : l ∈ d.links)
    (hr : l.role = RESTRICTION_ROLE) (i j : Nat) (hs : l.start = nidAt i) (ht : l.stop = nidAt j)
    (e : EP) (he : m.rels[i]? = some e) :
    ∃ ej v, m.rels[j]? = some ej ∧ ej.isQuantifier = false ∧ e.iv = some v ∧ ej.iv = some v := by
  have := sp.quantHead
  unfold QuantHead at this
  simp only [List.all_eq_true, Bool.or_eq_true, bne_iff_ne, ne_eq] at this
  rcases this l hl with h | h
  · exact absurd hr h
  · rw [hs, ht, relAt_nidAt, relAt_nidAt, he] at h
    cases hej : m.rels[j]? with
    | none => rw [hej] at h; cases h
    | some ej =>
      rw [hej] at h
      simp only [Bool.and_eq_true, Bool.not_eq_true', beq_iff_eq] at h
      obtain ⟨⟨h1, h2⟩, h3⟩ := h
      obtain ⟨v, hv⟩ := Option.isSome_iff_exists.mp h2
      exact ⟨ej, v, rfl, h1, hv, by rw [h3, hv]⟩

end Unpack

end Verif.C04
