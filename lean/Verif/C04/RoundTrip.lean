/-
C04 — lemmas for the round trip MRS → DMRS → MRS → DMRS (core Lean only).
Part 1: dictionaries, the variable factory, `mapE`/`foldlM` facts.
-/
import Verif.C04.Props

namespace Verif.C04
open Verif.Sem

/-! ### dictionaries -/

section Dict
variable {κ ν : Type} [DecidableEq κ]

theorem dlookup_dset_self (k : κ) (v : ν) (l : List (κ × ν)) : dlookup k (dset k v l) = some v := by
  induction l with
  | nil => simp [dset, dlookup]
  | cons p l ih =>
    obtain ⟨k', v'⟩ := p
    by_cases h : k' = k
    · simp [dset, dlookup, h]
    · simp [dset, dlookup, h, ih]

theorem dlookup_dset_ne (k k' : κ) (v : ν) (l : List (κ × ν)) (h : k' ≠ k) :
    dlookup k' (dset k v l) = dlookup k' l := by
  induction l with
  | nil => simp [dset, dlookup, Ne.symm h]
  | cons p l ih =>
    obtain ⟨k'', v''⟩ := p
    by_cases h2 : k'' = k
    · subst h2
      have : ¬ k'' = k' := fun e => h e.symm
      simp [dset, dlookup, this]
    · by_cases h3 : k'' = k'
      · simp only [dset, if_neg h2, dlookup, if_pos h3]
      · simp only [dset, if_neg h2, dlookup, if_neg h3, ih]

theorem mem_dset_self (k : κ) (v : ν) (l : List (κ × ν)) : (k, v) ∈ dset k v l := by
  induction l with
  | nil => simp [dset]
  | cons p l ih =>
    obtain ⟨k', v'⟩ := p
    by_cases h : k' = k
    · simp [dset, h]
    · simp only [dset, if_neg h]; exact List.mem_cons_of_mem _ ih

theorem mem_dset_of_ne (k : κ) (v : ν) (l : List (κ × ν)) (x : κ × ν) (hx : x ∈ l) (hne : x.1 ≠ k) :
    x ∈ dset k v l := by
  induction l with
  | nil => simp at hx
  | cons p l ih =>
    obtain ⟨k', v'⟩ := p
    by_cases h : k' = k
    · simp only [dset, if_pos h]
      rcases List.mem_cons.mp hx with rfl | hx'
      · exact absurd h hne
      · exact List.mem_cons_of_mem _ hx'
    · simp only [dset, if_neg h]
      rcases List.mem_cons.mp hx with rfl | hx'
      · exact List.mem_cons_self
      · exact List.mem_cons_of_mem _ (ih hx')

/-- an entry of `dset k v l` is the new one or an old one. -/
theorem mem_dset (k : κ) (v : ν) (l : List (κ × ν)) (x : κ × ν) (hx : x ∈ dset k v l) :
    x = (k, v) ∨ x ∈ l := by
  induction l with
  | nil => simp [dset] at hx; exact Or.inl hx
  | cons p l ih =>
    obtain ⟨k', v'⟩ := p
    by_cases h : k' = k
    · simp only [dset, if_pos h] at hx
      rcases List.mem_cons.mp hx with rfl | hx'
      · exact Or.inl (by rw [h])
      · exact Or.inr (List.mem_cons_of_mem _ hx')
    · simp only [dset, if_neg h] at hx
      rcases List.mem_cons.mp hx with rfl | hx'
      · exact Or.inr List.mem_cons_self
      · rcases ih hx' with h1 | h1
        · exact Or.inl h1
        · exact Or.inr (List.mem_cons_of_mem _ h1)

theorem dlookup_mem' {k : κ} {v : ν} {l : List (κ × ν)} (h : dlookup k l = some v) : (k, v) ∈ l :=
  dlookup_mem h

/-- with distinct keys, membership determines lookup. -/
theorem dlookup_of_mem_nodup' {k : κ} {v : ν} {l : List (κ × ν)} (hnd : (dkeys l).Nodup)
    (h : (k, v) ∈ l) : dlookup k l = some v :=
  dlookup_of_mem_nodup hnd h

theorem dkeys_dset_nodup (k : κ) (v : ν) (l : List (κ × ν)) (h : (dkeys l).Nodup) :
    (dkeys (dset k v l)).Nodup := by
  rw [dkeys_dset]
  split
  · exact h
  · rename_i hk
    rw [List.nodup_append]
    refine ⟨h, by simp, ?_⟩
    intro a ha b hb
    simp only [List.mem_singleton] at hb
    subst hb
    intro e; subst e; exact hk ha

end Dict

/-! ### the variable factory -/

theorem nextFree_ge (idx : List Nat) : ∀ (fuel v : Nat), v ≤ nextFree idx fuel v := by
  intro fuel
  induction fuel with
  | zero => intro v; simp [nextFree]
  | succ k ih =>
    intro v
    unfold nextFree
    split
    · exact Nat.le_trans (Nat.le_succ v) (ih (v + 1))
    · exact Nat.le_refl v

/-- every stored variable has an id below the factory's next id. -/
def VFac.Fresh (f : VFac) : Prop := ∀ p ∈ f.store, p.1.vid < f.vid

theorem VFac.new_vid_ge (f : VFac) (ty : Option String) (ps : Props) :
    f.vid ≤ (f.new ty ps).1.vid := by
  unfold VFac.new; exact nextFree_ge _ _ _

theorem VFac.new_vid_next (f : VFac) (ty : Option String) (ps : Props) :
    (f.new ty ps).2.vid = (f.new ty ps).1.vid + 1 := rfl

theorem VFac.new_mono (f : VFac) (ty : Option String) (ps : Props) :
    f.vid ≤ (f.new ty ps).2.vid := by
  rw [VFac.new_vid_next]; exact Nat.le_succ_of_le (VFac.new_vid_ge f ty ps)

theorem VFac.new_sort (f : VFac) (ty : Option String) (ps : Props) :
    (f.new ty ps).1.sort = ty.getD UNSPECIFIC := rfl

theorem VFac.new_store (f : VFac) (ty : Option String) (ps : Props) :
    (f.new ty ps).2.store = dset (f.new ty ps).1 ps f.store := rfl

theorem VFac.new_fresh (f : VFac) (hf : f.Fresh) (ty : Option String) (ps : Props) :
    (f.new ty ps).2.Fresh := by
  intro p hp
  rw [VFac.new_store] at hp
  rw [VFac.new_vid_next]
  rcases mem_dset _ _ _ _ hp with rfl | hold
  · exact Nat.lt_succ_self _
  · exact Nat.lt_succ_of_lt (Nat.lt_of_lt_of_le (hf p hold) (VFac.new_vid_ge f ty ps))

theorem VFac.new_store_self (f : VFac) (ty : Option String) (ps : Props) :
    dlookup (f.new ty ps).1 (f.new ty ps).2.store = some ps := by
  rw [VFac.new_store]; exact dlookup_dset_self _ _ _

theorem VFac.new_store_other (f : VFac) (ty : Option String) (ps : Props) (v : Var)
    (hv : v.vid < f.vid) : dlookup v (f.new ty ps).2.store = dlookup v f.store := by
  rw [VFac.new_store]
  apply dlookup_dset_ne
  intro e
  have := VFac.new_vid_ge f ty ps
  rw [← e] at this
  omega

theorem nextFree_not_mem (idx : List Nat) : ∀ (fuel v : Nat),
    (idx.filter (fun x => decide (v ≤ x))).length < fuel → nextFree idx fuel v ∉ idx := by
  intro fuel
  induction fuel with
  | zero => intro v h; omega
  | succ k ih =>
    intro v h
    unfold nextFree
    split
    · rename_i hv
      apply ih
      have := length_filter_lt (fun x => decide (v + 1 ≤ x)) (fun x => decide (v ≤ x)) idx v
        (by intro u _ hu; simp only [decide_eq_true_eq] at hu ⊢; omega) hv (by simp) (by simp)
      omega
    · assumption

theorem VFac.new_not_mem_index (f : VFac) (ty : Option String) (ps : Props) :
    (f.new ty ps).1.vid ∉ f.index := by
  unfold VFac.new
  apply nextFree_not_mem
  have := List.length_filter_le (fun x => decide (f.vid ≤ x)) f.index
  omega

theorem VFac.new_index (f : VFac) (ty : Option String) (ps : Props) :
    (f.new ty ps).2.index = (f.new ty ps).1.vid :: f.index := rfl

/-! ### the DMRS of an MRS: node ids, link ends, roles -/

theorem predAt_some (m : MRS) (n : Int) (p : Pred) (h : predAt m n = some p) :
    ∃ i, n = nidAt i ∧ m.preds[i]? = some p ∧ i < m.rels.length := by
  unfold predAt at h
  split at h
  · rename_i hle
    refine ⟨(n - FIRST_NODE_ID).toNat, ?_, h, ?_⟩
    · unfold nidAt; omega
    · have := (List.getElem?_eq_some_iff.mp h).1
      unfold MRS.preds at this
      rw [List.length_zip, ids_length] at this
      omega
  · cases h

theorem nidAt_inj (i j : Nat) (h : nidAt i = nidAt j) : i = j := by
  unfold nidAt at h; omega

theorem nidAt_ne_zero (i : Nat) : nidAt i ≠ 0 := by
  unfold nidAt FIRST_NODE_ID; omega

theorem fromMrs_node_id (m : MRS) (hN : BaseIdsDistinct m) (d : DMRS) (h : fromMrs m = .ok d)
    (i : Nat) (n : Node) (hn : d.nodes[i]? = some n) : n.id = nidAt i ∧ i < m.rels.length := by
  obtain ⟨hlen, hsh⟩ := nodes_shape m hN d h
  have hi : i < m.rels.length := by
    rw [← hlen]; exact (List.getElem?_eq_some_iff.mp hn).1
  obtain ⟨n', hn', hid, _⟩ := hsh i m.rels[i] (List.getElem?_eq_getElem hi)
  rw [hn] at hn'
  cases hn'
  exact ⟨hid, hi⟩

theorem fromMrs_ids (m : MRS) (hN : BaseIdsDistinct m) (d : DMRS) (h : fromMrs m = .ok d) :
    d.ids = (List.range m.rels.length).map nidAt := by
  obtain ⟨hlen, _⟩ := nodes_shape m hN d h
  apply List.ext_getElem?
  intro i
  unfold DMRS.ids
  rw [List.getElem?_map, List.getElem?_map]
  cases hn : d.nodes[i]? with
  | none =>
    have : m.rels.length ≤ i := by
      rw [← hlen]; exact List.getElem?_eq_none_iff.mp hn
    rw [List.getElem?_eq_none_iff.mpr (by simpa using this)]
    rfl
  | some n =>
    obtain ⟨hid, hi⟩ := fromMrs_node_id m hN d h i n hn
    rw [List.getElem?_range hi]
    simp [hid]

theorem fromMrs_ids_nodup (m : MRS) (hN : BaseIdsDistinct m) (d : DMRS) (h : fromMrs m = .ok d) :
    d.ids.Nodup := by
  rw [fromMrs_ids m hN d h]
  exact c07_nodup_map_of_inj nidAt _ List.nodup_range (fun a _ b _ hab => nidAt_inj a b hab)

theorem mem_fromMrs_ids (m : MRS) (hN : BaseIdsDistinct m) (d : DMRS) (h : fromMrs m = .ok d)
    (i : Nat) : nidAt i ∈ d.ids ↔ i < m.rels.length := by
  rw [fromMrs_ids m hN d h]
  constructor
  · intro hm
    obtain ⟨j, hj, he⟩ := List.mem_map.mp hm
    rw [← nidAt_inj _ _ he]; exact List.mem_range.mp hj
  · intro hi
    exact List.mem_map.mpr ⟨i, List.mem_range.mpr hi, rfl⟩

/-- what a justified link says about its two ends and its role, positionally. -/
theorem justified_ends (m : MRS) (reps : Reps) (l : Link) (hj : Justified m reps l) :
    ∃ i j e, l.start = nidAt i ∧ l.stop = nidAt j ∧ m.rels[i]? = some e ∧ j < m.rels.length ∧
      (l.role = BARE_EQ_ROLE ∨ ∃ v, (l.role, v) ∈ e.outArgs none) := by
  have key : ∀ src tgt : Pred, predAt m l.start = some src → predAt m l.stop = some tgt →
      ∃ i j, l.start = nidAt i ∧ l.stop = nidAt j ∧ m.rels[i]? = some src.2 ∧
        j < m.rels.length := by
    intro src tgt hs ht
    obtain ⟨i, hi, hpi, _⟩ := predAt_some m _ _ hs
    obtain ⟨j, hj', _, hjl⟩ := predAt_some m _ _ ht
    refine ⟨i, j, hi, hj', ?_, hjl⟩
    unfold MRS.preds at hpi
    exact (List.getElem?_zip_eq_some.mp hpi).2
  cases hj with
  | nonscopal src tgt v hs ht harg _ _ _ =>
    obtain ⟨i, j, h1, h2, h3, h4⟩ := key src tgt hs ht
    exact ⟨i, j, src.2, h1, h2, h3, h4, Or.inr ⟨v, harg⟩⟩
  | qeq src tgt v hc rest hs ht harg _ _ _ _ _ =>
    obtain ⟨i, j, h1, h2, h3, h4⟩ := key src tgt hs ht
    exact ⟨i, j, src.2, h1, h2, h3, h4, Or.inr ⟨v, harg⟩⟩
  | lheq src tgt v rest hs ht harg _ _ _ _ =>
    obtain ⟨i, j, h1, h2, h3, h4⟩ := key src tgt hs ht
    exact ⟨i, j, src.2, h1, h2, h3, h4, Or.inr ⟨v, harg⟩⟩
  | mod src tgt lbl rest hs ht _ _ hrole _ =>
    obtain ⟨i, j, h1, h2, h3, h4⟩ := key src tgt hs ht
    exact ⟨i, j, src.2, h1, h2, h3, h4, Or.inl hrole⟩

theorem mem_outArgs (e : EP) (a : Role × Var) (h : a ∈ e.outArgs none) :
    a ∈ e.args ∧ a.1 ≠ INTRINSIC_ROLE ∧ a.1 ≠ CONSTANT_ROLE := by
  unfold EP.outArgs at h
  rw [List.mem_filter] at h
  obtain ⟨hm, hc⟩ := h
  simp only [Bool.and_true, Bool.and_eq_true, bne_iff_ne, ne_eq] at hc
  exact ⟨hm, hc.1, hc.2⟩

theorem isQuantifier_of_rstr (e : EP) (v : Var) (h : (RESTRICTION_ROLE, v) ∈ e.args) :
    e.isQuantifier = true := by
  unfold EP.isQuantifier
  rw [List.any_eq_true]
  exact ⟨_, h, by simp⟩

/-! ### the two inner loops of `from_dmrs` -/

/-- `for role, tgt in ns_args[id]: args[role] = id_to_iv[tgt]` -/
theorem nsFold_spec (idToIv : List (Int × Var)) :
    ∀ (xs : List (Int × Role × Int)) (args0 args1 : List (Role × Var)),
      xs.foldlM (nsStep idToIv) args0 = .ok args1 →
      (∀ a ∈ args1, a ∈ args0 ∨ ∃ x ∈ xs, a.1 = x.2.1 ∧ dlookup x.2.2 idToIv = some a.2) ∧
      ((∀ x ∈ xs, ∀ y ∈ xs, x.2.1 = y.2.1 → x = y) →
        (∀ x ∈ xs, ∃ v, dlookup x.2.2 idToIv = some v ∧ (x.2.1, v) ∈ args1) ∧
        (∀ a ∈ args0, a.1 ∉ xs.map (·.2.1) → a ∈ args1)) := by
  intro xs
  induction xs with
  | nil =>
    intro args0 args1 h
    simp only [List.foldlM_nil] at h
    cases h
    exact ⟨fun a ha => Or.inl ha, fun _ => ⟨by simp, fun a ha _ => ha⟩⟩
  | cons x xs ih =>
    intro args0 args1 h
    rw [List.foldlM_cons] at h
    cases hx : nsStep idToIv args0 x with
    | error e => rw [hx] at h; cases h
    | ok argsm =>
      rw [hx] at h
      have hrec := ih argsm args1 h
      unfold nsStep at hx
      cases hl : dlookup x.2.2 idToIv with
      | none => rw [hl] at hx; cases hx
      | some v =>
        rw [hl] at hx
        simp only [Except.ok.injEq] at hx
        subst hx
        constructor
        · intro a ha
          rcases hrec.1 a ha with h1 | ⟨y, hy, h2⟩
          · rcases mem_dset _ _ _ _ h1 with rfl | hold
            · exact Or.inr ⟨x, List.mem_cons_self, rfl, hl⟩
            · exact Or.inl hold
          · exact Or.inr ⟨y, List.mem_cons_of_mem _ hy, h2⟩
        · intro hfun
          obtain ⟨h1, h2⟩ := hrec.2 (fun a ha b hb => hfun a (List.mem_cons_of_mem _ ha) b
            (List.mem_cons_of_mem _ hb))
          constructor
          · intro y hy
            rcases List.mem_cons.mp hy with rfl | hy'
            · by_cases hin : y.2.1 ∈ xs.map (·.2.1)
              · obtain ⟨z, hz, hzr⟩ := List.mem_map.mp hin
                have : z = y := (hfun y List.mem_cons_self z (List.mem_cons_of_mem _ hz) hzr.symm).symm
                subst this
                exact h1 z hz
              · exact ⟨v, hl, h2 _ (mem_dset_self _ _ _) hin⟩
            · exact h1 y hy'
          · intro a ha hna
            simp only [List.map_cons, List.mem_cons, not_or] at hna
            exact h2 a (mem_dset_of_ne _ _ _ a ha hna.1) hna.2

/-- a variable made by `vfac.new('h')` between two factory states -/
def NewHole (R : List Nat) (lo hi : Nat) (v : Var) : Prop :=
  v.sort = HANDLE ∧ lo ≤ v.vid ∧ v.vid < hi ∧ v.vid ∉ R

theorem NewHole.mono {R : List Nat} {lo hi lo' hi' : Nat} {v : Var} (h : NewHole R lo hi v)
    (h1 : lo' ≤ lo) (h2 : hi ≤ hi') : NewHole R lo' hi' v :=
  ⟨h.1, Nat.le_trans h1 h.2.1, Nat.lt_of_lt_of_le h.2.2.1 h2, h.2.2.2⟩

theorem scStep_index (R : List Nat) (acc0 accm : List (Role × Var) × VFac × List HCons)
    (x : Int × Role × String × Var) (hx : scStep acc0 x = .ok accm)
    (hR : ∀ k ∈ R, k ∈ acc0.2.1.index) : ∀ k ∈ R, k ∈ accm.2.1.index := by
  unfold scStep at hx
  by_cases hL : x.2.2.1 = LHEQ
  · rw [if_pos hL] at hx
    simp only [Except.ok.injEq] at hx
    subst hx; exact hR
  · rw [if_neg hL] at hx
    by_cases hQ : x.2.2.1 = QEQ
    · rw [if_pos hQ] at hx
      simp only [Except.ok.injEq] at hx
      subst hx
      intro k hk
      exact List.mem_cons_of_mem _ (hR k hk)
    · rw [if_neg hQ] at hx; cases hx

theorem scFold_index (R : List Nat) :
    ∀ (xs : List (Int × Role × String × Var))
      (acc0 acc1 : List (Role × Var) × VFac × List HCons),
      xs.foldlM scStep acc0 = .ok acc1 → (∀ k ∈ R, k ∈ acc0.2.1.index) →
      ∀ k ∈ R, k ∈ acc1.2.1.index := by
  intro xs
  induction xs with
  | nil => intro a0 a1 h hR; simp only [List.foldlM_nil] at h; cases h; exact hR
  | cons x xs ih =>
    intro a0 a1 h hR
    rw [List.foldlM_cons] at h
    cases hx : scStep a0 x with
    | error e => rw [hx] at h; cases h
    | ok am =>
      rw [hx] at h
      exact ih am a1 h (scStep_index R a0 am x hx hR)

/-- `for role, relation, tgt_label in sc_args[id]: …` -/
theorem scFold_spec (R : List Nat) :
    ∀ (xs : List (Int × Role × String × Var))
      (acc0 acc1 : List (Role × Var) × VFac × List HCons),
      xs.foldlM scStep acc0 = .ok acc1 → (∀ k ∈ R, k ∈ acc0.2.1.index) →
      acc0.2.1.vid ≤ acc1.2.1.vid ∧
      (acc0.2.1.Fresh → acc1.2.1.Fresh) ∧
      (∀ v : Var, v.vid < acc0.2.1.vid → dlookup v acc1.2.1.store = dlookup v acc0.2.1.store) ∧
      (∃ news, acc1.2.2 = acc0.2.2 ++ news ∧
        (∀ hc ∈ news, hc.rel = QEQ ∧ NewHole R acc0.2.1.vid acc1.2.1.vid hc.hi ∧
          ∃ x ∈ xs, x.2.2.1 = QEQ ∧ hc.lo = x.2.2.2) ∧
        (news.map (·.hi.vid)).Nodup) ∧
      (∀ a ∈ acc1.1, a ∈ acc0.1 ∨
        (∃ x ∈ xs, a.1 = x.2.1 ∧ x.2.2.1 = LHEQ ∧ a.2 = x.2.2.2) ∨
        (∃ x ∈ xs, a.1 = x.2.1 ∧ x.2.2.1 = QEQ ∧ NewHole R acc0.2.1.vid acc1.2.1.vid a.2 ∧
          (⟨a.2, QEQ, x.2.2.2⟩ : HCons) ∈ acc1.2.2)) ∧
      ((∀ x ∈ xs, ∀ y ∈ xs, x.2.1 = y.2.1 → x = y) →
        (∀ x ∈ xs, (x.2.2.1 = LHEQ ∧ (x.2.1, x.2.2.2) ∈ acc1.1) ∨
          (x.2.2.1 = QEQ ∧ ∃ hole, (x.2.1, hole) ∈ acc1.1 ∧
            NewHole R acc0.2.1.vid acc1.2.1.vid hole ∧
            (⟨hole, QEQ, x.2.2.2⟩ : HCons) ∈ acc1.2.2)) ∧
        (∀ a ∈ acc0.1, a.1 ∉ xs.map (·.2.1) → a ∈ acc1.1)) := by
  intro xs
  induction xs with
  | nil =>
    intro acc0 acc1 h _
    simp only [List.foldlM_nil] at h
    cases h
    refine ⟨Nat.le_refl _, id, fun _ _ => rfl, ⟨[], by simp, by simp, by simp⟩,
      fun a ha => Or.inl ha, fun _ => ⟨by simp, fun a ha _ => ha⟩⟩
  | cons x xs ih =>
    intro acc0 acc1 h hR
    rw [List.foldlM_cons] at h
    cases hx : scStep acc0 x with
    | error e => rw [hx] at h; cases h
    | ok accm =>
      rw [hx] at h
      obtain ⟨r1, r2, r3, ⟨news, r4, r5, r5'⟩, r6, r7⟩ :=
        ih accm acc1 h (scStep_index R acc0 accm x hx hR)
      unfold scStep at hx
      by_cases hL : x.2.2.1 = LHEQ
      · rw [if_pos hL] at hx
        simp only [Except.ok.injEq] at hx
        subst hx
        simp only at r1 r2 r3 r4 r5 r6 r7
        refine ⟨r1, r2, r3, ⟨news, r4, ?_, r5'⟩, ?_, ?_⟩
        · intro hc hhc
          obtain ⟨c1, c2, y, hy, c3⟩ := r5 hc hhc
          exact ⟨c1, c2, y, List.mem_cons_of_mem _ hy, c3⟩
        · intro a ha
          rcases r6 a ha with h1 | ⟨y, hy, h2⟩ | ⟨y, hy, h2⟩
          · rcases mem_dset _ _ _ _ h1 with rfl | hold
            · exact Or.inr (Or.inl ⟨x, List.mem_cons_self, rfl, hL, rfl⟩)
            · exact Or.inl hold
          · exact Or.inr (Or.inl ⟨y, List.mem_cons_of_mem _ hy, h2⟩)
          · exact Or.inr (Or.inr ⟨y, List.mem_cons_of_mem _ hy, h2⟩)
        · intro hfun
          obtain ⟨h1, h2⟩ := r7 (fun a ha b hb => hfun a (List.mem_cons_of_mem _ ha) b
            (List.mem_cons_of_mem _ hb))
          constructor
          · intro y hy
            rcases List.mem_cons.mp hy with rfl | hy'
            · by_cases hin : y.2.1 ∈ xs.map (·.2.1)
              · obtain ⟨z, hz, hzr⟩ := List.mem_map.mp hin
                have : z = y := (hfun y List.mem_cons_self z (List.mem_cons_of_mem _ hz) hzr.symm).symm
                subst this
                exact h1 z hz
              · exact Or.inl ⟨hL, h2 _ (mem_dset_self _ _ _) hin⟩
            · exact h1 y hy'
          · intro a ha hna
            simp only [List.map_cons, List.mem_cons, not_or] at hna
            exact h2 a (mem_dset_of_ne _ _ _ a ha hna.1) hna.2
      · rw [if_neg hL] at hx
        by_cases hQ : x.2.2.1 = QEQ
        · rw [if_pos hQ] at hx
          simp only [Except.ok.injEq] at hx
          subst hx
          simp only at r1 r2 r3 r4 r5 r6 r7
          have hge := VFac.new_vid_ge acc0.2.1 (some HANDLE) []
          have hnext := VFac.new_vid_next acc0.2.1 (some HANDLE) []
          have hmono := VFac.new_mono acc0.2.1 (some HANDLE) []
          have hnew : NewHole R acc0.2.1.vid acc1.2.1.vid (acc0.2.1.new (some HANDLE) []).1 :=
            ⟨rfl, hge, by omega, fun hin => VFac.new_not_mem_index acc0.2.1 (some HANDLE) [] (hR _ hin)⟩
          have hmem : (⟨(acc0.2.1.new (some HANDLE) []).1, QEQ, x.2.2.2⟩ : HCons) ∈ acc1.2.2 := by
            rw [r4]; simp
          refine ⟨Nat.le_trans hmono r1, fun hf => r2 (VFac.new_fresh _ hf _ _), ?_,
            ⟨⟨(acc0.2.1.new (some HANDLE) []).1, QEQ, x.2.2.2⟩ :: news, by rw [r4]; simp, ?_, ?_⟩,
            ?_, ?_⟩
          · intro v hv
            rw [r3 v (Nat.lt_of_lt_of_le hv hmono)]
            exact VFac.new_store_other _ _ _ v hv
          · intro hc hhc
            rcases List.mem_cons.mp hhc with rfl | hhc'
            · exact ⟨rfl, hnew, x, List.mem_cons_self, hQ, rfl⟩
            · obtain ⟨c1, c2, y, hy, c3⟩ := r5 hc hhc'
              exact ⟨c1, c2.mono hmono (Nat.le_refl _), y, List.mem_cons_of_mem _ hy, c3⟩
          · simp only [List.map_cons, List.nodup_cons]
            refine ⟨?_, r5'⟩
            intro hin
            obtain ⟨hc, hhc, he⟩ := List.mem_map.mp hin
            have := (r5 hc hhc).2.1.2.1
            rw [he, hnext] at this
            omega
          · intro a ha
            rcases r6 a ha with h1 | ⟨y, hy, h2⟩ | ⟨y, hy, h2, h3, h4, h5⟩
            · rcases mem_dset _ _ _ _ h1 with rfl | hold
              · exact Or.inr (Or.inr ⟨x, List.mem_cons_self, rfl, hQ, hnew, hmem⟩)
              · exact Or.inl hold
            · exact Or.inr (Or.inl ⟨y, List.mem_cons_of_mem _ hy, h2⟩)
            · exact Or.inr (Or.inr ⟨y, List.mem_cons_of_mem _ hy, h2, h3,
                h4.mono hmono (Nat.le_refl _), h5⟩)
          · intro hfun
            obtain ⟨h1, h2⟩ := r7 (fun a ha b hb => hfun a (List.mem_cons_of_mem _ ha) b
              (List.mem_cons_of_mem _ hb))
            have lift : ∀ y ∈ xs, (y.2.2.1 = LHEQ ∧ (y.2.1, y.2.2.2) ∈ acc1.1) ∨
                (y.2.2.1 = QEQ ∧ ∃ hole, (y.2.1, hole) ∈ acc1.1 ∧
                  NewHole R acc0.2.1.vid acc1.2.1.vid hole ∧
                  (⟨hole, QEQ, y.2.2.2⟩ : HCons) ∈ acc1.2.2) := by
              intro y hy'
              rcases h1 y hy' with hl | ⟨hq, hole, c1, c2, c3⟩
              · exact Or.inl hl
              · exact Or.inr ⟨hq, hole, c1, c2.mono hmono (Nat.le_refl _), c3⟩
            constructor
            · intro y hy
              rcases List.mem_cons.mp hy with rfl | hy'
              · by_cases hin : y.2.1 ∈ xs.map (·.2.1)
                · obtain ⟨z, hz, hzr⟩ := List.mem_map.mp hin
                  have : z = y :=
                    (hfun y List.mem_cons_self z (List.mem_cons_of_mem _ hz) hzr.symm).symm
                  subst this
                  exact lift z hz
                · exact Or.inr ⟨hQ, _, h2 _ (mem_dset_self _ _ _) hin, hnew, hmem⟩
              · exact lift y hy'
            · intro a ha hna
              simp only [List.map_cons, List.mem_cons, not_or] at hna
              exact h2 a (mem_dset_of_ne _ _ _ a ha hna.1) hna.2
        · rw [if_neg hQ] at hx
          cases hx

theorem nsFold_keys (idToIv : List (Int × Var)) :
    ∀ (xs : List (Int × Role × Int)) (args0 args1 : List (Role × Var)),
      xs.foldlM (nsStep idToIv) args0 = .ok args1 → (dkeys args0).Nodup → (dkeys args1).Nodup := by
  intro xs
  induction xs with
  | nil => intro a0 a1 h hn; simp only [List.foldlM_nil] at h; cases h; exact hn
  | cons x xs ih =>
    intro a0 a1 h hn
    rw [List.foldlM_cons] at h
    cases hx : nsStep idToIv a0 x with
    | error e => rw [hx] at h; cases h
    | ok am =>
      rw [hx] at h
      unfold nsStep at hx
      cases hl : dlookup x.2.2 idToIv with
      | none => rw [hl] at hx; cases hx
      | some v =>
        rw [hl] at hx
        simp only [Except.ok.injEq] at hx
        subst hx
        exact ih _ _ h (dkeys_dset_nodup _ _ _ hn)

theorem scFold_keys :
    ∀ (xs : List (Int × Role × String × Var))
      (acc0 acc1 : List (Role × Var) × VFac × List HCons),
      xs.foldlM scStep acc0 = .ok acc1 → (dkeys acc0.1).Nodup → (dkeys acc1.1).Nodup := by
  intro xs
  induction xs with
  | nil => intro a0 a1 h hn; simp only [List.foldlM_nil] at h; cases h; exact hn
  | cons x xs ih =>
    intro a0 a1 h hn
    rw [List.foldlM_cons] at h
    cases hx : scStep a0 x with
    | error e => rw [hx] at h; cases h
    | ok am =>
      rw [hx] at h
      unfold scStep at hx
      by_cases hL : x.2.2.1 = LHEQ
      · rw [if_pos hL] at hx
        simp only [Except.ok.injEq] at hx
        subst hx
        exact ih _ _ h (dkeys_dset_nodup _ _ _ hn)
      · rw [if_neg hL] at hx
        by_cases hQ : x.2.2.1 = QEQ
        · rw [if_pos hQ] at hx
          simp only [Except.ok.injEq] at hx
          subst hx
          exact ih _ _ h (dkeys_dset_nodup _ _ _ hn)
        · rw [if_neg hQ] at hx; cases hx

/-! ### one iteration of `for node in d.nodes` -/

/-- the links leaving node `nid` determine a function from roles: at most one non-scopal
and one scopal entry per role, never both, never `ARG0`. -/
structure RolesFun (ns : List (Int × Role × Int)) (scs : List (Int × Role × String × Var))
    (nid : Int) : Prop where
  nsFun : ∀ x ∈ ns, ∀ y ∈ ns, x.1 = nid → y.1 = nid → x.2.1 = y.2.1 → x = y
  scFun : ∀ x ∈ scs, ∀ y ∈ scs, x.1 = nid → y.1 = nid → x.2.1 = y.2.1 → x = y
  disj : ∀ x ∈ ns, ∀ y ∈ scs, x.1 = nid → y.1 = nid → x.2.1 ≠ y.2.1
  nsNo0 : ∀ x ∈ ns, x.1 = nid → x.2.1 ≠ INTRINSIC_ROLE
  scNo0 : ∀ y ∈ scs, y.1 = nid → y.2.1 ≠ INTRINSIC_ROLE

/-- where an argument of a rebuilt predication comes from. -/
inductive ArgOrigin (R : List Nat) (d : DMRS) (idToIv : List (Int × Var))
    (ns : List (Int × Role × Int))
    (scs : List (Int × Role × String × Var)) (nid : Int) (iv : Var) (lo hi : Nat)
    (hcons : List HCons) (a : Role × Var) : Prop
  | arg0 (h : a = (INTRINSIC_ROLE, iv))
  | ns (x : Int × Role × Int) (hx : x ∈ ns) (hid : x.1 = nid) (hr : a.1 = x.2.1)
      (hv : dlookup x.2.2 idToIv = some a.2)
  | lheq (x : Int × Role × String × Var) (hx : x ∈ scs) (hid : x.1 = nid) (hr : a.1 = x.2.1)
      (hrel : x.2.2.1 = LHEQ) (hv : a.2 = x.2.2.2)
  | qeq (x : Int × Role × String × Var) (hx : x ∈ scs) (hid : x.1 = nid) (hr : a.1 = x.2.1)
      (hrel : x.2.2.1 = QEQ) (hnew : NewHole R lo hi a.2)
      (hhc : (⟨a.2, QEQ, x.2.2.2⟩ : HCons) ∈ hcons)
  | body (hr : a.1 = BODY_ROLE) (hq : dIsQuantifier d nid = true) (hnew : NewHole R lo hi a.2)
      (hfree : ∀ hc ∈ hcons, hc.hi ≠ a.2)

structure StepSpec (R : List Nat) (d : DMRS) (sc : List (Var × List Node))
    (idToIv : List (Int × Var))
    (ns : List (Int × Role × Int)) (scs : List (Int × Role × String × Var))
    (st st' : BuildSt) (n : Node) (e : EP) (iv : Var) : Prop where
  labelOk : lblOfNode sc n.id = some e.label
  ivOk : dlookup n.id idToIv = some iv
  rels : st'.rels = st.rels ++ [e]
  face : epFace e = nodeFace n
  mono : st.vf.vid ≤ st'.vf.vid
  fresh : st.vf.Fresh → st'.vf.Fresh
  store : ∀ v : Var, v.vid < st.vf.vid → dlookup v st'.vf.store = dlookup v st.vf.store
  hcons : ∃ news, st'.hcons = st.hcons ++ news ∧
    (∀ hc ∈ news, hc.rel = QEQ ∧ NewHole R st.vf.vid st'.vf.vid hc.hi ∧
      ∃ x ∈ scs, x.1 = n.id ∧ x.2.2.1 = QEQ ∧ hc.lo = x.2.2.2) ∧
    (news.map (·.hi.vid)).Nodup
  hcBelow : (∀ hc ∈ st.hcons, hc.hi.vid < st.vf.vid) → ∀ hc ∈ st'.hcons, hc.hi.vid < st'.vf.vid
  origin : (∀ hc ∈ st.hcons, hc.hi.vid < st.vf.vid) →
    ∀ a ∈ e.args, ArgOrigin R d idToIv ns scs n.id iv st.vf.vid st'.vf.vid st'.hcons a
  idx : ∀ k ∈ R, k ∈ st'.vf.index
  keys : (dkeys e.args).Nodup
  complete : RolesFun ns scs n.id →
    (INTRINSIC_ROLE, iv) ∈ e.args ∧
    (∀ x ∈ ns, x.1 = n.id → ∃ v, dlookup x.2.2 idToIv = some v ∧ (x.2.1, v) ∈ e.args) ∧
    (∀ x ∈ scs, x.1 = n.id → (x.2.2.1 = LHEQ ∧ (x.2.1, x.2.2.2) ∈ e.args) ∨
      (x.2.2.1 = QEQ ∧ ∃ hole, (x.2.1, hole) ∈ e.args ∧ NewHole R st.vf.vid st'.vf.vid hole ∧
        (⟨hole, QEQ, x.2.2.2⟩ : HCons) ∈ st'.hcons))

theorem buildRel_spec (R : List Nat) (d : DMRS) (sc : List (Var × List Node))
    (idToIv : List (Int × Var))
    (ns : List (Int × Role × Int)) (scs : List (Int × Role × String × Var))
    (st st' : BuildSt) (n : Node) (h : buildRel d sc idToIv ns scs st n = .ok st')
    (hR : ∀ k ∈ R, k ∈ st.vf.index) :
    ∃ e iv, StepSpec R d sc idToIv ns scs st st' n e iv := by
  unfold buildRel at h
  cases hlbl : lblOfNode sc n.id with
  | none => rw [hlbl] at h; cases h
  | some label =>
    cases hiv : dlookup n.id idToIv with
    | none => rw [hlbl, hiv] at h; cases h
    | some iv =>
      rw [hlbl, hiv] at h
      simp only at h
      cases hns : (ns.filter (fun a => a.1 = n.id)).foldlM (nsStep idToIv) [(INTRINSIC_ROLE, iv)] with
      | error e => rw [hns] at h; cases h
      | ok args1 =>
        rw [hns] at h
        simp only at h
        cases hsc : (scs.filter (fun a => a.1 = n.id)).foldlM scStep (args1, st.vf, st.hcons) with
        | error e => rw [hsc] at h; cases h
        | ok acc =>
          obtain ⟨args2, vf2, hcons2⟩ := acc
          rw [hsc] at h
          simp only [Except.ok.injEq] at h
          obtain ⟨n1, n2⟩ := nsFold_spec idToIv _ _ _ hns
          have nk := nsFold_keys idToIv _ _ _ hns (by simp [dkeys])
          obtain ⟨s1, s2, s3, ⟨news, s4, s5, s5'⟩, s6, s7⟩ := scFold_spec R _ _ _ hsc hR
          have sR := scFold_index R _ _ _ hsc hR
          have sk := scFold_keys _ _ _ hsc nk
          simp only at s1 s2 s3 s4 s5 s6 s7 sk sR
          -- the BODY step
          by_cases hb : (dIsQuantifier d n.id && !(args2.any (fun a => a.1 == BODY_ROLE))) = true
          · rw [if_pos hb] at h
            simp only [Bool.and_eq_true, Bool.not_eq_true', List.any_eq_false] at hb
            obtain ⟨hq, hnob⟩ := hb
            have hnob' : ∀ a ∈ args2, a.1 ≠ BODY_ROLE := by
              intro a ha; simpa using hnob a ha
            have hge := VFac.new_vid_ge vf2 (some HANDLE) []
            have hnext := VFac.new_vid_next vf2 (some HANDLE) []
            have hmono := VFac.new_mono vf2 (some HANDLE) []
            refine ⟨{ predicate := n.predicate, label := label,
                      args := dset BODY_ROLE (vf2.new (some HANDLE) []).1 args2,
                      carg := n.carg, lnk := n.lnk, surface := n.surface, base := n.base }, iv, ?_⟩
            subst h
            refine
              { labelOk := hlbl, ivOk := hiv, rels := rfl, face := rfl
                mono := Nat.le_trans s1 hmono
                fresh := fun hf => VFac.new_fresh _ (s2 hf) _ _
                store := ?_, hcons := ⟨news, s4, ?_, s5'⟩, hcBelow := ?_, origin := ?_
                idx := fun k hk => List.mem_cons_of_mem _ (sR k hk)
                keys := dkeys_dset_nodup _ _ _ sk, complete := ?_ }
            · intro v hv
              rw [VFac.new_store_other _ _ _ v (Nat.lt_of_lt_of_le hv s1)]
              exact s3 v hv
            · intro hc hhc
              obtain ⟨c1, c2, x, hx, c3, c4⟩ := s5 hc hhc
              obtain ⟨hx1, hx2⟩ := List.mem_filter.mp hx
              exact ⟨c1, c2.mono (Nat.le_refl _) hmono, x, hx1, by simpa using hx2, c3, c4⟩
            · intro hinv hc hhc
              simp only at hhc ⊢
              rw [s4] at hhc
              rcases List.mem_append.mp hhc with hold | hnew
              · exact Nat.lt_of_lt_of_le (hinv hc hold) (Nat.le_trans s1 hmono)
              · exact Nat.lt_of_lt_of_le (s5 hc hnew).2.1.2.2.1 hmono
            · intro hinv a ha
              simp only at ha ⊢
              rcases mem_dset _ _ _ _ ha with rfl | hold
              · refine ArgOrigin.body rfl hq ⟨rfl, Nat.le_trans s1 hge, by
                  show (vf2.new (some HANDLE) []).1.vid < (vf2.new (some HANDLE) []).2.vid
                  omega, fun hin => VFac.new_not_mem_index vf2 (some HANDLE) [] (sR _ hin)⟩ ?_
                intro hc hhc e
                rw [s4] at hhc
                have hlt : hc.hi.vid < vf2.vid := by
                  rcases List.mem_append.mp hhc with hold | hnew
                  · exact Nat.lt_of_lt_of_le (hinv hc hold) s1
                  · exact (s5 hc hnew).2.1.2.2.1
                rw [e] at hlt
                have hlt' : (vf2.new (some HANDLE) []).1.vid < vf2.vid := hlt
                omega
              · rcases s6 a hold with h1 | ⟨x, hx, h2, h3, h4⟩ | ⟨x, hx, h2, h3, h4, h5⟩
                · rcases n1 a h1 with h0 | ⟨x, hx, h2, h3⟩
                  · exact ArgOrigin.arg0 (by simpa using h0)
                  · obtain ⟨hx1, hx2⟩ := List.mem_filter.mp hx
                    exact ArgOrigin.ns x hx1 (by simpa using hx2) h2 h3
                · obtain ⟨hx1, hx2⟩ := List.mem_filter.mp hx
                  exact ArgOrigin.lheq x hx1 (by simpa using hx2) h2 h3 h4
                · obtain ⟨hx1, hx2⟩ := List.mem_filter.mp hx
                  exact ArgOrigin.qeq x hx1 (by simpa using hx2) h2 h3
                    (h4.mono (Nat.le_refl _) hmono) h5
            · intro hrf
              have hf1 : ∀ x ∈ ns.filter (fun a => a.1 = n.id),
                  ∀ y ∈ ns.filter (fun a => a.1 = n.id), x.2.1 = y.2.1 → x = y := by
                intro x hx y hy hr
                obtain ⟨hx1, hx2⟩ := List.mem_filter.mp hx
                obtain ⟨hy1, hy2⟩ := List.mem_filter.mp hy
                exact hrf.nsFun x hx1 y hy1 (by simpa using hx2) (by simpa using hy2) hr
              have hf2 : ∀ x ∈ scs.filter (fun a => a.1 = n.id),
                  ∀ y ∈ scs.filter (fun a => a.1 = n.id), x.2.1 = y.2.1 → x = y := by
                intro x hx y hy hr
                obtain ⟨hx1, hx2⟩ := List.mem_filter.mp hx
                obtain ⟨hy1, hy2⟩ := List.mem_filter.mp hy
                exact hrf.scFun x hx1 y hy1 (by simpa using hx2) (by simpa using hy2) hr
              obtain ⟨m1, m2⟩ := n2 hf1
              obtain ⟨m3, m4⟩ := s7 hf2
              have hno1 : INTRINSIC_ROLE ∉ (ns.filter (fun a => a.1 = n.id)).map (·.2.1) := by
                intro hin
                obtain ⟨x, hx, hr⟩ := List.mem_map.mp hin
                obtain ⟨hx1, hx2⟩ := List.mem_filter.mp hx
                exact hrf.nsNo0 x hx1 (by simpa using hx2) hr
              have hno2 : INTRINSIC_ROLE ∉ (scs.filter (fun a => a.1 = n.id)).map (·.2.1) := by
                intro hin
                obtain ⟨x, hx, hr⟩ := List.mem_map.mp hin
                obtain ⟨hx1, hx2⟩ := List.mem_filter.mp hx
                exact hrf.scNo0 x hx1 (by simpa using hx2) hr
              have hdisj : ∀ x ∈ ns.filter (fun a => a.1 = n.id),
                  x.2.1 ∉ (scs.filter (fun a => a.1 = n.id)).map (·.2.1) := by
                intro x hx hin
                obtain ⟨y, hy, hr⟩ := List.mem_map.mp hin
                obtain ⟨hx1, hx2⟩ := List.mem_filter.mp hx
                obtain ⟨hy1, hy2⟩ := List.mem_filter.mp hy
                exact hrf.disj x hx1 y hy1 (by simpa using hx2) (by simpa using hy2) hr.symm
              have keep : ∀ a ∈ args2, a ∈ dset BODY_ROLE (vf2.new (some HANDLE) []).1 args2 :=
                fun a ha => mem_dset_of_ne _ _ _ a ha (hnob' a ha)
              refine ⟨keep _ (m4 _ (m2 _ (by simp) hno1) hno2), ?_, ?_⟩
              · intro x hx hid
                have hxf : x ∈ ns.filter (fun a => a.1 = n.id) :=
                  List.mem_filter.mpr ⟨hx, by simpa using hid⟩
                obtain ⟨v, hv, hmem⟩ := m1 x hxf
                exact ⟨v, hv, keep _ (m4 _ hmem (hdisj x hxf))⟩
              · intro x hx hid
                have hxf : x ∈ scs.filter (fun a => a.1 = n.id) :=
                  List.mem_filter.mpr ⟨hx, by simpa using hid⟩
                rcases m3 x hxf with ⟨hl, hm⟩ | ⟨hq', hole, c1, c2, c3⟩
                · exact Or.inl ⟨hl, keep _ hm⟩
                · exact Or.inr ⟨hq', hole, keep _ c1, c2.mono (Nat.le_refl _) hmono, c3⟩
          · rw [if_neg hb] at h
            refine ⟨{ predicate := n.predicate, label := label, args := args2,
                      carg := n.carg, lnk := n.lnk, surface := n.surface, base := n.base }, iv, ?_⟩
            subst h
            refine
              { labelOk := hlbl, ivOk := hiv, rels := rfl, face := rfl
                mono := s1, fresh := s2, store := s3, hcons := ⟨news, s4, ?_, s5'⟩
                hcBelow := ?_, origin := ?_, idx := sR, keys := sk, complete := ?_ }
            · intro hc hhc
              obtain ⟨c1, c2, x, hx, c3, c4⟩ := s5 hc hhc
              obtain ⟨hx1, hx2⟩ := List.mem_filter.mp hx
              exact ⟨c1, c2, x, hx1, by simpa using hx2, c3, c4⟩
            · intro hinv hc hhc
              simp only at hhc ⊢
              rw [s4] at hhc
              rcases List.mem_append.mp hhc with hold | hnew
              · exact Nat.lt_of_lt_of_le (hinv hc hold) s1
              · exact (s5 hc hnew).2.1.2.2.1
            · intro _ a ha
              simp only at ha ⊢
              rcases s6 a ha with h1 | ⟨x, hx, h2, h3, h4⟩ | ⟨x, hx, h2, h3, h4, h5⟩
              · rcases n1 a h1 with h0 | ⟨x, hx, h2, h3⟩
                · exact ArgOrigin.arg0 (by simpa using h0)
                · obtain ⟨hx1, hx2⟩ := List.mem_filter.mp hx
                  exact ArgOrigin.ns x hx1 (by simpa using hx2) h2 h3
              · obtain ⟨hx1, hx2⟩ := List.mem_filter.mp hx
                exact ArgOrigin.lheq x hx1 (by simpa using hx2) h2 h3 h4
              · obtain ⟨hx1, hx2⟩ := List.mem_filter.mp hx
                exact ArgOrigin.qeq x hx1 (by simpa using hx2) h2 h3 h4 h5
            · intro hrf
              have hf1 : ∀ x ∈ ns.filter (fun a => a.1 = n.id),
                  ∀ y ∈ ns.filter (fun a => a.1 = n.id), x.2.1 = y.2.1 → x = y := by
                intro x hx y hy hr
                obtain ⟨hx1, hx2⟩ := List.mem_filter.mp hx
                obtain ⟨hy1, hy2⟩ := List.mem_filter.mp hy
                exact hrf.nsFun x hx1 y hy1 (by simpa using hx2) (by simpa using hy2) hr
              have hf2 : ∀ x ∈ scs.filter (fun a => a.1 = n.id),
                  ∀ y ∈ scs.filter (fun a => a.1 = n.id), x.2.1 = y.2.1 → x = y := by
                intro x hx y hy hr
                obtain ⟨hx1, hx2⟩ := List.mem_filter.mp hx
                obtain ⟨hy1, hy2⟩ := List.mem_filter.mp hy
                exact hrf.scFun x hx1 y hy1 (by simpa using hx2) (by simpa using hy2) hr
              obtain ⟨m1, m2⟩ := n2 hf1
              obtain ⟨m3, m4⟩ := s7 hf2
              have hno1 : INTRINSIC_ROLE ∉ (ns.filter (fun a => a.1 = n.id)).map (·.2.1) := by
                intro hin
                obtain ⟨x, hx, hr⟩ := List.mem_map.mp hin
                obtain ⟨hx1, hx2⟩ := List.mem_filter.mp hx
                exact hrf.nsNo0 x hx1 (by simpa using hx2) hr
              have hno2 : INTRINSIC_ROLE ∉ (scs.filter (fun a => a.1 = n.id)).map (·.2.1) := by
                intro hin
                obtain ⟨x, hx, hr⟩ := List.mem_map.mp hin
                obtain ⟨hx1, hx2⟩ := List.mem_filter.mp hx
                exact hrf.scNo0 x hx1 (by simpa using hx2) hr
              have hdisj : ∀ x ∈ ns.filter (fun a => a.1 = n.id),
                  x.2.1 ∉ (scs.filter (fun a => a.1 = n.id)).map (·.2.1) := by
                intro x hx hin
                obtain ⟨y, hy, hr⟩ := List.mem_map.mp hin
                obtain ⟨hx1, hx2⟩ := List.mem_filter.mp hx
                obtain ⟨hy1, hy2⟩ := List.mem_filter.mp hy
                exact hrf.disj x hx1 y hy1 (by simpa using hx2) (by simpa using hy2) hr.symm
              refine ⟨m4 _ (m2 _ (by simp) hno1) hno2, ?_, ?_⟩
              · intro x hx hid
                have hxf : x ∈ ns.filter (fun a => a.1 = n.id) :=
                  List.mem_filter.mpr ⟨hx, by simpa using hid⟩
                obtain ⟨v, hv, hmem⟩ := m1 x hxf
                exact ⟨v, hv, m4 _ hmem (hdisj x hxf)⟩
              · intro x hx hid
                have hxf : x ∈ scs.filter (fun a => a.1 = n.id) :=
                  List.mem_filter.mpr ⟨hx, by simpa using hid⟩
                exact m3 x hxf

/-! ### the whole loop `for node in d.nodes` -/

/-- what is known about the predication rebuilt for node `n`, in terms of the final state. -/
structure PosSpec (R : List Nat) (d : DMRS) (sc : List (Var × List Node))
    (idToIv : List (Int × Var))
    (ns : List (Int × Role × Int)) (scs : List (Int × Role × String × Var))
    (lo hi : Nat) (hcF : List HCons) (n : Node) (e : EP) (iv : Var) : Prop where
  labelOk : lblOfNode sc n.id = some e.label
  ivOk : dlookup n.id idToIv = some iv
  face : epFace e = nodeFace n
  keys : (dkeys e.args).Nodup
  origin : ∀ a ∈ e.args, ArgOrigin R d idToIv ns scs n.id iv lo hi hcF a
  complete : RolesFun ns scs n.id →
    (INTRINSIC_ROLE, iv) ∈ e.args ∧
    (∀ x ∈ ns, x.1 = n.id → ∃ v, dlookup x.2.2 idToIv = some v ∧ (x.2.1, v) ∈ e.args) ∧
    (∀ x ∈ scs, x.1 = n.id → (x.2.2.1 = LHEQ ∧ (x.2.1, x.2.2.2) ∈ e.args) ∨
      (x.2.2.1 = QEQ ∧ ∃ hole, (x.2.1, hole) ∈ e.args ∧ NewHole R lo hi hole ∧
        (⟨hole, QEQ, x.2.2.2⟩ : HCons) ∈ hcF))

theorem ArgOrigin.weaken {R : List Nat} {d : DMRS} {idToIv : List (Int × Var)}
    {ns : List (Int × Role × Int)}
    {scs : List (Int × Role × String × Var)} {nid : Int} {iv : Var} {lo hi lo' hi' : Nat}
    {hc more : List HCons} {a : Role × Var}
    (h : ArgOrigin R d idToIv ns scs nid iv lo hi hc a) (h1 : lo' ≤ lo) (h2 : hi ≤ hi')
    (hmore : ∀ c ∈ more, hi ≤ c.hi.vid) :
    ArgOrigin R d idToIv ns scs nid iv lo' hi' (hc ++ more) a := by
  cases h with
  | arg0 h => exact ArgOrigin.arg0 h
  | ns x hx hid hr hv => exact ArgOrigin.ns x hx hid hr hv
  | lheq x hx hid hr hrel hv => exact ArgOrigin.lheq x hx hid hr hrel hv
  | qeq x hx hid hr hrel hnew hhc =>
    exact ArgOrigin.qeq x hx hid hr hrel (hnew.mono h1 h2) (List.mem_append_left _ hhc)
  | body hr hq hnew hfree =>
    refine ArgOrigin.body hr hq (hnew.mono h1 h2) ?_
    intro c hc' e
    rcases List.mem_append.mp hc' with h3 | h3
    · exact hfree c h3 e
    · have := hmore c h3
      rw [e] at this
      have := hnew.2.2.1
      omega

theorem buildAll_spec (R : List Nat) (d : DMRS) (sc : List (Var × List Node))
    (idToIv : List (Int × Var))
    (ns : List (Int × Role × Int)) (scs : List (Int × Role × String × Var)) :
    ∀ (nodes : List Node) (st st' : BuildSt),
      nodes.foldlM (buildRel d sc idToIv ns scs) st = .ok st' →
      (∀ hc ∈ st.hcons, hc.hi.vid < st.vf.vid) → (∀ k ∈ R, k ∈ st.vf.index) →
      ∃ es news, st'.rels = st.rels ++ es ∧ st'.hcons = st.hcons ++ news ∧
        es.length = nodes.length ∧
        st.vf.vid ≤ st'.vf.vid ∧ (st.vf.Fresh → st'.vf.Fresh) ∧
        (∀ v : Var, v.vid < st.vf.vid → dlookup v st'.vf.store = dlookup v st.vf.store) ∧
        (∀ hc ∈ st'.hcons, hc.hi.vid < st'.vf.vid) ∧
        (∀ hc ∈ news, hc.rel = QEQ ∧ NewHole R st.vf.vid st'.vf.vid hc.hi ∧
          ∃ n ∈ nodes, ∃ x ∈ scs, x.1 = n.id ∧ x.2.2.1 = QEQ ∧ hc.lo = x.2.2.2) ∧
        (news.map (·.hi.vid)).Nodup ∧
        (∀ (i : Nat) (n : Node), nodes[i]? = some n → ∃ e iv, es[i]? = some e ∧
          PosSpec R d sc idToIv ns scs st.vf.vid st'.vf.vid st'.hcons n e iv) := by
  intro nodes
  induction nodes with
  | nil =>
    intro st st' h _ _
    simp only [List.foldlM_nil] at h
    cases h
    exact ⟨[], [], by simp, by simp, rfl, Nat.le_refl _, id, fun _ _ => rfl, by assumption,
      by simp, by simp, by simp⟩
  | cons n rest ih =>
    intro st st' h hinv hR
    rw [List.foldlM_cons] at h
    cases h1 : buildRel d sc idToIv ns scs st n with
    | error e => rw [h1] at h; cases h
    | ok st1 =>
      rw [h1] at h
      obtain ⟨e, iv, sp⟩ := buildRel_spec R d sc idToIv ns scs st st1 n h1 hR
      have hinv1 := sp.hcBelow hinv
      obtain ⟨es, news2, r1, r2, r3, r4, r5, r6, r7, r8, r9, r10⟩ := ih st1 st' h hinv1 sp.idx
      obtain ⟨news1, q1, q2, q3⟩ := sp.hcons
      have hmore : ∀ c ∈ news2, st1.vf.vid ≤ c.hi.vid := fun c hc => (r8 c hc).2.1.2.1
      refine ⟨e :: es, news1 ++ news2, ?_, ?_, by simp [r3], Nat.le_trans sp.mono r4,
        fun hf => r5 (sp.fresh hf), ?_, r7, ?_, ?_, ?_⟩
      · rw [r1, sp.rels]; simp
      · rw [r2, q1]; simp
      · intro v hv
        rw [r6 v (Nat.lt_of_lt_of_le hv sp.mono)]
        exact sp.store v hv
      · intro hc hhc
        rcases List.mem_append.mp hhc with h3 | h3
        · obtain ⟨c1, c2, x, hx, c3⟩ := q2 hc h3
          exact ⟨c1, c2.mono (Nat.le_refl _) r4, n, List.mem_cons_self, x, hx, c3⟩
        · obtain ⟨c1, c2, n', hn', c3⟩ := r8 hc h3
          exact ⟨c1, c2.mono sp.mono (Nat.le_refl _), n', List.mem_cons_of_mem _ hn', c3⟩
      · rw [List.map_append, List.nodup_append]
        refine ⟨q3, r9, ?_⟩
        intro a ha b hb hab
        obtain ⟨c, hc, rfl⟩ := List.mem_map.mp ha
        obtain ⟨c', hc', rfl⟩ := List.mem_map.mp hb
        have h3 := (q2 c hc).2.1.2.2.1
        have h4 := hmore c' hc'
        omega
      · intro i n' hn'
        cases i with
        | zero =>
          simp only [List.getElem?_cons_zero, Option.some.injEq] at hn'
          subst hn'
          refine ⟨e, iv, by simp, ?_⟩
          exact
            { labelOk := sp.labelOk, ivOk := sp.ivOk, face := sp.face, keys := sp.keys
              origin := fun a ha => by
                rw [r2]
                exact (sp.origin hinv a ha).weaken (Nat.le_refl _) r4 hmore
              complete := fun hnd => by
                obtain ⟨c1, c2, c3⟩ := sp.complete hnd
                refine ⟨c1, c2, ?_⟩
                intro x hx hid
                rcases c3 x hx hid with hl | ⟨hq, hole, d1, d2, d3⟩
                · exact Or.inl hl
                · exact Or.inr ⟨hq, hole, d1, d2.mono (Nat.le_refl _) r4, by
                    rw [r2]; exact List.mem_append_left _ d3⟩ }
        | succ k =>
          simp only [List.getElem?_cons_succ] at hn'
          obtain ⟨e', iv', he', ps⟩ := r10 k n' hn'
          refine ⟨e', iv', by simpa using he', ?_⟩
          exact
            { labelOk := ps.labelOk, ivOk := ps.ivOk, face := ps.face, keys := ps.keys
              origin := fun a ha => by
                have := (ps.origin a ha).weaken (more := []) sp.mono (Nat.le_refl _) (by simp)
                simpa using this
              complete := fun hnd => by
                obtain ⟨c1, c2, c3⟩ := ps.complete hnd
                refine ⟨c1, c2, ?_⟩
                intro x hx hid
                rcases c3 x hx hid with hl | ⟨hq, hole, d1, d2, d3⟩
                · exact Or.inl hl
                · exact Or.inr ⟨hq, hole, d1, d2.mono sp.mono (Nat.le_refl _), d3⟩ }

/-! ### `_dmrs_build_maps`: the intrinsic variables -/

theorem ivFold_spec (d : DMRS) (qmap : List (Int × Int))
    (hq : ∀ p ∈ qmap, p.2 ∈ quantStarts d) :
    ∀ (nodes : List Node) (M0 : List (Int × Var)) (f0 : VFac),
      (nodes.map (·.id)).Nodup →
      f0.vid ≤ (nodes.foldl (ivStep d qmap) (M0, f0)).2.vid ∧
      (f0.Fresh → (nodes.foldl (ivStep d qmap) (M0, f0)).2.Fresh) ∧
      (∀ v : Var, v.vid < f0.vid →
        dlookup v (nodes.foldl (ivStep d qmap) (M0, f0)).2.store = dlookup v f0.store) ∧
      (∀ n ∈ nodes, n.id ∉ quantStarts d → ∃ iv,
        dlookup n.id (nodes.foldl (ivStep d qmap) (M0, f0)).1 = some iv ∧
        iv.sort = n.type.getD UNSPECIFIC ∧ f0.vid ≤ iv.vid ∧
        iv.vid < (nodes.foldl (ivStep d qmap) (M0, f0)).2.vid ∧
        dlookup iv (nodes.foldl (ivStep d qmap) (M0, f0)).2.store = some n.properties) ∧
      (∀ k : Int, k ∉ quantStarts d → k ∉ nodes.map (·.id) →
        dlookup k (nodes.foldl (ivStep d qmap) (M0, f0)).1 = dlookup k M0) ∧
      (∀ q ∈ quantStarts d,
        dlookup q (nodes.foldl (ivStep d qmap) (M0, f0)).1 = dlookup q M0 ∨
        ∃ n ∈ nodes, n.id ∉ quantStarts d ∧ dlookup n.id qmap = some q ∧
          ∃ iv, dlookup q (nodes.foldl (ivStep d qmap) (M0, f0)).1 = some iv ∧
            dlookup n.id (nodes.foldl (ivStep d qmap) (M0, f0)).1 = some iv) ∧
      (∀ n ∈ nodes, ∀ n' ∈ nodes, n.id ∉ quantStarts d → n'.id ∉ quantStarts d →
        ∀ iv iv', dlookup n.id (nodes.foldl (ivStep d qmap) (M0, f0)).1 = some iv →
          dlookup n'.id (nodes.foldl (ivStep d qmap) (M0, f0)).1 = some iv' →
          iv.vid = iv'.vid → n = n') := by
  intro nodes
  induction nodes with
  | nil =>
    intro M0 f0 _
    exact ⟨Nat.le_refl _, id, fun _ _ => rfl, by simp, fun _ _ _ => rfl, fun _ _ => Or.inl rfl,
      by simp⟩
  | cons n rest ih =>
    intro M0 f0 hnd
    simp only [List.map_cons, List.nodup_cons] at hnd
    rw [List.foldl_cons]
    by_cases hqs : n.id ∈ quantStarts d
    · -- a quantifier node: skipped
      have hstep : ivStep d qmap (M0, f0) n = (M0, f0) := by unfold ivStep; rw [if_pos hqs]
      rw [hstep]
      obtain ⟨a1, a2, a3, a4, a5, a6, a7⟩ := ih M0 f0 hnd.2
      refine ⟨a1, a2, a3, ?_, ?_, ?_, ?_⟩
      · intro n' hn' hnq
        rcases List.mem_cons.mp hn' with rfl | hr
        · exact absurd hqs hnq
        · exact a4 n' hr hnq
      · intro k hk hkn
        simp only [List.map_cons, List.mem_cons, not_or] at hkn
        exact a5 k hk hkn.2
      · intro q hqq
        rcases a6 q hqq with h | ⟨n', hn', h⟩
        · exact Or.inl h
        · exact Or.inr ⟨n', List.mem_cons_of_mem _ hn', h⟩
      · intro x hx y hy hxq hyq
        have hx' : x ∈ rest := by
          rcases List.mem_cons.mp hx with rfl | h; exact absurd hqs hxq; exact h
        have hy' : y ∈ rest := by
          rcases List.mem_cons.mp hy with rfl | h; exact absurd hqs hyq; exact h
        exact a7 x hx' y hy' hxq hyq
    · -- a non-quantifier node: new variable
      have hstep : ivStep d qmap (M0, f0) n =
          (match dlookup n.id qmap with
            | some q => dset q (f0.new n.type n.properties).1 (dset n.id (f0.new n.type n.properties).1 M0)
            | none => dset n.id (f0.new n.type n.properties).1 M0, (f0.new n.type n.properties).2) := by
        unfold ivStep; rw [if_neg hqs]; rfl
      rw [hstep]
      generalize hM1 : (match dlookup n.id qmap with
            | some q => dset q (f0.new n.type n.properties).1 (dset n.id (f0.new n.type n.properties).1 M0)
            | none => dset n.id (f0.new n.type n.properties).1 M0) = M1
      have hge := VFac.new_vid_ge f0 n.type n.properties
      have hnext := VFac.new_vid_next f0 n.type n.properties
      have hmono := VFac.new_mono f0 n.type n.properties
      -- lookups in M1
      have hM1n : dlookup n.id M1 = some (f0.new n.type n.properties).1 := by
        rw [← hM1]
        cases hl : dlookup n.id qmap with
        | none => exact dlookup_dset_self _ _ _
        | some q =>
          simp only
          have hqin : q ∈ quantStarts d := hq (n.id, q) (dlookup_mem hl)
          rw [dlookup_dset_ne q n.id _ _ (fun e => hqs (by rw [e]; exact hqin))]
          exact dlookup_dset_self _ _ _
      have hM1k : ∀ k : Int, k ∉ quantStarts d → k ≠ n.id → dlookup k M1 = dlookup k M0 := by
        intro k hk hkn
        rw [← hM1]
        cases hl : dlookup n.id qmap with
        | none => exact dlookup_dset_ne _ _ _ _ hkn
        | some q =>
          simp only
          have hqin : q ∈ quantStarts d := hq (n.id, q) (dlookup_mem hl)
          rw [dlookup_dset_ne q k _ _ (fun e => hk (by rw [e]; exact hqin))]
          exact dlookup_dset_ne _ _ _ _ hkn
      have hM1q : ∀ q ∈ quantStarts d, dlookup q M1 = dlookup q M0 ∨
          (dlookup n.id qmap = some q ∧ dlookup q M1 = some (f0.new n.type n.properties).1) := by
        intro q hqq
        rw [← hM1]
        cases hl : dlookup n.id qmap with
        | none =>
          exact Or.inl (dlookup_dset_ne n.id q _ _ (fun e => hqs (by rw [← e]; exact hqq)))
        | some q' =>
          simp only
          by_cases he : q = q'
          · subst he
            exact Or.inr ⟨rfl, dlookup_dset_self _ _ _⟩
          · rw [dlookup_dset_ne _ _ _ _ he]
            exact Or.inl (dlookup_dset_ne n.id q _ _ (fun e => hqs (by rw [← e]; exact hqq)))
      obtain ⟨a1, a2, a3, a4, a5, a6, a7⟩ := ih M1 (f0.new n.type n.properties).2 hnd.2
      have hnlook : dlookup n.id (rest.foldl (ivStep d qmap) (M1, (f0.new n.type n.properties).2)).1
          = some (f0.new n.type n.properties).1 := by
        rw [a5 n.id hqs hnd.1]; exact hM1n
      refine ⟨Nat.le_trans hmono a1, fun hf => a2 (VFac.new_fresh _ hf _ _), ?_, ?_, ?_, ?_, ?_⟩
      · intro v hv
        rw [a3 v (Nat.lt_of_lt_of_le hv hmono)]
        exact VFac.new_store_other _ _ _ v hv
      · intro n' hn' hnq
        rcases List.mem_cons.mp hn' with rfl | hr
        · refine ⟨_, hnlook, rfl, hge, ?_, ?_⟩
          · exact Nat.lt_of_lt_of_le (by rw [hnext]; exact Nat.lt_succ_self _) a1
          · rw [a3 _ (by rw [hnext]; exact Nat.lt_succ_self _)]
            exact VFac.new_store_self _ _ _
        · obtain ⟨iv, b1, b2, b3, b4, b5⟩ := a4 n' hr hnq
          exact ⟨iv, b1, b2, Nat.le_trans hmono b3, b4, b5⟩
      · intro k hk hkn
        simp only [List.map_cons, List.mem_cons, not_or] at hkn
        rw [a5 k hk hkn.2]
        exact hM1k k hk hkn.1
      · intro q hqq
        rcases a6 q hqq with h | ⟨n', hn', c1, c2, c3⟩
        · rcases hM1q q hqq with h' | ⟨h1, h2⟩
          · exact Or.inl (h.trans h')
          · exact Or.inr ⟨n, List.mem_cons_self, hqs, h1, _, h.trans h2, hnlook⟩
        · exact Or.inr ⟨n', List.mem_cons_of_mem _ hn', c1, c2, c3⟩
      · intro x hx y hy hxq hyq iv iv' hxl hyl hvid
        rcases List.mem_cons.mp hx with rfl | hx'
        · rcases List.mem_cons.mp hy with rfl | hy'
          · rfl
          · exfalso
            obtain ⟨ivy, b1, _, b3, _, _⟩ := a4 y hy' hyq
            rw [hnlook] at hxl
            rw [b1] at hyl
            cases hxl; cases hyl
            rw [hnext] at b3
            omega
        · rcases List.mem_cons.mp hy with rfl | hy'
          · exfalso
            obtain ⟨ivx, b1, _, b3, _, _⟩ := a4 x hx' hxq
            rw [hnlook] at hyl
            rw [b1] at hxl
            cases hxl; cases hyl
            rw [hnext] at b3
            omega
          · exact a7 x hx' y hy' hxq hyq iv iv' hxl hyl hvid

/-! ### the argument tables of `from_dmrs` -/

theorem mapE_ok_mem_left {α β ε : Type} (f : α → Except ε β) (xs : List α) (ys : List β)
    (h : mapE f xs = .ok ys) (x : α) (hx : x ∈ xs) : ∃ y ∈ ys, f x = .ok y := by
  obtain ⟨i, hi⟩ := List.mem_iff_getElem?.mp hx
  obtain ⟨y, hy, hf⟩ := mapE_ok_getElem? f xs ys h i x hi
  exact ⟨y, List.mem_iff_getElem?.mpr ⟨i, hy⟩, hf⟩

/-- is the link a non-scopal argument in the sense of `d.arguments(types='xeipu')`? -/
def nsLink (d : DMRS) (l : Link) : Prop :=
  l.role ≠ BARE_EQ_ROLE ∧ l.post ≠ H_POST ∧ l.post ≠ HEQ_POST ∧
  ∃ n t, nodeById d l.stop = some n ∧ n.type = some t ∧ isInfix t.toList "xeipu".toList = true

theorem nsArgsD_mem (d : DMRS) (ns : List (Int × Role × Int)) (h : nsArgsD d = .ok ns)
    (x : Int × Role × Int) (hx : x ∈ ns) :
    ∃ l ∈ d.links, x = (l.start, l.role, l.stop) ∧ nsLink d l ∧ l.start ∈ d.ids := by
  unfold nsArgsD at h
  split at h
  · cases h
  · rename_i xs hm
    simp only [Except.ok.injEq] at h
    subst h
    rw [List.mem_filterMap] at hx
    obtain ⟨o, ho, hid⟩ := hx
    simp only [id] at hid
    subst hid
    obtain ⟨l, hl, hf⟩ := mapE_ok_mem _ _ _ hm _ ho
    refine ⟨l, hl, ?_⟩
    by_cases h1 : l.role = BARE_EQ_ROLE
    · rw [if_pos h1] at hf; cases hf
    · rw [if_neg h1] at hf
      by_cases h2 : l.post = H_POST ∨ l.post = HEQ_POST
      · rw [if_pos h2] at hf; cases hf
      · rw [if_neg h2] at hf
        simp only [not_or] at h2
        cases hn : nodeById d l.stop with
        | none => rw [hn] at hf; cases hf
        | some n =>
          rw [hn] at hf
          simp only at hf
          cases ht : n.type with
          | none => rw [ht] at hf; cases hf
          | some t =>
            rw [ht] at hf
            simp only at hf
            by_cases h3 : isInfix t.toList "xeipu".toList = true
            · rw [h3] at hf
              simp only [Bool.not_true, Bool.false_eq_true, if_false] at hf
              by_cases h4 : l.start ∈ d.ids
              · rw [if_pos h4] at hf
                simp only [Except.ok.injEq, Option.some.injEq] at hf
                exact ⟨hf.symm, ⟨h1, h2.1, h2.2, n, t, hn, ht, h3⟩, h4⟩
              · rw [if_neg h4] at hf; cases hf
            · simp only [Bool.not_eq_true] at h3
              rw [h3] at hf
              simp at hf

theorem nsArgsD_complete (d : DMRS) (ns : List (Int × Role × Int)) (h : nsArgsD d = .ok ns)
    (l : Link) (hl : l ∈ d.links) (hns : nsLink d l) : (l.start, l.role, l.stop) ∈ ns := by
  unfold nsArgsD at h
  split at h
  · cases h
  · rename_i xs hm
    simp only [Except.ok.injEq] at h
    subst h
    obtain ⟨o, ho, hf⟩ := mapE_ok_mem_left _ _ _ hm l hl
    obtain ⟨h1, h2, h3, n, t, hn, ht, hi⟩ := hns
    rw [if_neg h1, if_neg (by simp [h2, h3]), hn] at hf
    simp only [ht, hi, Bool.not_true, Bool.false_eq_true, if_false] at hf
    by_cases h4 : l.start ∈ d.ids
    · rw [if_pos h4] at hf
      simp only [Except.ok.injEq] at hf
      rw [List.mem_filterMap]
      exact ⟨o, ho, by rw [← hf]; rfl⟩
    · rw [if_neg h4] at hf; cases hf

/-- is the link a scopal argument (`d.scopal_arguments`)?  with its relation. -/
def scRel (l : Link) : Option String :=
  if l.post = HEQ_POST then some LHEQ else if l.post = H_POST then some QEQ else none

theorem scArgsD_mem (d : DMRS) (sc : List (Var × List Node))
    (scs : List (Int × Role × String × Var)) (h : scArgsD d sc = .ok scs)
    (x : Int × Role × String × Var) (hx : x ∈ scs) :
    ∃ l ∈ d.links, x.1 = l.start ∧ x.2.1 = l.role ∧ scRel l = some x.2.2.1 ∧
      lblOfNode sc l.stop = some x.2.2.2 ∧ l.start ∈ d.ids := by
  unfold scArgsD at h
  split at h
  · cases h
  · rename_i xs hm
    simp only [Except.ok.injEq] at h
    subst h
    rw [List.mem_filterMap] at hx
    obtain ⟨o, ho, hid⟩ := hx
    simp only [id] at hid
    subst hid
    obtain ⟨l, hl, hf⟩ := mapE_ok_mem _ _ _ hm _ ho
    refine ⟨l, hl, ?_⟩
    simp only at hf
    cases hr : scRel l with
    | none =>
      unfold scRel at hr
      rw [hr] at hf; cases hf
    | some r =>
      unfold scRel at hr
      rw [hr] at hf
      simp only at hf
      cases hlb : lblOfNode sc l.stop with
      | none => rw [hlb] at hf; cases hf
      | some lbl =>
        rw [hlb] at hf
        simp only at hf
        by_cases h4 : l.start ∈ d.ids
        · rw [if_pos h4] at hf
          simp only [Except.ok.injEq, Option.some.injEq] at hf
          subst hf
          exact ⟨rfl, rfl, rfl, rfl, h4⟩
        · rw [if_neg h4] at hf; cases hf

theorem scArgsD_complete (d : DMRS) (sc : List (Var × List Node))
    (scs : List (Int × Role × String × Var)) (h : scArgsD d sc = .ok scs)
    (l : Link) (hl : l ∈ d.links) (r : String) (hr : scRel l = some r) :
    ∃ lbl, lblOfNode sc l.stop = some lbl ∧ (l.start, l.role, r, lbl) ∈ scs := by
  unfold scArgsD at h
  split at h
  · cases h
  · rename_i xs hm
    simp only [Except.ok.injEq] at h
    subst h
    obtain ⟨o, ho, hf⟩ := mapE_ok_mem_left _ _ _ hm l hl
    simp only at hf
    unfold scRel at hr
    rw [hr] at hf
    simp only at hf
    cases hlb : lblOfNode sc l.stop with
    | none => rw [hlb] at hf; cases hf
    | some lbl =>
      rw [hlb] at hf
      simp only at hf
      by_cases h4 : l.start ∈ d.ids
      · rw [if_pos h4] at hf
        simp only [Except.ok.injEq] at hf
        refine ⟨lbl, rfl, ?_⟩
        rw [List.mem_filterMap]
        exact ⟨o, ho, by rw [← hf]; rfl⟩
      · rw [if_neg h4] at hf; cases hf

theorem qmapD_vals (d : DMRS) (qmap : List (Int × Int)) (h : qmapD d = .ok qmap) :
    ∀ p ∈ qmap, p.2 ∈ quantStarts d := by
  unfold qmapD at h
  have key : ∀ (ls : List Link) (acc res : List (Int × Int)),
      (∀ l ∈ ls, l.start ∈ quantStarts d) → (∀ p ∈ acc, p.2 ∈ quantStarts d) →
      ls.foldlM (fun acc l =>
        if l.start ∈ d.ids then (Except.ok (dset l.stop l.start acc) : Except Err _)
        else .error Err.keyError) acc = .ok res →
      ∀ p ∈ res, p.2 ∈ quantStarts d := by
    intro ls
    induction ls with
    | nil =>
      intro acc res _ hacc hf
      simp only [List.foldlM_nil] at hf
      cases hf; exact hacc
    | cons l ls ih =>
      intro acc res hls hacc hf
      rw [List.foldlM_cons] at hf
      by_cases h4 : l.start ∈ d.ids
      · rw [if_pos h4] at hf
        refine ih _ _ (fun l' hl' => hls l' (List.mem_cons_of_mem _ hl')) ?_ hf
        intro p hp
        rcases mem_dset _ _ _ _ hp with rfl | hold
        · exact hls l List.mem_cons_self
        · exact hacc p hold
      · rw [if_neg h4] at hf; cases hf
  refine key _ [] qmap ?_ (by simp) h
  intro l hl
  unfold quantStarts
  exact List.mem_map_of_mem hl

/-! ### the scopes of a DMRS (`DMRS.scopes` with the implementation's choice of labels) -/

theorem mapM_ok_left {α β ε : Type} (f : α → Except ε β) :
    ∀ (l : List α) (r : List β), l.mapM f = .ok r → ∀ a ∈ l, ∃ b ∈ r, f a = .ok b := by
  intro l
  induction l with
  | nil => intro r _ a ha; exact absurd ha List.not_mem_nil
  | cons a0 l ih =>
    intro r h a ha
    rw [List.mapM_cons] at h
    cases hf : f a0 with
    | error e' => rw [hf] at h; simp [bind, Except.bind] at h
    | ok b0 =>
      rw [hf] at h
      cases hl : l.mapM f with
      | error e' => rw [hl] at h; simp [bind, Except.bind] at h
      | ok r0 =>
        rw [hl] at h
        have : r = b0 :: r0 := by simpa [bind, Except.bind, pure, Except.pure] using h.symm
        subst this
        rcases List.mem_cons.1 ha with rfl | ha'
        · exact ⟨b0, List.mem_cons_self, hf⟩
        · obtain ⟨b, hb, hfb⟩ := ih _ hl a ha'
          exact ⟨b, List.mem_cons_of_mem _ hb, hfb⟩

/-- everything the round trip needs to know about the scopes `from_dmrs` works with. -/
structure ScopesSpec (d : DMRS) (topLbl : Option Var) (sc : List (Var × List Node))
    (lbl : Node → Var) (leqs : List (Var × Var)) : Prop where
  lblOk : ∀ n ∈ d.nodes, dlookup n.id d.idToLbl = some (lbl n)
  lblInj : ∀ n ∈ d.nodes, ∀ n' ∈ d.nodes, lbl n = lbl n' → n = n'
  leqsOk : d.leqs = .ok leqs
  cover : ∀ n ∈ d.nodes, ∃ s ∈ sc, n ∈ s.2
  sub : ∀ s ∈ sc, ∀ n ∈ s.2, n ∈ d.nodes
  disj : sc.Pairwise (fun a b => ∀ n ∈ a.2, ∀ n' ∈ b.2, n.id ≠ n'.id)
  /-- two nodes are in one scope exactly when their labels are connected by EQ links -/
  same : ∀ s ∈ sc, ∀ n ∈ s.2, ∀ n' ∈ d.nodes,
    n' ∈ s.2 ↔ Reach (adjOf (symm leqs)) (lbl n) (lbl n')
  /-- the key of a scope is the label of one of its nodes -/
  keyOf : ∀ s ∈ sc, ∃ n ∈ s.2, s.1 = lbl n
  topNone : d.top = none → topLbl = none
  topSome : ∀ t, d.top = some t → t ∈ d.ids ∧
    topLbl = (sc.find? (fun s => s.2.any (fun n => n.id = t))).map (·.1)

theorem scopesCh_spec (chosen : List Var) (d : DMRS) (hnd : d.ids.Nodup) (topLbl : Option Var)
    (sc : List (Var × List Node)) (h : scopesCh chosen d = .ok (topLbl, sc)) :
    ∃ lbl leqs, ScopesSpec d topLbl sc lbl leqs := by
  unfold scopesCh at h
  cases hs : d.scopes with
  | error e => rw [hs] at h; cases h
  | ok r =>
    obtain ⟨top0, sc0⟩ := r
    rw [hs] at h
    simp only [Except.ok.injEq, Prod.mk.injEq] at h
    obtain ⟨htop, hsc⟩ := h
    obtain ⟨leqs, hleqs, hconj, hcase⟩ := c07_scopes_ok d top0 sc0 hs
    obtain ⟨lbl, hl1, hl2, hP⟩ := idToLbl_spec d hnd
    have hkeys : dkeys d.prescopes = d.nodes.map lbl := by
      rw [hP]; simp [dkeys, Function.comp_def]
    have hk : (dkeys d.prescopes).Nodup := by
      rw [hkeys]
      exact c07_nodup_map_of_inj _ _ (c07_nodup_of_nodup_map (fun n : Node => n.id) _ hnd) hl2
    have hlook : ∀ n ∈ d.nodes, dlookup (lbl n) d.prescopes = some [n] := by
      intro n hn
      rw [hP]
      exact c07_dlookup_map_inj lbl (fun n => [n]) d.nodes hl2 n hn
    obtain ⟨c1, c2, c3⟩ := conjoin_components d.prescopes leqs sc0 hk hconj
    -- membership in the scopes of `d.scopes`
    have hmem0 : ∀ s ∈ sc0, ∀ n, n ∈ s.2 ↔ n ∈ d.nodes ∧ Reach (adjOf (symm leqs)) s.1 (lbl n) := by
      intro s hs0 n
      obtain ⟨c, _, _, hx, h2⟩ := c1 s hs0
      constructor
      · intro hn
        rw [h2] at hn
        obtain ⟨l, hlc, hnl⟩ := List.mem_flatMap.1 hn
        obtain ⟨hlk, hr⟩ := (hx l).1 hlc
        rw [hkeys] at hlk
        obtain ⟨m, hm, rfl⟩ := List.mem_map.1 hlk
        rw [hlook m hm] at hnl
        have : n = m := by simpa using hnl
        subst this
        exact ⟨hm, hr⟩
      · rintro ⟨hn, hr⟩
        rw [h2]
        refine List.mem_flatMap.2 ⟨lbl n, (hx _).2 ⟨?_, hr⟩, ?_⟩
        · rw [hkeys]; exact List.mem_map.2 ⟨n, hn, rfl⟩
        · rw [hlook n hn]; simp
    have hkey0 : ∀ s ∈ sc0, ∃ n ∈ s.2, s.1 = lbl n := by
      intro s hs0
      obtain ⟨c, _, hin, hx, _⟩ := c1 s hs0
      have := ((hx s.1).1 hin).1
      rw [hkeys] at this
      obtain ⟨n, hn, he⟩ := List.mem_map.1 this
      exact ⟨n, (hmem0 s hs0 n).2 ⟨hn, by rw [he]; exact Reach.refl _⟩, he.symm⟩
    obtain ⟨p1, p2, p3⟩ := c07_partition_of_conjoin d hnd leqs sc0 hconj
    -- relabelling keeps the node lists
    have hrel2 : ∀ s : Var × List Node,
        (relabel chosen (fun i => dlookup i d.idToLbl) s).2 = s.2 := by
      intro s; unfold relabel; split <;> rfl
    have hrelkey : ∀ s ∈ sc0, ∃ n ∈ s.2,
        (relabel chosen (fun i => dlookup i d.idToLbl) s).1 = lbl n := by
      intro s hs0
      unfold relabel
      split
      · rename_i l hf
        have hm := List.mem_of_find?_eq_some hf
        rw [List.mem_filterMap] at hm
        obtain ⟨n, hn, hln⟩ := hm
        have hnn := p2 s hs0 n hn
        simp only [hl1 n hnn, Option.some.injEq] at hln
        exact ⟨n, hn, hln.symm⟩
      · exact hkey0 s hs0
    have hscmem : ∀ s ∈ sc, ∃ s0 ∈ sc0, s.2 = s0.2 ∧
        s.1 = (relabel chosen (fun i => dlookup i d.idToLbl) s0).1 := by
      intro s hs'
      rw [← hsc] at hs'
      obtain ⟨s0, hs0, rfl⟩ := List.mem_map.mp hs'
      exact ⟨s0, hs0, hrel2 s0, rfl⟩
    have hmap2 : sc.map (·.2) = sc0.map (·.2) := by
      rw [← hsc, List.map_map]
      apply List.map_congr_left
      intro s _
      exact hrel2 s
    refine ⟨lbl, leqs,
      { lblOk := hl1, lblInj := hl2, leqsOk := hleqs, cover := ?_, sub := ?_, disj := ?_,
        same := ?_, keyOf := ?_, topNone := ?_, topSome := ?_ }⟩
    · intro n hn
      obtain ⟨s0, hs0, hin⟩ := p1 n hn
      refine ⟨relabel chosen (fun i => dlookup i d.idToLbl) s0, ?_, by rw [hrel2]; exact hin⟩
      rw [← hsc]; exact List.mem_map_of_mem hs0
    · intro s hs' n hn
      obtain ⟨s0, hs0, h2, _⟩ := hscmem s hs'
      rw [h2] at hn
      exact p2 s0 hs0 n hn
    · rw [← hsc, List.pairwise_map]
      refine List.Pairwise.imp ?_ p3
      intro a b hab n hn n' hn'
      rw [hrel2] at hn hn'
      exact hab n hn n' hn'
    · intro s hs' n hn n' hn'
      obtain ⟨s0, hs0, h2, _⟩ := hscmem s hs'
      rw [h2] at hn ⊢
      have hr := ((hmem0 s0 hs0 n).1 hn).2
      constructor
      · intro hin
        exact Reach.trans (Reach.symm_of_symm _ hr) ((hmem0 s0 hs0 n').1 hin).2
      · intro hr'
        exact (hmem0 s0 hs0 n').2 ⟨hn', Reach.trans hr hr'⟩
    · intro s hs'
      obtain ⟨s0, hs0, h2, h1⟩ := hscmem s hs'
      obtain ⟨n, hn, he⟩ := hrelkey s0 hs0
      exact ⟨n, by rw [h2]; exact hn, by rw [h1]; exact he⟩
    · intro hnone
      rw [hnone] at htop
      exact htop.symm
    · intro t ht
      rw [ht] at htop
      rcases hcase with ⟨hn, _⟩ | ⟨t', ht', hin, _⟩
      · rw [ht] at hn; cases hn
      · rw [ht] at ht'
        cases ht'
        refine ⟨hin, ?_⟩
        rw [← htop, hsc]

namespace ScopesSpec
variable {d : DMRS} {topLbl : Option Var} {sc : List (Var × List Node)} {lbl : Node → Var}
  {leqs : List (Var × Var)}

/-- a node id lies in at most one scope. -/
theorem unique (S : ScopesSpec d topLbl sc lbl leqs) {s s' : Var × List Node} (hs : s ∈ sc)
    (hs' : s' ∈ sc) {n n' : Node} (hn : n ∈ s.2) (hn' : n' ∈ s'.2) (hid : n.id = n'.id) :
    s = s' := by
  rcases c07_pairwise_mem sc S.disj s hs s' hs' with he | hr | hr
  · exact he
  · exact absurd hid (hr n hn n' hn')
  · exact absurd hid.symm (hr n' hn' n hn)

theorem lblOfNode_of_mem (S : ScopesSpec d topLbl sc lbl leqs) {s : Var × List Node}
    (hs : s ∈ sc) {n : Node} (hn : n ∈ s.2) : lblOfNode sc n.id = some s.1 := by
  unfold lblOfNode
  cases hf : sc.reverse.find? (fun s => s.2.any (fun n' => n'.id = n.id)) with
  | none =>
    rw [List.find?_eq_none] at hf
    exact absurd (List.any_eq_true.2 ⟨n, hn, by simp⟩) (hf s (List.mem_reverse.mpr hs))
  | some s' =>
    have hs' : s' ∈ sc := List.mem_reverse.mp (List.mem_of_find?_eq_some hf)
    have hp : s'.2.any (fun n' => decide (n'.id = n.id)) = true :=
      List.find?_some (p := fun s : Var × List Node => s.2.any (fun n' => decide (n'.id = n.id))) hf
    obtain ⟨n', hn', hid⟩ := List.any_eq_true.1 hp
    have hid : n'.id = n.id := by simpa using hid
    rw [S.unique hs' hs hn' hn hid]
    rfl

theorem find_of_mem (S : ScopesSpec d topLbl sc lbl leqs) {s : Var × List Node}
    (hs : s ∈ sc) {n : Node} (hn : n ∈ s.2) :
    sc.find? (fun s => s.2.any (fun n' => n'.id = n.id)) = some s := by
  cases hf : sc.find? (fun s => s.2.any (fun n' => n'.id = n.id)) with
  | none =>
    rw [List.find?_eq_none] at hf
    exact absurd (List.any_eq_true.2 ⟨n, hn, by simp⟩) (hf s hs)
  | some s' =>
    have hs' : s' ∈ sc := List.mem_of_find?_eq_some hf
    have hp : s'.2.any (fun n' => decide (n'.id = n.id)) = true :=
      List.find?_some (p := fun s : Var × List Node => s.2.any (fun n' => decide (n'.id = n.id))) hf
    obtain ⟨n', hn', hid⟩ := List.any_eq_true.1 hp
    have hid : n'.id = n.id := by simpa using hid
    rw [S.unique hs' hs hn' hn hid]

/-- the label `from_dmrs` gives a node: the key of its scope. -/
theorem lblOfNode_node (S : ScopesSpec d topLbl sc lbl leqs) {n : Node} (hn : n ∈ d.nodes) :
    ∃ s ∈ sc, n ∈ s.2 ∧ lblOfNode sc n.id = some s.1 := by
  obtain ⟨s, hs, hin⟩ := S.cover n hn
  exact ⟨s, hs, hin, S.lblOfNode_of_mem hs hin⟩

theorem key_inj (S : ScopesSpec d topLbl sc lbl leqs) {s s' : Var × List Node} (hs : s ∈ sc)
    (hs' : s' ∈ sc) (hk : s.1 = s'.1) : s = s' := by
  obtain ⟨a, ha, he⟩ := S.keyOf s hs
  obtain ⟨a', ha', he'⟩ := S.keyOf s' hs'
  have : a = a' := S.lblInj a (S.sub s hs a ha) a' (S.sub s' hs' a' ha') (by rw [← he, ← he', hk])
  subst this
  exact S.unique hs hs' ha ha' rfl

/-- two nodes get the same label exactly when EQ links connect them. -/
theorem sameLabel_iff (S : ScopesSpec d topLbl sc lbl leqs) {n n' : Node} (hn : n ∈ d.nodes)
    (hn' : n' ∈ d.nodes) :
    lblOfNode sc n.id = lblOfNode sc n'.id ↔ Reach (adjOf (symm leqs)) (lbl n) (lbl n') := by
  obtain ⟨s, hs, hin, hl⟩ := S.lblOfNode_node hn
  obtain ⟨s', hs', hin', hl'⟩ := S.lblOfNode_node hn'
  rw [hl, hl', ← S.same s hs n hin n' hn']
  constructor
  · intro he
    simp only [Option.some.injEq] at he
    rw [S.key_inj hs hs' he]; exact hin'
  · intro hmem
    rw [S.unique hs hs' hmem hin' rfl]

/-- the top label is the label of the top node. -/
theorem top_eq (S : ScopesSpec d topLbl sc lbl leqs) {n : Node} (hn : n ∈ d.nodes)
    (ht : d.top = some n.id) : topLbl = lblOfNode sc n.id := by
  obtain ⟨s, hs, hin, hl⟩ := S.lblOfNode_node hn
  rw [(S.topSome n.id ht).2, S.find_of_mem hs hin, hl]
  rfl

end ScopesSpec

/-! ### the links of `from_mrs`, as a set -/

theorem mem_fromMrs_links (m : MRS) (reps : Reps) (d : DMRS)
    (hreps : m.representatives = .ok reps) (h : fromMrs m = .ok d) (l : Link) :
    l ∈ d.links ↔
      (∃ i e a, m.rels[i]? = some e ∧ a ∈ e.outArgs none ∧
        argLink m reps (nidAt i) e a = .ok (some l)) ∨
      (∃ s ∈ reps, ∃ ls, modLinksOf m s.2 = .ok ls ∧ l ∈ ls) := by
  obtain ⟨top, nodes, links, _, _, hlinks, rfl⟩ := fromMrs_ok m reps d hreps h
  simp only
  unfold mrsToLinks at hlinks
  cases hargs : mapE (argLinksOf m reps) m.rels.zipIdx with
  | error e => rw [hargs] at hlinks; cases hlinks
  | ok argls =>
    rw [hargs] at hlinks
    simp only at hlinks
    cases hmods : mapE (fun s : Var × List Pred => modLinksOf m s.2) reps with
    | error e => rw [hmods] at hlinks; cases hlinks
    | ok modls =>
      rw [hmods] at hlinks
      simp only [Except.ok.injEq] at hlinks
      subst hlinks
      rw [List.mem_append]
      constructor
      · rintro (hl1 | hl2)
        · rw [List.mem_filterMap] at hl1
          obtain ⟨ol, hol, hid⟩ := hl1
          simp only [id] at hid
          subst hid
          obtain ⟨ols, hols, hin⟩ := List.mem_flatten.mp hol
          obtain ⟨ei, hei, hf⟩ := mapE_ok_mem _ _ _ hargs ols hols
          unfold argLinksOf at hf
          obtain ⟨a, ha, hfa⟩ := mapE_ok_mem _ _ _ hf _ hin
          rw [List.mem_zipIdx_iff_getElem?] at hei
          exact Or.inl ⟨ei.2, ei.1, a, hei, ha, hfa⟩
        · obtain ⟨ls, hls, hin⟩ := List.mem_flatten.mp hl2
          obtain ⟨s, hs, hf⟩ := mapE_ok_mem _ _ _ hmods ls hls
          exact Or.inr ⟨s, hs, ls, hf, hin⟩
      · rintro (⟨i, e, a, he, ha, hf⟩ | ⟨s, hs, ls, hf, hin⟩)
        · left
          have hz : (e, i) ∈ m.rels.zipIdx := List.mem_zipIdx_iff_getElem?.mpr he
          obtain ⟨ols, hols, hfo⟩ := mapE_ok_mem_left _ _ _ hargs (e, i) hz
          unfold argLinksOf at hfo
          obtain ⟨ol, hol, hfa⟩ := mapE_ok_mem_left _ _ _ hfo a ha
          simp only at hfa
          rw [hf] at hfa
          simp only [Except.ok.injEq] at hfa
          rw [List.mem_filterMap]
          exact ⟨some l, List.mem_flatten.mpr ⟨ols, hols, by rw [hfa]; exact hol⟩, rfl⟩
        · right
          obtain ⟨ls', hls', hf'⟩ := mapE_ok_mem_left _ _ _ hmods s hs
          rw [hf] at hf'
          simp only [Except.ok.injEq] at hf'
          exact List.mem_flatten.mpr ⟨ls', hls', by rw [← hf']; exact hin⟩

theorem argLink_start_role (m : MRS) (reps : Reps) (start : Int) (e : EP) (a : Role × Var)
    (l : Link) (h : argLink m reps start e a = .ok (some l)) : l.start = start ∧ l.role = a.1 := by
  unfold argLink at h
  cases hiv : ivToNid m a.2 with
  | some stop =>
    rw [hiv] at h
    simp only at h
    cases hep : epById m a.2 with
    | none => rw [hep] at h; cases h
    | some t =>
      rw [hep] at h
      simp only [Except.ok.injEq, Option.some.injEq] at h; subst h; exact ⟨rfl, rfl⟩
  | none =>
    rw [hiv] at h
    simp only at h
    cases hlk : dlookup (scopalTarget m a.2).1 reps with
    | none => rw [hlk] at h; cases h
    | some rs =>
      rw [hlk] at h
      cases rs with
      | nil => cases h
      | cons r rest =>
        simp only at h
        cases hn : idToNid m r.1 with
        | none => rw [hn] at h; cases h
        | some stop =>
          rw [hn] at h
          simp only [Except.ok.injEq, Option.some.injEq] at h; subst h; exact ⟨rfl, rfl⟩

theorem modLinksOf_role (m : MRS) (rs : List Pred) (ls : List Link)
    (h : modLinksOf m rs = .ok ls) (l : Link) (hl : l ∈ ls) :
    l.role = BARE_EQ_ROLE ∧ l.post = EQ_POST := by
  unfold modLinksOf at h
  split at h
  · split at h
    · cases h
    · obtain ⟨p, _, hp⟩ := mapE_ok_mem _ _ _ h l hl
      split at hp
      · simp only [Except.ok.injEq] at hp; subst hp; exact ⟨rfl, rfl⟩
      · cases hp
  · simp only [Except.ok.injEq] at h; subst h; simp at hl

/-- with `dict`-like roles, a node has at most one argument link per role. -/
theorem fromMrs_links_fun (m : MRS) (hR : RolesOk m = true) (reps : Reps) (d : DMRS)
    (hreps : m.representatives = .ok reps) (h : fromMrs m = .ok d)
    (l l' : Link) (hl : l ∈ d.links) (hl' : l' ∈ d.links) (hs : l.start = l'.start)
    (hr : l.role = l'.role) (hnm : l.role ≠ BARE_EQ_ROLE) : l = l' := by
  rw [mem_fromMrs_links m reps d hreps h] at hl hl'
  rcases hl with ⟨i, e, a, he, ha, hf⟩ | ⟨s, _, ls, hf, hin⟩
  · rcases hl' with ⟨i', e', a', he', ha', hf'⟩ | ⟨s, _, ls, hf', hin⟩
    · obtain ⟨s1, r1⟩ := argLink_start_role _ _ _ _ _ _ hf
      obtain ⟨s2, r2⟩ := argLink_start_role _ _ _ _ _ _ hf'
      have hi : i = i' := nidAt_inj _ _ (by rw [← s1, ← s2, hs])
      subst hi
      rw [he] at he'
      cases he'
      have hkeys : (e.args.map (·.1)).Nodup := by
        unfold RolesOk at hR
        rw [List.all_eq_true] at hR
        have := hR e (List.mem_of_getElem? he)
        simp only [Bool.and_eq_true, decide_eq_true_eq] at this
        exact this.1
      have : a = a' := key_unique hkeys (mem_outArgs e a ha).1 (mem_outArgs e a' ha').1
        (by rw [← r1, ← r2, hr])
      subst this
      rw [hf] at hf'
      simpa using hf'
    · exact absurd (hr.trans (modLinksOf_role m _ _ hf' l' hin).1) hnm
  · exact absurd (modLinksOf_role m _ _ hf l hin).1 hnm

/-- an argument link never has the role `MOD` or `ARG0` (under `RolesOk`). -/
theorem fromMrs_link_role (m : MRS) (hR : RolesOk m = true) (reps : Reps) (d : DMRS)
    (hreps : m.representatives = .ok reps) (h : fromMrs m = .ok d) (l : Link) (hl : l ∈ d.links) :
    l.role ≠ INTRINSIC_ROLE ∧ (l.role = BARE_EQ_ROLE → l.post = EQ_POST) := by
  rw [mem_fromMrs_links m reps d hreps h] at hl
  rcases hl with ⟨i, e, a, he, ha, hf⟩ | ⟨s, _, ls, hf, hin⟩
  · obtain ⟨_, r1⟩ := argLink_start_role _ _ _ _ _ _ hf
    constructor
    · rw [r1]; exact (mem_outArgs e a ha).2.1
    · intro hmod
      exfalso
      unfold RolesOk at hR
      rw [List.all_eq_true] at hR
      have := hR e (List.mem_of_getElem? he)
      simp only [Bool.and_eq_true, Bool.not_eq_true', List.any_eq_false] at this
      have := this.2 a (mem_outArgs e a ha).1
      rw [← r1, hmod] at this
      simp at this
  · obtain ⟨h1, h2⟩ := modLinksOf_role m _ _ hf l hin
    exact ⟨by rw [h1]; decide, fun _ => h2⟩

end Verif.C04
