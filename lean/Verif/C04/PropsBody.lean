/-
C04 — the link INVENTORY is complete, and RESOLVED quantifier bodies make the round trip.

`links_justified` (Props.lean) says every link the conversion produces is justified by the
source.  This file proves the converse direction for the arguments DMRS can express, for ALL
inputs of the model:

* `links_complete_nonscopal`: an argument that is the intrinsic variable of a non-quantifier
  predication has its link, with `EQ`/`NEQ` by label identity;
* `links_complete_scopal`: an argument selecting (directly as a label, or through its handle
  constraint) a scope that has a representative has its link to the FIRST representative, with
  `HEQ` for a direct label and `H` for a handle constraint — whatever the role: `RSTR`, `BODY`,
  `ARG1`, `L-HNDL`, …;
* `roundtrip_resolved_body`: the case the ordinary parses never show — the BODY of a quantifier
  is RESOLVED (fully or partly scoped MRS): `BODY/HEQ` resp. `BODY/H` is a link of the DMRS and
  the predication comes back with BODY being the label of the same scope, resp. a hole with a
  qeq onto it; `from_dmrs` adds no second, open BODY (`roundtrip_resolved_body_unique`);
* `resolved_body_needs_representative`: the hypothesis "the selected scope has a
  representative" is necessary (a `decide`-checked input of the class of finding F08 whose
  BODY/HEQ link is missing).
-/
import Verif.C04.PropsSrc

namespace Verif.C04
open Verif.Sem

/-! ## 1. Link inventory -/

/-- **Non-scopal arguments are linked.**  "its start predication has that role, the target is the
predication the argument refers to … the post-slash marker is EQ/NEQ by label identity":
conversely, every argument `(r, v)` of the predication at position `i` whose value is the
intrinsic variable of the non-quantifier predication `t` (at node `stop`) IS a link of the DMRS. -/
theorem links_complete_nonscopal (m : MRS) (reps : Reps) (d : DMRS)
    (hreps : m.representatives = .ok reps) (h1 : fromMrs m = .ok d)
    (i : Nat) (e : EP) (he : m.rels[i]? = some e)
    (r : Role) (v : Var) (ha : (r, v) ∈ e.outArgs none)
    (stop : Int) (hiv : ivToNid m v = some stop) (t : EP) (ht : epById m v = some t) :
    (⟨nidAt i, stop, r, if e.label = t.label then EQ_POST else NEQ_POST⟩ : Link) ∈ d.links := by
  obtain ⟨o, ho, hol⟩ := fromMrs_argLink_ok m reps d hreps h1 i e he (r, v) ha
  apply hol
  unfold argLink at ho
  simp only [hiv, ht, Except.ok.injEq] at ho
  exact ho.symm

/-- **Scopal arguments are linked.**  "… or a member of the scope it selects, and the post-slash
marker is … H for a handle constraint and HEQ for a direct label": conversely, every argument
`(r, v)` (any role: RSTR, BODY, ARGn, L-HNDL …) that is no intrinsic variable and selects a scope
with a representative IS a link of the DMRS, ending at the first representative (position `p`). -/
theorem links_complete_scopal (m : MRS) (hN : BaseIdsDistinct m) (reps : Reps) (d : DMRS)
    (hreps : m.representatives = .ok reps) (h1 : fromMrs m = .ok d)
    (i p : Nat) (e : EP) (he : m.rels[i]? = some e)
    (r : Role) (v : Var) (ha : (r, v) ∈ e.outArgs none) (hniv : ivToNid m v = none)
    (tgt : Pred) (rest : List Pred)
    (hlook : dlookup (scopalTarget m v).1 reps = some (tgt :: rest))
    (hp : predAt m (nidAt p) = some tgt) :
    (⟨nidAt i, nidAt p, r, (scopalTarget m v).2⟩ : Link) ∈ d.links := by
  obtain ⟨o, ho, hol⟩ := fromMrs_argLink_ok m reps d hreps h1 i e he (r, v) ha
  have htm := (rep_lookup_member m reps hreps _ _ hlook tgt List.mem_cons_self).1
  have hnid := idToNid_pos m hN tgt htm
  have hpos : posOf m tgt = p := (nidAt_inj _ _ (predAt_pos m hN _ _ hp)).symm
  apply hol
  unfold argLink at ho
  rw [hniv] at ho
  simp only [hlook, hnid, hpos, Except.ok.injEq] at ho
  exact ho.symm

/-- the post of a scopal argument is `H` exactly when the value carries a handle constraint and
`HEQ` otherwise (the two are different markers). -/
theorem scopal_post_cases (m : MRS) (v : Var) :
    ((scopalTarget m v).2 = H_POST ∨ (scopalTarget m v).2 = HEQ_POST) ∧ H_POST ≠ HEQ_POST := by
  refine ⟨?_, by decide⟩
  unfold scopalTarget; split <;> simp

/-! ## 2. Resolved quantifier bodies -/

/-- **A resolved BODY makes the round trip.**  For a quantifier at position `i` whose BODY value
`v` selects a scope with first representative at position `p` — directly as that scope's label
(label-scopal, fully scoped MRS) or through a handle constraint (qeq-scopal) — the DMRS has the
link `BODY/HEQ` resp. `BODY/H` from node `10000+i` to node `10000+p`, and the predication that
comes back at position `i` has BODY = the label of the predication at `p`, resp. BODY = a hole
with the constraint `hole qeq` that label.  For every choice of scope labels. -/
theorem roundtrip_resolved_body (m : MRS) (hN : BaseIdsDistinct m) (hR : RolesOk m = true)
    (chosen : List Var) (d : DMRS) (m2 : MRS)
    (h1 : fromMrs m = .ok d) (h2 : fromDmrs chosen d = .ok m2) (reps : Reps)
    (hreps : m.representatives = .ok reps)
    (i p : Nat) (e e2 ep2 : EP) (he : m.rels[i]? = some e)
    (he2 : m2.rels[i]? = some e2) (hep2 : m2.rels[p]? = some ep2)
    (v : Var) (ha : (BODY_ROLE, v) ∈ e.outArgs none) (hniv : ivToNid m v = none)
    (tgt : Pred) (rest : List Pred)
    (hlook : dlookup (scopalTarget m v).1 reps = some (tgt :: rest))
    (hp : predAt m (nidAt p) = some tgt) :
    (⟨nidAt i, nidAt p, BODY_ROLE, (scopalTarget m v).2⟩ : Link) ∈ d.links ∧
    ((scopalTarget m v).2 = HEQ_POST → (BODY_ROLE, ep2.label) ∈ e2.args) ∧
    ((scopalTarget m v).2 = H_POST → ∃ hole, (BODY_ROLE, hole) ∈ e2.args ∧
      (⟨hole, QEQ, ep2.label⟩ : HCons) ∈ m2.hcons) :=
  ⟨links_complete_scopal m hN reps d hreps h1 i p e he BODY_ROLE v ha hniv tgt rest hlook hp,
   roundtrip_scopal_args m hN hR chosen d m2 h1 h2 reps hreps i p e e2 ep2 he he2 hep2
     BODY_ROLE v ha hniv tgt rest hlook hp⟩

/-- **Roles stay pairwise distinct on the way back**: every predication of the MRS that comes
back has each role once (they are the keys of the `args` dict `from_dmrs` fills). -/
theorem roundtrip_roles_distinct (m : MRS) (hN : BaseIdsDistinct m) (hR : RolesOk m = true)
    (chosen : List Var) (d : DMRS) (m2 : MRS)
    (h1 : fromMrs m = .ok d) (h2 : fromDmrs chosen d = .ok m2)
    (i : Nat) (e e2 : EP) (he : m.rels[i]? = some e) (he2 : m2.rels[i]? = some e2) :
    (dkeys e2.args).Nodup := by
  obtain ⟨reps', topLbl, sc, lbl, leqs, idToIv, ns, scs, lo, hi, C⟩ :=
    rtctx m hN hR chosen d m2 h1 h2
  obtain ⟨n, e2', iv, hn, hid, he2', ps, _⟩ := C.at_pos i e he
  rw [he2] at he2'; cases he2'
  exact ps.keys

/-- **No second BODY.**  A predication that comes back has at most one value per role; in
particular a quantifier whose BODY was resolved does NOT also get the fresh open BODY hole
`from_dmrs` gives quantifiers without one (`if d.is_quantifier(id) and BODY_ROLE not in args`):
the value `roundtrip_resolved_body` names is THE value of BODY. -/
theorem roundtrip_resolved_body_unique (m : MRS) (hN : BaseIdsDistinct m) (hR : RolesOk m = true)
    (chosen : List Var) (d : DMRS) (m2 : MRS)
    (h1 : fromMrs m = .ok d) (h2 : fromDmrs chosen d = .ok m2)
    (i : Nat) (e e2 : EP) (he : m.rels[i]? = some e) (he2 : m2.rels[i]? = some e2)
    (r : Role) (w w' : Var) (hw : (r, w) ∈ e2.args) (hw' : (r, w') ∈ e2.args) : w = w' := by
  have hnd := roundtrip_roles_distinct m hN hR chosen d m2 h1 h2 i e e2 he he2
  have a := dlookup_of_mem_nodup hnd hw
  have b := dlookup_of_mem_nodup hnd hw'
  rw [a] at b
  exact Option.some.inj b

/-! ## 3. Non-vacuity and necessity -/

/-- "every dog chases the cat", fully scoped: `_every_q` outscopes `_the_q` through a handle
constraint on its BODY (qeq-scopal), the BODY of `_the_q` is directly the label of the verb
(label-scopal). -/
def scopedDog : MRS :=
  { top := some ⟨"h", 0⟩, index := some ⟨"e", 2⟩,
    rels := [ { predicate := "_every_q", label := ⟨"h", 4⟩,
                args := [("ARG0", ⟨"x", 3⟩), ("RSTR", ⟨"h", 5⟩), ("BODY", ⟨"h", 6⟩)] },
              { predicate := "_dog_n_1", label := ⟨"h", 7⟩, args := [("ARG0", ⟨"x", 3⟩)] },
              { predicate := "_the_q", label := ⟨"h", 8⟩,
                args := [("ARG0", ⟨"x", 9⟩), ("RSTR", ⟨"h", 10⟩), ("BODY", ⟨"h", 1⟩)] },
              { predicate := "_cat_n_1", label := ⟨"h", 12⟩, args := [("ARG0", ⟨"x", 9⟩)] },
              { predicate := "_chase_v_1", label := ⟨"h", 1⟩,
                args := [("ARG0", ⟨"e", 2⟩), ("ARG1", ⟨"x", 3⟩), ("ARG2", ⟨"x", 9⟩)] } ],
    hcons := [⟨⟨"h", 0⟩, "qeq", ⟨"h", 1⟩⟩, ⟨⟨"h", 5⟩, "qeq", ⟨"h", 7⟩⟩,
              ⟨⟨"h", 10⟩, "qeq", ⟨"h", 12⟩⟩, ⟨⟨"h", 6⟩, "qeq", ⟨"h", 8⟩⟩] }

def scopedDogD : DMRS := match fromMrs scopedDog with | .ok d => d | _ => default
def scopedDogBack : MRS := match fromDmrs [] scopedDogD with | .ok m2 => m2 | _ => default

/-- does the predication at position `i` of `m` have exactly one BODY argument, namely `w`? -/
def bodyIs (m : MRS) (i : Nat) (w : Var) : Bool :=
  match m.rels[i]? with
  | some e => (e.args.filter (fun a => a.1 == BODY_ROLE)) == [(BODY_ROLE, w)]
  | none => false

/-- the hypotheses of `roundtrip_resolved_body` are satisfiable, for both kinds of resolved BODY,
on a well-formed MRS of the source class `InSpaceSrc`; the two BODY links are there; and each
quantifier comes back with exactly ONE BODY: the verb's label for `_the_q`, a hole with a qeq
onto the label of `_the_q` for `_every_q` (`from_dmrs` adds no open BODY to a quantifier that
already has one). -/
example :
    scopedDog.isWellFormed = true ∧ inSpaceSrcRun scopedDog = true ∧ NoDescArg scopedDog = true ∧
    (⟨10000, 10002, "BODY", "H"⟩ : Link) ∈ scopedDogD.links ∧
    (⟨10002, 10004, "BODY", "HEQ"⟩ : Link) ∈ scopedDogD.links ∧
    (∃ lbl, (scopedDogBack.rels[4]?).map (·.label) = some lbl ∧ bodyIs scopedDogBack 2 lbl = true) ∧
    (∃ hole lbl, (scopedDogBack.rels[2]?).map (·.label) = some lbl ∧
      bodyIs scopedDogBack 0 hole = true ∧ (⟨hole, QEQ, lbl⟩ : HCons) ∈ scopedDogBack.hcons) := by
  refine ⟨by decide, by decide, by decide, by decide, by decide, ?_, ?_⟩
  · exact ⟨(scopedDogBack.rels[4]?).map (·.label) |>.getD default, by decide, by decide⟩
  · exact ⟨((scopedDogBack.rels[0]?).bind (fun e => dlookup BODY_ROLE e.args)).getD default,
      (scopedDogBack.rels[2]?).map (·.label) |>.getD default, by decide, by decide, by decide⟩

/-- "the dog barks" with two further members of the verb's scope that take each other as
arguments, and the quantifier's BODY resolved to the label of a scope `h20` whose two members
take each other: that scope has no representative (input class of finding F08). -/
def bodyIntoStarved : MRS :=
  { top := some ⟨"h", 0⟩, index := some ⟨"e", 2⟩,
    rels := [ { predicate := "_the_q", label := ⟨"h", 4⟩,
                args := [("ARG0", ⟨"x", 3⟩), ("RSTR", ⟨"h", 5⟩), ("BODY", ⟨"h", 20⟩)] },
              { predicate := "_dog_n_1", label := ⟨"h", 7⟩, args := [("ARG0", ⟨"x", 3⟩)] },
              { predicate := "_bark_v_1", label := ⟨"h", 1⟩,
                args := [("ARG0", ⟨"e", 2⟩), ("ARG1", ⟨"x", 3⟩), ("ARG2", ⟨"e", 8⟩)] },
              { predicate := "_big_a_1", label := ⟨"h", 20⟩,
                args := [("ARG0", ⟨"e", 8⟩), ("ARG1", ⟨"e", 9⟩)] },
              { predicate := "_big_a_1", label := ⟨"h", 20⟩,
                args := [("ARG0", ⟨"e", 9⟩), ("ARG1", ⟨"e", 8⟩)] } ],
    hcons := [⟨⟨"h", 0⟩, "qeq", ⟨"h", 1⟩⟩, ⟨⟨"h", 5⟩, "qeq", ⟨"h", 7⟩⟩] }

/-- **The representative is necessary.**  `bodyIntoStarved` is well-formed with distinct
identifiers, its BODY is directly a label, the conversion succeeds — and the DMRS has NO link
with the role BODY at all: the selected scope has no representative, so the hypothesis `hlook`
of `links_complete_scopal` / `roundtrip_resolved_body` cannot be dropped. -/
theorem resolved_body_needs_representative :
    bodyIntoStarved.isWellFormed = true ∧ BaseIdsDistinct bodyIntoStarved ∧
    (match bodyIntoStarved.representatives with
      | .ok reps => dlookup (⟨"h", 20⟩ : Var) reps == some []
      | _ => false) = true ∧
    (match fromMrs bodyIntoStarved with
      | .ok d => d.links.all (fun l => l.role != BODY_ROLE) && d.links.length == 5
      | _ => false) = true := by
  refine ⟨by decide, by decide, by decide, by decide⟩

end Verif.C04
