/-
C04 — discharging `RepsAgree`, part 4: scopal successors, the blocking test and the theorem.
-/
import Verif.C04.RepsAgree3

namespace Verif.C04
open Verif.Sem

/-! ### the scopal-successor relation between positions -/

theorem selects_iff (m : MRS) (e : EP) (lab : Var) :
    selects m e lab = true ↔ ∃ a ∈ e.outArgs none,
      a.2 = lab ∨ ∃ hc ∈ m.hcons, hc.hi = a.2 ∧ hc.lo = lab := by
  unfold selects
  simp only [List.any_eq_true, Bool.or_eq_true, beq_iff_eq, Bool.and_eq_true]

theorem mem_selEdges (m : MRS) (i k : Nat) :
    (i, k) ∈ selEdges m ↔ ∃ e ek, m.rels[i]? = some e ∧ m.rels[k]? = some ek ∧
      selects m e ek.label = true := by
  unfold selEdges
  simp only [List.mem_flatMap, List.mem_map, List.mem_filter, Prod.mk.injEq]
  constructor
  · rintro ⟨ei, hei, ek, ⟨hek, hsel⟩, rfl, rfl⟩
    exact ⟨ei.1, ek.1, List.mem_zipIdx_iff_getElem?.mp hei, List.mem_zipIdx_iff_getElem?.mp hek, hsel⟩
  · rintro ⟨e, ek, he, hek, hsel⟩
    exact ⟨(e, i), List.mem_zipIdx_iff_getElem?.mpr he, (ek, k),
      ⟨List.mem_zipIdx_iff_getElem?.mpr hek, hsel⟩, rfl, rfl⟩

/-- a target of `scope._descendants` (one step) is a scopal successor. -/
theorem tgt_sel (m : MRS) (hnd : m.ids.Nodup) (i' : Nat) (q r : Pred)
    (hq : m.preds[i']? = some q) (ht : Tgt m.scargs m.scopeMap q.1 r) :
    ∃ k, m.preds[k]? = some r ∧ (i', k) ∈ selEdges m := by
  obtain ⟨labels, hlk, l, hl, hr⟩ := ht
  have hkeys : (dkeys m.scargs).Nodup := by
    have : dkeys m.scargs = m.ids := by
      unfold MRS.scargs dkeys
      rw [List.map_map]
      exact preds_map_fst m
    rw [this]; exact hnd
  have hmem : (q.1, (m.scopalArgsOf (dkeys m.scopeMap) q.2).map (fun a => a.2.2)) ∈ m.scargs := by
    unfold MRS.scargs
    exact List.mem_map.mpr ⟨q, List.mem_of_getElem? hq, rfl⟩
  rw [dlookup_of_mem_nodup hkeys hmem] at hlk
  simp only [Option.some.injEq] at hlk
  subst hlk
  obtain ⟨t, htm, rfl⟩ := List.mem_map.mp hl
  unfold MRS.scopalArgsOf at htm
  rw [List.mem_filterMap] at htm
  obtain ⟨a, ha, hsome⟩ := htm
  -- `r` carries the selected label
  have hrl : r ∈ m.preds ∧ r.2.label = t.2.2 := by
    by_cases hk : t.2.2 ∈ dkeys m.scopeMap
    · rw [scopeMap_lookup m _ hk] at hr
      simp only [Option.getD_some, List.mem_filter, decide_eq_true_eq] at hr
      exact hr
    · rw [(dlookup_eq_none_iff _ _).mpr hk] at hr
      simp at hr
  obtain ⟨k, hk⟩ := List.mem_iff_getElem?.mp hrl.1
  refine ⟨k, hk, ?_⟩
  rw [mem_selEdges]
  refine ⟨q.2, r.2, RTCtx.preds_snd m i' q hq, RTCtx.preds_snd m k r hk, ?_⟩
  rw [selects_iff]
  refine ⟨a, ha, ?_⟩
  split at hsome
  · simp only [Option.some.injEq] at hsome
    left; rw [hrl.2, ← hsome]
  · cases hh : m.hcLast a.2 with
    | none => rw [hh] at hsome; cases hsome
    | some hc =>
      rw [hh] at hsome
      simp only [Option.some.injEq] at hsome
      obtain ⟨hc1, hc2⟩ := hcLast_some m a.2 hc hh
      right
      exact ⟨hc, hc1, hc2, by rw [hrl.2, ← hsome]⟩

/-- from descendants to reachability along scopal successors. -/
theorem dreach_pos (m : MRS) (hnd : m.ids.Nodup) :
    ∀ (id : Var) (r : Pred), DReach (fun p : Pred => p.1) m.scargs m.scopeMap id r →
      ∀ (i' : Nat) (q : Pred), m.preds[i']? = some q → q.1 = id →
      ∃ t k, (i', t) ∈ selEdges m ∧ Reach (adjOf (selEdges m)) t k ∧ m.preds[k]? = some r := by
  intro id r h
  induction h with
  | @base id p ht =>
    intro i' q hq hid
    subst hid
    obtain ⟨k, hk, he⟩ := tgt_sel m hnd i' q p hq ht
    exact ⟨k, k, he, Reach.refl _, hk⟩
  | @step id p r ht _ ih =>
    intro i' q hq hid
    subst hid
    obtain ⟨t, ht', he⟩ := tgt_sel m hnd i' q p hq ht
    obtain ⟨t2, k, he2, hr, hk⟩ := ih t p ht' rfl
    refine ⟨t, k, he, ?_, hk⟩
    refine Reach.head ?_ hr
    rw [mem_adjOf]; exact he2

theorem reach_mono {α : Type} [DecidableEq α] (E E' : List (α × α)) (h : ∀ e ∈ E, e ∈ E')
    {a b : α} (hr : Reach (adjOf E) a b) : Reach (adjOf E') a b := by
  induction hr with
  | refl => exact Reach.refl _
  | tail _ hc ih =>
    refine Reach.tail ih ?_
    rw [mem_adjOf] at hc ⊢
    exact h _ hc

theorem noDesc_use (m : MRS) (hD : NoDescArg m = true) (i i' t k : Nat) (e ei' ek : EP)
    (he : m.rels[i]? = some e) (hei' : m.rels[i']? = some ei') (hne : i ≠ i')
    (hl : e.label = ei'.label) (hsel : (i', t) ∈ selEdges m)
    (hr : Reach (adjOf (selEdges m)) t k) (hek : m.rels[k]? = some ek) : nsArgOf e ek = false := by
  unfold NoDescArg at hD
  rw [List.all_eq_true] at hD
  have h1 := hD (e, i) (List.mem_zipIdx_iff_getElem?.mpr he)
  rw [List.all_eq_true] at h1
  have h2 := h1 (ei', i') (List.mem_zipIdx_iff_getElem?.mpr hei')
  simp only [Bool.or_eq_true, beq_iff_eq, bne_iff_ne, ne_eq, List.all_eq_true] at h2
  rcases h2 with (h2 | h2) | h2
  · exact absurd h2 hne
  · exact absurd hl h2
  · have h3 := h2 (i', t) hsel
    simp only [not_true_eq_false, false_or] at h3
    have h4 := h3 k ((bfs_correct _ _ _).mpr hr)
    rw [hek] at h4
    simpa using h4

namespace RTCtx
variable {m : MRS} {d : DMRS} {m2 : MRS} {reps : Reps} {topLbl : Option Var}
  {sc : List (Var × List Node)} {lbl : Node → Var} {leqs : List (Var × Var)}
  {idToIv : List (Int × Var)} {ns : List (Int × Role × Int)}
  {scs : List (Int × Role × String × Var)} {lo hi : Nat}

theorem nsl_nsArgOf (C : RTCtx m d m2 reps topLbl sc lbl leqs idToIv ns scs lo hi)
    (hS : IVSorts m = true) (i k : Nat) (e ek : EP) (he : m.rels[i]? = some e)
    (hek : m.rels[k]? = some ek) (h : NSL d i k) : nsArgOf e ek = true := by
  obtain ⟨l, hl, hnsl, hs, ht⟩ := h
  obtain ⟨i0, j0, e', ej, v, a1, a2, a3, a4, a5, a6, a7⟩ := C.nsl_ends l hl hnsl
  have : i0 = i := nidAt_inj _ _ (by rw [← a1, hs])
  subst this
  have : j0 = k := nidAt_inj _ _ (by rw [← a2, ht])
  subst this
  rw [he] at a3; cases a3
  rw [hek] at a4; cases a4
  unfold nsArgOf
  rw [a6]
  simp only [Bool.not_false, Bool.true_and, List.any_eq_true, beq_iff_eq]
  refine ⟨(l.role, v), ?_, a7⟩
  rw [mem_outArgs_some]
  refine ⟨a5, ?_⟩
  unfold IVSorts at hS
  rw [List.all_eq_true] at hS
  have hs' := hS ek (List.mem_of_getElem? hek)
  rw [a6, a7] at hs'
  simpa [Var.sortIn] using hs'

/-- the handle constraints of `m2`: a constrained handle has sort `h` and is the top handle or a
hole (never a label, never an intrinsic variable). -/
theorem hcons_hi (C : RTCtx m d m2 reps topLbl sc lbl leqs idToIv ns scs lo hi) (hc : HCons)
    (hhc : hc ∈ m2.hcons) :
    hc.hi.sort = HANDLE ∧ (hc.hi.vid = 0 ∨ hc.hi.vid ∉ sc.map (fun s => s.1.vid)) := by
  obtain ⟨news, e1, h2, h3, _⟩ := C.hcons_his
  rw [e1] at hhc
  rcases List.mem_append.mp hhc with ht | hn
  · obtain ⟨e, _⟩ := h2 hc ht
    rw [e]; exact ⟨rfl, Or.inl rfl⟩
  · exact ⟨(h3 hc hn).1, Or.inr (h3 hc hn).2.2.2⟩

theorem hcons_unique_hole (C : RTCtx m d m2 reps topLbl sc lbl leqs idToIv ns scs lo hi)
    (hole lb : Var) (hnew : NewHole (sc.map (fun s => s.1.vid)) lo hi hole)
    (hmem : (⟨hole, QEQ, lb⟩ : HCons) ∈ m2.hcons) (hc : HCons) (hhc : hc ∈ m2.hcons)
    (hhi : hc.hi = hole) : hc.lo = lb := by
  have h1 := C.hcLast_hole hole lb hnew hmem
  obtain ⟨news, e1, h2, h3, h4⟩ := C.hcons_his
  have innews : ∀ c ∈ m2.hcons, c.hi = hole → c ∈ news := by
    intro c hc' hhi'
    rw [e1] at hc'
    rcases List.mem_append.mp hc' with ht | hn
    · obtain ⟨e, hpos⟩ := h2 c ht
      rw [hhi'] at e
      have := hnew.2.1
      rw [e] at this
      simp only at this
      omega
    · exact hn
  have := c07_inj_of_nodup_map (fun c : HCons => c.hi.vid) news h4 hc (innews hc hhc hhi) _
    (innews _ hmem rfl) (by simp [hhi])
  rw [this]

/-- a scopal successor in `m2` is one in `m`. -/
theorem sel2_sub (C : RTCtx m d m2 reps topLbl sc lbl leqs idToIv ns scs lo hi)
    (hH : ScopesHeld m d = true) (hS : IVSorts m = true) (i k : Nat)
    (h : (i, k) ∈ selEdges m2) : (i, k) ∈ selEdges m := by
  rw [mem_selEdges] at h ⊢
  obtain ⟨e2, ek2, he2, hek2, hsel⟩ := h
  have hilt := C.pos_lt i e2 he2
  have hklt := C.pos_lt k ek2 hek2
  obtain ⟨n, e2', iv, hn, hid, he2', ps, _⟩ :=
    C.at_pos i m.rels[i] (List.getElem?_eq_getElem hilt)
  rw [he2] at he2'; cases he2'
  obtain ⟨nk, ek2', ivk, hnk, hidk, hek2', psk, _⟩ :=
    C.at_pos k m.rels[k] (List.getElem?_eq_getElem hklt)
  rw [hek2] at hek2'; cases hek2'
  refine ⟨m.rels[i], m.rels[k], List.getElem?_eq_getElem hilt, List.getElem?_eq_getElem hklt, ?_⟩
  rw [selects_iff] at hsel ⊢
  obtain ⟨a, ha, hcase⟩ := hsel
  obtain ⟨ham, hne0, _⟩ := mem_outArgs e2 a ha
  obtain ⟨kl1, kl2, kl3⟩ := C.label_props (List.mem_of_getElem? hnk) psk
  -- the target position `p` of a scopal link, and what `m` says about it
  have scopal : ∀ l ∈ d.links, l.start = n.id → (l.post = H_POST ∨ l.post = HEQ_POST) →
      ∀ (lb : Var), lblOfNode sc l.stop = some lb → ek2.label = lb →
      ∃ a' ∈ m.rels[i].outArgs none, a'.2 = m.rels[k].label ∨
        ∃ hc ∈ m.hcons, hc.hi = a'.2 ∧ hc.lo = m.rels[k].label := by
    intro l hl hs hpost lb hlb hlab
    have hne : H_POST ≠ HEQ_POST := by decide
    have key : ∀ (src tgt : Pred) (v : Var), predAt m l.start = some src →
        predAt m l.stop = some tgt → (l.role, v) ∈ src.2.outArgs none →
        (tgt.2.label = v ∨ ∃ hc ∈ m.hcons, hc.hi = v ∧ tgt.2.label = hc.lo) →
        ∃ a' ∈ m.rels[i].outArgs none, a'.2 = m.rels[k].label ∨
          ∃ hc ∈ m.hcons, hc.hi = a'.2 ∧ hc.lo = m.rels[k].label := by
      intro src tgt v hs' ht harg hsel'
      obtain ⟨i0, q1, q2, _⟩ := predAt_some m _ _ hs'
      obtain ⟨p, r1, r2, hplt⟩ := predAt_some m _ _ ht
      have : i0 = i := nidAt_inj _ _ (by rw [← q1, hs, hid])
      subst this
      have hsrc := preds_snd m i0 src q2
      rw [List.getElem?_eq_getElem hilt] at hsrc
      simp only [Option.some.injEq] at hsrc
      have htgt := preds_snd m p tgt r2
      -- the predication of `m2` at `p` carries `lb`
      obtain ⟨np, ep2, ivp, hnp, hidp, hep2, psp, _⟩ := C.at_pos p tgt.2 htgt
      have hlbp : lb = ep2.label := by
        have := psp.labelOk
        rw [hidp, ← r1, hlb] at this
        simpa using this
      have hmlab : m.rels[k].label = tgt.2.label :=
        (C.labels_iff hH k p m.rels[k] tgt.2 ek2 ep2 (List.getElem?_eq_getElem hklt) htgt hek2
          hep2).mpr (by rw [hlab, hlbp])
      refine ⟨(l.role, v), by rw [hsrc]; exact harg, ?_⟩
      rcases hsel' with h1 | ⟨hc, hc1, hc2, hc3⟩
      · left; rw [hmlab, h1]
      · right; exact ⟨hc, hc1, hc2, by rw [hmlab, hc3]⟩
    cases C.links_just l hl with
    | nonscopal src tgt w hs' ht harg htq hiv hp =>
      exfalso
      split at hp
      · rcases hpost with h | h <;> rw [h] at hp <;> revert hp <;> decide
      · rcases hpost with h | h <;> rw [h] at hp <;> revert hp <;> decide
    | mod src tgt lb' rest hs' ht hrep hsrc hrole hp =>
      exfalso
      rcases hpost with h | h <;> rw [h] at hp <;> revert hp <;> decide
    | qeq src tgt v' hc rest hs' ht harg hniv hhc hhi hrep hp =>
      have hlab' := (rep_lookup_member m reps C.hreps _ _ hrep tgt List.mem_cons_self).2
      exact key src tgt v' hs' ht harg (Or.inr ⟨hc, hhc, hhi, hlab'⟩)
    | lheq src tgt v' rest hs' ht harg hniv hnohc hrep hp =>
      have hlab' := (rep_lookup_member m reps C.hreps _ _ hrep tgt List.mem_cons_self).2
      exact key src tgt v' hs' ht harg (Or.inl hlab')
  cases ps.origin a ham with
  | arg0 h => rw [h] at hne0; exact absurd rfl hne0
  | ns x hx hidx hr hv =>
    exfalso
    obtain ⟨l, hl, rfl, hnsl⟩ := C.spec.nsMem x hx
    obtain ⟨i0, j0, e, ej, v, a1, a2, a3, a4, a5, a6, a7⟩ := C.nsl_ends l hl hnsl
    obtain ⟨ej2, iv2, b1, b2, b3, _, b5⟩ := C.iv2_facts j0 ej a4 a6 v a7
    have hiveq : a.2 = iv2 := by
      simp only at hv
      rw [a2, b5] at hv
      simpa using hv.symm
    have hsort := (C.iv_sort hS j0 ej2 b1 b3 iv2 b2).1
    rcases hcase with h1 | ⟨hc, hc1, hc2, _⟩
    · rw [← hiveq, h1] at hsort; exact hsort kl2
    · have := (C.hcons_hi hc hc1).1
      rw [hc2, hiveq] at this
      exact hsort this
  | lheq x hx hidx hr hrel hv =>
    obtain ⟨l, hl, a1, a2, a3, a4⟩ := C.spec.scMem x hx
    have hpost := scRel_lheq l _ a3 hrel
    rcases hcase with h1 | ⟨hc, hc1, hc2, _⟩
    · exact scopal l hl (by rw [← a1, hidx]) (Or.inr hpost) x.2.2.2 a4 (by rw [← h1, hv])
    · exfalso
      -- a label is never constrained
      obtain ⟨_, j0, _, _, b2, _, hj0, _⟩ := justified_ends m reps l (C.links_just l hl)
      obtain ⟨nj, ej2, ivj, hnj, hidj, _, psj, _⟩ :=
        C.at_pos j0 m.rels[j0] (List.getElem?_eq_getElem hj0)
      have hlab : a.2 = ej2.label := by
        have := psj.labelOk
        rw [hidj, ← b2, a4] at this
        rw [hv]; simpa using this
      obtain ⟨p1, _, p3⟩ := C.label_props (List.mem_of_getElem? hnj) psj
      rcases (C.hcons_hi hc hc1).2 with h0 | hnot
      · rw [hc2, hlab] at h0; omega
      · rw [hc2, hlab] at hnot; exact hnot p1
  | qeq x hx hidx hr hrel hnew hhc =>
    obtain ⟨l, hl, a1, a2, a3, a4⟩ := C.spec.scMem x hx
    have hpost := scRel_qeq l _ a3 hrel
    rcases hcase with h1 | ⟨hc, hc1, hc2, hc3⟩
    · exfalso
      rw [h1] at hnew
      exact hnew.2.2.2 kl1
    · have := C.hcons_unique_hole a.2 x.2.2.2 hnew hhc hc hc1 hc2
      exact scopal l hl (by rw [← a1, hidx]) (Or.inl hpost) x.2.2.2 a4 (by rw [← hc3, this])
  | body hr hq hnew hfree =>
    exfalso
    rcases hcase with h1 | ⟨hc, hc1, hc2, _⟩
    · rw [h1] at hnew
      exact hnew.2.2.2 kl1
    · exact hfree hc hc1 hc2

end RTCtx

end Verif.C04
