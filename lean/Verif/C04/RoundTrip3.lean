/-
C04 — round trip, part 3: the DMRS `d = fromMrs m` as input of `fromDmrs`, and the
preservation of top and index by MRS → DMRS → MRS.
-/
import Verif.C04.RoundTrip2

namespace Verif.C04
open Verif.Sem

/-! ### facts about `d = fromMrs m` -/

theorem nodeById_of_getElem (d : DMRS) (hnd : d.ids.Nodup) (i : Nat) (n : Node)
    (hn : d.nodes[i]? = some n) : nodeById d n.id = some n := by
  unfold nodeById
  have hmem : n ∈ d.nodes := List.mem_of_getElem? hn
  cases hf : d.nodes.reverse.find? (fun n' => n'.id = n.id) with
  | none =>
    rw [List.find?_eq_none] at hf
    exact absurd (by simp) (hf n (List.mem_reverse.mpr hmem))
  | some n' =>
    have hm' : n' ∈ d.nodes := List.mem_reverse.mp (List.mem_of_find?_eq_some hf)
    have hid : n'.id = n.id := by simpa using List.find?_some hf
    rw [c07_inj_of_nodup_map (fun n : Node => n.id) d.nodes hnd n' hm' n hmem hid]

/-- the RSTR links of `fromMrs m` start at quantifiers. -/
theorem rstr_link_quantifier (m : MRS) (reps : Reps) (l : Link) (hj : Justified m reps l)
    (hr : l.role = RESTRICTION_ROLE) (i : Nat) (e : EP) (hs : l.start = nidAt i)
    (he : m.rels[i]? = some e) : e.isQuantifier = true := by
  obtain ⟨i', j, e', h1, _, h3, _, h5⟩ := justified_ends m reps l hj
  have : i' = i := nidAt_inj _ _ (by rw [← h1, hs])
  subst this
  rw [he] at h3
  cases h3
  rcases h5 with hmod | ⟨v, hv⟩
  · rw [hr] at hmod; exact absurd hmod (by decide)
  · rw [hr] at hv
    exact isQuantifier_of_rstr e v (mem_outArgs e _ hv).1

theorem not_quantStart_of_nonquant (m : MRS) (hN : BaseIdsDistinct m) (reps : Reps) (d : DMRS)
    (hreps : m.representatives = .ok reps) (h : fromMrs m = .ok d) (i : Nat) (e : EP)
    (he : m.rels[i]? = some e) (hq : e.isQuantifier = false) : nidAt i ∉ quantStarts d := by
  intro hin
  unfold quantStarts at hin
  obtain ⟨l, hl, hs⟩ := List.mem_map.mp hin
  rw [List.mem_filter] at hl
  have hj := links_justified m hN reps d hreps h l hl.1
  have := rstr_link_quantifier m reps l hj (by simpa using hl.2) i e hs he
  rw [hq] at this
  cases this

/-- under `IVSorts`, an argument link whose post is neither `H` nor `HEQ` is read back by
`d.arguments(types='xeipu')`. -/
theorem nsLink_of_post (m : MRS) (hN : BaseIdsDistinct m) (hS : IVSorts m = true) (reps : Reps)
    (d : DMRS) (hreps : m.representatives = .ok reps) (h : fromMrs m = .ok d) (l : Link)
    (hl : l ∈ d.links) (hmod : l.role ≠ BARE_EQ_ROLE) (h1 : l.post ≠ H_POST)
    (h2 : l.post ≠ HEQ_POST) : nsLink d l := by
  have hj := links_justified m hN reps d hreps h l hl
  cases hj with
  | nonscopal src tgt v hs ht harg htq hiv hpost =>
    obtain ⟨j, hj1, hj2, hj3⟩ := predAt_some m _ _ ht
    have hrel : m.rels[j]? = some tgt.2 := by
      unfold MRS.preds at hj2
      exact (List.getElem?_zip_eq_some.mp hj2).2
    obtain ⟨_, hsh⟩ := nodes_shape m hN d h
    obtain ⟨n, hn, hid, _, _, _, _, _, _, hty, _⟩ := hsh j tgt.2 hrel
    obtain ⟨hty', _⟩ := hty htq v hiv
    have hnd := fromMrs_ids_nodup m hN d h
    refine ⟨hmod, h1, h2, n, v.sort, ?_, hty', ?_⟩
    · have := nodeById_of_getElem d hnd j n hn
      rw [hid, ← hj1] at this
      exact this
    · unfold IVSorts at hS
      rw [List.all_eq_true] at hS
      have := hS tgt.2 (List.mem_of_getElem? hrel)
      rw [htq, hiv] at this
      simpa using this
  | qeq src tgt v hc rest hs ht harg hniv hhc hhi hrep hpost => exact absurd hpost h1
  | lheq src tgt v rest hs ht harg hniv hnohc hrep hpost => exact absurd hpost h2
  | mod src tgt lbl rest hs ht hrep hsrc hrole hpost => exact absurd hrole hmod

/-- the links leaving a node of `fromMrs m` are functional in the role (`RolesOk`). -/
theorem rolesFun_fromMrs (m : MRS) (hR : RolesOk m = true) (reps : Reps) (d : DMRS)
    (hreps : m.representatives = .ok reps) (h : fromMrs m = .ok d)
    (sc : List (Var × List Node)) (ns : List (Int × Role × Int))
    (scs : List (Int × Role × String × Var))
    (nsMem : ∀ x ∈ ns, ∃ l ∈ d.links, x = (l.start, l.role, l.stop) ∧ nsLink d l)
    (scMem : ∀ x ∈ scs, ∃ l ∈ d.links, x.1 = l.start ∧ x.2.1 = l.role ∧
      scRel l = some x.2.2.1 ∧ lblOfNode sc l.stop = some x.2.2.2) (nid : Int) :
    RolesFun ns scs nid := by
  have scNotMod : ∀ l ∈ d.links, ∀ r, scRel l = some r → l.role ≠ BARE_EQ_ROLE := by
    intro l hl r hr hmod
    have hp := (fromMrs_link_role m hR reps d hreps h l hl).2 hmod
    unfold scRel at hr
    rw [hp] at hr
    simp [EQ_POST, HEQ_POST, H_POST] at hr
  refine { nsFun := ?_, scFun := ?_, disj := ?_, nsNo0 := ?_, scNo0 := ?_ }
  · intro x hx y hy hxi hyi hr
    obtain ⟨l, hl, rfl, hn, _⟩ := nsMem x hx
    obtain ⟨l', hl', rfl, _⟩ := nsMem y hy
    simp only at hxi hyi hr
    have := fromMrs_links_fun m hR reps d hreps h l l' hl hl' (by rw [hxi, hyi]) hr hn
    rw [this]
  · intro x hx y hy hxi hyi hr
    obtain ⟨l, hl, a1, a2, a3, a4⟩ := scMem x hx
    obtain ⟨l', hl', b1, b2, b3, b4⟩ := scMem y hy
    have hll : l = l' := fromMrs_links_fun m hR reps d hreps h l l' hl hl'
      (by rw [← a1, ← b1, hxi, hyi]) (by rw [← a2, ← b2, hr]) (scNotMod l hl _ a3)
    subst hll
    rw [a3] at b3
    rw [a4] at b4
    simp only [Option.some.injEq] at b3 b4
    obtain ⟨x1, x2, x3, x4⟩ := x
    obtain ⟨y1, y2, y3, y4⟩ := y
    simp only at a1 a2 b1 b2 b3 b4
    rw [a1, a2, b1, b2, b3, b4]
  · intro x hx y hy hxi hyi hr
    obtain ⟨l, hl, rfl, hn, c1, c2, _⟩ := nsMem x hx
    obtain ⟨l', hl', b1, b2, b3, _⟩ := scMem y hy
    simp only at hxi hr
    have hll : l = l' := fromMrs_links_fun m hR reps d hreps h l l' hl hl'
      (by rw [← b1, hxi, hyi]) (by rw [← b2, hr]) hn
    subst hll
    unfold scRel at b3
    rw [if_neg c2, if_neg c1] at b3
    cases b3
  · intro x hx _
    obtain ⟨l, hl, rfl, _⟩ := nsMem x hx
    exact (fromMrs_link_role m hR reps d hreps h l hl).1
  · intro y hy _
    obtain ⟨l, hl, _, b2, _⟩ := scMem y hy
    rw [b2]
    exact (fromMrs_link_role m hR reps d hreps h l hl).1

/-! ### the round trip, position by position -/

/-- the facts shared by the round-trip theorems. -/
structure RTCtx (m : MRS) (d : DMRS) (m2 : MRS) (reps : Reps) (topLbl : Option Var)
    (sc : List (Var × List Node)) (lbl : Node → Var) (leqs : List (Var × Var))
    (idToIv : List (Int × Var)) (ns : List (Int × Role × Int))
    (scs : List (Int × Role × String × Var)) (lo hi : Nat) : Prop where
  hN : BaseIdsDistinct m
  hreps : m.representatives = .ok reps
  hd : fromMrs m = .ok d
  hnd : d.ids.Nodup
  spec : RTSpec d m2 topLbl sc lbl leqs idToIv ns scs lo hi
  rf : ∀ nid, RolesFun ns scs nid

theorem rtctx (m : MRS) (hN : BaseIdsDistinct m) (hR : RolesOk m = true) (chosen : List Var)
    (d : DMRS) (m2 : MRS) (h1 : fromMrs m = .ok d) (h2 : fromDmrs chosen d = .ok m2) :
    ∃ reps topLbl sc lbl leqs idToIv ns scs lo hi,
      RTCtx m d m2 reps topLbl sc lbl leqs idToIv ns scs lo hi := by
  obtain ⟨reps, hreps⟩ := MRS.representatives_total m
  have hnd := fromMrs_ids_nodup m hN d h1
  obtain ⟨topLbl, sc, lbl, leqs, idToIv, ns, scs, lo, hi, sp⟩ := fromDmrs_spec chosen d hnd m2 h2
  exact ⟨reps, topLbl, sc, lbl, leqs, idToIv, ns, scs, lo, hi,
    { hN := hN, hreps := hreps, hd := h1, hnd := hnd, spec := sp,
      rf := rolesFun_fromMrs m hR reps d hreps h1 sc ns scs sp.nsMem sp.scMem }⟩

namespace RTCtx
variable {m : MRS} {d : DMRS} {m2 : MRS} {reps : Reps} {topLbl : Option Var}
  {sc : List (Var × List Node)} {lbl : Node → Var} {leqs : List (Var × Var)}
  {idToIv : List (Int × Var)} {ns : List (Int × Role × Int)}
  {scs : List (Int × Role × String × Var)} {lo hi : Nat}

/-- the node and the rebuilt predication at a position. -/
theorem at_pos (C : RTCtx m d m2 reps topLbl sc lbl leqs idToIv ns scs lo hi) (i : Nat) (e : EP)
    (he : m.rels[i]? = some e) :
    ∃ n e2 iv, d.nodes[i]? = some n ∧ n.id = nidAt i ∧ m2.rels[i]? = some e2 ∧
      PosSpec (sc.map (fun s => s.1.vid)) d sc idToIv ns scs lo hi m2.hcons n e2 iv ∧
      e2.iv = some iv := by
  obtain ⟨_, hsh⟩ := nodes_shape m C.hN d C.hd
  obtain ⟨n, hn, hid, _⟩ := hsh i e he
  obtain ⟨e2, iv, he2, ps⟩ := C.spec.pos i n hn
  refine ⟨n, e2, iv, hn, hid, he2, ps, ?_⟩
  obtain ⟨c1, _, _⟩ := ps.complete (C.rf n.id)
  unfold EP.iv
  exact dlookup_of_mem_nodup ps.keys c1

end RTCtx

end Verif.C04
