/-
C04 — the round trip as ONE variable map, part 1: the correspondence table and its classes
(top handle, intrinsic variables, labels), for MRSs without constrained arguments and without
quantifiers.
-/
import Verif.C04.RepsAgree5

namespace Verif.C04
open Verif.Sem

/-! ### the correspondence table -/

/-- pairs (variable of `a`, variable of `b`) at corresponding places: the tops, the intrinsic
variables and the labels of the predications at the same position. -/
def corrTable (a b : MRS) : List (Var × Var) :=
  (match a.top, b.top with
    | some t, some t2 => [(t, t2)]
    | _, _ => []) ++
  (List.zip a.rels b.rels).filterMap (fun p =>
    match p.1.iv, p.2.iv with
    | some v, some w => some (v, w)
    | _, _ => none) ++
  (List.zip a.rels b.rels).map (fun p => (p.1.label, p.2.label))

/-- the variable map read off the table (identity outside it). -/
def corrMap (a b : MRS) (v : Var) : Var := (dlookup v (corrTable a b)).getD v

def IsTopPair (a b : MRS) (v w : Var) : Prop := a.top = some v ∧ b.top = some w
def IsIvPair (a b : MRS) (v w : Var) : Prop :=
  ∃ (j : Nat) (e e2 : EP), a.rels[j]? = some e ∧ b.rels[j]? = some e2 ∧ e.iv = some v ∧ e2.iv = some w
def IsLbPair (a b : MRS) (v w : Var) : Prop :=
  ∃ (j : Nat) (e e2 : EP), a.rels[j]? = some e ∧ b.rels[j]? = some e2 ∧ e.label = v ∧ e2.label = w

theorem mem_zip_iff_getElem {α β : Type} (l : List α) (l' : List β) (x : α × β) :
    x ∈ List.zip l l' ↔ ∃ k : Nat, l[k]? = some x.1 ∧ l'[k]? = some x.2 := by
  rw [List.mem_iff_getElem?]
  constructor
  · rintro ⟨k, hk⟩
    exact ⟨k, List.getElem?_zip_eq_some.mp hk⟩
  · rintro ⟨k, hk⟩
    exact ⟨k, List.getElem?_zip_eq_some.mpr hk⟩

theorem mem_corrTable (a b : MRS) (v w : Var) :
    (v, w) ∈ corrTable a b ↔ IsTopPair a b v w ∨ IsIvPair a b v w ∨ IsLbPair a b v w := by
  unfold corrTable IsTopPair IsIvPair IsLbPair
  simp only [List.mem_append, List.mem_filterMap, List.mem_map, or_assoc]
  constructor
  · rintro (h | ⟨p, hp, hm⟩ | ⟨p, hp, hm⟩)
    · left
      cases ha : a.top with
      | none => rw [ha] at h; simp at h
      | some t =>
        cases hb : b.top with
        | none => rw [ha, hb] at h; simp at h
        | some t2 =>
          rw [ha, hb] at h
          simp only [List.mem_singleton, Prod.mk.injEq] at h
          rw [h.1, h.2]; exact ⟨rfl, rfl⟩
    · right; left
      obtain ⟨k, h1, h2⟩ := (mem_zip_iff_getElem _ _ p).mp hp
      cases h3 : p.1.iv with
      | none => rw [h3] at hm; cases hm
      | some v' =>
        cases h4 : p.2.iv with
        | none => rw [h3, h4] at hm; cases hm
        | some w' =>
          rw [h3, h4] at hm
          simp only [Option.some.injEq, Prod.mk.injEq] at hm
          exact ⟨k, p.1, p.2, h1, h2, by rw [h3, hm.1], by rw [h4, hm.2]⟩
    · right; right
      obtain ⟨k, h1, h2⟩ := (mem_zip_iff_getElem _ _ p).mp hp
      simp only [Prod.mk.injEq] at hm
      exact ⟨k, p.1, p.2, h1, h2, hm.1, hm.2⟩
  · rintro (⟨h1, h2⟩ | ⟨k, e, e2, h1, h2, h3, h4⟩ | ⟨k, e, e2, h1, h2, h3, h4⟩)
    · left; rw [h1, h2]; simp
    · right; left
      exact ⟨(e, e2), (mem_zip_iff_getElem _ _ _).mpr ⟨k, h1, h2⟩, by simp [h3, h4]⟩
    · right; right
      exact ⟨(e, e2), (mem_zip_iff_getElem _ _ _).mpr ⟨k, h1, h2⟩, by simp [h3, h4]⟩

theorem dlookup_of_functional {κ ν : Type} [DecidableEq κ] (l : List (κ × ν))
    (hfun : ∀ k v v', (k, v) ∈ l → (k, v') ∈ l → v = v') (k : κ) (v : ν) (h : (k, v) ∈ l) :
    dlookup k l = some v := by
  cases hl : dlookup k l with
  | none =>
    rw [dlookup_eq_none_iff] at hl
    exact absurd (List.mem_map.mpr ⟨(k, v), h, rfl⟩) hl
  | some v' => rw [hfun k v v' h (dlookup_mem hl)]

theorem corrMap_of_mem (a b : MRS)
    (hfun : ∀ v w w', (v, w) ∈ corrTable a b → (v, w') ∈ corrTable a b → w = w')
    (v w : Var) (h : (v, w) ∈ corrTable a b) : corrMap a b v = w := by
  unfold corrMap
  rw [dlookup_of_functional _ hfun v w h]; rfl

end Verif.C04
