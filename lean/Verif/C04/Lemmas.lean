/-
C04 — helper lemmas (core Lean only): `mapE`, dictionaries with distinct keys,
EP ids under `Nodup` base ids, the lookup tables of `dmrs.from_mrs`.
-/
import Verif.C04.Model
import Verif.Common.SemLemmas
import Verif.C07.Props

namespace Verif.C04
open Verif.Sem

/-! ### `mapE` -/

theorem mapE_ok_mem {α β ε : Type} (f : α → Except ε β) :
    ∀ (xs : List α) (ys : List β), mapE f xs = .ok ys →
      ∀ y ∈ ys, ∃ x ∈ xs, f x = .ok y := by
  intro xs
  induction xs with
  | nil =>
    intro ys h y hy
    simp only [mapE, Except.ok.injEq] at h
    subst h
    simp at hy
  | cons x xs ih =>
    intro ys h y hy
    unfold mapE at h
    cases hfx : f x with
    | error e => rw [hfx] at h; simp at h
    | ok y0 =>
      rw [hfx] at h
      cases hrest : mapE f xs with
      | error e => rw [hrest] at h; simp at h
      | ok ys0 =>
        rw [hrest] at h
        simp only [Except.ok.injEq] at h
        subst h
        rcases List.mem_cons.mp hy with rfl | hy'
        · exact ⟨x, List.mem_cons_self, hfx⟩
        · obtain ⟨x', hx', hf'⟩ := ih ys0 hrest y hy'
          exact ⟨x', List.mem_cons_of_mem _ hx', hf'⟩

theorem mapE_ok_length {α β ε : Type} (f : α → Except ε β) :
    ∀ (xs : List α) (ys : List β), mapE f xs = .ok ys → ys.length = xs.length := by
  intro xs
  induction xs with
  | nil => intro ys h; simp only [mapE, Except.ok.injEq] at h; subst h; rfl
  | cons x xs ih =>
    intro ys h
    unfold mapE at h
    cases hfx : f x with
    | error e => rw [hfx] at h; simp at h
    | ok y0 =>
      rw [hfx] at h
      cases hrest : mapE f xs with
      | error e => rw [hrest] at h; simp at h
      | ok ys0 =>
        rw [hrest] at h
        simp only [Except.ok.injEq] at h
        subst h
        simp [ih ys0 hrest]

theorem mapE_ok_getElem? {α β ε : Type} (f : α → Except ε β) :
    ∀ (xs : List α) (ys : List β), mapE f xs = .ok ys →
      ∀ (i : Nat) (x : α), xs[i]? = some x → ∃ y, ys[i]? = some y ∧ f x = .ok y := by
  intro xs
  induction xs with
  | nil => intro ys _ i x hx; simp at hx
  | cons x0 xs ih =>
    intro ys h i x hx
    unfold mapE at h
    cases hfx : f x0 with
    | error e => rw [hfx] at h; simp at h
    | ok y0 =>
      rw [hfx] at h
      cases hrest : mapE f xs with
      | error e => rw [hrest] at h; simp at h
      | ok ys0 =>
        rw [hrest] at h
        simp only [Except.ok.injEq] at h
        subst h
        cases i with
        | zero =>
          simp only [List.getElem?_cons_zero, Option.some.injEq] at hx
          subst hx
          exact ⟨y0, by simp, hfx⟩
        | succ k =>
          simp only [List.getElem?_cons_succ] at hx
          obtain ⟨y, hy, hf⟩ := ih ys0 hrest k x hx
          exact ⟨y, by simpa using hy, hf⟩

/-- `mapE` succeeds when every element does. -/
theorem mapE_total {α β ε : Type} (f : α → Except ε β) :
    ∀ (xs : List α), (∀ x ∈ xs, ∃ y, f x = .ok y) → ∃ ys, mapE f xs = .ok ys := by
  intro xs
  induction xs with
  | nil => intro _; exact ⟨[], rfl⟩
  | cons x xs ih =>
    intro h
    obtain ⟨y, hy⟩ := h x List.mem_cons_self
    obtain ⟨ys, hys⟩ := ih (fun x' hx' => h x' (List.mem_cons_of_mem _ hx'))
    exact ⟨y :: ys, by unfold mapE; rw [hy, hys]⟩

/-! ### association lists with distinct keys -/

theorem key_unique {κ ν : Type} {l : List (κ × ν)} (hnd : (l.map (·.1)).Nodup)
    {a b : κ × ν} (ha : a ∈ l) (hb : b ∈ l) (hk : a.1 = b.1) : a = b := by
  induction l with
  | nil => simp at ha
  | cons x xs ih =>
    simp only [List.map_cons, List.nodup_cons] at hnd
    rcases List.mem_cons.mp ha with rfl | ha'
    · rcases List.mem_cons.mp hb with rfl | hb'
      · rfl
      · exact absurd (hk ▸ List.mem_map_of_mem (f := (·.1)) hb') hnd.1
    · rcases List.mem_cons.mp hb with rfl | hb'
      · exact absurd (hk ▸ List.mem_map_of_mem (f := (·.1)) ha') hnd.1
      · exact ih hnd.2 ha' hb'

/-- the dictionary built by a comprehension (`last wins`) finds the unique entry. -/
theorem findLast_of_nodup {κ ν : Type} [DecidableEq κ] {l : List (κ × ν)}
    (hnd : (l.map (·.1)).Nodup) {a : κ × ν} (ha : a ∈ l) :
    l.reverse.find? (fun p => p.1 = a.1) = some a := by
  cases h : l.reverse.find? (fun p => p.1 = a.1) with
  | none =>
    rw [List.find?_eq_none] at h
    exact absurd (by simp) (h a (List.mem_reverse.mpr ha))
  | some b =>
    have hb : b ∈ l := List.mem_reverse.mp (List.mem_of_find?_eq_some h)
    have hk : b.1 = a.1 := by simpa using List.find?_some h
    rw [key_unique hnd hb ha hk]

/-! ### EP ids -/

theorem uniquify_of_nodup (n : Nat) :
    ∀ (l seen : List Var), l.Nodup → (∀ x ∈ l, x ∉ seen) → uniquify n seen l = l := by
  intro l
  induction l with
  | nil => intro _ _ _; rfl
  | cons x xs ih =>
    intro seen hnd hdis
    have hx : x ∉ seen := hdis x List.mem_cons_self
    rw [List.nodup_cons] at hnd
    unfold uniquify
    rw [if_neg hx]
    congr 1
    apply ih _ hnd.2
    intro y hy hmem
    rcases List.mem_cons.mp hmem with rfl | hm
    · exact hnd.1 hy
    · exact hdis y (List.mem_cons_of_mem _ hy) hm

/-- "the identifiers `EP.__init__` gives are pairwise distinct": then `_uniquify_ids`
changes nothing. -/
def BaseIdsDistinct (m : MRS) : Prop := (m.rels.map EP.baseId).Nodup

instance (m : MRS) : Decidable (BaseIdsDistinct m) := by unfold BaseIdsDistinct; infer_instance

theorem ids_eq_baseIds (m : MRS) (h : BaseIdsDistinct m) : m.ids = m.rels.map EP.baseId := by
  unfold MRS.ids
  exact uniquify_of_nodup _ _ _ h (by simp)

theorem ids_nodup (m : MRS) (h : BaseIdsDistinct m) : m.ids.Nodup := by
  rw [ids_eq_baseIds m h]; exact h

theorem preds_keys_nodup (m : MRS) (h : BaseIdsDistinct m) : (m.preds.map (·.1)).Nodup := by
  rw [preds_map_fst]; exact ids_nodup m h

theorem preds_getElem? (m : MRS) (i : Nat) (e : EP) (he : m.rels[i]? = some e) :
    ∃ id, m.ids[i]? = some id ∧ m.preds[i]? = some (id, e) := by
  have hlen : i < m.rels.length := by
    rcases List.getElem?_eq_some_iff.mp he with ⟨h, _⟩; exact h
  have hlen' : i < m.ids.length := by rw [ids_length]; exact hlen
  refine ⟨m.ids[i], List.getElem?_eq_getElem hlen', ?_⟩
  unfold MRS.preds
  rw [List.getElem?_zip_eq_some]
  exact ⟨List.getElem?_eq_getElem hlen', he⟩

theorem preds_getElem?_base (m : MRS) (h : BaseIdsDistinct m) (i : Nat) (e : EP)
    (he : m.rels[i]? = some e) : m.preds[i]? = some (e.baseId, e) := by
  obtain ⟨id, hid, hp⟩ := preds_getElem? m i e he
  rw [ids_eq_baseIds m h, List.getElem?_map, he] at hid
  simp only [Option.map_some, Option.some.injEq] at hid
  rw [hp, hid]

theorem pred_id_eq_baseId (m : MRS) (h : BaseIdsDistinct m) (p : Pred) (hp : p ∈ m.preds) :
    p.1 = p.2.baseId := by
  obtain ⟨i, hi⟩ := List.mem_iff_getElem?.mp hp
  have := List.getElem?_zip_eq_some.mp (by unfold MRS.preds at hi; exact hi)
  have h2 := preds_getElem?_base m h i p.2 this.2
  rw [hi] at h2
  simp only [Option.some.injEq] at h2
  exact congrArg Prod.fst h2

/-- `m[id]` finds the predication with that id. -/
theorem epById_of_mem (m : MRS) (h : BaseIdsDistinct m) (p : Pred) (hp : p ∈ m.preds) :
    epById m p.1 = some p.2 := by
  unfold epById
  rw [findLast_of_nodup (preds_keys_nodup m h) hp]
  rfl

theorem baseId_of_iv (e : EP) (v : Var) (hq : e.isQuantifier = false) (hiv : e.iv = some v) :
    e.baseId = v := by
  unfold EP.baseId
  simp [hq, hiv]

theorem epById_iv (m : MRS) (h : BaseIdsDistinct m) (i : Nat) (e : EP) (v : Var)
    (he : m.rels[i]? = some e) (hq : e.isQuantifier = false) (hiv : e.iv = some v) :
    epById m v = some e := by
  have hp := preds_getElem?_base m h i e he
  have hmem : (e.baseId, e) ∈ m.preds := List.mem_iff_getElem?.mpr ⟨i, hp⟩
  have := epById_of_mem m h _ hmem
  rwa [baseId_of_iv e v hq hiv] at this

/-! ### node ids -/

/-- the predication a node id stands for. -/
def predAt (m : MRS) (n : Int) : Option Pred :=
  if FIRST_NODE_ID ≤ n then m.preds[(n - FIRST_NODE_ID).toNat]? else none

theorem predAt_nidAt (m : MRS) (i : Nat) : predAt m (nidAt i) = m.preds[i]? := by
  unfold predAt nidAt
  have h1 : FIRST_NODE_ID ≤ FIRST_NODE_ID + (i : Int) := by omega
  rw [if_pos h1]
  congr 1
  omega

theorem idToNid_spec (m : MRS) (h : BaseIdsDistinct m) (p : Pred) (hp : p ∈ m.preds) :
    ∃ n, idToNid m p.1 = some n ∧ predAt m n = some p := by
  obtain ⟨i, hi⟩ := List.mem_iff_getElem?.mp hp
  have hz := List.getElem?_zip_eq_some.mp (by unfold MRS.preds at hi; exact hi)
  have hlt : i < m.ids.length := (List.getElem?_eq_some_iff.mp hz.1).1
  have hget : m.ids[i] = p.1 := (List.getElem?_eq_some_iff.mp hz.1).2
  have hidx : m.ids.idxOf p.1 = i := by
    rw [← hget]; exact (ids_nodup m h).idxOf_getElem i hlt
  have hmem : p.1 ∈ m.ids := by rw [← hget]; exact List.getElem_mem hlt
  refine ⟨nidAt i, ?_, ?_⟩
  · unfold idToNid; rw [if_pos hmem, hidx]
  · rw [predAt_nidAt, hi]

theorem idToNid_some (m : MRS) (h : BaseIdsDistinct m) (p : Pred) (hp : p ∈ m.preds) (n : Int)
    (hn : idToNid m p.1 = some n) : predAt m n = some p := by
  obtain ⟨n', h1, h2⟩ := idToNid_spec m h p hp
  rw [h1] at hn
  simp only [Option.some.injEq] at hn
  rw [← hn]; exact h2

/-- `iv_to_nid[v] = n`: `n` is the node of a non-quantifier predication whose ARG0 is `v`. -/
theorem ivToNid_some (m : MRS) (v : Var) (n : Int) (h : ivToNid m v = some n) :
    ∃ (j : Nat) (e : EP), m.rels[j]? = some e ∧ e.isQuantifier = false ∧ e.iv = some v ∧
      n = nidAt j := by
  unfold ivToNid at h
  cases hf : (ivEntries m).reverse.find? (fun e => e.1 = some v) with
  | none => rw [hf] at h; simp at h
  | some ent =>
    rw [hf] at h
    simp only [Option.map_some, Option.some.injEq] at h
    have hmem : ent ∈ ivEntries m := List.mem_reverse.mp (List.mem_of_find?_eq_some hf)
    have hkey : ent.1 = some v := by simpa using List.find?_some hf
    unfold ivEntries at hmem
    simp only [List.mem_map, List.mem_filter] at hmem
    obtain ⟨ei, ⟨hz, hq⟩, rfl⟩ := hmem
    rw [List.mem_zipIdx_iff_getElem?] at hz
    refine ⟨ei.2, ei.1, hz, by simpa using hq, hkey, h.symm⟩

theorem ivToNid_none (m : MRS) (v : Var) (h : ivToNid m v = none) :
    ∀ e ∈ m.rels, e.isQuantifier = false → e.iv ≠ some v := by
  intro e he hq hiv
  unfold ivToNid at h
  simp only [Option.map_eq_none_iff] at h
  rw [List.find?_eq_none] at h
  obtain ⟨j, hj⟩ := List.mem_iff_getElem?.mp he
  have hmem : (e.iv, nidAt j) ∈ (ivEntries m).reverse := by
    rw [List.mem_reverse]
    unfold ivEntries
    simp only [List.mem_map, List.mem_filter]
    exact ⟨(e, j), ⟨List.mem_zipIdx_iff_getElem?.mpr hj, by simp [hq]⟩, rfl⟩
  exact h _ hmem (by simp [hiv])

theorem ivToNid_isSome (m : MRS) (v : Var) (e : EP) (he : e ∈ m.rels)
    (hq : e.isQuantifier = false) (hiv : e.iv = some v) : ∃ n, ivToNid m v = some n := by
  cases h : ivToNid m v with
  | some n => exact ⟨n, rfl⟩
  | none => exact absurd hiv (ivToNid_none m v h e he hq)

theorem hcLast_some (m : MRS) (v : Var) (hc : HCons) (h : m.hcLast v = some hc) :
    hc ∈ m.hcons ∧ hc.hi = v := by
  unfold MRS.hcLast at h
  exact ⟨List.mem_reverse.mp (List.mem_of_find?_eq_some h), by simpa using List.find?_some h⟩

theorem hcLast_none (m : MRS) (v : Var) (h : m.hcLast v = none) : ∀ hc ∈ m.hcons, hc.hi ≠ v := by
  unfold MRS.hcLast at h
  rw [List.find?_eq_none] at h
  intro hc hmem
  simpa using h hc (List.mem_reverse.mpr hmem)

/-! ### representatives are predications of the scope they represent -/

theorem rep_member (m : MRS) (reps : Reps) (h : m.representatives = .ok reps)
    (l : Var) (rs : List Pred) (hmem : (l, rs) ∈ reps) :
    ∀ r ∈ rs, r ∈ m.preds ∧ r.2.label = l := by
  intro r hr
  obtain ⟨_, hsub⟩ := Verif.C07.representatives_subset m reps h
  obtain ⟨sc, hsc, hin⟩ := hsub l rs hmem
  exact (Verif.C07.scopes_partition m).2.2.2 l sc hsc r (hin r hr)

theorem rep_lookup_member (m : MRS) (reps : Reps) (h : m.representatives = .ok reps)
    (l : Var) (rs : List Pred) (hl : dlookup l reps = some rs) :
    ∀ r ∈ rs, r ∈ m.preds ∧ r.2.label = l :=
  rep_member m reps h l rs (dlookup_mem hl)

/-! ### `from_dmrs` emits one predication per node, in order -/

/-- the surface part a node and its predication share -/
def nodeFace (n : Node) : String × Option String × Option (Int × Int) × Option String × Option String :=
  (n.predicate, n.carg, n.lnk, n.surface, n.base)
def epFace (e : EP) : String × Option String × Option (Int × Int) × Option String × Option String :=
  (e.predicate, e.carg, e.lnk, e.surface, e.base)

theorem buildRel_rels (d : DMRS) (sc idToIv ns scs) (st st' : BuildSt) (n : Node)
    (h : buildRel d sc idToIv ns scs st n = .ok st') :
    st'.rels.map epFace = st.rels.map epFace ++ [nodeFace n] := by
  unfold buildRel at h
  split at h
  · rename_i label iv _ _
    split at h
    · simp at h
    · split at h
      · simp at h
      · simp only [Except.ok.injEq] at h
        subst h
        simp [epFace, nodeFace]
  · simp at h

theorem foldlM_buildRel_rels (d : DMRS) (sc idToIv ns scs) :
    ∀ (nodes : List Node) (st st' : BuildSt),
      nodes.foldlM (buildRel d sc idToIv ns scs) st = .ok st' →
      st'.rels.map epFace = st.rels.map epFace ++ nodes.map nodeFace := by
  intro nodes
  induction nodes with
  | nil =>
    intro st st' h
    simp only [List.foldlM_nil] at h
    cases h
    simp
  | cons n ns' ih =>
    intro st st' h
    rw [List.foldlM_cons] at h
    cases h1 : buildRel d sc idToIv ns scs st n with
    | error e => rw [h1] at h; cases h
    | ok st1 =>
      rw [h1] at h
      have := ih st1 st' h
      rw [this, buildRel_rels d sc idToIv ns scs st st1 n h1]
      simp

/-- inversion of a successful `fromDmrs`. -/
theorem fromDmrs_inv (chosen : List Var) (d : DMRS) (m2 : MRS) (h : fromDmrs chosen d = .ok m2) :
    ∃ tsc ns scs qmap index st,
      scopesCh chosen d = .ok tsc ∧ nsArgsD d = .ok ns ∧ scArgsD d tsc.2 = .ok scs ∧
      qmapD d = .ok qmap ∧
      indexOf d (buildIvs d qmap (vfReserve (topNew d).2 tsc.2)).1 = .ok index ∧
      d.nodes.foldlM
        (buildRel d tsc.2 (buildIvs d qmap (vfReserve (topNew d).2 tsc.2)).1 ns scs)
        { vf := (buildIvs d qmap (vfReserve (topNew d).2 tsc.2)).2,
          hcons := hcTop (topNew d).1 tsc.1, rels := [] } = .ok st ∧
      m2 = { top := (topNew d).1, index := index, rels := st.rels, hcons := st.hcons, icons := [],
             variables := fillVars st.vf.store (topNew d).1 index st.rels st.hcons } := by
  unfold fromDmrs at h
  cases h1 : scopesCh chosen d with
  | error e => rw [h1] at h; cases h
  | ok tsc =>
    rw [h1] at h; simp only at h
    cases h2 : nsArgsD d with
    | error e => rw [h2] at h; cases h
    | ok ns =>
      rw [h2] at h; simp only at h
      cases h3 : scArgsD d tsc.2 with
      | error e => rw [h3] at h; cases h
      | ok scs =>
        rw [h3] at h; simp only at h
        cases h4 : qmapD d with
        | error e => rw [h4] at h; cases h
        | ok qmap =>
          rw [h4] at h; simp only at h
          cases h5 : indexOf d (buildIvs d qmap (vfReserve (topNew d).2 tsc.2)).1 with
          | error e => rw [h5] at h; cases h
          | ok index =>
            rw [h5] at h; simp only at h
            cases h6 : d.nodes.foldlM
                (buildRel d tsc.2 (buildIvs d qmap (vfReserve (topNew d).2 tsc.2)).1 ns scs)
                { vf := (buildIvs d qmap (vfReserve (topNew d).2 tsc.2)).2,
                  hcons := hcTop (topNew d).1 tsc.1, rels := [] } with
            | error e => rw [h6] at h; cases h
            | ok st =>
              rw [h6] at h
              simp only [Except.ok.injEq] at h
              refine ⟨tsc, ns, scs, qmap, index, st, ?_, ?_, ?_, ?_, ?_, ?_, h.symm⟩ <;> first | rfl | assumption

theorem fromDmrs_rels_aux (chosen : List Var) (d : DMRS) (m2 : MRS)
    (h : fromDmrs chosen d = .ok m2) :
    m2.rels.map epFace = d.nodes.map nodeFace ∧ m2.icons = [] := by
  obtain ⟨tsc, ns, scs, qmap, index, st, _, _, _, _, _, hf, rfl⟩ := fromDmrs_inv chosen d m2 h
  have := foldlM_buildRel_rels _ _ _ _ _ _ _ _ hf
  exact ⟨by simpa using this, rfl⟩

theorem nodes_faces (m : MRS) (d : DMRS) 
    (hlen : d.nodes.length = m.rels.length)
    (hsh : ∀ (i : Nat) (e : EP), m.rels[i]? = some e → ∃ n, d.nodes[i]? = some n ∧
      n.predicate = e.predicate ∧ n.carg = e.carg ∧ n.lnk = e.lnk ∧
      n.surface = e.surface ∧ n.base = e.base) :
    d.nodes.map nodeFace = m.rels.map epFace := by
  apply List.ext_getElem?
  intro i
  rw [List.getElem?_map, List.getElem?_map]
  cases he : m.rels[i]? with
  | none =>
    have : d.nodes[i]? = none := by
      rw [List.getElem?_eq_none_iff] at he ⊢
      omega
    rw [this]; rfl
  | some e =>
    obtain ⟨n, hn, h1, h2, h3, h4, h5⟩ := hsh i e he
    rw [hn]
    simp [nodeFace, epFace, h1, h2, h3, h4, h5]

end Verif.C04
