/-
C04 — the round trip as ONE variable map, part 4: arguments, handle constraints, top, index —
and the isomorphism on the fragment `NoHoleSpace`.
-/
import Verif.C04.Iso3

namespace Verif.C04
open Verif.Sem

section Frag
variable {m : MRS} {reps : Reps} {d : DMRS} {m2 : MRS} {chosen : List Var}

theorem mem_labels (m : MRS) (v : Var) : v ∈ m.labels ↔ ∃ e ∈ m.rels, e.label = v := by
  unfold MRS.labels; simp [List.mem_map]

theorem m2_rel_exists (sp : NoHoleSpace m reps) (h1 : fromMrs m = .ok d)
    (h2 : fromDmrs chosen d = .ok m2) (i : Nat) (e : EP) (he : m.rels[i]? = some e) :
    ∃ e2, m2.rels[i]? = some e2 := by
  obtain ⟨reps', topLbl, sc, lbl, leqs, idToIv, ns, scs, lo, hi, C⟩ :=
    rtctx m sp.hN sp.hR chosen d m2 h1 h2
  obtain ⟨_, e2, _, _, _, he2, _, _⟩ := C.at_pos i e he
  exact ⟨e2, he2⟩

/-- in the fragment there is no `H` link and no quantifier node. -/
theorem no_qeq_justified (sp : NoHoleSpace m reps) {rp : Reps} (l : Link) (hj : Justified m rp l)
    (hp : l.post = H_POST) : False := by
  have hne : H_POST ≠ HEQ_POST := by decide
  cases hj with
  | nonscopal src tgt w hs' ht harg htq hiv hpost =>
    rw [hp] at hpost; split at hpost <;> revert hpost <;> decide
  | mod src tgt lb' rest hs' ht hrep hsrc hrole hpost =>
    rw [hp] at hpost; revert hpost; decide
  | lheq src tgt v' rest hs' ht harg hniv hnohc hrep hpost =>
    rw [hp] at hpost; exact hne hpost
  | qeq src tgt v hc rest hs' ht harg hniv hhc hhi hrep hpost =>
    obtain ⟨i, _, q2, _⟩ := predAt_some m _ _ hs'
    have hsrc := RTCtx.preds_snd m i src q2
    have := sp.noConstr src.2 (List.mem_of_getElem? hsrc) _ (mem_outArgs src.2 _ harg).1
    exact hcLast_none m v this hc hhc hhi

/-- forward: an argument that `strip` keeps comes back, with a corresponding value. -/
theorem arg_forward (sp : NoHoleSpace m reps) (hr : m.representatives = .ok reps)
    (h1 : fromMrs m = .ok d) (h2 : fromDmrs chosen d = .ok m2)
    (i : Nat) (e e2 : EP) (he : m.rels[i]? = some e) (he2 : m2.rels[i]? = some e2)
    (r : Role) (v : Var) (ha : (r, v) ∈ e.args) (hx : expressible m e (r, v) = true) :
    ∃ w, (r, w) ∈ e2.args ∧ (IsIvPair m m2 v w ∨ IsLbPair m m2 v w) := by
  obtain ⟨reps', topLbl, sc, lbl, leqs, idToIv, ns, scs, lo, hi, C⟩ :=
    rtctx m sp.hN sp.hR chosen d m2 h1 h2
  have hre : reps' = reps := by
    have := C.hreps; rw [hr] at this; simpa using this.symm
  subst hre
  have hem := List.mem_of_getElem? he
  obtain ⟨n, e2', iv, hn, hid, he2', ps, he2iv⟩ := C.at_pos i e he
  rw [he2] at he2'; cases he2'
  by_cases hr0 : r = INTRINSIC_ROLE
  · subst hr0
    have hiv : e.iv = some v := by
      unfold EP.iv
      exact dlookup_of_mem_nodup (keys_nodup_of_rolesOk m sp.hR e hem) ha
    obtain ⟨c1, _, _⟩ := ps.complete (C.rf n.id)
    exact ⟨iv, c1, Or.inl ⟨i, e, e2, he, he2, hiv, he2iv⟩⟩
  · have hout : (r, v) ∈ e.outArgs none :=
      mem_outArgs_of e _ ha hr0 (sp.noCargRole e hem _ ha)
    unfold expressible at hx
    simp only [Bool.or_eq_true, beq_iff_eq, Bool.and_eq_true, decide_eq_true_eq] at hx
    have hnoq := sp.noQuant e hem
    have hnoc : selectsScope m v = false := by
      unfold selectsScope; rw [sp.noConstr e hem _ ha]
    rcases hx with (((h0 | hiv) | hlab) | hsel) | hbody
    · exact absurd h0 hr0
    · -- an intrinsic variable
      obtain ⟨nn, hnn⟩ := Option.isSome_iff_exists.mp hiv
      obtain ⟨j, ej, c1, c2, c3, _⟩ := ivToNid_some m v nn hnn
      obtain ⟨ej2, hej2⟩ := m2_rel_exists sp h1 h2 j ej c1
      obtain ⟨v2, hv2, hm⟩ := roundtrip_nonscopal_args m sp.hN sp.hR sp.hS chosen d m2 h1 h2
        i j e ej e2 ej2 he c1 he2 hej2 r v hout c2 c3
      exact ⟨v2, hm, Or.inl ⟨j, ej, ej2, c1, hej2, c3, hv2⟩⟩
    · -- a label
      by_cases hiv : (ivToNid m v).isSome = true
      · obtain ⟨nn, hnn⟩ := Option.isSome_iff_exists.mp hiv
        obtain ⟨j, ej, c1, c2, c3, _⟩ := ivToNid_some m v nn hnn
        obtain ⟨ej2, hej2⟩ := m2_rel_exists sp h1 h2 j ej c1
        obtain ⟨v2, hv2, hm⟩ := roundtrip_nonscopal_args m sp.hN sp.hR sp.hS chosen d m2 h1 h2
          i j e ej e2 ej2 he c1 he2 hej2 r v hout c2 c3
        exact ⟨v2, hm, Or.inl ⟨j, ej, ej2, c1, hej2, c3, hv2⟩⟩
      · have hniv : ivToNid m v = none := by
          cases h : ivToNid m v with
          | none => rfl
          | some x => rw [h] at hiv; simp at hiv
        have hlinked := sp.labelArgs e hem (r, v) hout hlab
        unfold argLinked at hlinked
        rw [hniv] at hlinked
        simp only [Option.isSome_none, Bool.false_or] at hlinked
        have hst : scopalTarget m v = (v, HEQ_POST) := by
          unfold scopalTarget; rw [sp.noConstr e hem _ ha]
        rw [hst] at hlinked
        cases hlk : dlookup v reps' with
        | none => rw [hlk] at hlinked; cases hlinked
        | some rs =>
          cases rs with
          | nil => rw [hlk] at hlinked; cases hlinked
          | cons tgt rest =>
            obtain ⟨htm, htl⟩ := rep_lookup_member m reps' C.hreps _ _ hlk tgt List.mem_cons_self
            obtain ⟨nid, hn1, hn2⟩ := idToNid_spec m sp.hN tgt htm
            obtain ⟨p, hp1, hp2, _⟩ := predAt_some m _ _ hn2
            have hpt : predAt m (nidAt p) = some tgt := by rw [← hp1]; exact hn2
            have hrelp := RTCtx.preds_snd m p tgt hp2
            obtain ⟨ep2, hep2⟩ := m2_rel_exists sp h1 h2 p tgt.2 hrelp
            have := (roundtrip_scopal_args m sp.hN sp.hR chosen d m2 h1 h2 reps' C.hreps i p e e2 ep2
              he he2 hep2 r v hout hniv tgt rest (by rw [hst]; exact hlk) hpt).1 (by rw [hst])
            exact ⟨ep2.label, this, Or.inr ⟨p, tgt.2, ep2, hrelp, hep2, htl, rfl⟩⟩
    · rw [hnoc] at hsel; cases hsel
    · rw [hnoq] at hbody; exact absurd hbody.2 (by decide)

/-- backward: every argument of the rebuilt predication comes from one that `strip` keeps. -/
theorem arg_backward (sp : NoHoleSpace m reps) (hr : m.representatives = .ok reps)
    (h1 : fromMrs m = .ok d) (h2 : fromDmrs chosen d = .ok m2)
    (i : Nat) (e e2 : EP) (he : m.rels[i]? = some e) (he2 : m2.rels[i]? = some e2)
    (r : Role) (w : Var) (ha : (r, w) ∈ e2.args) :
    ∃ v, (r, v) ∈ e.args ∧ expressible m e (r, v) = true ∧
      (IsIvPair m m2 v w ∨ IsLbPair m m2 v w) := by
  obtain ⟨reps', topLbl, sc, lbl, leqs, idToIv, ns, scs, lo, hi, C⟩ :=
    rtctx m sp.hN sp.hR chosen d m2 h1 h2
  have hre : reps' = reps := by
    have := C.hreps; rw [hr] at this; simpa using this.symm
  subst hre
  have hem := List.mem_of_getElem? he
  obtain ⟨n, e2', iv, hn, hid, he2', ps, he2iv⟩ := C.at_pos i e he
  rw [he2] at he2'; cases he2'
  cases ps.origin (r, w) ha with
  | arg0 h =>
    simp only [Prod.mk.injEq] at h
    obtain ⟨rfl, rfl⟩ := h
    have hS := sp.hS
    unfold IVSorts at hS
    rw [List.all_eq_true] at hS
    have := hS e hem
    rw [sp.noQuant e hem] at this
    cases hiv : e.iv with
    | none => rw [hiv] at this; simp at this
    | some v =>
      refine ⟨v, ?_, by unfold expressible; simp, Or.inl ⟨i, e, e2, he, he2, hiv, he2iv⟩⟩
      unfold EP.iv at hiv
      exact dlookup_mem hiv
  | ns x hx hidx hrole hv =>
    obtain ⟨l, hl, rfl, hnsl⟩ := C.spec.nsMem x hx
    obtain ⟨i0, j0, e0, ej, v, a1, a2, a3, a4, a5, a6, a7⟩ := C.nsl_ends l hl hnsl
    have : i0 = i := nidAt_inj _ _ (by rw [← a1]; simp only at hidx; rw [hidx, hid])
    subst this
    rw [he] at a3; cases a3
    obtain ⟨ej2, iv2, b1, b2, _, _, b5⟩ := C.iv2_facts j0 ej a4 a6 v a7
    have hw : w = iv2 := by
      simp only at hv
      rw [a2, b5] at hv
      simpa using hv.symm
    simp only at hrole
    subst hrole
    refine ⟨v, (mem_outArgs e _ a5).1, ?_, Or.inl ⟨j0, ej, ej2, a4, b1, a7, by rw [hw]; exact b2⟩⟩
    obtain ⟨nn, hnn⟩ := ivToNid_isSome m v ej (List.mem_of_getElem? a4) a6 a7
    unfold expressible; simp [hnn]
  | lheq x hx hidx hrole hrel hv =>
    obtain ⟨l, hl, a1, a2, a3, a4⟩ := C.spec.scMem x hx
    have hpost := scRel_lheq l _ a3 hrel
    have hne : H_POST ≠ HEQ_POST := by decide
    cases C.links_just l hl with
    | nonscopal src tgt w' hs' ht harg htq hiv hp =>
      exfalso; rw [hpost] at hp; split at hp <;> revert hp <;> decide
    | mod src tgt lb' rest hs' ht hrep hsrc hrl hp =>
      exfalso; rw [hpost] at hp; revert hp; decide
    | qeq src tgt v' hc rest hs' ht harg hniv hhc hhi hrep hp =>
      exfalso; rw [hpost] at hp; exact hne hp.symm
    | lheq src tgt v rest hs' ht harg hniv hnohc hrep hp =>
      obtain ⟨i0, q1, q2, _⟩ := predAt_some m _ _ hs'
      obtain ⟨p, r1, r2, _⟩ := predAt_some m _ _ ht
      have : i0 = i := nidAt_inj _ _ (by rw [← q1, ← a1, hidx, hid])
      subst this
      have hsrc := RTCtx.preds_snd m i0 src q2
      rw [he] at hsrc
      simp only [Option.some.injEq] at hsrc
      have htgt := RTCtx.preds_snd m p tgt r2
      obtain ⟨np, ep2, ivp, hnp, hidp, hep2, psp, _⟩ := C.at_pos p tgt.2 htgt
      have hwl : w = ep2.label := by
        have := psp.labelOk
        rw [hidp, ← r1, a4] at this
        simp only at hv
        rw [hv]; simpa using this
      have htl := (rep_lookup_member m reps' C.hreps _ _ hrep tgt List.mem_cons_self).2
      simp only at hrole
      refine ⟨v, ?_, ?_, Or.inr ⟨p, tgt.2, ep2, htgt, hep2, htl, hwl.symm⟩⟩
      · rw [hrole, a2, hsrc]; exact (mem_outArgs src.2 _ harg).1
      · unfold expressible
        have : v ∈ m.labels := (mem_labels m v).mpr ⟨tgt.2, List.mem_of_getElem? htgt, htl⟩
        simp [this]
  | qeq x hx hidx hrole hrel hnew hhc =>
    exfalso
    obtain ⟨l, hl, _, _, a3, _⟩ := C.spec.scMem x hx
    exact no_qeq_justified sp l (C.links_just l hl) (scRel_qeq l _ a3 hrel)
  | body hrole hq hnew hfree =>
    exfalso
    unfold dIsQuantifier at hq
    rw [List.any_eq_true] at hq
    obtain ⟨l, hl, hc⟩ := hq
    simp only [Bool.and_eq_true, decide_eq_true_eq] at hc
    have := rstr_link_quantifier m reps' l (C.links_just l hl) hc.2 i e (by rw [hc.1, hid]) he
    rw [sp.noQuant e hem] at this
    cases this

end Frag

end Verif.C04
