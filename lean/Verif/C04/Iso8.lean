/-
C04 — the round trip as ONE variable map, general case, part 2: the four classes of the
correspondence table (top, intrinsic variables, labels, holes) and what is known of each.
-/
import Verif.C04.Iso7

namespace Verif.C04
open Verif.Sem

def IsTopPairG (m m2 : MRS) (v w : Var) : Prop := (strip m).top = some v ∧ m2.top = some w

def IsHolePair (m m2 : MRS) (v w : Var) : Prop :=
  ∃ (j : Nat) (e e2 : EP) (a : Role × Var), m.rels[j]? = some e ∧ m2.rels[j]? = some e2 ∧
    a ∈ e.args ∧ isHoleArg m e a = true ∧ a.2 = v ∧ dlookup a.1 e2.args = some w

theorem mem_corrTableG (m m2 : MRS) (v w : Var) :
    (v, w) ∈ corrTableG m m2 ↔
      IsTopPairG m m2 v w ∨ IsIvPair m m2 v w ∨ IsLbPair m m2 v w ∨ IsHolePair m m2 v w := by
  unfold corrTableG IsTopPairG IsIvPair IsLbPair IsHolePair
  simp only [List.mem_append, List.mem_filterMap, List.mem_map, List.mem_flatMap, or_assoc]
  constructor
  · rintro (h | ⟨p, hp, hm⟩ | ⟨p, hp, hm⟩ | ⟨p, hp, a, ha, hm⟩)
    · left
      cases ha : (strip m).top with
      | none => rw [ha] at h; simp at h
      | some t =>
        cases hb : m2.top with
        | none => rw [ha, hb] at h; simp at h
        | some t2 =>
          rw [ha, hb] at h
          simp only [List.mem_singleton, Prod.mk.injEq] at h
          rw [h.1, h.2]; exact ⟨rfl, rfl⟩
    · right; left
      obtain ⟨k, h1, h2⟩ := (mem_zip_iff_getElem _ _ p).mp hp
      cases h3 : p.1.iv with
      | none => rw [h3] at hm; cases hm
      | some v' =>
        cases h4 : p.2.iv with
        | none => rw [h3, h4] at hm; cases hm
        | some w' =>
          rw [h3, h4] at hm
          simp only [Option.some.injEq, Prod.mk.injEq] at hm
          exact ⟨k, p.1, p.2, h1, h2, by rw [h3, hm.1], by rw [h4, hm.2]⟩
    · right; right; left
      obtain ⟨k, h1, h2⟩ := (mem_zip_iff_getElem _ _ p).mp hp
      simp only [Prod.mk.injEq] at hm
      exact ⟨k, p.1, p.2, h1, h2, hm.1, hm.2⟩
    · right; right; right
      obtain ⟨k, h1, h2⟩ := (mem_zip_iff_getElem _ _ p).mp hp
      by_cases hh : isHoleArg m p.1 a = true
      · rw [if_pos hh] at hm
        cases hl : dlookup a.1 p.2.args with
        | none => rw [hl] at hm; cases hm
        | some w' =>
          rw [hl] at hm
          simp only [Option.map_some, Option.some.injEq, Prod.mk.injEq] at hm
          exact ⟨k, p.1, p.2, a, h1, h2, ha, hh, hm.1, by rw [hl, hm.2]⟩
      · rw [if_neg hh] at hm; cases hm
  · rintro (⟨h1, h2⟩ | ⟨k, e, e2, h1, h2, h3, h4⟩ | ⟨k, e, e2, h1, h2, h3, h4⟩ |
      ⟨k, e, e2, a, h1, h2, h3, h4, h5, h6⟩)
    · left; rw [h1, h2]; simp
    · right; left
      exact ⟨(e, e2), (mem_zip_iff_getElem _ _ _).mpr ⟨k, h1, h2⟩, by simp [h3, h4]⟩
    · right; right; left
      exact ⟨(e, e2), (mem_zip_iff_getElem _ _ _).mpr ⟨k, h1, h2⟩, by simp [h3, h4]⟩
    · right; right; right
      exact ⟨(e, e2), (mem_zip_iff_getElem _ _ _).mpr ⟨k, h1, h2⟩, a, h3, by
        simp only [h4, if_true, h6, Option.map_some, h5]⟩

theorem isHoleArg_iff (m : MRS) (e : EP) (a : Role × Var) :
    isHoleArg m e a = true ↔ a.1 ≠ INTRINSIC_ROLE ∧ ivToNid m a.2 = none ∧ a.2 ∉ m.labels ∧
      (selectsScope m a.2 = true ∨ (a.1 = BODY_ROLE ∧ e.isQuantifier = true)) := by
  unfold isHoleArg
  simp only [Bool.and_eq_true, bne_iff_ne, ne_eq, Option.isNone_iff_eq_none, Bool.not_eq_true',
    decide_eq_false_iff_not, Bool.or_eq_true, beq_iff_eq, and_assoc]

namespace RTCtx
variable {m : MRS} {d : DMRS} {m2 : MRS} {reps : Reps} {topLbl : Option Var}
  {sc : List (Var × List Node)} {lbl : Node → Var} {leqs : List (Var × Var)}
  {idToIv : List (Int × Var)} {ns : List (Int × Role × Int)}
  {scs : List (Int × Role × String × Var)} {lo hi : Nat}

/-- a quantifier of `m` has an RSTR link (under `RstrLinked`). -/
theorem rstr_link_of_quant (C : RTCtx m d m2 reps topLbl sc lbl leqs idToIv ns scs lo hi)
    (hQ : RstrLinked m reps = true) (i : Nat) (e : EP) (he : m.rels[i]? = some e)
    (hq : e.isQuantifier = true) :
    ∃ l ∈ d.links, l.start = nidAt i ∧ l.role = RESTRICTION_ROLE := by
  unfold EP.isQuantifier at hq
  rw [List.any_eq_true] at hq
  obtain ⟨a, ha, har⟩ := hq
  have har : a.1 = RESTRICTION_ROLE := by simpa using har
  have hout : a ∈ e.outArgs none := by
    unfold EP.outArgs
    rw [List.mem_filter]
    refine ⟨ha, ?_⟩
    rw [har]
    simp [RESTRICTION_ROLE, INTRINSIC_ROLE, CONSTANT_ROLE]
  obtain ⟨o, ho, hol⟩ := fromMrs_argLink_ok m reps d C.hreps C.hd i e he a hout
  have hlinked : argLinked m reps a.2 = true := by
    unfold RstrLinked at hQ
    rw [List.all_eq_true] at hQ
    have := hQ e (List.mem_of_getElem? he)
    rw [List.all_eq_true] at this
    have := this a ha
    rw [har] at this
    simpa using this
  obtain ⟨l, rfl⟩ := argLink_some_of_linked m reps _ e a o ho hlinked
  obtain ⟨hs, hr⟩ := argLink_start_role m reps _ e a l ho
  exact ⟨l, hol l rfl, hs, by rw [hr, har]⟩

/-- a pair of intrinsic variables at any position is the pair at a non-quantifier position. -/
theorem ivPair_norm (C : RTCtx m d m2 reps topLbl sc lbl leqs idToIv ns scs lo hi)
    (sp : InSpace m reps d) (v w : Var) (h : IsIvPair m m2 v w) :
    ∃ (p : Nat) (ep ep2 : EP), m.rels[p]? = some ep ∧ m2.rels[p]? = some ep2 ∧
      ep.isQuantifier = false ∧ ep.iv = some v ∧ ep2.iv = some w ∧ ep2.isQuantifier = false := by
  obtain ⟨j, e, e2, a1, a2, a3, a4⟩ := h
  cases hq : e.isQuantifier with
  | false =>
    obtain ⟨ej2, iv2, b1, b2, b3, _⟩ := C.iv2_facts j e a1 hq v a3
    rw [a2] at b1
    simp only [Option.some.injEq] at b1
    subst b1
    exact ⟨j, e, e2, a1, a2, hq, a3, a4, b3⟩
  | true =>
    -- the quantifier's RSTR link and its target
    obtain ⟨l, hl, hs, hr⟩ := C.rstr_link_of_quant sp.hQ j e a1 hq
    obtain ⟨_, p, _, _, ht, _, hplt, _⟩ := justified_ends m reps l (C.links_just l hl)
    obtain ⟨ep, v', c1, c2, c3, c4⟩ := sp.head l hl hr j p hs ht e a1
    rw [a3] at c3
    simp only [Option.some.injEq] at c3
    subst c3
    obtain ⟨ep2, iv2, b1, b2, b3, _, b5⟩ := C.iv2_facts p ep c1 c2 v c4
    -- the variable `from_dmrs` gives the quantifier node
    obtain ⟨n, e2', iv, hn, hid, he2', ps, he2iv⟩ := C.at_pos j e a1
    rw [a2] at he2'; cases he2'
    rw [a4] at he2iv
    simp only [Option.some.injEq] at he2iv
    subst he2iv
    have hqs : n.id ∈ quantStarts d := (mem_quantStarts d n.id).mpr ⟨l, hl, by rw [hs, hid], hr⟩
    obtain ⟨n', hn', _, d3, l', hl', e1, e2s, e3⟩ := C.spec.ivQ n.id hqs w ps.ivOk
    have hll : l' = l := fromMrs_links_fun m sp.hR reps d C.hreps C.hd l' l hl' hl
      (by rw [e2s, hs, hid]) (by rw [e1, hr]) (by rw [e1]; decide)
    subst hll
    have : dlookup (nidAt p) idToIv = some w := by rw [← ht, e3]; exact d3
    rw [b5] at this
    simp only [Option.some.injEq] at this
    subst this
    exact ⟨p, ep, ep2, c1, b1, c2, c4, b2, b3⟩

/-- facts about a pair of intrinsic variables. -/
theorem ivPair_factsG (C : RTCtx m d m2 reps topLbl sc lbl leqs idToIv ns scs lo hi)
    (sp : InSpace m reps d) (v w : Var) (h : IsIvPair m m2 v w) :
    w.sort = v.sort ∧ v.sort ≠ HANDLE ∧ w.sort ≠ HANDLE ∧ m2.props w = m.props v ∧
      (ivToNid m v).isSome = true := by
  obtain ⟨p, ep, ep2, a1, a2, hq, a3, a4, _⟩ := C.ivPair_norm sp v w h
  obtain ⟨ej2, iv2, b1, b2, _, b4, _⟩ := C.iv2_facts p ep a1 hq v a3
  rw [a2] at b1
  simp only [Option.some.injEq] at b1
  subst b1
  rw [a4] at b2
  simp only [Option.some.injEq] at b2
  subst b2
  have hsv : v.sort ≠ HANDLE := by
    have hS := sp.hS
    unfold IVSorts at hS
    rw [List.all_eq_true] at hS
    have := hS ep (List.mem_of_getElem? a1)
    rw [hq, a3] at this
    exact (sort_of_infix v.sort (by simpa using this)).1
  obtain ⟨n, e2', iv, hn, hid, he2', ps, he2iv⟩ := C.at_pos p ep a1
  rw [a2] at he2'; cases he2'
  rw [a4] at he2iv
  simp only [Option.some.injEq] at he2iv
  subst he2iv
  have hnq : n.id ∉ quantStarts d := by
    rw [hid]; exact not_quantStart_of_nonquant m sp.hN reps d C.hreps C.hd p ep a1 hq
  obtain ⟨iv', c1, _, _, c4⟩ := C.spec.ivNonQ n (List.mem_of_getElem? hn) hnq
  rw [ps.ivOk] at c1
  cases c1
  obtain ⟨_, hsh⟩ := nodes_shape m sp.hN d C.hd
  obtain ⟨n', hn', _, _, _, _, _, _, _, hty, _⟩ := hsh p ep a1
  rw [hn] at hn'; cases hn'
  obtain ⟨_, t2⟩ := hty hq v a3
  obtain ⟨nn, hnn⟩ := ivToNid_isSome m v ep (List.mem_of_getElem? a1) hq a3
  exact ⟨b4, hsv, by rw [b4]; exact hsv, by rw [c4, t2], by rw [hnn]; rfl⟩

/-- facts about a pair of labels. -/
theorem lbPair_factsG (C : RTCtx m d m2 reps topLbl sc lbl leqs idToIv ns scs lo hi)
    (sp : InSpace m reps d) (v w : Var) (h : IsLbPair m m2 v w) :
    v.sort = HANDLE ∧ v ∈ m.labels ∧ w.sort = HANDLE ∧ 1 ≤ w.vid ∧
      w.vid ∈ sc.map (fun s => s.1.vid) := by
  obtain ⟨j, e, e2, a1, a2, a3, a4⟩ := h
  obtain ⟨n, e2', iv, hn, hid, he2', ps, _⟩ := C.at_pos j e a1
  rw [a2] at he2'; cases he2'
  obtain ⟨p1, p2, p3⟩ := C.label_props (List.mem_of_getElem? hn) ps
  refine ⟨by rw [← a3]; exact sp.labelSort e (List.mem_of_getElem? a1), ?_,
    by rw [← a4]; exact p2, by rw [← a4]; exact p3, by rw [← a4]; exact p1⟩
  exact (mem_labels m v).mpr ⟨e, List.mem_of_getElem? a1, a3⟩

/-- facts about a hole pair: the value on the `m2` side is a fresh hole. -/
theorem holePair_facts (C : RTCtx m d m2 reps topLbl sc lbl leqs idToIv ns scs lo hi)
    (sp : InSpace m reps d) (v w : Var) (h : IsHolePair m m2 v w) :
    v.sort = HANDLE ∧ ivToNid m v = none ∧ v ∉ m.labels ∧
      FreshV (sc.map (fun s => s.1.vid)) lo w ∧
      ∃ (j : Nat) (e e2 : EP) (r : Role), m.rels[j]? = some e ∧ m2.rels[j]? = some e2 ∧
        (r, v) ∈ e.args ∧ (r, w) ∈ e2.args ∧ isHoleArg m e (r, v) = true := by
  obtain ⟨j, e, e2, a, a1, a2, a3, a4, a5, a6⟩ := h
  subst a5
  have hem := List.mem_of_getElem? a1
  obtain ⟨h1, h2, h3, _⟩ := (isHoleArg_iff m e a).mp a4
  obtain ⟨n, e2', iv, hn, hid, he2', ps, _⟩ := C.at_pos j e a1
  rw [a2] at he2'; cases he2'
  have hmem : (a.1, w) ∈ e2.args := dlookup_mem a6
  have hkeys := keys_nodup_of_rolesOk m sp.hR e hem
  -- an argument of `e` with role `a.1` is `a`
  have same : ∀ v', (a.1, v') ∈ e.args → v' = a.2 := by
    intro v' hv'
    have := key_unique hkeys hv' a3 rfl
    exact congrArg Prod.snd this
  have hfresh : FreshV (sc.map (fun s => s.1.vid)) lo w := by
    cases ps.origin (a.1, w) hmem with
    | arg0 h => simp only [Prod.mk.injEq] at h; exact absurd h.1 h1
    | ns x hx hidx hr hv =>
      exfalso
      obtain ⟨l, hl, rfl, hnsl⟩ := C.spec.nsMem x hx
      obtain ⟨i0, j0, e0, ej, v', b1, b2, b3, b4, b5, b6, b7⟩ := C.nsl_ends l hl hnsl
      have : i0 = j := nidAt_inj _ _ (by rw [← b1]; simp only at hidx; rw [hidx, hid])
      subst this
      rw [a1] at b3; cases b3
      simp only at hr
      have := same v' (by rw [hr]; exact (mem_outArgs e _ b5).1)
      obtain ⟨nn, hnn⟩ := ivToNid_isSome m v' ej (List.mem_of_getElem? b4) b6 b7
      rw [this, h2] at hnn; cases hnn
    | lheq x hx hidx hr hrel hv =>
      exfalso
      obtain ⟨l, hl, b1, b2, b3, _⟩ := C.spec.scMem x hx
      have hpost := scRel_lheq l _ b3 hrel
      have hne : H_POST ≠ HEQ_POST := by decide
      cases C.links_just l hl with
      | nonscopal src tgt w' hs' ht harg htq hiv hp =>
        rw [hpost] at hp; split at hp <;> revert hp <;> decide
      | mod src tgt lb' rest hs' ht hrep hsrc hrl hp =>
        rw [hpost] at hp; revert hp; decide
      | qeq src tgt v' hc rest hs' ht harg hniv hhc hhi hrep hp =>
        rw [hpost] at hp; exact hne hp.symm
      | lheq src tgt v' rest hs' ht harg hniv hnohc hrep hp =>
        obtain ⟨i0, q1, q2, _⟩ := predAt_some m _ _ hs'
        have : i0 = j := nidAt_inj _ _ (by rw [← q1, ← b1, hidx, hid])
        subst this
        have hsrc := preds_snd m i0 src q2
        rw [a1] at hsrc
        simp only [Option.some.injEq] at hsrc
        simp only at hr
        have := same v' (by rw [hr, b2, hsrc]; exact (mem_outArgs src.2 _ harg).1)
        obtain ⟨htm, htl⟩ := rep_lookup_member m reps C.hreps _ _ hrep tgt List.mem_cons_self
        apply h3
        rw [← this]
        exact (mem_labels m v').mpr ⟨tgt.2, by
          rw [← preds_map_snd m]; exact List.mem_map_of_mem htm, htl⟩
    | qeq x hx hidx hr hrel hnew hhc => exact hnew.fresh (Nat.le_refl _)
    | body hr hq hnew hfree => exact hnew.fresh (Nat.le_refl _)
  exact ⟨sp.holeSort e hem a a3 a4, h2, h3, hfresh, j, e, e2, a.1, a1, a2, a3, hmem, a4⟩

end RTCtx

end Verif.C04
