/-
C04 — the round trip as ONE variable map, general case, part 6: assembly of `IsoVia`.
-/
import Verif.C04.Iso11

namespace Verif.C04
open Verif.Sem

namespace RTCtx
variable {m : MRS} {d : DMRS} {m2 : MRS} {reps : Reps} {topLbl : Option Var}
  {sc : List (Var × List Node)} {lbl : Node → Var} {leqs : List (Var × Var)}
  {idToIv : List (Int × Var)} {ns : List (Int × Role × Int)}
  {scs : List (Int × Role × String × Var)} {lo hi : Nat}

theorem isoG (C : RTCtx m d m2 reps topLbl sc lbl leqs idToIv ns scs lo hi)
    (sp : InSpace m reps d) (chosen : List Var) (h2 : fromDmrs chosen d = .ok m2) :
    IsoVia (corrMapG m m2) (strip m) m2 := by
  have h1 := C.hd
  have hfun := C.corrG_functional sp
  have hinj := C.corrG_injective sp
  have fOf : ∀ v w, (v, w) ∈ corrTableG m m2 → corrMapG m m2 v = w :=
    fun v w h => corrMapG_of_mem _ _ hfun v w h
  have fPair : ∀ v w, (IsIvPair m m2 v w ∨ IsLbPair m m2 v w ∨ IsHolePair m m2 v w) →
      corrMapG m m2 v = w := fun v w h => fOf v w ((mem_corrTableG m m2 v w).mpr (Or.inr h))
  have fTop : ∀ v w, IsTopPairG m m2 v w → corrMapG m m2 v = w :=
    fun v w h => fOf v w ((mem_corrTableG m m2 v w).mpr (Or.inl h))
  have fLb : ∀ (p : Nat) (ep ep2 : EP), m.rels[p]? = some ep → m2.rels[p]? = some ep2 →
      corrMapG m m2 ep.label = ep2.label :=
    fun p ep ep2 h h' => fPair _ _ (Or.inr (Or.inl ⟨p, ep, ep2, h, h', rfl, rfl⟩))
  have hlen : (strip m).rels.length = m2.rels.length := by
    unfold strip
    simp only [List.length_map]
    rw [C.spec.len, (nodes_shape m sp.hN d h1).1]
  have hnd : ∀ n ∈ d.nodes, ScRolesNodup scs n.id := by
    intro n _
    obtain ⟨_, _, _, _, _, e3, _⟩ := C.spec.defs
    exact scRoles_nodup m sp.hR reps d C.hreps h1 sc scs e3 n.id
  refine
    { len := hlen, rels := ?_, hconsF := ?_, hconsB := ?_, top := ?_, index := ?_,
      icons := (fromDmrs_rels chosen d m2 h2).2, inj := ?_, sorts := ?_ }
  · -- predications
    intro i es e2 hes he2
    obtain ⟨e, he, rfl⟩ := strip_rel m i es hes
    have hface : epFace e2 = epFace e := by
      have := (roundtrip_predications m sp.hN chosen d m2 h1 h2).1
      have h3 : (m2.rels.map epFace)[i]? = (m.rels.map epFace)[i]? := by rw [this]
      rw [List.getElem?_map, List.getElem?_map, he2, he] at h3
      simpa using h3
    refine ⟨?_, ?_, ?_, ?_, ?_⟩
    · unfold epFace at hface; exact hface.symm
    · exact (fLb i e e2 he he2).symm
    · intro r v hv
      simp only [List.mem_filter] at hv
      obtain ⟨w, hw, hp⟩ := C.arg_forwardG sp chosen h2 i e e2 he he2 r v hv.1 hv.2
      rw [fPair v w hp]; exact hw
    · intro r w hw
      obtain ⟨v, hv, hx, hp⟩ := C.arg_backwardG sp chosen h2 i e e2 he he2 r w hw
      exact ⟨v, by simp only [List.mem_filter]; exact ⟨hv, hx⟩, (fPair v w hp).symm⟩
    · intro v hv
      rw [strip_iv m sp.hR e (List.mem_of_getElem? he)] at hv
      obtain ⟨_, e2', iv, _, _, he2', _, he2iv⟩ := C.at_pos i e he
      rw [he2] at he2'; cases he2'
      have hp : IsIvPair m m2 v iv := ⟨i, e, e2, he, he2, hv, he2iv⟩
      rw [fPair v iv (Or.inl hp)]
      exact (C.ivPair_factsG sp v iv hp).2.2.2.1
  · -- handle constraints, forward
    intro hc hhc
    obtain ⟨k1, k2, k3, k4⟩ := (mem_strip_hcons m hc).mp hhc
    rw [sp.qeq hc k1]
    rcases k4 with htop | ⟨e, he, a, ha, hah⟩
    · have hst : (strip m).top = some hc.hi := by
        have : (strip m).top = (match m.top with
            | some t => if selectsScope m t then some t else none
            | none => none) := rfl
        rw [this, htop]
        have hs : selectsScope m hc.hi = true := by
          unfold selectsScope; rw [k2]; simpa using k3
        simp [hs]
      obtain ⟨htp, _, hc', p, r, rest, ep2, b1, _, _, _, _, _, b7, _, b9, b10, b11, _⟩ :=
        C.topPairG sp hc.hi hst
      rw [k2] at b1
      simp only [Option.some.injEq] at b1
      subst b1
      rw [fTop _ _ htp, fPair hc.lo ep2.label (Or.inr (Or.inl ⟨p, r.2, ep2, b7, b10, b9, rfl⟩))]
      exact b11
    · obtain ⟨i, hi⟩ := List.mem_iff_getElem?.mp he
      obtain ⟨_, e2, _, _, _, he2, ps2, _⟩ := C.at_pos i e hi
      obtain ⟨hhole, hsel, hniv⟩ := C.hi_is_hole sp hc k1 k3 i e hi a ha hah
      have hr0 : a.1 ≠ INTRINSIC_ROLE := ((isHoleArg_iff m e a).mp hhole).1
      have hout : a ∈ e.outArgs none := mem_outArgs_of e a ha hr0 (sp.noCarg e he a ha)
      have hlinked := sp.linked e he a hout (Or.inr hsel)
      unfold argLinked at hlinked
      rw [hniv] at hlinked
      simp only [Option.isSome_none, Bool.false_or] at hlinked
      have hst : scopalTarget m a.2 = (hc.lo, H_POST) := by
        unfold scopalTarget; rw [hah, k2]
      rw [hst] at hlinked
      cases hlk : dlookup hc.lo reps with
      | none => rw [hlk] at hlinked; cases hlinked
      | some rs =>
        cases rs with
        | nil => rw [hlk] at hlinked; cases hlinked
        | cons tgt rest =>
          obtain ⟨htm, htl⟩ := rep_lookup_member m reps C.hreps _ _ hlk tgt List.mem_cons_self
          obtain ⟨nid, _, hn2⟩ := idToNid_spec m sp.hN tgt htm
          obtain ⟨p, hp1, hp2, _⟩ := predAt_some m _ _ hn2
          have hpt : predAt m (nidAt p) = some tgt := by rw [← hp1]; exact hn2
          have hrelp := preds_snd m p tgt hp2
          obtain ⟨_, ep2, _, _, _, hep2, _, _⟩ := C.at_pos p tgt.2 hrelp
          obtain ⟨hole, hm, hmem⟩ := (roundtrip_scopal_args m sp.hN sp.hR chosen d m2 h1 h2 reps
            C.hreps i p e e2 ep2 hi he2 hep2 a.1 a.2 hout hniv tgt rest
            (by rw [hst]; exact hlk) hpt).2 (by rw [hst])
          have hpair : IsHolePair m m2 hc.hi hole :=
            ⟨i, e, e2, a, hi, he2, ha, hhole, hah, dlookup_of_mem_nodup ps2.keys hm⟩
          rw [fPair hc.hi hole (Or.inr (Or.inr hpair)),
            fPair hc.lo ep2.label (Or.inr (Or.inl ⟨p, tgt.2, ep2, hrelp, hep2, htl, rfl⟩))]
          exact hmem
  · -- handle constraints, backward
    intro hc2 hhc2
    have topCase : hc2 ∈ hcTop (topNew d).1 topLbl →
        ∃ hc ∈ (strip m).hcons, hc2 = ⟨corrMapG m m2 hc.hi, hc.rel, corrMapG m m2 hc.lo⟩ := by
      intro hin
      -- the DMRS has a top
      have hdt : ∃ n, d.top = some n := by
        unfold hcTop at hin
        cases htn : (topNew d).1 with
        | none => rw [htn] at hin; simp at hin
        | some t2 =>
          unfold topNew at htn
          cases hd : d.top with
          | none => rw [hd] at htn; cases htn
          | some n => exact ⟨n, rfl⟩
      obtain ⟨n, hdn⟩ := hdt
      rcases top_casesG sp.hN (fun t ht => (sp.topNot t ht).1) C.hreps h1 with
        ⟨_, hnone⟩ | ⟨t, hc, p, r, rest, a1, a2, a3, a4, _, _, _, _⟩
      · rw [hnone] at hdn; cases hdn
      · obtain ⟨htp, _, hc', p', r', rest', ep2, b1, b2, b3, b4, b5, _, b7, _, b9, b10, _, b12⟩ :=
          C.topPairG sp t a2
        rw [a3] at b1
        simp only [Option.some.injEq] at b1
        subst b1
        rw [b12] at hin
        simp only [List.mem_singleton] at hin
        refine ⟨hc, (mem_strip_hcons m hc).mpr ⟨b3, by rw [b2]; exact a3, b4,
          Or.inl (by rw [b2]; exact a1)⟩, ?_⟩
        rw [hin, b2, fTop _ _ htp, sp.qeq hc b3,
          fPair hc.lo ep2.label (Or.inr (Or.inl ⟨p', r'.2, ep2, b7, b10, b9, rfl⟩))]
    obtain ⟨news, hh, hnews, _⟩ := C.spec.hcons
    rcases (RTSpec.holes C.spec).2.1 hnd hc2 hhc2 with hin | ⟨i, n, e2, hn, he2, x, hx, c1, c2, c3, c4⟩
    · exact topCase hin
    · rw [hh] at hhc2
      rcases List.mem_append.mp hhc2 with hin | hnew
      · exact topCase hin
      · have hrel : hc2.rel = QEQ := (hnews hc2 hnew).1
        obtain ⟨l, hl, a1, a2, a3, a4⟩ := C.spec.scMem x hx
        have hpost := scRel_qeq l _ a3 c2
        have hne : H_POST ≠ HEQ_POST := by decide
        obtain ⟨hidn, hilt⟩ := fromMrs_node_id m sp.hN d h1 i n hn
        cases C.links_just l hl with
        | nonscopal src tgt w' hs' ht harg htq hiv hp =>
          exfalso; rw [hpost] at hp; split at hp <;> revert hp <;> decide
        | mod src tgt lb' rest hs' ht hrep hsrc hrl hp =>
          exfalso; rw [hpost] at hp; revert hp; decide
        | lheq src tgt v' rest hs' ht harg hniv hnohc hrep hp =>
          exfalso; rw [hpost] at hp; exact hne hp
        | qeq src tgt v hcm rest hs' ht harg hniv hhc' hhi hrep hp =>
          obtain ⟨i0, q1, q2, _⟩ := predAt_some m _ _ hs'
          have : i0 = i := nidAt_inj _ _ (by rw [← q1, ← a1, c1, hidn])
          subst this
          have hsrc := preds_snd m i0 src q2
          obtain ⟨p, r1, r2, _⟩ := predAt_some m _ _ ht
          have htgt := preds_snd m p tgt r2
          obtain ⟨np, ep2, _, hnp, hidp, hep2, psp, _⟩ := C.at_pos p tgt.2 htgt
          obtain ⟨_, e2', _, _, _, he2', ps2, _⟩ := C.at_pos i0 src.2 hsrc
          rw [he2] at he2'; cases he2'
          have htl := rep_lookup_member m reps C.hreps _ _ hrep tgt List.mem_cons_self
          have hlo : hcm.lo ∈ m.labels := (mem_labels m hcm.lo).mpr ⟨tgt.2, by
            rw [← preds_map_snd m]; exact List.mem_map_of_mem htl.1, htl.2⟩
          have hargs : (l.role, v) ∈ src.2.args := (mem_outArgs src.2 _ harg).1
          obtain ⟨hhole, _, _⟩ := C.hi_is_hole sp hcm hhc' hlo i0 src.2 hsrc (l.role, v) hargs
            hhi.symm
          have hpair : IsHolePair m m2 v hc2.hi :=
            ⟨i0, src.2, e2, (l.role, v), hsrc, he2, hargs, hhole, rfl,
              dlookup_of_mem_nodup ps2.keys (by rw [← a2]; exact c4)⟩
          have hlab2 : hc2.lo = ep2.label := by
            have := psp.labelOk
            rw [hidp, ← r1, a4] at this
            rw [c3]; simpa using this
          refine ⟨hcm, (mem_strip_hcons m hcm).mpr ⟨hhc', sp.hcLast_of_mem hcm hhc', hlo,
            Or.inr ⟨src.2, List.mem_of_getElem? hsrc, (l.role, v), hargs, hhi.symm⟩⟩, ?_⟩
          rw [hhi, fPair v hc2.hi (Or.inr (Or.inr hpair)), sp.qeq hcm hhc',
            fPair hcm.lo ep2.label (Or.inr (Or.inl ⟨p, tgt.2, ep2, htgt, hep2, htl.2, rfl⟩)),
            ← hrel, ← hlab2]
  · -- top
    rcases top_casesG sp.hN (fun t ht => (sp.topNot t ht).1) C.hreps h1 with
      ⟨hs, hnone⟩ | ⟨t, hc, p, r, rest, a1, a2, _, _, _, _, _, _⟩
    · rw [hs, C.spec.top]
      unfold topNew; rw [hnone]; rfl
    · obtain ⟨htp, _⟩ := C.topPairG sp t a2
      rw [a2, htp.2]
      simp only [Option.map_some]
      rw [fTop _ _ htp]
  · -- index
    obtain ⟨k1, k2⟩ := C.index_rt sp.hS
    obtain ⟨_, _, _, _, _, _, hd⟩ := fromMrs_ok m reps d C.hreps h1
    have hdi : d.index = getIndex m := by rw [hd]
    unfold getIndex at hdi
    have hsi : (strip m).index = (match m.index with
        | some v => if (ivToNid m v).isSome then some v else none
        | none => none) := rfl
    rw [hsi]
    cases hmi : m.index with
    | none =>
      rw [hmi] at hdi
      simp only [Option.bind_none] at hdi
      rw [k1 hdi]; rfl
    | some v =>
      rw [hmi] at hdi
      simp only [Option.bind_some] at hdi
      cases hiv : ivToNid m v with
      | none =>
        rw [hiv] at hdi
        simp only [hiv, Option.isSome_none, Bool.false_eq_true, if_false]
        rw [k1 hdi]; rfl
      | some nn =>
        rw [hiv] at hdi
        obtain ⟨j, ej, c1, c2, c3, c4⟩ := ivToNid_some m v nn hiv
        subst c4
        obtain ⟨v2, e2, i1, i2, i3, _, _⟩ := k2 j hdi
        simp only [hiv, Option.isSome_some, if_true, Option.map_some]
        rw [i1, fPair v v2 (Or.inl ⟨j, ej, e2, c1, i2, c3, i3⟩)]
  · -- injective
    intro v hv w hw hfw
    obtain ⟨x, hx⟩ := C.table_totalG sp chosen h2 v hv
    obtain ⟨y, hy⟩ := C.table_totalG sp chosen h2 w hw
    rw [fOf v x hx, fOf w y hy] at hfw
    subst hfw
    exact hinj v w x hx hy
  · -- sorts
    intro v hv
    obtain ⟨x, hx⟩ := C.table_totalG sp chosen h2 v hv
    rw [fOf v x hx]
    rw [mem_corrTableG] at hx
    rcases hx with ht | hi | hl | hh
    · obtain ⟨hp, _, hc, p, r, rest, ep2, _, _, _, _, b5, _⟩ := C.topPairG sp v ht.1
      have := hp.2
      rw [ht.2] at this
      simp only [Option.some.injEq] at this
      rw [this, sp.topSort v b5]
    · exact (C.ivPair_factsG sp v x hi).1
    · obtain ⟨a, _, b, _⟩ := C.lbPair_factsG sp v x hl
      rw [a, b]
    · obtain ⟨a, _, _, b, _⟩ := C.holePair_facts sp v x hh
      rw [a, b.1]

end RTCtx

/-! ## helpers for the concrete counter-example of PropsIso.lean -/

/-- two predications share an argument value (roles `r` at position `i`, `r'` at position `j`). -/
def sharedArg (a : MRS) (i j : Nat) (r r' : Role) : Bool :=
  match a.rels[i]?, a.rels[j]? with
  | some e, some e' =>
    e.args.any (fun x => x.1 == r && e'.args.any (fun y => y.1 == r' && y.2 == x.2))
  | _, _ => false

theorem IsoVia.sharedArg {f : Var → Var} {a b : MRS} (h : IsoVia f a b) (i j : Nat) (r r' : Role)
    (hs : sharedArg a i j r r' = true) : sharedArg b i j r r' = true := by
  unfold Verif.C04.sharedArg at hs ⊢
  cases hi : a.rels[i]? with
  | none => rw [hi] at hs; cases hs
  | some e =>
    cases hj : a.rels[j]? with
    | none => rw [hi, hj] at hs; cases hs
    | some e' =>
      rw [hi, hj] at hs
      have li : i < b.rels.length := by rw [← h.len]; exact (List.getElem?_eq_some_iff.mp hi).1
      have lj : j < b.rels.length := by rw [← h.len]; exact (List.getElem?_eq_some_iff.mp hj).1
      have hbi : b.rels[i]? = some b.rels[i] := List.getElem?_eq_getElem li
      have hbj : b.rels[j]? = some b.rels[j] := List.getElem?_eq_getElem lj
      rw [hbi, hbj]
      simp only [List.any_eq_true, Bool.and_eq_true, beq_iff_eq] at hs ⊢
      obtain ⟨x, hx, hxr, y, hy, hyr, hyx⟩ := hs
      have p1 := (h.rels i e _ hi hbi).2.2.1 x.1 x.2 hx
      have p2 := (h.rels j e' _ hj hbj).2.2.1 y.1 y.2 hy
      exact ⟨(x.1, f x.2), p1, hxr, (y.1, f y.2), p2, hyr, by rw [hyx]⟩

def okIs {ε α : Type} [DecidableEq α] (x : Except ε α) (a : α) : Bool :=
  match x with
  | .ok b => decide (b = a)
  | _ => false

theorem eq_of_okIs {ε α : Type} [DecidableEq α] (x : Except ε α) (a : α)
    (h : okIs x a = true) : x = .ok a := by
  unfold okIs at h
  cases x with
  | error e => cases h
  | ok b => simp only [decide_eq_true_eq] at h; rw [h]

end Verif.C04
