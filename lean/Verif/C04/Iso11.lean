/-
C04 — the round trip as ONE variable map, general case, part 5: handle constraints, totality of
the table, and the assembly of `IsoVia`.
-/
import Verif.C04.Iso10

namespace Verif.C04
open Verif.Sem

theorem corrMapG_of_mem (m m2 : MRS)
    (hfun : ∀ v w w', (v, w) ∈ corrTableG m m2 → (v, w') ∈ corrTableG m m2 → w = w')
    (v w : Var) (h : (v, w) ∈ corrTableG m m2) : corrMapG m m2 v = w := by
  unfold corrMapG
  rw [dlookup_of_functional _ hfun v w h]; rfl

/-- membership in the handle constraints `strip` keeps. -/
theorem mem_strip_hcons (m : MRS) (hc : HCons) :
    hc ∈ (strip m).hcons ↔ hc ∈ m.hcons ∧ m.hcLast hc.hi = some hc ∧ hc.lo ∈ m.labels ∧
      (m.top = some hc.hi ∨ ∃ e ∈ m.rels, ∃ a ∈ e.args, a.2 = hc.hi) := by
  unfold strip
  simp only [List.mem_filter, Bool.and_eq_true, beq_iff_eq, decide_eq_true_eq, Bool.or_eq_true,
    List.any_eq_true, and_assoc]

namespace RTCtx
variable {m : MRS} {d : DMRS} {m2 : MRS} {reps : Reps} {topLbl : Option Var}
  {sc : List (Var × List Node)} {lbl : Node → Var} {leqs : List (Var × Var)}
  {idToIv : List (Int × Var)} {ns : List (Int × Role × Int)}
  {scs : List (Int × Role × String × Var)} {lo hi : Nat}

/-- a constrained handle that is an argument value is a hole argument. -/
theorem hi_is_hole (C : RTCtx m d m2 reps topLbl sc lbl leqs idToIv ns scs lo hi)
    (sp : InSpace m reps d) (hc : HCons) (hhc : hc ∈ m.hcons) (hlo : hc.lo ∈ m.labels)
    (i : Nat) (e : EP) (he : m.rels[i]? = some e) (a : Role × Var) (ha : a ∈ e.args)
    (hv : a.2 = hc.hi) :
    isHoleArg m e a = true ∧ selectsScope m a.2 = true ∧ ivToNid m a.2 = none := by
  have hem := List.mem_of_getElem? he
  have hsort : a.2.sort = HANDLE := by rw [hv]; exact sp.hiSort hc hhc
  have hniv : ivToNid m a.2 = none := by
    apply ivToNid_none_of
    intro e' he' hq' hiv'
    have hS := sp.hS
    unfold IVSorts at hS
    rw [List.all_eq_true] at hS
    have := hS e' he'
    rw [hq', hiv'] at this
    exact (sort_of_infix a.2.sort (by simpa using this)).1 hsort
  have hsel : selectsScope m a.2 = true := by
    unfold selectsScope
    rw [hv, sp.hcLast_of_mem hc hhc]
    simpa using hlo
  have hr0 : a.1 ≠ INTRINSIC_ROLE := by
    intro h0
    have hiv : e.iv = some a.2 := by
      unfold EP.iv
      exact dlookup_of_mem_nodup (keys_nodup_of_rolesOk m sp.hR e hem)
        (by rw [← h0]; exact ha)
    cases hq : e.isQuantifier with
    | false =>
      have hS := sp.hS
      unfold IVSorts at hS
      rw [List.all_eq_true] at hS
      have := hS e hem
      rw [hq, hiv] at this
      exact (sort_of_infix a.2.sort (by simpa using this)).1 hsort
    | true =>
      obtain ⟨l, hl, hs, hrl⟩ := C.rstr_link_of_quant sp.hQ i e he hq
      obtain ⟨_, p, _, _, ht, _, _, _⟩ := justified_ends m reps l (C.links_just l hl)
      obtain ⟨ej, v, c1, c2, c3, c4⟩ := sp.head l hl hrl i p hs ht e he
      rw [hiv] at c3
      simp only [Option.some.injEq] at c3
      obtain ⟨nn, hnn⟩ := ivToNid_isSome m v ej (List.mem_of_getElem? c1) c2 c4
      rw [← c3, hniv] at hnn
      cases hnn
  exact ⟨(isHoleArg_iff m e a).mpr ⟨hr0, hniv, by rw [hv]; exact sp.hiNotLabel hc hhc, Or.inl hsel⟩,
    hsel, hniv⟩

/-- every variable of `strip m` has a partner in the table. -/
theorem table_totalG (C : RTCtx m d m2 reps topLbl sc lbl leqs idToIv ns scs lo hi)
    (sp : InSpace m reps d) (chosen : List Var) (h2 : fromDmrs chosen d = .ok m2) (v : Var)
    (hv : v ∈ varsOf (strip m)) : ∃ w, (v, w) ∈ corrTableG m m2 := by
  have lblPartner : ∀ l, l ∈ m.labels → ∃ w, (l, w) ∈ corrTableG m m2 := by
    intro l hl
    obtain ⟨e, he, hel⟩ := (mem_labels m l).mp hl
    obtain ⟨j, hj⟩ := List.mem_iff_getElem?.mp he
    obtain ⟨_, e2, _, _, _, he2, _, _⟩ := C.at_pos j e hj
    exact ⟨e2.label, (mem_corrTableG m m2 _ _).mpr (Or.inr (Or.inr (Or.inl ⟨j, e, e2, hj, he2, hel, rfl⟩)))⟩
  have ofPair : ∀ x w, (IsIvPair m m2 x w ∨ IsLbPair m m2 x w ∨ IsHolePair m m2 x w) →
      ∃ w, (x, w) ∈ corrTableG m m2 := fun x w h => ⟨w, (mem_corrTableG m m2 x w).mpr (Or.inr h)⟩
  unfold varsOf at hv
  simp only [List.mem_append, Option.mem_toList, List.mem_flatMap, List.mem_cons, List.mem_map] at hv
  rcases hv with ((ht | hi) | ⟨es, hes, hve⟩) | ⟨hc, hhc, hvh⟩
  · exact ⟨_, (mem_corrTableG m m2 _ _).mpr (Or.inl (C.topPairG sp v ht).1)⟩
  · have hiv : (ivToNid m v).isSome = true := by
      have hsi : (strip m).index = (match m.index with
          | some v => if (ivToNid m v).isSome then some v else none
          | none => none) := rfl
      rw [hsi] at hi
      cases hmi : m.index with
      | none => rw [hmi] at hi; cases hi
      | some x =>
        rw [hmi] at hi
        simp only at hi
        by_cases hs : (ivToNid m x).isSome = true
        · rw [if_pos hs] at hi
          simp only [Option.some.injEq] at hi
          rw [← hi]; exact hs
        · rw [if_neg hs] at hi; cases hi
    obtain ⟨nn, hnn⟩ := Option.isSome_iff_exists.mp hiv
    obtain ⟨j, ej, c1, c2, c3, _⟩ := ivToNid_some m v nn hnn
    obtain ⟨ej2, iv2, b1, b2, _⟩ := C.iv2_facts j ej c1 c2 v c3
    exact ofPair v iv2 (Or.inl ⟨j, ej, ej2, c1, b1, c3, b2⟩)
  · obtain ⟨i, hi⟩ := List.mem_iff_getElem?.mp hes
    obtain ⟨e, he, rfl⟩ := strip_rel m i es hi
    obtain ⟨_, e2, _, _, _, he2, _, _⟩ := C.at_pos i e he
    rcases hve with hl | ⟨a, ha, hav⟩
    · exact ofPair v e2.label (Or.inr (Or.inl ⟨i, e, e2, he, he2, hl.symm, rfl⟩))
    · simp only [List.mem_filter] at ha
      obtain ⟨w, _, hp⟩ := C.arg_forwardG sp chosen h2 i e e2 he he2 a.1 a.2 ha.1 ha.2
      rw [← hav]; exact ofPair a.2 w hp
  · obtain ⟨k1, k2, k3, k4⟩ := (mem_strip_hcons m hc).mp hhc
    rcases hvh with rfl | hlo
    · rcases k4 with htop | ⟨e, he, a, ha, hah⟩
      · have hst : (strip m).top = some hc.hi := by
          have : (strip m).top = (match m.top with
              | some t => if selectsScope m t then some t else none
              | none => none) := rfl
          rw [this, htop]
          have hs : selectsScope m hc.hi = true := by
            unfold selectsScope; rw [k2]; simpa using k3
          simp [hs]
        exact ⟨_, (mem_corrTableG m m2 _ _).mpr (Or.inl (C.topPairG sp hc.hi hst).1)⟩
      · obtain ⟨i, hi⟩ := List.mem_iff_getElem?.mp he
        obtain ⟨_, e2, _, _, _, he2, _, _⟩ := C.at_pos i e hi
        obtain ⟨_, hsel, _⟩ := C.hi_is_hole sp hc k1 k3 i e hi a ha hah
        obtain ⟨w, _, hp⟩ := C.arg_forwardG sp chosen h2 i e e2 hi he2 a.1 a.2 ha
          (by unfold expressible; simp [hsel])
        rw [← hah]; exact ofPair a.2 w hp
    · rcases hlo with rfl | hf
      · exact lblPartner hc.lo k3
      · simp at hf

end RTCtx

end Verif.C04
